(* C20: Skip of one wire value (proto/binary Skip / SkipBytesType / SkipFixed32Type / SkipFixed64Type): "decoders report the exact number of
   bytes consumed or an error" — on complete, truncated and over-long inputs. The expectation comes from the reference
   varint decoder of ProtoWireRef (proved equal to the generated ConsumeVarint). *)
From Coq Require Import ZArith List Bool.
From DG Require Import CaseFormat ProtoWireRef.
Import ListNotations.
Local Open Scope Z_scope.

Definition blen (l : list Z) : Z := Z.of_nat (length l).

(* number of bytes a well-formed value of the wire type occupies at the head of bs, or None when it is cut short / malformed *)
Definition wire_value_len (wt : Z) (bs : list Z) : option Z :=
  if wt =? 0 then let '(_, n) := varint_dec bs in if n <? 0 then None else Some n
  else if wt =? 5 then if 4 <=? blen bs then Some 4 else None
  else if wt =? 1 then if 8 <=? blen bs then Some 8 else None
  else if wt =? 2 then
    let '(v, n) := varint_dec bs in
    if n <? 0 then None else if v <=? blen bs - n then Some (n + v) else None
  else None.

(* 2008. fields: wire type, bytes, error flag (0 ok), cursor after the call *)
Definition check_2008 (fs : list field) : verdict :=
  match fs with
  | [FZ wt; FB bs; FZ err; FZ rd] =>
    if negb (bytes_okb bs) then VSkip else
    match wire_value_len wt bs with
    | Some n => vand (expect 1 (err =? 0) [FZ n]) (expect 2 (rd =? n) [FZ n])
    | None => expect 3 (negb (err =? 0)) []
    end
  | _ => VBad 99 []
  end.

(* 2011. SkipAllElements / SkipAllElementsOf: fields: entry (0 SkipAllElements(num, packed), 1 SkipAllElementsOf(desc)),
   field number, packed, element wire type the entry point uses (0 for entry 0; from the ABSTRACT schema for entry 1),
   bytes, code (0 nil, 1 error, 3 panic), count, cursor after the call. Judged by ProtoSkipAll.skip_all_elements:
   exact count and exact number of bytes consumed, or an error. *)
From DG Require Import ProtoMsg ProtoSkipAll.
Definition check_2011 (fs : list field) : verdict :=
  match fs with
  | [FZ _; FZ num; FZ pk; FZ ewt; FB bs; FZ err; FZ cnt; FZ rd] =>
    if negb (bytes_okb bs) then VSkip else
    if err =? 3 then VBad 3 [] else
    match skip_all_elements num (negb (pk =? 0)) ewt bs with
    | Some (c, m) => vand (expect 1 (err =? 0) [FZ c; FZ m]) (vand (expect 2 (cnt =? c) [FZ c]) (expect 4 (rd =? m) [FZ m]))
    | None => expect 5 (negb (err =? 0)) []
    end
  | _ => VBad 99 []
  end.
