(* Correspondence checks for C19: WriteAnyWithDesc / ReadAnyWithDesc on generic Go values (model: ThriftAny,
   theorem C19_read_any_write_any). *)
From Coq Require Import ZArith List Bool.
From DG Require Import CaseFormat ProtoWireRef ThriftWire ThriftGeneric ThriftEdit ThriftEnvelope ThriftAny Check01b.
Import ListNotations.
Local Open Scope Z_scope.

(* canonical dump of a gval, same format as the harness (dumpGo19): the Go type of each scalar is part of it *)
Fixpoint gdump19 (byname : bool) (g : gval) : list Z :=
  match g with
  | GBool raw => [1; if raw =? 0 then 0 else 1]
  | GInt t z => (if t =? 0 then 2 else if t =? T_BYTE then (if z <? 0 then 20 else if z >? 127 then 21 else 20)
                 else if t =? T_I16 then 22 else if t =? T_I32 then 23 else 24) :: enc_int 8 z
  | GDouble b => 3 :: enc_int 8 b
  | GStr bin s => (if bin then 5 else 4) :: enc_int 4 (zlen s) ++ s
  | GList _ _ l => 6 :: enc_int 4 (zlen l) ++ flat_map (gdump19 byname) l
  | GStruct fs => dump_map (if byname then 5 else 4) (map (fun f => (dump_int (fst f), gdump19 byname (snd f))) fs)
  | GMap kt _ es => dump_map (if kt =? T_STRING then 1 else if is_int_type kt then 2 else 3)
                             (map (fun e => (gdump19 byname (fst e), gdump19 byname (snd e))) es)
  end.

(* dump with the right tag for BYTE scalars *)
Fixpoint gdump19' (u8 byname : bool) (g : gval) : list Z :=
  match g with
  | GInt t z => if t =? T_BYTE then (if u8 then 21 else 20) :: enc_int 8 z else gdump19 byname g
  | GList _ _ l => 6 :: enc_int 4 (zlen l) ++ flat_map (gdump19' u8 byname) l
  | GStruct fs => dump_map (if byname then 5 else 4) (map (fun f => (dump_int (fst f), gdump19' u8 byname (snd f))) fs)
  | GMap kt _ es => dump_map (if kt =? T_STRING then 1 else if is_int_type kt then 2 else 3)
                             (map (fun e => (gdump19' u8 byname (fst e), gdump19' u8 byname (snd e))) es)
  | _ => gdump19 byname g
  end.

(* ---- matching bytes against the encoding of a value whose struct fields / map entries may come in ANY order
   (Go map iteration), optionally WITHOUT the header of maps keyed by neither string nor integer (finding 1921) ---- *)
Inductive mitem := MVal (v : tval) | MBytes (b : list Z) | MSet (alts : list (list mitem)).

Fixpoint strip_prefix (p bs : list Z) : option (list Z) :=
  match p with
  | [] => Some bs
  | x :: p' => match bs with y :: bs' => if x =? y then strip_prefix p' bs' else None | [] => None end
  end.

Fixpoint pick {A} (l : list A) : list (A * list A) :=
  match l with [] => [] | x :: r => (x, r) :: map (fun p => (fst p, x :: snd p)) (pick r) end.

Definition bad_key (kt : Z) : bool := negb (kt =? T_STRING) && negb (is_int_type kt).

Definition expand (drop : bool) (v : tval) : list mitem :=
  match v with
  | VStruct fs => [MSet (map (fun f => [MBytes (type_of (snd f) :: enc_int 2 (fst f)); MVal (snd f)]) fs); MBytes [0]]
  | VList et es => MBytes (et :: enc_int 4 (zlen es)) :: map MVal es
  | VSet et es => MBytes (et :: enc_int 4 (zlen es)) :: map MVal es
  | VMap kt vt es => (if drop && bad_key kt then [] else [MBytes (kt :: vt :: enc_int 4 (zlen es))])
                     ++ [MSet (map (fun e => [MVal (fst e); MVal (snd e)]) es)]
  | _ => [MBytes (encode v)]
  end.

Fixpoint mrun (fuel : nat) (drop : bool) (todo : list mitem) (bs : list Z) : bool :=
  match fuel with
  | O => false
  | S f =>
    match todo with
    | [] => match bs with [] => true | _ => false end
    | MBytes b :: r => match strip_prefix b bs with Some bs' => mrun f drop r bs' | None => false end
    | MVal v :: r => mrun f drop (expand drop v ++ r) bs
    | MSet [] :: r => mrun f drop r bs
    | MSet alts :: r => existsb (fun p => mrun f drop (fst p ++ MSet (snd p) :: r) bs) (pick alts)
    end
  end.

Definition matches_unordered (drop : bool) (v : tval) (bs : list Z) : bool :=
  mrun (Z.to_nat (16 * zlen (encode v) + 64)) drop [MVal v] bs.

Fixpoint has_bad_map (v : tval) : bool :=
  match v with
  | VStruct fs => existsb (fun f => has_bad_map (snd f)) fs
  | VList _ es => existsb has_bad_map es
  | VSet _ es => existsb has_bad_map es
  | VMap kt _ es => bad_key kt || existsb (fun e => has_bad_map (fst e) || has_bad_map (snd e)) es
  | _ => false
  end.

(* a BYTE that goes through the BYTE case of WriteAnyWithDesc (keys of integer-keyed maps go through WriteInt) *)
Fixpoint has_byte (v : tval) : bool :=
  match v with
  | VByte _ => true
  | VStruct fs => existsb (fun f => has_byte (snd f)) fs
  | VList _ es => existsb has_byte es
  | VSet _ es => existsb has_byte es
  | VMap kt _ es => existsb (fun e => (negb (is_int_type kt) && has_byte (fst e)) || has_byte (snd e)) es
  | _ => false
  end.

(* verdict of one write: ok, or one of the known deviations, or bad *)
Definition judge_write (code : Z) (v : tval) (t : Z) (int8_in nocast : bool) (err : Z) (bs : list Z) : verdict :=
  if (err =? 0) && (match decode_all t bs with Some v1 => tval_eqb (canon v1) (canon v) | None => false end
                    || matches_unordered false v bs) then VOk
  else if int8_in && nocast && has_byte v && (err =? 1) then VKnown 1923
  else if has_bad_map v && (err =? 0) && matches_unordered true v bs then VKnown 1921
  else VBad code [FB (encode (canon v))].

(* 1920 *)
Definition check_1920 (fs : list field) : verdict :=
  match fs with
  | [FZ t; FB exp; FZ bits; FZ werr; FB b1; FZ rerr; FB dump; FZ w2err; FB b2] =>
    match decode_all t exp with
    | None => VSkip
    | Some v =>
      if negb (wf v) then VSkip else
      let cast := Z.testbit bits 0 in let u8 := Z.testbit bits 1 in let byname := Z.testbit bits 2 in
      let int8rep := Z.testbit bits 3 in let allbin := Z.testbit bits 4 in
      let expd := gdump19' u8 byname (read_any u8 allbin v) in
      (* read side first: it does not depend on any known deviation *)
      if negb ((rerr =? 0) && bytes_eqb dump expd) then VBad 4 [FB expd] else
      match judge_write 1 v t (int8rep && negb cast) (negb cast) werr b1 with
      | VOk => judge_write 5 v t (negb u8) (negb cast) w2err b2     (* the value that was read holds int8 unless byteAsUint8 *)
      | o => o
      end
    end
  | _ => VBad 99 []
  end.

(* decimal text of an integer *)
Fixpoint dec_digits (fuel : nat) (n : Z) (acc : list Z) : list Z :=
  match fuel with
  | O => acc
  | S f => let acc' := (48 + n mod 10) :: acc in if n <? 10 then acc' else dec_digits f (n / 10) acc'
  end.
Definition dec_text (n : Z) : list Z := if n <? 0 then 45 :: dec_digits 25 (- n) [] else dec_digits 25 n [].

(* 1921: WriteAnyWithDesc(STRING, int64 n, cast): the decimal text of n. Known deviation 1922: the empty string *)
Definition check_1921 (fs : list field) : verdict :=
  match fs with
  | [FZ n; FZ err; FB b] =>
    let e := encode (VString (dec_text n)) in
    if (err =? 0) && bytes_eqb b e then VOk
    else if (err =? 0) && bytes_eqb b [0; 0; 0; 0] then VKnown 1922
    else VBad 1 [FB e]
  | _ => VBad 99 []
  end.

(* 1922: WriteAnyWithDesc(integer descriptor, decimal text of n, cast): the text denotes n exactly (strconv.ParseInt), then the
   Go conversion to the field width. fields = type, n, form (string / []byte), err, bytes *)
Definition check_1922 (fs : list field) : verdict :=
  match fs with
  | [FZ t; FZ n; FZ form; FZ err; FB b] =>
    let x := if t =? T_BYTE then VByte (to_s 8 n) else if t =? T_I16 then VI16 (to_s 16 n)
             else if t =? T_I32 then VI32 (to_s 32 n) else VI64 n in
    if negb (in_sb 64 n) then VSkip else
    expect 1 ((err =? 0) && bytes_eqb b (encode x)) [FB (encode x)]
  | _ => VBad 99 []
  end.
