(* C04 at ALGORITHM level: SetByPath / UnsetByPath over BYTES, as thrift/generic/node.go performs them
   (search with the same chained-skip functions as GetByPath, then a three-slice splice into a fresh
   buffer, the container's 4-byte count patched in place).  Model only; the refinement to the AST-level
   spec (ThriftEdit.ast_set / ast_unset) is proved in proofs/ThriftEditBytesProofs.v.

   Go statement                                           here
   -------------------------------------------------------------------------------------------------
   Node.replace(o, n)        buf = self[:l0] ++ n ++ self[l0+o.l:]          replace
   Path.ToRaw(t)             field header / key bytes per path kind          to_raw
   Node.GetByPath            searchFieldId / searchIndex / search*Key        walk (ThriftGeneric.search1)
   errNotFoundLast(start,tt) absent LAST step: insertion address + kind      WNotFoundLast ct pos
   Node.setNotFound          header / key bytes, count + 1 at o.v - 4        set_not_found
   Node.SetByPath                                                            set_by_path
   Node.deleteChild          span of the victim [s, e), count - 1            delete_child
   Node.UnsetByPath                                                          unset_by_path            *)
From Coq Require Import ZArith List Bool.
From DG Require Import ProtoWireRef ThriftWire CaseFormat ThriftGeneric ThriftEdit.
Import ListNotations.
Local Open Scope Z_scope.

Definition bfirstn (n : Z) (l : list Z) : list Z := firstn (Z.to_nat n) l.
Definition bskipn (n : Z) (l : list Z) : list Z := skipn (Z.to_nat n) l.

(* Node.replace: the buffer is divided into [0, s) | [s, e) | [e, len) and the middle slice is exchanged *)
Definition replace (bs : list Z) (s e : Z) (nw : list Z) : list Z := bfirstn s bs ++ nw ++ bskipn e bs.

(* BinaryEncoding.EncodeInt32 into the 4 bytes at [pos] of the buffer (in place in the code) *)
Definition write_i32 (bs : list Z) (pos val : Z) : list Z := bfirstn pos bs ++ enc_int 4 val ++ bskipn (pos + 4) bs.

(* size := DecodeInt32(buf[pos:pos+4]); EncodeInt32(buf[pos:], size + d) *)
Definition patch_count (bs : list Z) (pos d : Z) : list Z :=
  write_i32 bs pos (dec_int (bfirstn 4 (bskipn pos bs)) + d).

(* Path.ToRaw(t): None = nil *)
Definition to_raw (s : pstep) (t : Z) : option (list Z) :=
  match s with
  | PField id => Some (t :: enc_int 2 id)
  | PStrKey b => Some (enc_int 4 (zlen b) ++ b)
  | PIntKey n =>
      if t =? T_BYTE then Some (enc_int 1 n) else if t =? T_I16 then Some (enc_int 2 n)
      else if t =? T_I32 then Some (enc_int 4 n) else if t =? T_I64 then Some (enc_int 8 n) else None
  | PBinKey b => Some b
  | PIndex _ => None
  end.

Fixpoint split_last (p : list pstep) : option (list pstep * pstep) :=
  match p with
  | [] => None
  | s :: p' => match split_last p' with None => Some ([], s) | Some (q, l) => Some (s :: q, l) end
  end.

(* ---------------- the walk of GetByPath as SetByPath uses it ---------------- *)
(* found: type and span [s, e) in the root buffer; the LAST step absent: kind of the container that misses the
   element and the address where the search functions leave [start]; an inner step absent; error *)
Inductive wres := WFound (t s e : Z) | WNotFoundLast (ct pos : Z) | WNotFound | WErr.

(* [start] of an unsuccessful search, relative to the container: searchFieldId keeps p.Read at entry (front of THIS
   struct), searchIndex returns p.Read after ReadListBegin (1 + 4 bytes), the key searches keep p.Read after
   ReadMapBegin (1 + 1 + 4 bytes): new elements go to the FRONT of the container *)
Definition nf_start (t : Z) : Z := if t =? T_STRUCT then 0 else if t =? T_MAP then 6 else 5.

Fixpoint walk (t : Z) (bs : list Z) (off : Z) (p : list pstep) : wres :=
  match p with
  | [] => match skip_go t bs with
          | Some r => WFound t off (off + (zlen bs - zlen r))
          | None => WErr
          end
  | s :: p' =>
    match search1 t s bs with
    | SFound t' o rest => walk t' rest (off + o) p'
    | SNotFound => match p' with [] => WNotFoundLast t (off + nf_start t) | _ => WNotFound end
    | SErr => WErr
    end
  end.

(* Node.setNotFound on the errNotFoundLast node (kind ct, address pos) with the last path step s and the new node
   (bytes xb, type xt): Some (buffer after the in-place count patch, bytes to splice in at pos) or None = error *)
Definition set_not_found (ct pos : Z) (s : pstep) (bs xb : list Z) (xt : Z) : option (list Z * list Z) :=
  if ct =? T_STRUCT then
    let key := match to_raw s xt with Some k => k | None => [] end in    (* append(buf, nil...) appends nothing *)
    Some (bs, key ++ xb)
  else if (ct =? T_LIST) || (ct =? T_SET) then
    Some (patch_count bs (pos - 4) 1, xb)
  else if ct =? T_MAP then
    let kt := nth (Z.to_nat (pos - 6)) bs 0 in                           (* first byte of the map header *)
    match to_raw s kt with
    | None => None                                                      (* checked BEFORE the size is touched *)
    | Some key => Some (patch_count bs (pos - 4) 1, key ++ xb)
    end
  else None.

(* Node.SetByPath(sub, path...): Some (new buffer, exist) or None = error, buffer unchanged.
   With an empty path the node BECOMES sub (its type too): the caller has to track the type, see bytes_step. *)
Definition set_by_path (t : Z) (bs : list Z) (p : list pstep) (xb : list Z) (xt : Z) : option (list Z * bool) :=
  match split_last p with
  | None => Some (xb, true)
  | Some (_, ls) =>
    match walk t bs 0 p with
    | WFound t' s e => if t' =? xt then Some (replace bs s e xb, true) else None          (* replace: o.t != n.t *)
    | WNotFoundLast ct pos =>
      match set_not_found ct pos ls bs xb xt with
      | Some (bs', nb) => Some (replace bs' pos pos nb, false)                            (* o.t = n.t; o.l = 0 *)
      | None => None
      end
    | WNotFound => None
    | WErr => None
    end
  end.

(* ---------------- Node.deleteChild on the bytes of the parent container ---------------- *)
(* found: optional count patch (position, new value) relative to the parent, span [s, e) of the victim relative to the
   parent (field header / key included); not found; error (the list case patches the count BEFORE it walks, so an
   error may leave a patch behind); a parent of scalar type falls through the switch: empty node at offset 0 *)
Inductive dcres := DcFound (patch : option (Z * Z)) (s e : Z) | DcNotFound | DcErr (patch : option (Z * Z)) | DcNone.

(* the kind check of deleteChild's MAP case (repair 384585a of finding 408): a string key step needs a STRING-keyed map, an
   integer key step an integer-keyed one, a raw key fits every map, any other step is an error; [fx = false] is the code
   before the repair (no check: Path.ToRaw's bytes are compared whatever the step's kind) *)
Definition key_kind_ok (s : pstep) (kt : Z) : bool :=
  match s with
  | PStrKey _ => kt =? T_STRING
  | PIntKey _ => is_int_type kt
  | PBinKey _ => true
  | _ => false
  end.

Definition map_key_raw (fx : bool) (s : pstep) (kt : Z) : option (list Z) :=
  if fx && negb (key_kind_ok s kt) then None else to_raw s kt.

Definition delete_child (fx : bool) (t : Z) (bs : list Z) (s : pstep) : dcres :=
  if t =? T_STRUCT then
    match s with
    | PField id =>
      match search_field (S (length bs)) id bs 0 with
      | SFound ft o rest =>
        match skip_go ft rest with
        | Some r => DcFound None (o - 3) (o + (zlen rest - zlen r))
        | None => DcErr None
        end
      | SNotFound => DcNotFound
      | SErr => DcErr None
      end
    | _ => DcErr None
    end
  else if (t =? T_LIST) || (t =? T_SET) then
    match s with
    | PIndex i =>
      match bs with
      | et :: r =>
        match skip_count r with
        | None => DcErr None
        | Some (sz, r2) =>
          if i <? 0 then DcErr None else if i >=? sz then DcNotFound else
          let patch := Some (1, sz - 1) in                               (* ModifyI32(p.Read-4, size-1) *)
          let d := fixed_size et in
          if d >? 0 then DcFound patch (5 + d * i) (5 + d * i + d)
          else match search_nth (Z.to_nat i) et r2 5 with
               | SFound _ o rest =>
                 match skip_go et rest with
                 | Some r3 => DcFound patch o (o + (zlen rest - zlen r3))
                 | None => DcErr patch
                 end
               | _ => DcErr patch
               end
        end
      | [] => DcErr None
      end
    | _ => DcErr None
    end
  else if t =? T_MAP then
    match bs with
    | kt :: vt :: r =>
      match skip_count r with
      | None => DcErr None
      | Some (sz, _) =>
        match map_key_raw fx s kt with
        | None => DcErr None
        | Some raw =>
          match search_map (PBinKey raw) bs with                         (* the raw-key loop of searchBinKey *)
          | SFound _ o rest =>
            match skip_go vt rest with
            | Some r3 => DcFound (Some (2, sz - 1)) (o - zlen raw) (o + (zlen rest - zlen r3))
            | None => DcErr None
            end
          | SNotFound => DcNotFound
          | SErr => DcErr None
          end
        end
      end
    | _ => DcErr None
    end
  else DcNone.

Definition apply_patch (bs : list Z) (base : Z) (patch : option (Z * Z)) : list Z :=
  match patch with Some (pos, val) => write_i32 bs (base + pos) val | None => bs end.

(* Node.UnsetByPath: ok with the new buffer / the not-found error of deleteChild (buffer unchanged) / another error
   with the buffer as the failed call leaves it *)
Inductive ubres := UbOk (bs : list Z) | UbNotFound | UbErr (bs : list Z).

Definition unset_by_path (fx : bool) (t : Z) (bs : list Z) (p : list pstep) : ubres :=
  match split_last p with
  | None => UbOk []                                                       (* *self = Node{} *)
  | Some (pre, ls) =>
    (* GetByPath(path[:l-1]...): an empty path returns the node itself without walking it *)
    let par := match pre with [] => GFound t 0 (zlen bs) | _ => get_by_path t bs 0 pre end in
    match par with
    | GNotFound => UbOk bs                                                (* IsErrNotFound: return nil *)
    | GErr => UbErr bs
    | GFound pt ps pe =>
      match delete_child fx pt (bfirstn (pe - ps) (bskipn ps bs)) ls with
      | DcErr patch => UbErr (apply_patch bs ps patch)
      | DcNotFound => UbNotFound
      | DcNone => UbOk (replace bs ps ps [])
      | DcFound patch s e => UbOk (replace (apply_patch bs ps patch) (ps + s) (ps + e) [])
      end
    end
  end.

(* buffer after the call, whatever its outcome *)
Definition ub_bytes (bs : list Z) (r : ubres) : list Z :=
  match r with UbOk b => b | UbNotFound => bs | UbErr b => b end.

(* ---------------- histories at byte level: state = (type, buffer) of the node ---------------- *)
Definition bytes_step (fx : bool) (st : Z * list Z) (o : eop) : Z * list Z :=
  let (t, bs) := st in
  match o with
  | OSet [] x => (type_of x, encode x)
  | OSet p x => match set_by_path t bs p (encode x) (type_of x) with Some (bs', _) => (t, bs') | None => (t, bs) end
  | OUnset [] => (0, [])
  | OUnset p => (t, ub_bytes bs (unset_by_path fx t bs p))
  end.

Fixpoint bytes_states (fx : bool) (st : Z * list Z) (ops : list eop) : list (Z * list Z) :=
  match ops with
  | [] => []
  | o :: r => let st' := bytes_step fx st o in st' :: bytes_states fx st' r
  end.

(* ---------------- the domain of the refinement theorems (computable, so that the checker can tell) ---------------- *)
(* a raw (binary) key that is INSERTED or UNSET must be a byte string that the proved decoder accepts completely as a key of
   the map's key type (key_of_step walks it with bounds checks first); by ThriftCanonProofs.decode_canonical it then IS the
   encoding of the key it denotes.  The code splices / compares the caller's bytes as they are.
   [raw_key_judge] is a separate function of the decoding RESULT so that no proof computes with key_of_step on a raw key. *)
Definition is_some {A} (o : option A) : bool := match o with Some _ => true | None => false end.
Definition raw_key_judge (ko : option tval) (b : list Z) : bool := bytes_okb b && is_some ko.

Definition raw_key_ok (s : pstep) (v : tval) : bool :=
  match s, v with
  | PBinKey b, VMap kt _ _ => raw_key_judge (key_of_step kt s) b
  | _, _ => true
  end.

Fixpoint set_dom (p : list pstep) (v : tval) : bool :=
  match p with
  | [] => true
  | s :: p' =>
    match lookup1 v s with
    | LFound c _ => set_dom p' c
    | LNotFound => match p' with [] => raw_key_ok s v | _ => true end
    | LErr => true
    end
  end.

(* the last step of an unset on a map: a raw key must be the encoding of a key of the map's key type.  BEFORE the repair of
   finding 408 deleteChild compared the raw bytes Path.ToRaw gives with the raw key bytes whatever the step's kind (a string key
   step on an integer-keyed map, a field id step): such last steps are outside the theorems for [fx = false] *)
Definition unset_last_ok (fx : bool) (s : pstep) (v : tval) : bool :=
  match s, v with
  | PStrKey _, VMap kt _ _ => fx || (kt =? T_STRING)
  | PField _, VMap _ _ _ => fx
  | PBinKey _, VMap _ _ _ => raw_key_ok s v
  | _, _ => true
  end.

Fixpoint unset_dom (fx : bool) (p : list pstep) (v : tval) : bool :=
  match p with
  | [] => false
  | [s] => unset_last_ok fx s v
  | s :: p' => match lookup1 v s with LFound c _ => unset_dom fx p' c | _ => true end
  end.

Definition is_nil {A} (l : list A) : bool := match l with [] => true | _ => false end.

Definition op_dom (fx : bool) (v : tval) (o : eop) : bool :=
  (depth v <=? max_skip_depth)%nat &&
  match o with
  | OSet p x => negb (is_nil p) && wf x && set_compat p x v && set_dom p v
  | OUnset p => unset_dom fx p v
  end.

Fixpoint history_dom (fx : bool) (v : tval) (ops : list eop) : bool :=
  match ops with
  | [] => true
  | o :: r => op_dom fx v o && history_dom fx (ast_step true v o) r
  end.

(* ================= Node.ReplaceByPath(f, path...) ================= *)
(* the callback of a ReplaceByPath, as far as the result depends on it: a node built without looking at the argument, the
   argument itself, an error node *)
Inductive callback := CbConst (xt : Z) (xb : list Z) | CbId | CbErr.

(* new buffer, or an error with the 'exist' flag (the buffer is untouched on every error) *)
Inductive rres := ROk (bs : list Z) | RErr (exist : bool).

(* as coded: v := GetByPath(path); error -> (false, v); sub := f(v); error node -> (true, sub); replace(v, sub)
   (o.t != n.t -> (true, type mismatch)).  The path is not empty (an empty one replaces the node itself by f(self)). *)
Definition replace_by_path (t : Z) (bs : list Z) (p : list pstep) (cb : callback) : rres :=
  match walk t bs 0 p with
  | WFound t' s e =>
    match cb with
    | CbErr => RErr true
    | CbId => ROk (replace bs s e (bfirstn (e - s) (bskipn s bs)))
    | CbConst xt xb => if t' =? xt then ROk (replace bs s e xb) else RErr true
    end
  | _ => RErr false
  end.

(* the AST-level meaning: an existing element is set to what the callback makes of it; anything else is an error that
   leaves the value unchanged *)
Inductive acallback := ACConst (x : tval) | ACId | ACErr.
Definition ast_replace (p : list pstep) (cb : acallback) (v : tval) : option tval * bool :=   (* new value or error, exist *)
  match lookup v 0 p with
  | LFound sub _ =>
    match cb with
    | ACErr => (None, true)
    | ACId => (match ast_set true p sub v with Some (v', _) => Some v' | None => None end, true)
    | ACConst x => (match ast_set true p x v with Some (v', _) => Some v' | None => None end, true)
    end
  | _ => (None, false)
  end.
Definition cb_bytes (cb : acallback) : callback :=
  match cb with ACConst x => CbConst (type_of x) (encode x) | ACId => CbId | ACErr => CbErr end.
Definition rres_of (r : option tval * bool) : rres :=
  match r with (Some v', _) => ROk (encode v') | (None, ex) => RErr ex end.
