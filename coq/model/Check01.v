(* Correspondence checks for C01 (Thrift generic reads). The oracle is the decoder proved in
   ThriftWireProofs (decode_encode) + the AST-level lookup; the byte-level algorithm model
   (get_by_path) is evaluated on the same case and must agree with both. *)
From Coq Require Import ZArith List Bool.
From DG Require Import CaseFormat ProtoWireRef ThriftWire ThriftGeneric.
Import ListNotations.
Local Open Scope Z_scope.

(* path parser: n steps, each (kind, arg[, name id]) *)
Fixpoint parse_steps (n : nat) (fs : list field) : option (list pstep * list field) :=
  match n with
  | O => Some ([], fs)
  | S n' =>
    match fs with
    | FZ 1 :: FZ id :: r => match parse_steps n' r with Some (p, r') => Some (PField id :: p, r') | None => None end
    | FZ 2 :: FZ i :: r => match parse_steps n' r with Some (p, r') => Some (PIndex i :: p, r') | None => None end
    | FZ 3 :: FB s :: r => match parse_steps n' r with Some (p, r') => Some (PStrKey s :: p, r') | None => None end
    | FZ 4 :: FZ k :: r => match parse_steps n' r with Some (p, r') => Some (PIntKey k :: p, r') | None => None end
    | FZ 5 :: FB b :: r => match parse_steps n' r with Some (p, r') => Some (PBinKey b :: p, r') | None => None end
    | FZ 6 :: FB _ :: FZ id :: r => match parse_steps n' r with Some (p, r') => Some (PField id :: p, r') | None => None end
    | _ => None
    end
  end.

Definition parse_path (fs : list field) : option (list pstep * list field) :=
  match fs with
  | FZ n :: r => if (n <? 0) || (n >? 1000) then None else parse_steps (Z.to_nat n) r
  | _ => None
  end.

(* expected observation (status, type, start, end) from the spec *)
Definition obs_of_lres (r : lres) : list field :=
  match r with
  | LFound sub off => [FZ 0; FZ (type_of sub); FZ off; FZ (off + zlen (encode sub))]
  | LNotFound => [FZ 1]
  | LErr => [FZ 2]
  end.
Definition obs_of_gres (r : gres) : list field :=
  match r with
  | GFound t s e => [FZ 0; FZ t; FZ s; FZ e]
  | GNotFound => [FZ 1]
  | GErr => [FZ 2]
  end.

(* Found: exact type and span. NotFound (an absent element of a container the path fits): the
   not-found error; the single-step Index() API reports an out-of-range index as another error
   (accepted: still an error result). Err (path does not fit the shape): any error result
   (status 1 or 2) — never a success (0), never a panic (3). *)
Definition obs_match (api : Z) (declared : Z) (last_is_index : bool) (exp : list field) (st ty s e : Z) : bool :=
  match exp with
  | [FZ 0; FZ t; FZ a; FZ b] => (st =? 0) && (ty =? t) && (s =? a) && (e =? b)
  | [FZ 1] => (st =? 1) || (((api =? 4) || (api =? 5)) && last_is_index && (st =? 2))
              || (((api =? 2) || (api =? 3) || (api =? 5)) && (declared =? 0) && (st =? 2))   (* typed access, field not in the descriptor *)
  | [FZ 2] => (st =? 1) || (st =? 2)
  | _ => false
  end.

Definition last_index (p : list pstep) : bool :=
  match rev p with PIndex _ :: _ => true | _ => false end.

(* 101: fields = root type, bytes, path, api, declared (all field steps are in the IDL), status, type, start, end
   api 1 = Node.GetByPath, 2 = Value.GetByPath by ids, 3 = Value.GetByPath by names, 4 = single-step API on the parent node,
   5 = single-step API on the parent VALUE (typed) *)
Definition check_101 (fs : list field) : verdict :=
  match fs with
  | FZ t :: FB bs :: rest =>
    match parse_path rest with
    | Some (p, [FZ api; FZ declared; FZ st; FZ ty; FZ s; FZ e]) =>
      match decode_all t bs with
      | None => VSkip
      | Some v =>
        if negb (wf v) then VSkip else
        let spec := obs_of_lres (lookup v 0 p) in
        let alg := obs_of_gres (get_by_path t bs 0 p) in
        if negb (list_eqb field_eqb spec alg) then VBad 50 (spec ++ FZ (-1) :: alg)   (* model-internal disagreement *)
        else expect 1 (obs_match api declared (last_index p) spec st ty s e) spec
      end
    | _ => VBad 99 []
    end
  | _ => VBad 99 []
  end.

(* 102: children spans. fields = type, bytes, status, n, (type, start, end)* *)
Fixpoint parse_triples (fs : list field) : option (list (Z * Z * Z)) :=
  match fs with
  | [] => Some []
  | FZ a :: FZ b :: FZ c :: r => match parse_triples r with Some l => Some ((a, b, c) :: l) | None => None end
  | _ => None
  end.

Definition triple_eqb (x y : Z * Z * Z) : bool :=
  let '(a, b, c) := x in let '(a', b', c') := y in (a =? a') && (b =? b') && (c =? c').

Definition children_spans (v : tval) : list (Z * Z * Z) :=
  match v with
  | VStruct fs => map (fun q => let '(_, t, s, e) := q in (t, s, e)) (spans_fields fs 0)
  | VList _ es => spans_elems es 5
  | VSet _ es => spans_elems es 5
  | VMap _ _ es => map (fun q => let '(_, t, s, e) := q in (t, s, e)) (spans_pairs es 6)
  | _ => []
  end.

Definition flat_triples (l : list (Z * Z * Z)) : list field :=
  flat_map (fun q => let '(a, b, c) := q in [FZ a; FZ b; FZ c]) l.

Definition check_102 (fs : list field) : verdict :=
  match fs with
  | FZ t :: FB bs :: FZ st :: FZ n :: rest =>
    match decode_all t bs, parse_triples rest with
    | Some v, Some got =>
      if negb (wf v) then VSkip else
      let exp := children_spans v in
      expect 1 ((st =? 0) && (n =? zlen exp) && list_eqb triple_eqb exp got) (flat_triples exp)
    | None, _ => VSkip
    | _, None => VBad 99 []
    end
  | _ => VBad 99 []
  end.
