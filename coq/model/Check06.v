(* Correspondence checks for C06 (decoders survive arbitrary bytes): the implementation, run on malformed
   inputs, must agree with the explicit-cursor machines of Robust.v on ok/err and on the consumed length.
   The machines decode the bytes themselves; results OverRead / OutOfFuel are excluded by the theorems of
   props/Properties_C06.v, so seeing one here is reported as a model failure (codes 90..). *)
From Coq Require Import ZArith List Bool.
From DG Require Import Robust.
From DG Require Import GoSem ProtoWireRef ThriftWire ThriftEnvelope Gen_protowire Gen_protobinary CaseFormat.
Import ListNotations.
Local Open Scope Z_scope.

(* 601: thrift SkipGo.  fields: declared type, bytes, err (0 ok / 1 error / 2 panic), cursor after the call *)
Definition check_601 (fs : list field) : verdict :=
  match fs with
  | [FZ t; FB bs; FZ err; FZ n] =>
    match skip_go_m t bs with
    | Ok s =>
      vand (expect 1 ((err =? 0) && (n =? cur s)) [FZ 0; FZ (cur s)])
           (* the list-based model of C19 (skip exact on well-formed values) must say the same *)
           (match skip_go t bs with
            | Some r => expect 9 (zlen bs - zlen r =? cur s) [FZ (zlen bs - zlen r)]
            | None => VBad 9 []
            end)
    | Er _ _ =>
      vand (expect 2 (err =? 1) [FZ 1])
           (match skip_go t bs with None => VOk | Some _ => VBad 9 [] end)
    | _ => VBad 90 []
    end
  | _ => VBad 99 []
  end.

(* 602: thrift SkipNative (the native skipper has its own acceptance: element types of empty containers,
   its own stack bound) — it must never claim success on input SkipGo's algorithm rejects while leaving the
   cursor where it was, and its cursor must stay inside the buffer. *)
Definition check_602 (fs : list field) : verdict :=
  match fs with
  | [FZ t; FB bs; FZ err; FZ n] =>
    if negb ((0 <=? n) && (n <=? zlen bs)) then VBad 4 [] else
    if err =? 2 then VBad 5 [] else
    match skip_go_m t bs with
    | Ok s =>
      if (err =? 0) && (n =? cur s) then VOk
      else if err =? 1 then VDrift 1            (* native stricter than Go *)
      else VBad 1 [FZ 0; FZ (cur s)]
    | Er _ _ =>
      if err =? 1 then VOk
      else if n =? 0 then VBad 3 [FZ 1]          (* nil error, nothing skipped: the value was NOT skipped *)
      else VDrift 2                              (* native more lenient than Go *)
    | _ => VBad 90 []
    end
  | _ => VBad 99 []
  end.

(* 603: UnwrapBinaryMessage.  fields: bytes, err, body *)
Definition check_603 (fs : list field) : verdict :=
  match fs with
  | [FB bs; FZ err; FB body] =>
    match unwrap_m bs with
    | Ok s =>
      vand (expect 1 (err =? 0) [FZ 0])
           (match unwrap bs with
            | Some (_, _, _, _, b') =>
              vand (expect 2 (bytes_eqb body b') [FB b'])
                   (* the body is the part of the input between the machine's cursor and the footer byte *)
                   (expect 3 ((zlen b' =? 0) || (zlen bs - 1 - zlen b' =? cur s)) [FZ (cur s)])
            | None => VBad 9 []
            end)
    | Er _ _ =>
      vand (expect 4 (err =? 1) [FZ 1])
           (match unwrap bs with None => VOk | Some _ => VBad 9 [] end)
    | _ => VBad 90 []
    end
  | _ => VBad 99 []
  end.

Definition negb_eqb (a : bool) (z : Z) : bool := if a then z =? 1 else z =? 0.

(* 604: protowire Consume* and BinaryProtocol.ConsumeTag on arbitrary bytes, against the GENERATED definitions
   and the cursor machine.  fields: bytes, v, n, fixed32, n32, fixed64, n64, payload, nb, all, tag num, tag type, tag n, tag err, cursor *)
Definition check_604 (fs : list field) : verdict :=
  match fs with
  | [FB bs; FZ v; FZ n; FZ f32; FZ n32; FZ f64; FZ n64; FB pl; FZ nb; FZ all; FZ tnum; FZ ttyp; FZ tn; FZ terr; FZ tcur] =>
    let '(gv, gn) := ConsumeVarint bs in
    let '(g32, gn32) := ConsumeFixed32 bs in
    let '(g64, gn64) := ConsumeFixed64 bs in
    let '(gpl, gnb, gall) := ConsumeBytes bs in
    let '(gnum, gtyp, gtn, gterr, _, gcur) := BinaryProtocol_ConsumeTag bs 0 in
    vand (expect 1 ((gv =? v) && (gn =? n)) [FZ gv; FZ gn])
   (vand (expect 2 (((1 <=? n) && (n <=? 10) && (n <=? zlen bs)) || (n =? -1) || (n =? -3)) [])
   (vand (match cvarint bs st0 with
          | Robust.VOk mv mn _ => expect 3 ((mv =? v) && (mn =? n)) [FZ mv; FZ mn]
          | VErr c _ => expect 3 ((n =? c) && (v =? 0)) [FZ 0; FZ c]
          | VOver _ => VBad 90 []
          end)
   (vand (expect 4 ((g32 =? f32) && (gn32 =? n32) && (g64 =? f64) && (gn64 =? n64)) [FZ g32; FZ gn32; FZ g64; FZ gn64])
   (vand (expect 5 ((gnb =? nb) && (gall =? all) && bytes_eqb gpl pl && (all <=? zlen bs)) [FB gpl; FZ gnb; FZ gall])
   (vand (expect 6 ((gnum =? tnum) && (gtyp =? ttyp) && (gtn =? tn) && negb_eqb (negb (gterr =? 0)) terr && (gcur =? tcur)) [FZ gnum; FZ gtyp; FZ gtn; FZ gterr; FZ gcur])
         (match ptag bs st0 (fun _ _ s => Ok s) with
          | Ok s => expect 7 ((terr =? 0) && (tcur =? cur s)) [FZ 0; FZ (cur s)]
          | Er _ s => expect 7 ((terr =? 1) && (tcur =? cur s)) [FZ 1; FZ (cur s)]
          | _ => VBad 90 []
          end))))))
  | _ => VBad 99 []
  end.

(* what the code as written does on this input (quirk model of finding 603) *)
Definition coded_outcome (o : out) : Z * Z :=
  match o with Ok s => (0, cur s) | Er _ s => (1, cur s) | Panic s => (2, cur s) | _ => (-1, -1) end.

(* 605: proto/binary Skip(wireType).  fields: wire type, bytes, outcome (0 ok / 1 err / 2 panic), cursor *)
Definition check_605 (fs : list field) : verdict :=
  match fs with
  | [FZ wt; FB bs; FZ oc; FZ n] =>
    let agrees (o : out) : bool :=
      match o with
      | Ok s => (oc =? 0) && (n =? cur s)
      | Er _ _ => oc =? 1
      | _ => false
      end in
    match pskip_m false wt bs with
    | OverRead _ | OutOfFuel | Panic _ => VBad 90 []
    | o =>
      if agrees o then VOk
      else
        (* deviates from the repaired algorithm: exactly as SkipBytesType's unchecked `int(v)+n` / next() does? *)
        let '(c, cn) := coded_outcome (pskip_m true wt bs) in
        if (wt =? 2) && (oc =? c) && ((oc =? 1) || (n =? cn)) then VKnown 603
        else VBad 1 [FZ (fst (coded_outcome o)); FZ (snd (coded_outcome o))]
    end
  | _ => VBad 99 []
  end.

(* 606: thrift ReadAny.  fields: declared type, bytes, err, cursor *)
Definition check_606 (fs : list field) : verdict :=
  match fs with
  | [FZ t; FB bs; FZ err; FZ n] =>
    match read_any_coded t bs with
    | Ok s => expect 1 ((err =? 0) && (n =? cur s)) [FZ 0; FZ (cur s)]
    | Er _ _ => expect 2 (err =? 1) [FZ 1]
    | _ => VBad 90 []
    end
  | _ => VBad 99 []
  end.

(* 607: conv/p2j on a message type without declared fields = the tag/skip loop.  fields: bytes, outcome *)
Definition check_607 (fs : list field) : verdict :=
  match fs with
  | [FB bs; FZ oc] =>
    match pfields_m false bs with
    | OverRead _ | OutOfFuel | Panic _ => VBad 90 []
    | o =>
      let want := match o with Ok _ => 0 | _ => 1 end in
      if oc =? want then VOk
      else
        let '(c, _) := coded_outcome (pfields_m true bs) in
        if oc =? c then VKnown 603 else VBad 1 [FZ want]
    end
  | _ => VBad 99 []
  end.
