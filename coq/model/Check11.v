(* Correspondence checks for C11 (cutting / MarshalTo, Thrift). *)
From Coq Require Import ZArith List Bool.
From DG Require Import CaseFormat ProtoWireRef ThriftWire ThriftEdit ThriftEnvelope ThriftCut.
Import ListNotations.
Local Open Scope Z_scope.

(* type := 0 c | 1 idx | 2 elem | 3 elem | 4 key elem *)
Fixpoint parse_ty (fuel : nat) (fs : list field) : option (ty * list field) :=
  match fuel with
  | O => None
  | S f =>
    match fs with
    | FZ 0 :: FZ c :: r => Some (TScalar c, r)
    | FZ 1 :: FZ i :: r => Some (TStruct i, r)
    | FZ 2 :: r => match parse_ty f r with Some (e, r') => Some (TList e, r') | None => None end
    | FZ 3 :: r => match parse_ty f r with Some (e, r') => Some (TSet e, r') | None => None end
    | FZ 4 :: r => match parse_ty f r with
                   | Some (k, r') => match parse_ty f r' with Some (e, r'') => Some (TMap k e, r'') | None => None end
                   | None => None
                   end
    | _ => None
    end
  end.

Fixpoint parse_flds (n : nat) (fs : list field) : option (list fdesc * list field) :=
  match n with
  | O => Some ([], fs)
  | S n' =>
    match fs with
    | FZ id :: FZ req :: r =>
      match parse_ty (S (length r)) r with
      | Some (t, r') => match parse_flds n' r' with Some (l, r'') => Some ((id, req, t) :: l, r'') | None => None end
      | None => None
      end
    | _ => None
    end
  end.

Fixpoint parse_structs (n : nat) (fs : list field) : option (defs * list field) :=
  match n with
  | O => Some ([], fs)
  | S n' =>
    match fs with
    | FZ nf :: r =>
      if (nf <? 0) || (nf >? 10000) then None else
      match parse_flds (Z.to_nat nf) r with
      | Some (l, r') => match parse_structs n' r' with Some (d, r'') => Some (l :: d, r'') | None => None end
      | None => None
      end
    | _ => None
    end
  end.

Definition parse_defs (fs : list field) : option (defs * list field) :=
  match fs with
  | FZ n :: r => if (n <? 0) || (n >? 10000) then None else parse_structs (Z.to_nat n) r
  | _ => None
  end.

Definition opts_of (bits : Z) : cut_opts :=
  {| o_disallow_unknown := Z.testbit bits 0; o_not_check_req := Z.testbit bits 1; o_write_default := Z.testbit bits 2;
     o_opt_bitmap := Z.testbit bits 4 |}.

(* what the caller of MarshalTo observes: error class and output bytes (nil on error) *)
Definition observe_v (r : cres tval) : Z * list Z := match r with COk v => (0, encode v) | CErr c => (c, []) end.
Definition observe_b (r : cres (list Z * list Z)) : Z * list Z := match r with COk (out, _) => (0, out) | CErr c => (c, []) end.
Definition obs_eqb (a b : Z * list Z) : bool := (fst a =? fst b) && bytes_eqb (snd a) (snd b).
(* error class 4 of the model = any error that is not one of the three classes the property names *)
Definition obs_match (model impl : Z * list Z) : bool :=
  if fst model =? 4 then negb (fst impl =? 0) && negb (fst impl =? 1) && negb (fst impl =? 2) && negb (fst impl =? 3) && bytes_eqb (snd impl) []
  else obs_eqb model impl.

(* 1101: defs, from idx, to idx, option bits (0 DisallowUnknow, 1 NotCheckRequireNess, 2 WriteDefault,
   3 both descriptors come from one parse, 4 parsed with SetOptionalBitmap), input bytes, err class, output *)
Definition check_1101 (fs : list field) : verdict :=
  match parse_defs fs with
  | Some (d, [FZ a; FZ b; FZ bits; FB bs; FZ err; FB out]) =>
    match decode_all T_STRUCT bs with
    | None => VSkip
    | Some v =>
      let fuel := S (length bs) in
      if negb (wf v && conf d fuel (TStruct a) v && (depth v <=? 1000)%nat) then VSkip else
      let o := opts_of bits in
      let pe := pe_parse (Z.testbit bits 3) in
      let impl := (err, out) in
      let spec := observe_v (project d o pe fuel (TStruct a) (TStruct b) v) in
      let alg := observe_b (cut d o pe false fuel (TStruct a) (TStruct b) bs) in
      if negb (obs_eqb spec alg) then VBad 98 [FZ (fst alg); FB (snd alg)]   (* excluded by cut_refines_project *)
      else if obs_match spec impl then VOk
      else
        let q := observe_b (cut d o pe true fuel (TStruct a) (TStruct b) bs) in
        if negb (obs_eqb q alg) && obs_match q impl then VKnown 1101
        else if obs_match (observe_v (project d o pe_none fuel (TStruct a) (TStruct b) v)) impl then VDrift 2
        else VBad 1 [FZ (fst spec); FB (snd spec)]
    end
  | _ => VBad 99 []
  end.
