(* Correspondence checks for C11 (cutting / MarshalTo, Thrift). *)
From Coq Require Import ZArith List Bool.
From DG Require Import CaseFormat ProtoWireRef ThriftWire ThriftEdit ThriftEnvelope ThriftCut.
Import ListNotations.
Local Open Scope Z_scope.

(* type := 0 c | 1 idx | 2 elem | 3 elem | 4 key elem *)
Fixpoint parse_ty (fuel : nat) (fs : list field) : option (ty * list field) :=
  match fuel with
  | O => None
  | S f =>
    match fs with
    | FZ 0 :: FZ c :: r => Some (TScalar c, r)
    | FZ 1 :: FZ i :: r => Some (TStruct i, r)
    | FZ 2 :: r => match parse_ty f r with Some (e, r') => Some (TList e, r') | None => None end
    | FZ 3 :: r => match parse_ty f r with Some (e, r') => Some (TSet e, r') | None => None end
    | FZ 4 :: r => match parse_ty f r with
                   | Some (k, r') => match parse_ty f r' with Some (e, r'') => Some (TMap k e, r'') | None => None end
                   | None => None
                   end
    | _ => None
    end
  end.

Fixpoint parse_flds (n : nat) (fs : list field) : option (list fdesc * list field) :=
  match n with
  | O => Some ([], fs)
  | S n' =>
    match fs with
    | FZ id :: FZ req :: r =>
      match parse_ty (S (length r)) r with
      | Some (t, r') => match parse_flds n' r' with Some (l, r'') => Some ((id, req, t) :: l, r'') | None => None end
      | None => None
      end
    | _ => None
    end
  end.

Fixpoint parse_structs (n : nat) (fs : list field) : option (defs * list field) :=
  match n with
  | O => Some ([], fs)
  | S n' =>
    match fs with
    | FZ nf :: r =>
      if (nf <? 0) || (nf >? 10000) then None else
      match parse_flds (Z.to_nat nf) r with
      | Some (l, r') => match parse_structs n' r' with Some (d, r'') => Some (l :: d, r'') | None => None end
      | None => None
      end
    | _ => None
    end
  end.

Definition parse_defs (fs : list field) : option (defs * list field) :=
  match fs with
  | FZ n :: r => if (n <? 0) || (n >? 10000) then None else parse_structs (Z.to_nat n) r
  | _ => None
  end.

Definition opts_of (bits : Z) : cut_opts :=
  {| o_disallow_unknown := Z.testbit bits 0; o_not_check_req := Z.testbit bits 1; o_write_default := Z.testbit bits 2; o_shared := Z.testbit bits 3 |}.

(* 1101: defs, from idx, to idx, option bits (0 DisallowUnknow, 1 NotCheckRequireNess, 2 WriteDefault, 3 same parse), input bytes, err class, output *)
Definition check_1101 (fs : list field) : verdict :=
  match parse_defs fs with
  | Some (d, [FZ a; FZ b; FZ bits; FB bs; FZ err; FB out]) =>
    match decode_all T_STRUCT bs with
    | None => VSkip
    | Some v =>
      if negb (wf v) then VSkip else
      match project d (opts_of bits) (S (length bs)) (TStruct a) (TStruct b) v with
      | COk v' =>
        if (err =? 0) && bytes_eqb out (encode v') then VOk
        else if (err =? 0) && (match decode_all T_STRUCT out with Some w => tval_eqb (canon w) (canon v') | None => false end) then VDrift 1
        else VBad 1 [FZ 0; FB (encode v')]
      | CErr c => expect 2 (if c =? 4 then negb (err =? 0) else err =? c) [FZ c]
      end
    end
  | _ => VBad 99 []
  end.
