(* C19, algorithm level, descriptor-FREE pair: the as-coded model of BinaryProtocol.WriteAny / ReadAny (model/ThriftAnyFree.v,
   theorems in proofs/ThriftAnyFreeProofs.v) against the implementation.
     1927  WriteAny(goValue, sliceAsSet): error status, returned Type and the whole buffer must equal write_free; the iteration
           order of the implementation is recovered from its own output (raw model reader + reorder_free), the re-ordered value
           must be the same Go value (Check19d.gser).
     1928  ReadAny(type, strAsBinary, byteAsInt8) on bytes: error / value (modulo map order) / bytes left must equal read_any_free. *)
From Coq Require Import ZArith List Bool.
From DG Require Import CaseFormat ProtoWireRef ThriftWire ThriftGeneric ThriftEnvelope ThriftAnyDesc ThriftAnyFree Check19d.
Import ListNotations.
Local Open Scope Z_scope.

(* what ReadInt answers for a key WriteAny wrote from a Go integer of type t *)
Definition key_image (t k : Z) : Z :=
  if (t =? GT_U8) || (t =? GT_I8) then k mod 256
  else if t =? GT_I16 then to_s 16 k else if t =? GT_I32 then to_s 32 k else k.

Section ReorderFree.
  Definition c19e_fuel : nat := 64%nat.
  Definition wrf (g : gval) : wst := write_free c19e_fuel [] g.
  (* the case value [a] (already re-ordered) reads back, from its own model output, as the value [b] read from the
     implementation's output (bytes cannot be compared: what was read back has lost the Go integer types) *)
  Definition same_outf (a b : gval) : bool :=
    let w := wrf a in
    (snd w =? 0) &&
    match read_free false true true c19e_fuel (write_free_type a) (fst w) with
    | Some (p, []) => gval_same p b
    | _ => false
    end.
  Definition dereff (g : gval) : gval := match g with GPtr x => if ptr_target_ok x then x else g | _ => g end.

  Fixpoint reorder_free (fuel : nat) (g gr : gval) : gval :=
    match fuel with
    | O => g
    | S f =>
      match g, gr with
      | GPtr a, GPtr b => GPtr (reorder_free f a b)
      | GList l, GList lr => GList (map2g (reorder_free f) l lr)
      | GMapS es, GMapS er =>
        GMapS (pick_by (fun (o : list Z * gval) (x : list Z * gval) =>
                          if bytes_eqb (fst o) (fst x) then Some (fst x, reorder_free f (snd x) (snd o)) else None) es er)
      | GMapI t es, GMapI _ er =>
        GMapI t (pick_by (fun (o : Z * gval) (x : Z * gval) =>
                            if key_image t (fst x) =? fst o then Some (fst x, reorder_free f (snd x) (snd o)) else None) es er)
      | GStructN ms, GStructN mr =>
        GStructN (pick_by (fun (o : Z * gval) (x : Z * gval) =>
                             if fst o =? fst x then Some (fst x, reorder_free f (snd x) (snd o)) else None) ms mr)
      | GMapA es, GMapA er =>
        GMapA (pick_by (fun (o : gval * gval) (x : gval * gval) =>
                          let k' := reorder_free f (fst x) (fst o) in
                          if same_outf (dereff k') (dereff (fst o)) then
                            let v' := reorder_free f (snd x) (snd o) in
                            if same_outf v' (snd o) then Some (k', v') else None
                          else None) es er)
      | GMapA es, GMapS er =>          (* string keys in a map[interface{}] come back as map[string] *)
        GMapA (pick_by (fun (o : list Z * gval) (x : gval * gval) =>
                          match fst x with
                          | GStr s | GBytes s => if bytes_eqb s (fst o) then Some (fst x, reorder_free f (snd x) (snd o)) else None
                          | _ => None
                          end) es er)
      | GMapA es, GMapI _ er =>        (* integer keys in a map[interface{}] come back as map[int] *)
        GMapA (pick_by (fun (o : Z * gval) (x : gval * gval) =>
                          match fst x with
                          | GInt t k => if key_image t k =? fst o then
                                          let v' := reorder_free f (snd x) (snd o) in
                                          if same_outf v' (snd o) then Some (fst x, v') else None
                                        else None
                          | _ => None
                          end) es er)
      | _, _ => g
      end
    end.
End ReorderFree.

(* byte histogram equality: the two buffers are permutations of each other (degraded comparison, see check_1927) *)
Fixpoint count_byte (x : Z) (l : list Z) : Z :=
  match l with [] => 0 | y :: r => (if x =? y then 1 else 0) + count_byte x r end.
Definition same_bytes_multiset (a b : list Z) : bool :=
  (length a =? length b)%nat && forallb (fun x => count_byte x a =? count_byte x b) a.

(* a nil somewhere in the value: GoType2ThriftType panics on it, and whether the panic or another element's error comes
   first depends on the iteration order *)
Fixpoint has_nil (g : gval) : bool :=
  match g with
  | GNil => true
  | GList l => existsb has_nil l
  | GMapS es => existsb (fun e => has_nil (snd e)) es
  | GMapI _ es => existsb (fun e => has_nil (snd e)) es
  | GMapA es => existsb (fun e => has_nil (fst e) || has_nil (snd e)) es
  | GStructN fs => existsb (fun e => has_nil (snd e)) fs
  | GPtr g' => has_nil g'
  | _ => false
  end.

(* a slice / map whose elements (keys, values) do not all have the same Thrift type: no Thrift value stands for it, and what
   WriteAny makes of it (header types, which element fails first) depends on the iteration order *)
Fixpoint hetero (g : gval) : bool :=
  match g with
  | GList l => negb (all_same (map go_type l)) || existsb hetero l
  | GMapS es => negb (all_same (map (fun e => go_type (snd e)) es)) || existsb (fun e => hetero (snd e)) es
  | GMapI _ es => negb (all_same (map (fun e => go_type (snd e)) es)) || existsb (fun e => hetero (snd e)) es
  | GMapA es => negb (all_same (map (fun e => go_type (fst e)) es)) || negb (all_same (map (fun e => go_type (snd e)) es))
                || existsb (fun e => hetero (fst e) || hetero (snd e)) es
  | GStructN fs => existsb (fun e => hetero (snd e)) fs
  | GPtr g' => hetero g'
  | _ => false
  end.

(* 1927. fields: sliceAsSet, value.., code (0 nil, 1 error, 3 panic), returned type, buffer *)
Definition check_1927 (fs : list field) : verdict :=
  match fs with
  | FZ s :: rest =>
    match parse_gval (S (length rest)) rest with
    | Some (g, [FZ wc; FZ rt; FB buf]) =>
      let back := if wc =? 0 then read_free false true true c19e_fuel rt buf else None in
      let g1 := match back with
                | Some (gr, []) => reorder_free c19e_fuel g gr
                | _ => g
                end in
      if negb (gval_same g g1) then VBad 97 [] else
      let r := wrf g1 in
      if snd r =? 2 then VSkip
      else if negb (snd r =? wc) then
        (* a value that holds a nil (panic) beside another failing element, or a heterogeneous container: which element
           decides the outcome is the iteration order's choice, and the order of a failed run cannot be recovered *)
        (if has_nil g || hetero g then VDrift 8 else VBad 1 [FZ (snd r); FB (fst r)])
      else if negb (wc =? 0) then VOk
      (* a heterogeneous slice / map (a deviant value) is written without error into bytes that are no Thrift value: the
         iteration order cannot be recovered from them; the comparison degrades to "same bytes up to order" (drift) *)
      else if match back with Some (_, []) => false | _ => true end then
        (if same_bytes_multiset (fst r) buf && (rt =? write_free_type g1) then VDrift 7
         else if hetero g then VDrift 9 else VBad 4 [FB (fst r)])
      else vand (expect 2 (bytes_eqb (fst r) buf) [FB (fst r)]) (expect 3 (rt =? write_free_type g1) [FZ (write_free_type g1)])
    | _ => VBad 99 []
    end
  | _ => VBad 99 []
  end.

(* 1928. fields: type, options (1 strAsBinary, 2 byteAsInt8), input, code (0 ok, 1 error, 3 panic, 4 foreign Go type),
   [value.. when code = 0], bytes left *)
Definition check_1928 (fs : list field) : verdict :=
  match fs with
  | FZ t :: FZ o :: FB input :: FZ rc :: rest =>
    let strbin := Z.testbit o 0 in let i8 := Z.testbit o 1 in
    if (rc =? 3) || (rc =? 4) then VBad rc [] else
    let m := read_any_free strbin i8 c19e_fuel t input in
    if rc =? 0 then
      match parse_gval (S (length rest)) rest with
      | Some (g, [FZ nleft]) =>
        match m with
        | Some (gm, r) => vand (expect 1 (gval_same gm g) []) (expect 2 (zlen r =? nleft) [FZ (zlen r)])
        | None => VBad 5 []
        end
      | _ => VBad 99 []
      end
    else
      match m with
      | None => VOk
      | Some (_, r) => VBad 6 [FZ (zlen r)]
      end
  | _ => VBad 99 []
  end.
