(* proto/binary/binary_skip.go SkipAllElements / SkipAllElementsOf (skipAllElements): skipping all the elements of a
   LIST / MAP field and counting them. "Decoders report the exact number of bytes consumed or an error":
     packed    tag, length, then elements of the element wire type until the end of the payload; an element that
               crosses the end of the payload (or of the buffer) is an error;
     unpacked  records while the next tag carries the same field number, each skipped by the wire type of ITS tag.
   Result: Some (element count, bytes consumed) or None (error). Model only - theorems in proofs/ProtoSkipAllProofs.v. *)
From Coq Require Import ZArith List Bool.
From DG Require Import CaseFormat ProtoWireRef ProtoMsg ProtoAny.
Import ListNotations.
Local Open Scope Z_scope.

(* bytes a complete value of the wire type occupies at the head of bs (Skip); None = cut short / malformed *)
Definition value_len (wt : Z) (bs : list Z) : option Z :=
  if wt =? 0 then let '(_, n) := varint_dec bs in if n <? 0 then None else Some n
  else if wt =? 5 then if 4 <=? plen bs then Some 4 else None
  else if wt =? 1 then if 8 <=? plen bs then Some 8 else None
  else if wt =? 2 then
    let '(v, n) := varint_dec bs in
    if n <? 0 then None else if v <=? plen bs - n then Some (n + v) else None
  else Some 0.                      (* Skip has no case for groups / 6 / 7: nil error, nothing moves *)

(* for p.Read < end { Skip; size++ }; if p.Read != end { error }   -- left = end - p.Read *)
Fixpoint skip_packed (fuel : nat) (ewt : Z) (left : Z) (bs : list Z) : option Z :=
  if left =? 0 then Some 0
  else if left <? 0 then None
  else match fuel with
       | O => None
       | S f =>
         match value_len ewt bs with
         | None => None
         | Some n =>
           if n <=? 0 then None else             (* does not occur for the wire types of packable kinds *)
           match skip_packed f ewt (left - n) (skipn (Z.to_nat n) bs) with
           | Some c => Some (1 + c)
           | None => None
           end
         end
       end.

(* count, bytes consumed *)
Fixpoint skip_unpacked (fuel : nat) (num : Z) (bs : list Z) : option (Z * Z) :=
  match bs with
  | [] => Some (0, 0)
  | _ :: _ =>
    match fuel with
    | O => None
    | S f =>
      match consume_tag bs with
      | None => None
      | Some (num', wt, r) =>
        if negb (num' =? num) then Some (0, 0) else
        match value_len wt r with
        | None => None
        | Some n =>
          match skip_unpacked f num (skipn (Z.to_nat n) r) with
          | Some (c, m) => Some (1 + c, (plen bs - plen r) + n + m)
          | None => None
          end
        end
      end
    end
  end.

Definition skip_all_elements (num : Z) (packed : bool) (ewt : Z) (bs : list Z) : option (Z * Z) :=
  if packed then
    match consume_tag bs with
    | None => None
    | Some (_, _, r) =>
      match rd_varint r with
      | None => None
      | Some (u, r1) =>
        let bytelen := to_s 64 u in
        if (bytelen <? 0) || (bytelen >? plen r1) then None else
        match skip_packed (S (length r1)) ewt bytelen r1 with
        | Some c => Some (c, (plen bs - plen r1) + bytelen)
        | None => None
        end
      end
    end
  else skip_unpacked (S (length bs)) num bs.
