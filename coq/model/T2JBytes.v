(* Thrift -> JSON at ALGORITHM level: the byte walk of conv/t2j/impl.go doRecurse (and of do for a root struct when
   thrift base, ConvertException and HTTP mapping are off: the two loops are the same code).
   Model only — proofs are in proofs/T2JBytesProofs.v ([t2j_walk_refines_spec]: the walk over [encode v ++ r] yields exactly
   the canonical text of the spec tree [json_of o d v] and the rest r, or an error exactly when the spec has no text).

   What is mirrored (conv/t2j/impl.go, thrift/binary.go, thrift/utils.go, internal/json/encoding.go):
   * STRUCT: the opening brace, then a loop: ReadFieldBegin (type byte, must be Type.Valid; STOP ends; else the i16 id),
     FieldById; unknown -> error under DisallowUnknownField, else p.Skip (ThriftWire.skip_go); known -> clear the bit of the
     requires bitmap, comma unless first, quoted key (Alias), colon, the value READ BY THE DESCRIPTOR'S TYPE (the wire type
     byte of a known field is not compared with it); at STOP handleUnsets with Write{Require,Default,Optional}Field off:
     an error iff the bit of a required field is still set; the closing brace.
   * LIST / SET: element type byte (Type.Valid, must equal the descriptor's), i32 count (>= 0), '[', the elements separated
     by commas, ']'.  MAP: key type, value type, count, the type checks, '{', per pair: comma unless first, the key by
     buildinTypeToKey (byte / i16 / i32 / i64 as a QUOTED decimal — byte by ByteAsUint8, i64 NOT doubled under Int642String —,
     string escaped between quotes, every other key type an error), colon, the value, '}'.
   * scalars: BOOL true iff the byte is 1 (ReadBool: b != 1 -> false), BYTE as int8 or uint8 by ByteAsUint8, I16/I32/I64 by
     i64toa = [fmt_int], I64 between quotes under Int642String, DOUBLE: error for NaN / +-Inf, else the lexeme [fd bits]
     (a parameter: [f64_exact_lexeme] for the theorems; check 304 uses a marker and judges the implementation's lexeme by
     dec2f64), STRING: i32 length (0 <= n <= remaining bytes), Quote = [quote_ref]; binary: standard base64 between quotes
     unless NoBase64Binary.
   * loops over a declared count: the code iterates [count] times and fails when the bytes run out; every value read by a
     descriptor consumes at least one byte, so a count above the number of remaining bytes must fail: the model answers
     None at once (same device as ThriftWire.skip).

   * api.js_conv under EnableValueMapping (thrift/annotation/value_mapping.go apiJSConv.Read / appendInt): a byte / i16 / i32 /
     i64 / double / string field between quotes (byte by ByteAsUint8 since /repo c24267f), a LIST field element-wise by the WIRE
     element type; every other type an error.
   * WriteRequireField / WriteDefaultField (handleUnsets + RequiresBitmap.HandleRequires): at STOP the bits still set are
     scanned in ascending field id; a required field is written under WriteRequireField and is an error otherwise, a default
     one is written under WriteDefaultField; key = alias, value = writeDefaultOrEmpty (false, 0, "", [], {}; no IDL default
     values).  WriteOptionalField has no effect: optional fields are never in the bitmap without SetOptionalBitmap.
   * at the root (do): a response-base field under EnableThriftBase with a BaseResp in the context is skipped as a STRUCT and
     produces no member ([t2j_walk_root]; what FastRead stores into the context is compared by check 301 only).

   * ConvertException at the root ([walk_fields_x], [t2j_walk_rootx]): the exception field's JSON (plus what handleUnsets
     appends) is the text of the returned error.

   NOT modelled: EnableHttpMapping, descriptors built with SetOptionalBitmap, IDL default values,
   the pooled / caller-supplied output buffer (DoInto).  Option bits as in T2J.v / T2JUnset.v. *)
From Coq Require Import ZArith List Bool.
From DG Require Import ProtoWireRef ThriftWire Json Num Base64 T2J T2JUnset.
Import ListNotations.
Local Open Scope Z_scope.

(* thrift.Type.Valid: STOP VOID BOOL BYTE DOUBLE I16 I32 I64 STRING STRUCT MAP SET LIST UTF8 UTF16 *)
Definition valid_ttype (t : Z) : bool :=
  (t =? 0) || (t =? 1) || valid_type t || (t =? 16) || (t =? 17).

(* a descriptor the IDL parser can produce: scalar nodes carry a scalar type *)
Fixpoint desc_wf (d : tdesc) : bool :=
  match d with
  | DScalar t => is_num_scalar t
  | DString _ => true
  | DStruct fs => forallb (fun f => desc_wf (snd f)) fs
  | DMap k v => desc_wf k && desc_wf v
  | DList _ e => desc_wf e
  end.

(* ---- reads (BinaryProtocol.ReadByte / ReadI16 / ReadI32 / ReadI64 / ReadString) ---- *)
Definition rd_int (n : nat) (bs : list Z) : option (Z * list Z) :=
  match take n bs with Some (x, r) => Some (dec_int x, r) | None => None end.

Definition rd_uint (n : nat) (bs : list Z) : option (Z * list Z) :=
  match take n bs with Some (x, r) => Some (dec_uint x, r) | None => None end.

(* ReadString / ReadBinary: size < 0 || size > len(Buf) - Read is an error (checked BEFORE the bytes are taken) *)
Definition rd_bytes (bs : list Z) : option (list Z * list Z) :=
  match rd_int 4 bs with
  | Some (n, r) => if (n <? 0) || (n >? zlen r) then None else Some (firstn (Z.to_nat n) r, skipn (Z.to_nat n) r)
  | None => None
  end.

(* ---- the requires bitmap: the set of field ids whose bit is set ----
   Requires(): required and default fields are marked (optional ones are not, without SetOptionalBitmap);
   r.Set(id, OptionalRequireness) clears the bit; HandleRequires with the three write options off scans the set bits,
   looks each one up with FieldById and fails at the first required field (field ids are unique in a descriptor:
   scanning the bits = scanning the fields and testing their bit) *)
Definition bm_init (fs : list (fmeta * tdesc)) : list Z :=
  map (fun f => f_id (fst f)) (filter (fun f => negb (f_req (fst f) =? 2)) fs).
Definition bm_clear (id : Z) (bm : list Z) : list Z := filter (fun i => negb (i =? id)) bm.
Definition bm_isset (bm : list Z) (id : Z) : bool := existsb (fun i => i =? id) bm.
Definition bm_missing (fs : list (fmeta * tdesc)) (bm : list Z) : bool :=
  existsb (fun f => (f_req (fst f) =? 1) && bm_isset bm (f_id (fst f))) fs.

(* the result of do: a JSON text, or (ConvertException) the JSON of an exception field returned as the error *)
Inductive wres := WText (t : list Z) | WExc (t : list Z).

Section Walk.
  Variable fd : Z -> list Z.     (* the lexeme written for a finite double *)
  Variable o : Z.                (* options *)

  (* doRecurse, cases BOOL .. DOUBLE *)
  Definition walk_scalar (t : Z) (bs : list Z) : option (list Z * list Z) :=
    if t =? T_BOOL then match bs with b :: r => Some (if b =? 1 then lit_true else lit_false, r) | [] => None end
    else if t =? T_BYTE then match rd_int 1 bs with Some (z, r) => Some (fmt_int (byte_image o z), r) | None => None end
    else if t =? T_I16 then match rd_int 2 bs with Some (z, r) => Some (fmt_int z, r) | None => None end
    else if t =? T_I32 then match rd_int 4 bs with Some (z, r) => Some (fmt_int z, r) | None => None end
    else if t =? T_I64 then
      match rd_int 8 bs with
      | Some (z, r) => Some (if o_int642string o then 34 :: fmt_int z ++ [34] else fmt_int z, r)
      | None => None
      end
    else if t =? T_DOUBLE then
      match rd_uint 8 bs with
      | Some (b, r) => if f64_is_finite b then Some (fd b, r) else None
      | None => None
      end
    else None.

  (* doRecurse, case STRING *)
  Definition walk_string (binary : bool) (bs : list Z) : option (list Z * list Z) :=
    match rd_bytes bs with
    | Some (s, r) => Some (if binary && negb (o_no_base64 o) then 34 :: b64_encode s ++ [34] else quote_ref s, r)
    | None => None
    end.

  (* buildinTypeToKey, by the type of the key descriptor *)
  Definition walk_key_t (t : Z) (bs : list Z) : option (list Z * list Z) :=
    if t =? T_BYTE then match rd_int 1 bs with Some (z, r) => Some (34 :: fmt_int (byte_image o z) ++ [34], r) | None => None end
    else if t =? T_I16 then match rd_int 2 bs with Some (z, r) => Some (34 :: fmt_int z ++ [34], r) | None => None end
    else if t =? T_I32 then match rd_int 4 bs with Some (z, r) => Some (34 :: fmt_int z ++ [34], r) | None => None end
    else if t =? T_I64 then match rd_int 8 bs with Some (z, r) => Some (34 :: fmt_int z ++ [34], r) | None => None end
    else if t =? T_STRING then match rd_bytes bs with Some (s, r) => Some (quote_ref s, r) | None => None end
    else None.
  Definition walk_key (dk : tdesc) (bs : list Z) : option (list Z * list Z) := walk_key_t (desc_type dk) bs.

  Definition sep (comma : bool) : list Z := if comma then [44] else [].

  (* thrift/annotation/value_mapping.go appendInt: one scalar between quotes (integers and strings exactly as a map key) *)
  Definition walk_vm_scalar (t : Z) (bs : list Z) : option (list Z * list Z) :=
    if t =? T_DOUBLE then
      match rd_uint 8 bs with
      | Some (b, r) => if f64_is_finite b then Some (34 :: fd b ++ [34], r) else None
      | None => None
      end
    else walk_key_t t bs.

  (* apiJSConv.Read, LIST case: n elements by the wire element type (the code writes the comma after every element but the
     last: the same text as a comma before every element but the first) *)
  Fixpoint walk_vm_elems (n : nat) (et : Z) (comma : bool) (bs : list Z) : option (list Z * list Z) :=
    match n with
    | O => Some ([93], bs)
    | S n' =>
      match walk_vm_scalar et bs with
      | None => None
      | Some (txt, r) =>
        match walk_vm_elems n' et true r with
        | None => None
        | Some (tl, r2) => Some (sep comma ++ txt ++ tl, r2)
        end
      end
    end.

  (* apiJSConv.Read on a field whose descriptor is d *)
  Definition walk_vm (d : tdesc) (bs : list Z) : option (list Z * list Z) :=
    match d with
    | DList false _ =>
      match bs with
      | et :: r =>
        if negb (valid_ttype et) then None else
        match skip_count r with
        | None => None
        | Some (sz, r2) =>
          if sz >? zlen r2 then None
          else match walk_vm_elems (Z.to_nat sz) et false r2 with
               | Some (t, r3) => Some (91 :: t, r3)
               | None => None
               end
        end
      | [] => None
      end
    | _ => walk_vm_scalar (desc_type d) bs
    end.

  (* writeDefaultOrEmpty without IDL default values *)
  Definition zero_text (d : tdesc) : list Z :=
    match d with
    | DScalar t => if t =? T_BOOL then lit_false else if t =? T_DOUBLE then fd 0 else fmt_int 0
    | DString _ => [34; 34]
    | DStruct _ => [123; 125]
    | DMap _ _ => [123; 125]
    | DList _ _ => [91; 93]
    end.

  (* handleUnsets: fs in ascending id; returns the text of the written members followed by [close]
     ([125] at STOP of a struct; nothing after a ConvertException field, where no closing brace is written) *)
  Fixpoint walk_unsets_c (close : list Z) (fs : list (fmeta * tdesc)) (bm : list Z) (comma : bool) : option (list Z) :=
    match fs with
    | [] => Some close
    | f :: r =>
      if negb (bm_isset bm (f_id (fst f))) then walk_unsets_c close r bm comma
      else if f_req (fst f) =? 1 then
        (if o_write_required o
         then match walk_unsets_c close r bm true with
              | Some tl => Some (sep comma ++ quote_ref (f_key (fst f)) ++ 58 :: zero_text (snd f) ++ tl)
              | None => None
              end
         else None)
      else if (f_req (fst f) =? 0) && o_write_default o then
        match walk_unsets_c close r bm true with
        | Some tl => Some (sep comma ++ quote_ref (f_key (fst f)) ++ 58 :: zero_text (snd f) ++ tl)
        | None => None
        end
      else walk_unsets_c close r bm comma
    end.
  (* at STOP of a struct: the same scan closed by the brace (kept as its own fixpoint: = walk_unsets_c [125],
     proofs/T2JBytesProofs.v walk_unsets_is_c) *)
  Fixpoint walk_unsets (fs : list (fmeta * tdesc)) (bm : list Z) (comma : bool) : option (list Z) :=
    match fs with
    | [] => Some [125]
    | f :: r =>
      if negb (bm_isset bm (f_id (fst f))) then walk_unsets r bm comma
      else if f_req (fst f) =? 1 then
        (if o_write_required o
         then match walk_unsets r bm true with
              | Some tl => Some (sep comma ++ quote_ref (f_key (fst f)) ++ 58 :: zero_text (snd f) ++ tl)
              | None => None
              end
         else None)
      else if (f_req (fst f) =? 0) && o_write_default o then
        match walk_unsets r bm true with
        | Some tl => Some (sep comma ++ quote_ref (f_key (fst f)) ++ 58 :: zero_text (snd f) ++ tl)
        | None => None
        end
      else walk_unsets r bm comma
    end.

  Section Loops.
    Variable rec : tdesc -> list Z -> option (list Z * list Z).   (* doRecurse one nesting level down *)
    Variable bx : fmeta -> bool.   (* fields extracted into the context instead of being converted (root only) *)

    (* the field loop of a struct, after the opening brace; returns the text up to and including the closing brace.
       fuel: any number > number of bytes (a field takes at least 3 bytes) *)
    Fixpoint walk_fields (fuel : nat) (fs : list (fmeta * tdesc)) (comma : bool) (bm : list Z) (bs : list Z)
      : option (list Z * list Z) :=
      match fuel with
      | O => None
      | S f =>
        match bs with
        | [] => None
        | t :: r =>
          if negb (valid_ttype t) then None
          else if t =? 0 then match walk_unsets (sort_flds fs) bm comma with Some tl => Some (tl, r) | None => None end
          else
            match rd_int 2 r with
            | None => None
            | Some (id, r2) =>
              match find_field fs id with
              | None =>
                if o_disallow_unknown o then None
                else match skip_go t r2 with
                     | None => None
                     | Some r3 => walk_fields f fs comma bm r3
                     end
              | Some fl =>
                if bx (fst fl) then
                  match skip_go T_STRUCT r2 with
                  | None => None
                  | Some r3 => walk_fields f fs comma (bm_clear id bm) r3
                  end
                else
                match (if o_value_mapping o && f_jsconv (fst fl) then walk_vm (snd fl) r2 else rec (snd fl) r2) with
                | None => None
                | Some (txt, r3) =>
                  match walk_fields f fs true (bm_clear id bm) r3 with
                  | None => None
                  | Some (tl, r4) => Some (sep comma ++ quote_ref (f_key (fst fl)) ++ 58 :: txt ++ tl, r4)
                  end
                end
              end
            end
        end
      end.

    (* n elements, after the opening bracket *)
    Fixpoint walk_elems (n : nat) (de : tdesc) (comma : bool) (bs : list Z) : option (list Z * list Z) :=
      match n with
      | O => Some ([93], bs)
      | S n' =>
        match rec de bs with
        | None => None
        | Some (txt, r) =>
          match walk_elems n' de true r with
          | None => None
          | Some (tl, r2) => Some (sep comma ++ txt ++ tl, r2)
          end
        end
      end.

    (* n pairs, after the opening brace *)
    Fixpoint walk_pairs (n : nat) (dk dv : tdesc) (comma : bool) (bs : list Z) : option (list Z * list Z) :=
      match n with
      | O => Some ([125], bs)
      | S n' =>
        match walk_key dk bs with
        | None => None
        | Some (kt, r) =>
          match rec dv r with
          | None => None
          | Some (txt, r2) =>
            match walk_pairs n' dk dv true r2 with
            | None => None
            | Some (tl, r3) => Some (sep comma ++ kt ++ 58 :: txt ++ tl, r3)
            end
          end
        end
      end.
  End Loops.

  (* the root loop of do under ConvertException: a known field with a non-zero id is a thrift exception — the output is reset
     to the field's value alone, the loop breaks (the fields after it are not read: their bits stay set), handleUnsets appends
     what it writes (no closing brace), and the text is returned AS THE ERROR.  Without such a field: the plain loop. *)
  Section LoopsX.
    Variable rec : tdesc -> list Z -> option (list Z * list Z).
    Variable bx : fmeta -> bool.

    Fixpoint walk_fields_x (fuel : nat) (fs : list (fmeta * tdesc)) (comma : bool) (bm : list Z) (bs : list Z) : option wres :=
      match fuel with
      | O => None
      | S f =>
        match bs with
        | [] => None
        | t :: r =>
          if negb (valid_ttype t) then None
          else if t =? 0 then match walk_unsets (sort_flds fs) bm comma with Some tl => Some (WText tl) | None => None end
          else
            match rd_int 2 r with
            | None => None
            | Some (id, r2) =>
              match find_field fs id with
              | None =>
                if o_disallow_unknown o then None
                else match skip_go t r2 with
                     | None => None
                     | Some r3 => walk_fields_x f fs comma bm r3
                     end
              | Some fl =>
                if bx (fst fl) then
                  match skip_go T_STRUCT r2 with
                  | None => None
                  | Some r3 => walk_fields_x f fs comma (bm_clear id bm) r3
                  end
                else
                match (if o_value_mapping o && f_jsconv (fst fl) then walk_vm (snd fl) r2 else rec (snd fl) r2) with
                | None => None
                | Some (txt, r3) =>
                  if negb (id =? 0) then
                    match walk_unsets_c [] (sort_flds fs) (bm_clear id bm) true with
                    | Some tl => Some (WExc (txt ++ tl))
                    | None => None
                    end
                  else
                    match walk_fields_x f fs true (bm_clear id bm) r3 with
                    | Some (WText tl) => Some (WText (sep comma ++ quote_ref (f_key (fst fl)) ++ 58 :: txt ++ tl))
                    | other => other
                    end
                end
              end
            end
        end
      end.
  End LoopsX.

  (* doRecurse; n bounds the nesting of containers (scalars and strings need none) *)
  Fixpoint t2j_walk_gen (n : nat) (d : tdesc) (bs : list Z) {struct n} : option (list Z * list Z) :=
    match d with
    | DScalar t => walk_scalar t bs
    | DString b => walk_string b bs
    | DStruct fs =>
      match n with
      | O => None
      | S n' =>
        match walk_fields (t2j_walk_gen n') (fun _ => false) (S (length bs)) fs false (bm_init fs) bs with
        | Some (t, r) => Some (123 :: t, r)
        | None => None
        end
      end
    | DMap dk dv =>
      match n with
      | O => None
      | S n' =>
        match bs with
        | kt :: vt :: r =>
          if negb (valid_ttype kt && valid_ttype vt) then None else
          match skip_count r with
          | None => None
          | Some (sz, r2) =>
            if negb ((kt =? desc_type dk) && (vt =? desc_type dv)) then None
            else if sz >? zlen r2 then None
            else match walk_pairs (t2j_walk_gen n') (Z.to_nat sz) dk dv false r2 with
                 | Some (t, r3) => Some (123 :: t, r3)
                 | None => None
                 end
          end
        | _ => None
        end
      end
    | DList _ de =>
      match n with
      | O => None
      | S n' =>
        match bs with
        | et :: r =>
          if negb (valid_ttype et) then None else
          match skip_count r with
          | None => None
          | Some (sz, r2) =>
            if negb (et =? desc_type de) then None
            else if sz >? zlen r2 then None
            else match walk_elems (t2j_walk_gen n') (Z.to_nat sz) de false r2 with
                 | Some (t, r3) => Some (91 :: t, r3)
                 | None => None
                 end
          end
        | _ => None
        end
      end
    end.
End Walk.

(* do: a root struct is walked by the same loop with the response base extracted; any other root is doRecurse *)
Definition root_bx (o : Z) (m : fmeta) : bool := o_thrift_base o && o_base_in_ctx o && f_respbase m.
Definition t2j_walk_root (fd : Z -> list Z) (o : Z) (n : nat) (d : tdesc) (bs : list Z) : option (list Z * list Z) :=
  match d, n with
  | DStruct fs, S n' =>
    match walk_fields fd o (t2j_walk_gen fd o n') (root_bx o) (S (length bs)) fs false (bm_init fs) bs with
    | Some (t, r) => Some (123 :: t, r)
    | None => None
    end
  | _, _ => t2j_walk_gen fd o n d bs
  end.

(* do with every modelled option, ConvertException included (what follows the value is not returned: do has no cursor) *)
Definition t2j_walk_rootx (fd : Z -> list Z) (o : Z) (n : nat) (d : tdesc) (bs : list Z) : option wres :=
  match d, n with
  | DStruct fs, S n' =>
    if o_convert_exception o then
      match walk_fields_x fd o (t2j_walk_gen fd o n') (root_bx o) (S (length bs)) fs false (bm_init fs) bs with
      | Some (WText t) => Some (WText (123 :: t))
      | other => other
      end
    else match t2j_walk_root fd o n d bs with Some (t, _) => Some (WText t) | None => None end
  | _, _ => match t2j_walk_root fd o n d bs with Some (t, _) => Some (WText t) | None => None end
  end.

(* the walk with the spec's double lexeme (the exact decimal of the bits) *)
Definition t2j_walk (n : nat) (o : Z) (d : tdesc) (bs : list Z) : option (list Z * list Z) :=
  t2j_walk_gen f64_exact_lexeme o n d bs.

(* the options under which the converter IS the doRecurse walk of [t2j_walk] also at the root: no thrift base extraction
   and no exception conversion (with thrift base: [t2j_walk_root]; ConvertException is not modelled) *)
Definition walk_opts (o : Z) : bool :=
  negb (o_value_mapping o) && negb (o_thrift_base o && o_base_in_ctx o) && negb (o_convert_exception o).

(* the JSON of an expected tree with the double lexemes chosen by fd (T2J.to_json is the instance fd = f64_exact_lexeme) *)
Fixpoint to_json_fd (fd : Z -> list Z) (e : jexp) : json :=
  match e with
  | EBool b => JBool b
  | EInt z => JNum (fmt_int z)
  | EDouble b => JNum (fd b)
  | EStr s | EStrV s => JStr s
  | EByteV z => JStr (fmt_int z)
  | EQuoted e' => match to_json_fd fd e' with JNum l => JStr l | j => j end
  | EArr xs => JArr (map (to_json_fd fd) xs)
  | EObj ms => JObj (map (fun m => (fst m, to_json_fd fd (snd m))) ms)
  end.

(* ---- the text of an expected tree, printed directly (no detour through the JSON AST): what the converter writes.
   A quoted number (Int642String, api.js_conv) is the number's text between quotes — for a double the lexeme fd b as it is;
   with escape-free lexemes this is json_print (to_json_fd fd e) (proofs/T2JBytesProofs.v jexp_print_json) ---- *)
Section EPrint.
  Variable pr : jexp -> list Z.
  Fixpoint eprint_tail (l : list jexp) : list Z :=
    match l with [] => [93] | y :: l' => 44 :: pr y ++ eprint_tail l' end.
  Definition eprint_member (m : list Z * jexp) : list Z := quote_ref (fst m) ++ 58 :: pr (snd m).
  (* members, each preceded by a comma; no closing brace *)
  Fixpoint eprint_mems (l : list (list Z * jexp)) : list Z :=
    match l with [] => [] | m :: l' => 44 :: eprint_member m ++ eprint_mems l' end.
End EPrint.

Fixpoint jexp_print (fd : Z -> list Z) (e : jexp) : list Z :=
  match e with
  | EBool b => if b then lit_true else lit_false
  | EInt z => fmt_int z
  | EDouble b => fd b
  | EStr s | EStrV s => quote_ref s
  | EByteV z => 34 :: fmt_int z ++ [34]
  | EQuoted e' =>
    match e' with
    | EInt z => 34 :: fmt_int z ++ [34]
    | EDouble b => 34 :: fd b ++ [34]
    | _ => jexp_print fd e'              (* as T2J.to_json: only numbers are quoted *)
    end
  | EArr xs => 91 :: match xs with [] => [93] | x :: l => jexp_print fd x ++ eprint_tail (jexp_print fd) l end
  | EObj ms => 123 :: match ms with
                      | [] => [125]
                      | m :: l => eprint_member (jexp_print fd) m ++ eprint_mems (jexp_print fd) l ++ [125]
                      end
  end.

Definition spec_text_p (fd : Z -> list Z) (t : tres) : option (list Z) :=
  match t with
  | TOk e => if jexp_finite e then Some (jexp_print fd e) else None
  | _ => None
  end.

(* what the spec says the text is: the canonical print of the expected tree when every double in it has a spelling *)
Definition spec_text_fd (fd : Z -> list Z) (t : tres) : option (list Z) :=
  match t with
  | TOk e => if jexp_finite e then Some (json_print (to_json_fd fd e)) else None
  | _ => None
  end.
Definition spec_text (t : tres) : option (list Z) :=
  match t with
  | TOk e => if jexp_finite e then Some (json_print (to_json e)) else None
  | _ => None
  end.

(* ---- comparing the walk's text with the implementation's, double lexemes by value ----
   marker walk: a double is written as  1 <decimal of the bits> 1  (byte 1 never occurs otherwise: every string goes
   through quote_ref / base64, which emit no raw control byte) *)
Definition fd_mark (bits : Z) : list Z := 1 :: fmt_nat bits ++ [1].

Fixpoint text_agrees (fuel : nat) (m i : list Z) : bool :=
  match fuel with
  | O => false
  | S f =>
    match m with
    | [] => match i with [] => true | _ => false end
    | c :: m' =>
      if c =? 1 then
        let '(ds, m2) := span_digits m' in
        match m2 with
        | _ :: m3 =>
          match scan_num N0 i with
          | Some (l, i') => lex_is_f64 l (digits_val ds 0) && text_agrees f m3 i'
          | None => false
          end
        | [] => false
        end
      else match i with c' :: i' => (c =? c') && text_agrees f m' i' | [] => false end
    end
  end.
