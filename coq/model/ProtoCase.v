(* Parsers for the case fields written by harness/protogen.go:
     pgSchema.caseFields  -> parse_schema  (root message name, abstract schema)
     pgVal.caseFields     -> parse_pval    (what the reference decoder reports, as a pval)
   Shared by the Protobuf properties (C07-C10, C20). No proofs needed: these only read test input. *)
From Coq Require Import ZArith List Bool.
From DG Require Import CaseFormat ProtoWireRef ProtoMsg.
Import ListNotations.
Local Open Scope Z_scope.

Definition count_ok (n : Z) : bool := (0 <=? n) && (n <=? 1000000).

(* ---- schema: x<root> n<#msgs> { x<name> n<#fields> { n<num> x<name> x<json> n<label> n<kind> n<keykind> x<msgname> } }
   label: 0 singular, 1 repeated (proto3 default packing: numeric kinds packed), 2 repeated [packed=false], 3 map *)
Definition mk_field (num : Z) (name json : list Z) (label kind keykind : Z) (msgname : list Z) : option fdesc :=
  let t := if kind =? K_MESSAGE then TMsg msgname else TScalar kind in
  if label =? 0 then Some (mk_fdesc num name json LSingular t)
  else if label =? 1 then Some (mk_fdesc num name json (LRepeated (type_numeric t)) t)
  else if label =? 2 then Some (mk_fdesc num name json (LRepeated false) t)
  else if label =? 3 then Some (mk_fdesc num name json (LMap keykind) t)
  else None.

Fixpoint parse_fdescs (n : nat) (fs : list field) : option (list fdesc * list field) :=
  match n with
  | O => Some ([], fs)
  | S n' =>
    match fs with
    | FZ num :: FB name :: FB json :: FZ label :: FZ kind :: FZ kk :: FB mn :: r =>
      match mk_field num name json label kind kk mn with
      | None => None
      | Some fd => match parse_fdescs n' r with Some (l, r') => Some (fd :: l, r') | None => None end
      end
    | _ => None
    end
  end.

Fixpoint parse_mdescs (n : nat) (fs : list field) : option (schema * list field) :=
  match n with
  | O => Some ([], fs)
  | S n' =>
    match fs with
    | FB name :: FZ nf :: r =>
      if negb (count_ok nf) then None else
      match parse_fdescs (Z.to_nat nf) r with
      | None => None
      | Some (fds, r') =>
        match parse_mdescs n' r' with Some (l, r'') => Some (mk_mdesc name fds :: l, r'') | None => None end
      end
    | _ => None
    end
  end.

Definition parse_schema (fs : list field) : option (list Z * schema * list field) :=
  match fs with
  | FB root :: FZ nm :: r =>
    if negb (count_ok nm) then None else
    match parse_mdescs (Z.to_nat nm) r with
    | Some (sc, r') => Some (root, sc, r')
    | None => None
    end
  | _ => None
  end.

(* ---- values (prefix code):
   message n1 n<#fields> { n<num> value } | scalar n2 n<kind> n<v> | string/bytes n3 n<kind> x<b>
   list n4 n<packed> n<kind> n<#elems> { value } | map n5 n<keykind> n<kind> n<#entries> { key value } *)
Section Loops.
  Variable p : list field -> option (pval * list field).

  Fixpoint parse_n (n : nat) (fs : list field) : option (list pval * list field) :=
    match n with
    | O => Some ([], fs)
    | S n' => match p fs with
              | Some (v, r) => match parse_n n' r with Some (l, r') => Some (v :: l, r') | None => None end
              | None => None
              end
    end.

  Fixpoint parse_nfields (n : nat) (fs : list field) : option (list (Z * pval) * list field) :=
    match n with
    | O => Some ([], fs)
    | S n' =>
      match fs with
      | FZ num :: r =>
        match p r with
        | Some (v, r1) => match parse_nfields n' r1 with Some (l, r2) => Some ((num, v) :: l, r2) | None => None end
        | None => None
        end
      | _ => None
      end
    end.

  Definition parse_key (fs : list field) : option (mkey * list field) :=
    match fs with
    | FZ 2 :: FZ k :: FZ v :: r => Some (KInt k v, r)
    | FZ 3 :: FZ _ :: FB b :: r => Some (KStr b, r)
    | _ => None
    end.

  Fixpoint parse_nentries (n : nat) (fs : list field) : option (list (mkey * pval) * list field) :=
    match n with
    | O => Some ([], fs)
    | S n' =>
      match parse_key fs with
      | Some (k, r) =>
        match p r with
        | Some (v, r1) => match parse_nentries n' r1 with Some (l, r2) => Some ((k, v) :: l, r2) | None => None end
        | None => None
        end
      | None => None
      end
    end.
End Loops.

Fixpoint parse_pval (fuel : nat) (fs : list field) : option (pval * list field) :=
  match fuel with
  | O => None
  | S f =>
    match fs with
    | FZ 1 :: FZ n :: r =>
      if negb (count_ok n) then None else
      match parse_nfields (parse_pval f) (Z.to_nat n) r with Some (l, r') => Some (VMsg l, r') | None => None end
    | FZ 2 :: FZ k :: FZ v :: r => Some (VScalar k v, r)
    | FZ 3 :: FZ k :: FB b :: r => Some (VBytes k b, r)
    | FZ 4 :: FZ pk :: FZ _ :: FZ n :: r =>
      if negb (count_ok n) then None else
      match parse_n (parse_pval f) (Z.to_nat n) r with Some (l, r') => Some (VList (pk =? 1) l, r') | None => None end
    | FZ 5 :: FZ _ :: FZ _ :: FZ n :: r =>
      if negb (count_ok n) then None else
      match parse_nentries (parse_pval f) (Z.to_nat n) r with Some (l, r') => Some (VMap l, r') | None => None end
    | _ => None
    end
  end.

(* a message value at the head of the fields *)
Definition parse_msg (fs : list field) : option (pmsg * list field) :=
  match parse_pval (S (length fs)) fs with
  | Some (VMsg l, r) => Some (l, r)
  | _ => None
  end.
