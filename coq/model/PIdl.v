(* C15 — Protobuf descriptors mirror the schema.

   Abstract proto3 schema (as the harness generates it), protobuf name resolution (innermost scope first),
   the elaboration [pelab] into the descriptor model of proto/idl.go + proto/descriptor.go, the lookup
   structures (FieldIDMap of internal/util/fieldmap.go; the name table that stores name AND JSON name),
   and an executable re-statement of the memoising traversal of proto/idl.go:parseMessage ([qparse]),
   parameterised by the memo key (simple name = what the code does; full name = what it should do).

   No proofs here (coq/proofs/PIdlProofs.v). Numbers are Z, byte strings are lists of Z. *)
From Coq Require Import ZArith List Bool.
From DG Require Import CaseFormat.
Import ListNotations.
Local Open Scope Z_scope.

Definition bytes := list Z.
Definition qname := list bytes.            (* fully-qualified name as its dot-separated components *)

Definition qname_eqb : qname -> qname -> bool := list_eqb bytes_eqb.

(* ------------------------------------------------------------------------------------------------ *)
(* schema AST                                                                                       *)

(* ProtoKind / proto.Type numbers (proto/type.go): 1 double 2 float 3 int64 4 uint64 5 int32 6 fixed64
   7 fixed32 8 bool 9 string 10 group 11 message 12 bytes 13 uint32 14 enum 15 sfixed32 16 sfixed64
   17 sint32 18 sint64; Type only: 19 LIST 20 MAP *)
Definition K_MESSAGE := 11.
Definition K_ENUM := 14.
Definition T_LIST := 19.
Definition T_MAP := 20.

Record fdecl := {
  fd_num : Z;
  fd_name : bytes;
  fd_json : option bytes;     (* explicit [json_name = "..."] or none (default lowerCamel) *)
  fd_label : Z;               (* 0 singular, 1 repeated, 2 map<k,v> *)
  fd_packopt : Z;             (* 0 no option, 1 [packed=true], 2 [packed=false] *)
  fd_keykind : Z;             (* map key kind (0 when not a map) *)
  fd_kind : Z;                (* scalar kind of the field / list element / map value; 0 = named type [fd_ref] *)
  fd_ref : bytes              (* possibly relative dotted type name, a leading '.' means fully qualified *)
}.

Inductive decl :=
| DMsg (full : qname) (fields : list fdecl)     (* nested declarations appear as further decls whose name extends this one *)
| DEnum (full : qname).

Record mdecl := { md_name : bytes; md_in : bytes; md_out : bytes; md_cs : bool; md_ss : bool }.
Record sdecl := { sd_name : bytes; sd_methods : list mdecl }.

Record pfile := {
  pf_path : bytes;
  pf_pkg : qname;
  pf_imports : list bytes;
  pf_decls : list decl;
  pf_svcs : list sdecl
}.

Definition schema := list pfile.   (* head = the file handed to the parser *)

(* ------------------------------------------------------------------------------------------------ *)
(* names                                                                                            *)

Fixpoint split_dots_aux (cur : bytes) (s : bytes) : list bytes :=
  match s with
  | [] => [rev cur]
  | c :: r => if c =? 46 then rev cur :: split_dots_aux [] r else split_dots_aux (c :: cur) r
  end.
Definition split_dots (s : bytes) : qname := match s with [] => [] | _ => split_dots_aux [] s end.

Fixpoint join_dots (q : qname) : bytes :=
  match q with
  | [] => []
  | [a] => a
  | a :: r => a ++ 46 :: join_dots r
  end.

Definition upper (c : Z) : Z := if (97 <=? c) && (c <=? 122) then c - 32 else c.

(* default JSON name (protoc ToJsonName / protoparse internal.JsonName): drop '_', upper-case what follows *)
Fixpoint json_go (up : bool) (s : bytes) : bytes :=
  match s with
  | [] => []
  | c :: r => if c =? 95 then json_go true r else (if up then upper c else c) :: json_go false r
  end.
Definition json_default (s : bytes) : bytes := json_go false s.

Definition initcap (s : bytes) : bytes := match s with [] => [] | c :: r => upper c :: r end.
(* name of the synthetic nested message of a map field: InitCap(JsonName(field)) ++ "Entry" *)
Definition entry_name (fname : bytes) : bytes := initcap (json_default fname) ++ [69; 110; 116; 114; 121].

Definition last_comp (q : qname) : bytes := last q [].

(* ------------------------------------------------------------------------------------------------ *)
(* symbols visible from a file, and protobuf scoping resolution                                     *)

Definition S_MSG := 1.
Definition S_ENUM := 2.
Definition S_PKG := 3.
Definition symtab := list (qname * Z).

Fixpoint find_sym (tab : symtab) (n : qname) : option Z :=
  match tab with
  | [] => None
  | (m, k) :: r => if qname_eqb m n then Some k else find_sym r n
  end.

Definition is_map_field (fd : fdecl) : bool := fd_label fd =? 2.

Definition decl_syms (d : decl) : symtab :=
  match d with
  | DMsg m fds => (m, S_MSG) :: map (fun fd => (m ++ [entry_name (fd_name fd)], S_MSG)) (filter is_map_field fds)
  | DEnum e => [(e, S_ENUM)]
  end.

(* every non-empty prefix of the package is a (package) symbol *)
Fixpoint prefixes (q : qname) : list qname :=
  match q with
  | [] => []
  | a :: r => [a] :: map (cons a) (prefixes r)
  end.

Definition file_syms (f : pfile) : symtab :=
  flat_map decl_syms (pf_decls f) ++ map (fun p => (p, S_PKG)) (prefixes (pf_pkg f)).

Definition imports_of (s : schema) (f : pfile) : list pfile :=
  filter (fun g => existsb (bytes_eqb (pf_path g)) (pf_imports f)) s.

(* a file sees its own declarations and those of the files it imports directly *)
Definition symtab_of (s : schema) (f : pfile) : symtab :=
  file_syms f ++ flat_map file_syms (imports_of s f).

Definition is_type (k : Z) : bool := (k =? S_MSG) || (k =? S_ENUM).
Definition is_aggregate (k : Z) : bool := (k =? S_MSG) || (k =? S_PKG).

(* enclosing scopes, innermost first: [a;b;c] -> [a;b;c]; [a;b]; [a]; [] *)
Fixpoint scopes_of (n : nat) (sc : qname) : list qname :=
  match n with
  | O => [sc]
  | S n' => sc :: scopes_of n' (removelast sc)
  end.
Definition scopes (sc : qname) : list qname := scopes_of (length sc) sc.

(* protoc's LookupSymbol: the FIRST component is searched innermost-first; once it is found as an
   aggregate (message / package), the rest of the name is looked up inside it and nowhere else *)
Fixpoint resolve_in (tab : symtab) (first : bytes) (rest : list bytes) (scs : list qname) : option (qname * Z) :=
  match scs with
  | [] => None
  | sc :: more =>
    match find_sym tab (sc ++ [first]) with
    | Some k =>
      match rest with
      | [] => if is_type k then Some (sc ++ [first], k) else resolve_in tab first rest more
      | _ => if is_aggregate k
             then match find_sym tab (sc ++ first :: rest) with
                  | Some k' => if is_type k' then Some (sc ++ first :: rest, k') else None
                  | None => None
                  end
             else resolve_in tab first rest more
      end
    | None => resolve_in tab first rest more
    end
  end.

Definition resolve (tab : symtab) (scope : qname) (ref : bytes) : option (qname * Z) :=
  match ref with
  | [] => None
  | c :: abs =>
    if c =? 46 then
      (* leading '.': fully qualified *)
      let n := split_dots abs in
      match find_sym tab n with
      | Some k => if is_type k then Some (n, k) else None
      | None => None
      end
    else
      match split_dots ref with
      | [] => None
      | first :: rest => resolve_in tab first rest (scopes scope)
      end
  end.

(* ------------------------------------------------------------------------------------------------ *)
(* descriptor model                                                                                 *)

(* what the public accessors of a proto.FieldDescriptor expose; R = how a message descriptor is
   referred to (its fully-qualified name in the specification, a node number in a concrete graph) *)
Record mfield (R : Type) := {
  mf_num : Z; mf_name : bytes; mf_json : bytes;
  mf_kind : Z;               (* FieldDescriptor.Kind(): element kind; MessageKind for maps *)
  mf_ty : Z;                 (* Type().Type(): element type, LIST, MAP *)
  mf_list : bool; mf_map : bool; mf_packed : bool;
  mf_keyty : Z;              (* MapKey().Type() or 0 *)
  mf_elemty : Z;             (* Elem().Type() of LIST / MAP, or 0 *)
  mf_tmsg : option R;        (* Type().Message(): the message / the element message of a list / the ENTRY message of a map *)
  mf_emsg : option R         (* Elem().Message() of LIST / MAP (the value message of a map) *)
}.
Arguments mf_num {R}. Arguments mf_name {R}. Arguments mf_json {R}. Arguments mf_kind {R}. Arguments mf_ty {R}.
Arguments mf_list {R}. Arguments mf_map {R}. Arguments mf_packed {R}. Arguments mf_keyty {R}. Arguments mf_elemty {R}.
Arguments mf_tmsg {R}. Arguments mf_emsg {R}.

(* proto3: repeated scalars other than string/bytes (and enums) are packed unless [packed=false] *)
Definition packable (k : Z) : bool := negb (k =? 9) && negb (k =? K_MESSAGE) && negb (k =? 12) && negb (k =? 0).

Definition json_of (fd : fdecl) : bytes :=
  match fd_json fd with Some j => j | None => json_default (fd_name fd) end.

(* kind and message target of the declared (element / value) type *)
Definition elem_of (tab : symtab) (m : qname) (fd : fdecl) : Z * option qname :=
  if fd_kind fd =? 0 then
    match resolve tab m (fd_ref fd) with
    | Some (f, k) => if k =? S_MSG then (K_MESSAGE, Some f) else (K_ENUM, None)
    | None => (0, None)
    end
  else (fd_kind fd, None).

Definition elab_field (tab : symtab) (m : qname) (fd : fdecl) : mfield qname :=
  let '(ek, em) := elem_of tab m fd in
  if fd_label fd =? 0 then
    {| mf_num := fd_num fd; mf_name := fd_name fd; mf_json := json_of fd; mf_kind := ek; mf_ty := ek;
       mf_list := false; mf_map := false; mf_packed := false; mf_keyty := 0; mf_elemty := 0;
       mf_tmsg := em; mf_emsg := None |}
  else if fd_label fd =? 1 then
    {| mf_num := fd_num fd; mf_name := fd_name fd; mf_json := json_of fd; mf_kind := ek; mf_ty := T_LIST;
       mf_list := true; mf_map := false; mf_packed := packable ek && negb (fd_packopt fd =? 2);
       mf_keyty := 0; mf_elemty := ek; mf_tmsg := em; mf_emsg := em |}
  else
    {| mf_num := fd_num fd; mf_name := fd_name fd; mf_json := json_of fd; mf_kind := K_MESSAGE; mf_ty := T_MAP;
       mf_list := false; mf_map := true; mf_packed := false; mf_keyty := fd_keykind fd; mf_elemty := ek;
       mf_tmsg := Some (m ++ [entry_name (fd_name fd)]); mf_emsg := em |}.

Definition b_key : bytes := [107; 101; 121].
Definition b_value : bytes := [118; 97; 108; 117; 101].

(* the synthetic entry message of a map field: 1 key, 2 value *)
Definition entry_fields (tab : symtab) (m : qname) (fd : fdecl) : list (mfield qname) :=
  let '(ek, em) := elem_of tab m fd in
  [ {| mf_num := 1; mf_name := b_key; mf_json := b_key; mf_kind := fd_keykind fd; mf_ty := fd_keykind fd;
       mf_list := false; mf_map := false; mf_packed := false; mf_keyty := 0; mf_elemty := 0; mf_tmsg := None; mf_emsg := None |};
    {| mf_num := 2; mf_name := b_value; mf_json := b_value; mf_kind := ek; mf_ty := ek;
       mf_list := false; mf_map := false; mf_packed := false; mf_keyty := 0; mf_elemty := 0; mf_tmsg := em; mf_emsg := None |} ].

Definition msgtab := list (qname * list (mfield qname)).

Definition decl_msgs (tab : symtab) (d : decl) : msgtab :=
  match d with
  | DMsg m fds =>
    (m, map (elab_field tab m) fds)
      :: map (fun fd => (m ++ [entry_name (fd_name fd)], entry_fields tab m fd)) (filter is_map_field fds)
  | DEnum _ => []
  end.

Definition file_msgs (s : schema) (f : pfile) : msgtab := flat_map (decl_msgs (symtab_of s f)) (pf_decls f).
Definition msg_table (s : schema) : msgtab := flat_map (file_msgs s) s.

Fixpoint lookup_msg (t : msgtab) (n : qname) : option (list (mfield qname)) :=
  match t with
  | [] => None
  | (m, fs) :: r => if qname_eqb m n then Some fs else lookup_msg r n
  end.

(* ---- services *)
Record pmethod := { pm_name : bytes; pm_cs : bool; pm_ss : bool; pm_in : option qname; pm_out : option qname }.

Definition resolve_msg (tab : symtab) (scope : qname) (ref : bytes) : option qname :=
  match resolve tab scope ref with
  | Some (f, k) => if k =? S_MSG then Some f else None
  | None => None
  end.

Definition elab_method (tab : symtab) (pkg : qname) (m : mdecl) : pmethod :=
  {| pm_name := md_name m; pm_cs := md_cs m; pm_ss := md_ss m;
     pm_in := resolve_msg tab pkg (md_in m); pm_out := resolve_msg tab pkg (md_out m) |}.

Definition b_combined : bytes := [67;111;109;98;105;110;101;100;83;101;114;118;105;99;101]. (* "CombinedService" *)

(* meta.ParseServiceMode: 0 LastServiceOnly, 1 FirstServiceOnly, 2 CombineServices *)
Definition select_svcs (mode : Z) (svcs : list sdecl) : list sdecl :=
  if mode =? 0 then match rev svcs with [] => [] | x :: _ => [x] end
  else if mode =? 1 then match svcs with [] => [] | x :: _ => [x] end
  else svcs.

Definition svc_name (mode : Z) (svcs : list sdecl) : bytes :=
  if mode =? 2 then b_combined else match select_svcs mode svcs with x :: _ => sd_name x | [] => [] end.

Record pdesc := {
  pd_svc : bytes;
  pd_pkg : qname;
  pd_methods : list pmethod;       (* in declaration order *)
  pd_msgs : msgtab
}.

Definition main_file (s : schema) : pfile :=
  match s with f :: _ => f | [] => {| pf_path := []; pf_pkg := []; pf_imports := []; pf_decls := []; pf_svcs := [] |} end.

Definition pelab (mode : Z) (s : schema) : pdesc :=
  let f := main_file s in
  let tab := symtab_of s f in
  {| pd_svc := svc_name mode (pf_svcs f);
     pd_pkg := pf_pkg f;
     pd_methods := flat_map (fun sv => map (elab_method tab (pf_pkg f)) (sd_methods sv)) (select_svcs mode (pf_svcs f));
     pd_msgs := msg_table s |}.

(* ------------------------------------------------------------------------------------------------ *)
(* lookup structures                                                                                *)

(* last binding wins (Set replaces) *)
Fixpoint assoc_last {A} (k : Z) (kvs : list (Z * A)) : option A :=
  match kvs with
  | [] => None
  | (k', v) :: r => match assoc_last k r with Some x => Some x | None => if k' =? k then Some v else None end
  end.

Fixpoint assocb_last {A} (k : bytes) (kvs : list (bytes * A)) : option A :=
  match kvs with
  | [] => None
  | (k', v) :: r => match assocb_last k r with Some x => Some x | None => if bytes_eqb k' k then Some v else None end
  end.

(* util.FieldIDMap: a slice indexed by id, grown on demand; nil = hole.
   Get: `if int(id) >= len(m) { return nil }; return m[id]` — a negative id indexes out of range (Go panics). *)
Inductive lookup_res (A : Type) := LPanic | LRes (r : option A).
Arguments LPanic {A}. Arguments LRes {A}.

Fixpoint set_nth {A} (n : nat) (v : option A) (m : list (option A)) : list (option A) :=
  match n, m with
  | O, [] => [v]
  | O, _ :: r => v :: r
  | S n', [] => None :: set_nth n' v []
  | S n', x :: r => x :: set_nth n' v r
  end.

(* Set(id, f) for id >= 0: grow to id+1 slots (copy), store *)
Definition fid_set {A} (m : list (option A)) (id : Z) (v : A) : list (option A) := set_nth (Z.to_nat id) (Some v) m.

Definition fid_build {A} (kvs : list (Z * A)) : list (option A) :=
  fold_left (fun m kv => fid_set m (fst kv) (snd kv)) kvs [].

Definition fid_get {A} (m : list (option A)) (id : Z) : lookup_res A :=
  if id <? 0 then LPanic
  else if Z.of_nat (length m) <=? id then LRes None
  else LRes (nth (Z.to_nat id) m None).

(* FieldIDMap.Size() = len(m); MessageDescriptor.FieldsCount() = Size()-1 (= the largest number, not a count) *)
Definition fid_size {A} (m : list (option A)) : Z := Z.of_nat (length m).

(* util.FieldNameMap.Set: replace the value of an existing key in place, else append; Get finds the key
   (the trie / hash structure built over [all] is C14's refinement; here Get is the search of [all]) *)
Fixpoint fnm_set {A} (all : list (bytes * A)) (k : bytes) (v : A) : list (bytes * A) :=
  match all with
  | [] => [(k, v)]
  | (k', v') :: r => if bytes_eqb k' k then (k', v) :: r else (k', v') :: fnm_set r k v
  end.

Definition fnm_build {A} (kvs : list (bytes * A)) : list (bytes * A) :=
  fold_left (fun m kv => fnm_set m (fst kv) (snd kv)) kvs [].

Fixpoint fnm_get {A} (all : list (bytes * A)) (k : bytes) : option A :=
  match all with
  | [] => None
  | (k', v) :: r => if bytes_eqb k' k then Some v else fnm_get r k
  end.

Section Lookups.
  Context {R : Type}.
  (* md.ids.Set(number, f) for every field, in declaration order *)
  Definition ids_of (fs : list (mfield R)) : list (option (mfield R)) := fid_build (map (fun f => (mf_num f, f)) fs).
  Definition by_number (fs : list (mfield R)) (n : Z) : lookup_res (mfield R) := fid_get (ids_of fs) n.
  (* md.names.Set(name, f); md.names.Set(jsonName, f): ONE table serves ByName and ByJSONName *)
  Definition names_of (fs : list (mfield R)) : list (bytes * mfield R) :=
    fnm_build (flat_map (fun f => [(mf_name f, f); (mf_json f, f)]) fs).
  Definition by_key (fs : list (mfield R)) (k : bytes) : option (mfield R) := fnm_get (names_of fs) k.
  Definition fields_count (fs : list (mfield R)) : Z := fid_size (ids_of fs) - 1.

  (* specification level of the two lookups (what the checker evaluates; proved equal to the structures
     above in PIdlProofs: by_number_refines / by_key_refines) *)
  Definition by_number_spec (fs : list (mfield R)) (n : Z) : lookup_res (mfield R) :=
    if n <? 0 then LPanic else LRes (assoc_last n (map (fun f => (mf_num f, f)) fs)).
  Definition by_key_spec (fs : list (mfield R)) (k : bytes) : option (mfield R) :=
    assocb_last k (flat_map (fun f => [(mf_name f, f); (mf_json f, f)]) fs).
End Lookups.

(* ServiceDescriptor.methods: Go map keyed by method name, later declarations overwrite *)
Definition method_by_name (d : pdesc) (k : bytes) : option pmethod :=
  assocb_last k (map (fun m => (pm_name m, m)) (pd_methods d)).

(* ------------------------------------------------------------------------------------------------ *)
(* the traversal of proto/idl.go:parse/parseMessage with its memo ("compilingCache")                 *)

(* keyf = what the memo is keyed by. The code uses msgDesc.GetName() = the SIMPLE name. *)
Definition key_simple (q : qname) : bytes := last_comp q.
Definition key_full (q : qname) : bytes := join_dots q.

Record qstate := {
  q_cache : list (bytes * (Z * Z));                  (* key -> (parse target, node) ; Go map: one entry per key *)
  q_nodes : list (qname * list (mfield Z))           (* node i = i-th element: built from which declaration, fields *)
}.

(* the memo is a Go map: lookup = search of the key list maintained by [fnm_set] (replace or append) *)
Definition cache_get (c : list (bytes * (Z * Z))) (k : bytes) : option (Z * Z) := fnm_get c k.

Fixpoint set_node (n : nat) (v : qname * list (mfield Z)) (l : list (qname * list (mfield Z))) :=
  match n, l with
  | O, _ :: r => v :: r
  | S n', x :: r => x :: set_node n' v r
  | _, [] => []
  end.

Definition conv_field (f : mfield qname) (t e : option Z) : mfield Z :=
  {| mf_num := mf_num f; mf_name := mf_name f; mf_json := mf_json f; mf_kind := mf_kind f; mf_ty := mf_ty f;
     mf_list := mf_list f; mf_map := mf_map f; mf_packed := mf_packed f; mf_keyty := mf_keyty f; mf_elemty := mf_elemty f;
     mf_tmsg := t; mf_emsg := e |}.

(* one field of parseMessage's loop; [rec] = parseMessage on a message type (same cache, same target) *)
Definition qfield_step (rec : qname -> qstate -> Z * qstate) (acc : list (mfield Z) * qstate) (f : mfield qname)
  : list (mfield Z) * qstate :=
  let '(out, s) := acc in
  if mf_map f then
    let '(e, s1) := match mf_emsg f with
                    | Some v => let '(i, s') := rec v s in (Some i, s')
                    | None => (None, s) end in
    let '(t, s2) := match mf_tmsg f with
                    | Some v => let '(i, s') := rec v s1 in (Some i, s')
                    | None => (None, s1) end in
    (conv_field f t e :: out, s2)
  else
    match mf_tmsg f with
    | Some v => let '(i, s') := rec v s in
                (conv_field f (Some i) (if mf_list f then Some i else None) :: out, s')
    | None => (conv_field f None None :: out, s)
    end.

Section QParse.
  Variable keyf : qname -> bytes.
  Variable tbl : msgtab.

  (* parseMessage(msg, cache, target): memo hit iff an entry with this key AND this target exists; otherwise a new
     descriptor is registered BEFORE its fields are walked (recursion), replacing any entry with that key.
     Per field: map -> value message first, then the entry message; otherwise the message type if any. *)
  Fixpoint qparse (fuel : nat) (target : Z) (m : qname) (st : qstate) : Z * qstate :=
    match fuel with
    | O => (-1, st)
    | S fuel' =>
      let hit := match cache_get (q_cache st) (keyf m) with
                 | Some (tg, nd) => if tg =? target then Some nd else None
                 | None => None
                 end in
      match hit with
      | Some nd => (nd, st)
      | None =>
        let nd := Z.of_nat (length (q_nodes st)) in
        let st1 := {| q_cache := fnm_set (q_cache st) (keyf m) (target, nd); q_nodes := q_nodes st ++ [(m, [])] |} in
        let decls := match lookup_msg tbl m with Some fs => fs | None => [] end in
        let '(rfs, st2) := fold_left (qfield_step (qparse fuel' target)) decls ([], st1) in
        (nd, {| q_cache := q_cache st2; q_nodes := set_node (Z.to_nat nd) (m, rev rfs) (q_nodes st2) |})
      end
    end.

  (* parse: for each selected method in order: input with target Request (0), output with target Response (1) *)
  Definition qparse_opt (fuel : nat) (target : Z) (m : option qname) (st : qstate) : Z * qstate :=
    match m with Some q => qparse fuel target q st | None => (-1, st) end.

  Definition qmethod_step (fuel : nat) (acc : list (pmethod * Z * Z) * qstate) (pm : pmethod) : list (pmethod * Z * Z) * qstate :=
    let '(out, s) := acc in
    let '(i, s1) := qparse_opt fuel 0 (pm_in pm) s in
    let '(o, s2) := qparse_opt fuel 1 (pm_out pm) s1 in
    (out ++ [(pm, i, o)], s2).

  Definition qmethods (fuel : nat) (ms : list pmethod) : list (pmethod * Z * Z) * qstate :=
    fold_left (qmethod_step fuel) ms ([], {| q_cache := []; q_nodes := [] |}).
End QParse.

(* which declaration the node reached from node [i] along the message-typed fields [path] was built from *)
Fixpoint q_follow (nodes : list (qname * list (mfield Z))) (path : list Z) (i : Z) : option qname :=
  match nth_error nodes (Z.to_nat i) with
  | None => None
  | Some (nm, fs) =>
    match path with
    | [] => Some nm
    | n :: p =>
      match by_number_spec fs n with
      | LRes (Some f) => match mf_tmsg f with Some j => q_follow nodes p j | None => None end
      | _ => None
      end
    end
  end.

(* the same walk in the specification table *)
Fixpoint spec_follow (t : msgtab) (path : list Z) (m : qname) : option qname :=
  match lookup_msg t m with
  | None => None
  | Some fs =>
    match path with
    | [] => Some m
    | n :: p =>
      match by_number_spec fs n with
      | LRes (Some f) => match mf_tmsg f with Some j => spec_follow t p j | None => None end
      | _ => None
      end
    end
  end.
