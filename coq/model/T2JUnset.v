(* Thrift -> JSON with the options that WRITE fields the message does not carry (WriteDefaultField, WriteRequireField;
   conv/t2j handleUnsets + thrift.RequiresBitmap.HandleRequires).  [json_ofw] / [t2j_specw] generalise [json_of] /
   [t2j_spec] of T2J.v (which they equal when both options are off: proofs/T2JUnsetProofs.v); T2J.v itself is left as it
   is because the C13 development is stated over it.

   After the members of the present fields, the declared fields that were not met are visited in ASCENDING FIELD ID
   (bitmap scan): a required one is written as its zero value under WriteRequireField and is an error otherwise; a
   default-requiredness one is written under WriteDefaultField; optional ones never (they are not in the bitmap).
   The key is the alias, the value the type's zero value (no IDL default values in this model): false, 0, "", [], {}.
   Model only. *)
From Coq Require Import ZArith List Bool.
From DG Require Import ProtoWireRef ThriftWire Json Num Base64 T2J.
Import ListNotations.
Local Open Scope Z_scope.

Definition o_write_default (o : Z) := Z.testbit o 9.
Definition o_write_required (o : Z) := Z.testbit o 10.

Definition zero_of (d : tdesc) : jexp :=
  match d with
  | DScalar t => if t =? T_BOOL then EBool false else if t =? T_DOUBLE then EDouble 0 else EInt 0
  | DString _ => EStr []
  | DStruct _ => EObj []
  | DMap _ _ => EObj []
  | DList _ _ => EArr []
  end.

Fixpoint insert_fld (f : fmeta * tdesc) (l : list (fmeta * tdesc)) : list (fmeta * tdesc) :=
  match l with
  | [] => [f]
  | g :: r => if f_id (fst f) <=? f_id (fst g) then f :: l else g :: insert_fld f r
  end.
Definition sort_flds (fs : list (fmeta * tdesc)) : list (fmeta * tdesc) := fold_right insert_fld [] fs.

Definition is_present (present : list Z) (f : fmeta * tdesc) : bool := existsb (fun id => id =? f_id (fst f)) present.

(* the members written for the fields that were not met (fs in scan order) *)
Fixpoint unset_walk (o : Z) (fs : list (fmeta * tdesc)) (present : list Z) : list (list Z * jexp) + Z :=
  match fs with
  | [] => inl []
  | f :: r =>
    if is_present present f then unset_walk o r present
    else if f_req (fst f) =? 1 then
      (if o_write_required o
       then match unset_walk o r present with inl us => inl ((f_key (fst f), zero_of (snd f)) :: us) | inr c => inr c end
       else inr E_REQUIRED)
    else if (f_req (fst f) =? 0) && o_write_default o then
      match unset_walk o r present with inl us => inl ((f_key (fst f), zero_of (snd f)) :: us) | inr c => inr c end
    else unset_walk o r present
  end.

Definition unset_members (o : Z) (fs : list (fmeta * tdesc)) (present : list Z) : list (list Z * jexp) + Z :=
  unset_walk o (sort_flds fs) present.

Fixpoint json_ofw (o : Z) (d : tdesc) (v : tval) {struct v} : tres :=
  match v with
  | VBool b => TOk (EBool (b =? 1))
  | VByte z => TOk (EInt (byte_image o z))
  | VI16 z | VI32 z => TOk (EInt z)
  | VI64 z => TOk (if o_int642string o then EQuoted (EInt z) else EInt z)
  | VDouble b => TOk (EDouble b)
  | VString s =>
    match d with
    | DString true => TOk (EStr (if o_no_base64 o then s else b64_encode s))
    | _ => TOk (EStr s)
    end
  | VStruct vs =>
    match d with
    | DStruct fs =>
      match members_of (map (fun iv =>
                match find_field fs (fst iv) with
                | None => if o_disallow_unknown o then FErr E_UNKNOWN else FDrop
                | Some f =>
                  match (if o_value_mapping o && f_jsconv (fst f) then jsconv o (snd iv) else json_ofw o (snd f) (snd iv)) with
                  | TOk e => FMem (f_key (fst f)) e
                  | TExc _ => FErr 0
                  | TErr c => FErr c
                  end
                end) vs) with
      | inr c => TErr c
      | inl ms => match unset_members o fs (map fst vs) with inr c => TErr c | inl us => TOk (EObj (ms ++ us)) end
      end
    | _ => TErr 0
    end
  | VMap _ _ es =>
    match d with
    | DMap dk dv =>
      match keyed (map (fun e => key_of o (fst e)) es) (map (fun e => json_ofw o dv (snd e)) es) with
      | inl ms => TOk (EObj ms)
      | inr c => TErr c
      end
    | _ => TErr 0
    end
  | VSet _ es | VList _ es =>
    match d with
    | DList _ de => match all_ok (map (json_ofw o de) es) with inl xs => TOk (EArr xs) | inr c => TErr c end
    | _ => TErr 0
    end
  end.

Definition field_valuew (o : Z) (f : fmeta * tdesc) (x : tval) : tres :=
  if o_value_mapping o && f_jsconv (fst f) then jsconv o x else json_ofw o (snd f) x.

(* the root walk of T2J.v with the unset members appended at the end (ConvertException: only the required check —
   what handleUnsets would append to the error text is not modelled, the harness does not combine the options) *)
Fixpoint root_walkw (o : Z) (fs : list (fmeta * tdesc)) (vs : list (Z * tval))
                    (acc : list (list Z * jexp)) (seen : list Z) (bs : option tval) : tres * option tval :=
  match vs with
  | [] => (match unset_members o fs seen with inr c => TErr c | inl us => TOk (EObj (rev acc ++ us)) end, bs)
  | (id, x) :: r =>
    match find_field fs id with
    | None => if o_disallow_unknown o then (TErr E_UNKNOWN, bs) else root_walkw o fs r acc seen bs
    | Some f =>
      if o_thrift_base o && o_base_in_ctx o && f_respbase (fst f) then root_walkw o fs r acc (id :: seen) (Some x)
      else if o_convert_exception o && negb (id =? 0) then
        match field_valuew o f x with
        | TOk e => (if negb (forallb (fun m => jexp_finite (snd m)) acc) then TErr E_NONFINITE
                    else match unset_members o fs (id :: seen) with inr c => TErr c | inl _ => TExc e end, bs)
        | TExc _ => (TErr 0, bs)
        | TErr c => (TErr c, bs)
        end
      else
        match field_valuew o f x with
        | TOk e => root_walkw o fs r ((f_key (fst f), e) :: acc) (id :: seen) bs
        | TExc _ => (TErr 0, bs)
        | TErr c => (TErr c, bs)
        end
    end
  end.

Definition t2j_specw (o : Z) (d : tdesc) (v : tval) : tres * option tval :=
  match d, v with
  | DStruct fs, VStruct vs => root_walkw o fs vs [] [] None
  | _, _ => (json_ofw o d v, None)
  end.
