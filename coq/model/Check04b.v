(* C04, SetMany: several distinct children of ONE container are set in one call. Model: the existing ones are
   replaced (addressing refers to the original value), the absent ones are inserted; result bytes must be the
   encoding of that value. The order of several insertions is left open by the property (drift). *)
From Coq Require Import ZArith List Bool.
From DG Require Import CaseFormat ProtoWireRef ThriftWire ThriftGeneric ThriftEdit Check01 Check01b.
Import ListNotations.
Local Open Scope Z_scope.

Fixpoint parse_many (n : nat) (fs : list field) : option (list (pstep * Z * list Z) * list field) :=
  match n with
  | O => Some ([], fs)
  | S n' =>
    match parse_steps 1 fs with
    | Some ([s], FZ st :: FB sb :: r) =>
      match parse_many n' r with Some (l, r') => Some ((s, st, sb) :: l, r') | None => None end
    | _ => None
    end
  end.

Fixpoint decode_items (l : list (pstep * Z * list Z)) : option (list (pstep * tval)) :=
  match l with
  | [] => Some []
  | (s, st, sb) :: r =>
    match decode_all st sb, decode_items r with
    | Some x, Some r' => Some ((s, x) :: r')
    | _, _ => None
    end
  end.

Fixpoint set_seq (front : bool) (items : list (pstep * tval)) (v : tval) : option tval :=
  match items with
  | [] => Some v
  | (s, x) :: r => match ast_set front [s] x v with Some (v', _) => set_seq front r v' | None => None end
  end.

Definition is_present (v : tval) (it : pstep * tval) : bool :=
  match lookup1 v (fst it) with LFound _ _ => true | _ => false end.

(* replacements first (they do not move anything), then the insertions in the given order *)
Definition set_many (front : bool) (rev_ins : bool) (items : list (pstep * tval)) (v : tval) : option tval :=
  let pres := filter (is_present v) items in
  let abs := filter (fun it => negb (is_present v it)) items in
  match set_seq front pres v with
  | Some v1 => set_seq front (if rev_ins then rev abs else abs) v1
  | None => None
  end.

Definition res_is (res : list Z) (o : option tval) : bool :=
  match o with Some v' => bytes_eqb res (encode v') | None => false end.

(* known deviation 407 (consequence of finding 104): SetMany looks the requested children up with Gets; on a MAP with
   >= 2 requested keys Gets misses present keys (they are then INSERTED again, the map gets a duplicate key) or fails
   with a read error (SetMany returns it, value unchanged). Model: the keys the round-robin model of Gets reports as
   found are replaced, all others are inserted. *)
Definition force_ins (front : bool) (it : pstep * tval) (v : tval) : option tval :=
  match v with
  | VMap kt vt es => match key_of_step kt (fst it) with Some kv => Some (VMap kt vt (ins front (kv, snd it) es)) | None => None end
  | _ => None
  end.

Fixpoint force_seq (front : bool) (items : list (pstep * tval)) (v : tval) : option tval :=
  match items with
  | [] => Some v
  | it :: r => match force_ins front it v with Some v' => force_seq front r v' | None => None end
  end.

Fixpoint zip_found (items : list (pstep * tval)) (qs : list quad) : list ((pstep * tval) * bool) :=
  match items, qs with
  | it :: r, (st, _, _, _) :: qr => (it, st =? 0) :: zip_found r qr
  | _, _ => []
  end.

Definition many_quirk_407 (rev_ins : bool) (items : list (pstep * tval)) (v : tval) : option (Z * option tval) :=
  match v with
  | VMap _ _ es =>
    let '(okq, qs) := gets_quirk es (map fst items) in
    if negb okq then Some (1, None) else
    let z := zip_found items qs in
    let pres := map fst (filter snd z) in
    let abs := map fst (filter (fun x => negb (snd x)) z) in
    match set_seq true pres v with
    | Some v1 => match force_seq true (if rev_ins then rev abs else abs) v1 with Some v2 => Some (0, Some v2) | None => None end
    | None => None
    end
  | _ => None
  end.

Definition is_407 (items : list (pstep * tval)) (v : tval) (bs : list Z) (err : Z) (res : list Z) : bool :=
  (2 <=? zlen items) &&
  let m (r : bool) := match many_quirk_407 r items v with
                      | Some (e, Some v') => (err =? e) && bytes_eqb res (encode v')
                      | Some (e, None) => (err =? e) && bytes_eqb res bs
                      | None => false
                      end in
  m false || m true.

(* 402: fields = type, container bytes, n, (step, sub type, sub bytes)*, err, result bytes, flags *)
Definition check_402 (fs : list field) : verdict :=
  match fs with
  | FZ t :: FB bs :: FZ n :: rest =>
    if (n <? 0) || (n >? 1000) then VBad 99 [] else
    match parse_many (Z.to_nat n) rest with
    | Some (raw_items, [FZ err; FB res; FZ flags]) =>
      match decode_all t bs, decode_items raw_items with
      | Some v, Some items =>
        if negb (wf v) then VSkip else
        if negb (Z.odd flags) then VBad 1000 [] else
        match set_many true false items v with
        | None => if (err =? 1) && bytes_eqb res bs then VOk else if is_407 items v bs err res then VKnown 407 else VBad 100 [FZ 1; FB bs]
        | Some v' =>
          if (err =? 0) && bytes_eqb res (encode v') then VOk
          else if (err =? 0) && (res_is res (set_many true true items v) || res_is res (set_many false false items v)
                                 || res_is res (set_many false true items v)) then VDrift 2
          else if is_407 items v bs err res then VKnown 407
          else VBad 200 [FZ 0; FB (encode v')]
        end
      | _, _ => VSkip
      end
    | _ => VBad 99 []
    end
  | _ => VBad 99 []
  end.
