(* Correspondence checks for C12 (concurrency safety, no aliasing of results). The observations are made by the Go
   harness (harness/c12.go: results compared with the sequential oracle = the implementation run alone, inputs and
   descriptor dumps compared before/after, held results re-validated after pool churn); the judgement is here. *)
From Coq Require Import ZArith List Bool.
From DG Require Import CaseFormat.
Import ListNotations.
Local Open Scope Z_scope.

(* 1201: one (round, operation kind). fields: kind, goroutines, GOMAXPROCS, calls,
   equal-to-sequential flag, shared-inputs-unchanged flag, descriptors-unchanged flag, retained-results-intact flag *)
Definition check_1201 (fs : list field) : verdict :=
  match fs with
  | [FZ kind; FZ g; FZ p; FZ calls; FZ eq; FZ inok; FZ descok; FZ retok] =>
    (* a line without calls only reports the retention of results handed out in an earlier round *)
    if (calls <=? 0) && (eq =? 1) && (inok =? 1) && (descok =? 1) && (retok =? 1) then VSkip else
    vand (expect 1 (eq =? 1) [FZ kind; FZ g; FZ p])
   (vand (expect 2 (inok =? 1) [FZ kind; FZ g; FZ p])
   (vand (expect 3 (descok =? 1) [FZ kind; FZ g; FZ p])
         (expect 4 (retok =? 1) [FZ kind; FZ g; FZ p])))
  | _ => VBad 99 []
  end.

(* what the code does when a protocol created by NewBinaryProtocol(buf) is recycled: the caller's array enters the pool
   and the next user of a pooled protocol appends its output into it, from offset 0 (the scenario gives the caller's
   array enough capacity for the whole later output, so the final bytes of that output are what is found there) *)
Definition quirk_recycled_input (before later : list Z) : list Z :=
  firstn (length before) (later ++ skipn (length later) before).

(* 1202: thrift NewBinaryProtocol(input); reads; Recycle(); then an unrelated PathNode.Marshal.
   fields: input before, input after, output of the later call, zero-copy string view before, after *)
Definition check_1202 (fs : list field) : verdict :=
  match fs with
  | [FB before; FB after; FB later; FB vb; FB va] =>
    if bytes_eqb after before then expect 2 (bytes_eqb va vb) [FB vb]
    else if bytes_eqb after (quirk_recycled_input before later) then VKnown 1201
    else VBad 1 [FB before]
  | _ => VBad 99 []
  end.

(* 1203: the same for proto/binary NewBinaryProtol(input) ... Recycle(). fields: input before, after, later output *)
Definition check_1203 (fs : list field) : verdict :=
  match fs with
  | [FB before; FB after; FB later] =>
    if bytes_eqb after before then VOk
    else if bytes_eqb after (quirk_recycled_input before later) then VKnown 1202
    else VBad 1 [FB before]
  | _ => VBad 99 []
  end.

(* 1204: error exits (sequential): failing calls at every position, successful calls in between still give the oracle
   result. fields: kind, calls, all-equal flag *)
Definition check_1204 (fs : list field) : verdict :=
  match fs with
  | [FZ kind; FZ calls; FZ good] => if calls <=? 0 then VSkip else expect 5 (good =? 1) [FZ kind]
  | _ => VBad 99 []
  end.

(* 1205: j2t.Do after sync.Pool misses, under allocation pressure (finding 1203). fields: max field id of the top-level
   struct, calls, spurious errors, wrong outputs (both relative to the same call run alone), and the same four numbers for
   the control descriptor. The known defect needs the top-level Requires() bitmap ((maxid / 64 + 1) * 8 bytes) to fill the
   fresh 4096-byte ReqsCache, so that the nested struct forces GrowReqCache while the outer state keeps a raw pointer into
   the old array; what is then read there is whatever the allocator put into it, so the deviation cannot be predicted -
   the selector is the scenario (bitmap >= 4096 bytes) together with a clean control (bitmap < 4096 bytes, same calls). *)
Definition reqs_bitmap_bytes (maxid : Z) : Z := (maxid / 64 + 1) * 8.

Definition check_1205 (fs : list field) : verdict :=
  match fs with
  | [FZ maxid; FZ calls; FZ errs; FZ wrong; FZ cmaxid; FZ ccalls; FZ cerrs; FZ cwrong] =>
    if (calls <=? 0) || (ccalls <=? 0) then VSkip else
    if negb ((cerrs =? 0) && (cwrong =? 0)) then VBad 6 [FZ cmaxid; FZ cerrs; FZ cwrong] else
    if (errs =? 0) && (wrong =? 0) then VOk else
    if (4096 <=? reqs_bitmap_bytes maxid) && (reqs_bitmap_bytes cmaxid <? 4096) then VKnown 1203
    else VBad 1 [FZ maxid; FZ errs; FZ wrong]
  | _ => VBad 99 []
  end.

(* 1206: the sequential phase (every operation run alone, twice, on the shared inputs). fields: number of shared inputs
   whose bytes differ from their pristine copies afterwards, number of operations whose two runs alone differed, number of
   descriptor dumps that changed *)
Definition check_1206 (fs : list field) : verdict :=
  match fs with
  | [FZ nin; FZ nunstable; FZ ndesc] =>
    vand (expect 2 (nin =? 0) [FZ nin]) (vand (expect 7 (nunstable =? 0) [FZ nunstable]) (expect 3 (ndesc =? 0) [FZ ndesc]))
  | _ => VBad 99 []
  end.

(* 1207: an HTTPRequest wrapper reused for a second request. fields: variant, result of the second conversion through the
   reused wrapper, result through a fresh wrapper around the same second request, result of the first conversion *)
Definition check_1207 (fs : list field) : verdict :=
  match fs with
  | [FZ variant; FB reused; FB fresh; FB first] =>
    if bytes_eqb reused fresh then VOk else VBad 8 [FZ variant; FB fresh]
  | _ => VBad 99 []
  end.

(* 1208: sequential retention. fields: kind, calls, all-kept-results-intact flag *)
Definition check_1208 (fs : list field) : verdict :=
  match fs with
  | [FZ kind; FZ calls; FZ good] => if calls <=? 0 then VSkip else expect 4 (good =? 1) [FZ kind]
  | _ => VBad 99 []
  end.

(* 1209: cutting (Value.MarshalTo; api 1 thrift, 2 proto; target 0 a cutting descriptor, 1 the source descriptor itself, 2 an
   equal descriptor from a second parse). fields: api, target, the result as seen AFTER the caller filled the source value's
   buffer with a pattern, the private copy of the result taken right after the call. A result that is a buffer of its own
   (Pool.marshalto_ok: CopyOut) cannot change. *)
Definition check_1209 (fs : list field) : verdict :=
  match fs with
  | [FZ api; FZ target; FB after; FB copy] => expect 9 (bytes_eqb after copy) [FZ api; FZ target; FB copy]
  | _ => VBad 99 []
  end.
