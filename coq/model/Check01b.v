(* Correspondence checks for C01, second part: bulk lookups, iterators, conversions to Go values,
   lookup by field name, descriptor lookup by path. Expected values come from lookup1 / spans_* of
   ThriftGeneric (theorems: Properties_C01) evaluated on the value decoded by the proved decoder. *)
From Coq Require Import ZArith List Bool.
From DG Require Import CaseFormat ProtoWireRef ThriftWire ThriftGeneric ThriftEdit Check01.
Import ListNotations.
Local Open Scope Z_scope.

Definition pstep_eqb (a b : pstep) : bool :=
  match a, b with
  | PField x, PField y => x =? y
  | PIndex x, PIndex y => x =? y
  | PStrKey x, PStrKey y => bytes_eqb x y
  | PIntKey x, PIntKey y => x =? y
  | PBinKey x, PBinKey y => bytes_eqb x y
  | _, _ => false
  end.

(* an observation quadruple: status (0 ok, 1 not found / empty, 2 error, 3 panic), type, start, end *)
Definition quad := (Z * Z * Z * Z)%type.
Definition quad_eqb (a b : quad) : bool :=
  let '(a1, a2, a3, a4) := a in let '(b1, b2, b3, b4) := b in (a1 =? b1) && (a2 =? b2) && (a3 =? b3) && (a4 =? b4).

Fixpoint parse_quads (n : nat) (fs : list field) : option (list quad * list field) :=
  match n with
  | O => Some ([], fs)
  | S n' =>
    match fs with
    | FZ a :: FZ b :: FZ c :: FZ d :: r =>
      match parse_quads n' r with Some (l, r') => Some ((a, b, c, d) :: l, r') | None => None end
    | _ => None
    end
  end.

Definition quad_of_lres (r : lres) : quad :=
  match r with
  | LFound sub off => (0, type_of sub, off, off + zlen (encode sub))
  | _ => (1, 0, 0, 0)
  end.

(* does the observation agree with the spec result of one requested step? *)
Definition bulk_ok (r : lres) (q : quad) : bool :=
  let '(st, ty, s, e) := q in
  match r with
  | LFound sub off => (st =? 0) && (ty =? type_of sub) && (s =? off) && (e =? off + zlen (encode sub))
  | LNotFound => st =? 1
  | LErr => (st =? 1) || (st =? 2)
  end.

Fixpoint all2 {A B} (f : A -> B -> bool) (a : list A) (b : list B) : bool :=
  match a, b with
  | [], [] => true
  | x :: a', y :: b' => f x y && all2 f a' b'
  | _, _ => false
  end.

(* ---- known deviation 104: Node.Gets advances the map iterator once per REQUESTED key inside the scan loop,
   so entry number i is only compared with requested key number (i mod nkeys); running out of entries in the
   middle of a round is a read error ---- *)
Definition key_matches (s : pstep) (k : tval) : bool :=
  match s with
  | PStrKey b => str_key_is b k
  | PIntKey n => int_key_is n k
  | PBinKey b => bin_key_is b k
  | _ => false
  end.

Fixpoint set_nth {A} (n : nat) (x : A) (l : list A) : list A :=
  match l, n with
  | [], _ => []
  | _ :: r, O => x :: r
  | y :: r, S n' => y :: set_nth n' x r
  end.

(* entries: key value with the span of the VALUE *)
Definition entry := (tval * quad)%type.

Fixpoint gets_round (keys : list (nat * pstep)) (es : list entry) (res : list quad) (count : Z)
  : bool * list entry * list quad * Z :=
  match keys with
  | [] => (true, es, res, count)
  | (j, s) :: ks =>
    match es with
    | [] => (false, es, res, count)
    | (k, q) :: es' =>
      if key_matches s k then gets_round ks es' (set_nth j q res) (count + 1) else gets_round ks es' res count
    end
  end.

Fixpoint gets_loop (fuel : nat) (keys : list (nat * pstep)) (es : list entry) (res : list quad) (count need : Z)
  : bool * list quad :=
  match fuel with
  | O => (true, res)
  | S f =>
    match es with
    | [] => (true, res)
    | _ => if count >=? need then (true, res) else
           match gets_round keys es res count with
           | (false, _, res', _) => (false, res')
           | (true, es', res', c') => gets_loop f keys es' res' c' need
           end
    end
  end.

Fixpoint number {A} (n : nat) (l : list A) : list (nat * A) :=
  match l with [] => [] | x :: r => (n, x) :: number (S n) r end.

Fixpoint entries_of (es : list (tval * tval)) (off : Z) : list entry :=
  match es with
  | [] => []
  | e :: r => let lk := zlen (encode (fst e)) in let lv := zlen (encode (snd e)) in
              (fst e, (0, type_of (snd e), off + lk, off + lk + lv)) :: entries_of r (off + lk + lv)
  end.

Definition gets_quirk (es : list (tval * tval)) (req : list pstep) : bool * list quad :=
  gets_loop (S (length es)) (number O req) (entries_of es 6) (map (fun _ => (1, 0, 0, 0)) req) 0 (zlen req).

(* ---- known deviation 105: Fields / Indexes fill only the FIRST of several identical requests ---- *)
Fixpoint seen_before (s : pstep) (prev : list pstep) : bool :=
  match prev with [] => false | x :: r => pstep_eqb x s || seen_before s r end.

Fixpoint dup_quirk (v : tval) (prev req : list pstep) : list quad :=
  match req with
  | [] => []
  | s :: r => (if seen_before s prev then (1, 0, 0, 0) else quad_of_lres (lookup1 v s)) :: dup_quirk v (s :: prev) r
  end.

Fixpoint has_dup (prev req : list pstep) : bool :=
  match req with [] => false | s :: r => seen_before s prev || has_dup (s :: prev) r end.

Definition has_err (v : tval) (req : list pstep) : bool :=
  existsb (fun s => match lookup1 v s with LErr => true | _ => false end) req.

(* 103: fields = type, bytes, api (1 GetMany, 2 Fields/Indexes/Gets), option bits, request path, call status, quads *)
Definition check_103 (fs : list field) : verdict :=
  match fs with
  | FZ t :: FB bs :: FZ api :: FZ ob :: rest =>
    match parse_path rest with
    | Some (req, FZ cst :: rest') =>
      match parse_quads (length req) rest' with
      | Some (got, []) =>
        match decode_all t bs with
        | None => VSkip
        | Some v =>
          if negb (wf v) then VSkip else
          let spec := map (lookup1 v) req in
          let exp := flat_map (fun r => let '(a, b, c, d) := quad_of_lres r in [FZ a; FZ b; FZ c; FZ d]) spec in
          if ((cst =? 0) || ((cst =? 2) && has_err v req)) && all2 bulk_ok spec got then VOk
          else
            match v with
            | VMap _ _ es =>
              let '(okq, resq) := gets_quirk es req in
              if (2 <=? zlen req) && (cst =? (if okq then 0 else 2)) && all2 quad_eqb resq got then VKnown 104
              else VBad 1 exp
            | _ =>
              if has_dup [] req && (cst =? 0) && all2 quad_eqb (dup_quirk v [] req) got then VKnown 105
              else VBad 1 exp
            end
        end
      | _ => VBad 99 []
      end
    | _ => VBad 99 []
    end
  | _ => VBad 99 []
  end.

(* ---- 104: iterators ---- *)
(* expected items: (step, key type, key start, key end, value type, value start, value end) in wire order *)
Definition item := (pstep * (Z * Z * Z) * (Z * Z * Z))%type.

Fixpoint items_fields (fs : list (Z * tval)) (off : Z) : list item :=
  match fs with
  | [] => []
  | f :: r => let l := zlen (encode (snd f)) in
              (PField (fst f), (0, 0, 0), (type_of (snd f), off + 3, off + 3 + l)) :: items_fields r (off + 3 + l)
  end.
Fixpoint items_elems (es : list tval) (i : Z) (off : Z) : list item :=
  match es with
  | [] => []
  | x :: r => let l := zlen (encode x) in (PIndex i, (0, 0, 0), (type_of x, off, off + l)) :: items_elems r (i + 1) (off + l)
  end.
Definition key_step (kt : Z) (k : tval) : pstep :=
  if kt =? T_STRING then match k with VString s => PStrKey s | _ => PBinKey (encode k) end
  else if is_int_type kt then match int_of_key k with Some z => PIntKey z | None => PBinKey (encode k) end
  else PBinKey (encode k).
Fixpoint items_pairs (kt : Z) (es : list (tval * tval)) (off : Z) : list item :=
  match es with
  | [] => []
  | e :: r => let lk := zlen (encode (fst e)) in let lv := zlen (encode (snd e)) in
              (key_step kt (fst e), (type_of (fst e), off, off + lk), (type_of (snd e), off + lk, off + lk + lv))
              :: items_pairs kt r (off + lk + lv)
  end.

Definition items_of (v : tval) : list item :=
  match v with
  | VStruct fs => items_fields fs 0
  | VList _ es => items_elems es 0 5
  | VSet _ es => items_elems es 0 5
  | VMap kt _ es => items_pairs kt es 6
  | _ => []
  end.

Definition tri_ok (base : Z) (x : Z * Z * Z) (ty s e : Z) : bool :=
  let '(a, b, c) := x in (ty =? a) && (s - base =? b) && (e - base =? c).

(* items of Foreach: step + value triple; of ForeachKV: key triple + value triple *)
Fixpoint match_items (kv : bool) (base : Z) (exp : list item) (fs : list field) : bool :=
  match exp with
  | [] => match fs with [] => true | _ => false end
  | (st, kq, vq) :: r =>
    if kv then
      match fs with
      | FZ a :: FZ b :: FZ c :: FZ d :: FZ e :: FZ f :: fs' => tri_ok base kq a b c && tri_ok base vq d e f && match_items kv base r fs'
      | _ => false
      end
    else
      match parse_steps 1 fs with
      | Some ([s], FZ d :: FZ e :: FZ f :: fs') => pstep_eqb s st && tri_ok base vq d e f && match_items kv base r fs'
      | _ => false
      end
  end.

Definition flat_items (l : list item) : list field :=
  flat_map (fun it => let '(_, (a, b, c), (d, e, f)) := it in [FZ a; FZ b; FZ c; FZ d; FZ e; FZ f]) l.

(* 104: fields = type, bytes, api (1 Node.Foreach, 2 Value.Foreach, 3 Node.ForeachKV, 4 Value.ForeachKV), option bits,
   base offset of the container in the buffer the spans refer to, status, n, items *)
Definition check_104 (fs : list field) : verdict :=
  match fs with
  | FZ t :: FB bs :: FZ api :: FZ ob :: FZ base :: FZ st :: FZ n :: rest =>
    match decode_all t bs with
    | None => VSkip
    | Some v =>
      if negb (wf v) then VSkip else
      let exp := items_of v in
      let kv := (api =? 3) || (api =? 4) in
      expect 1 ((st =? 0) && (n =? zlen exp) && match_items kv base exp rest) (FZ (zlen exp) :: flat_items exp)
    end
  | _ => VBad 99 []
  end.

(* ---- 105: conversion to Go values; canonical dump, maps sorted by the dump of the key ---- *)
Fixpoint bytes_ltb (a b : list Z) : bool :=
  match a, b with
  | [], [] => false
  | [], _ :: _ => true
  | _ :: _, [] => false
  | x :: a', y :: b' => if x <? y then true else if y <? x then false else bytes_ltb a' b'
  end.

(* insertion into a list sorted by key. An equal SCALAR key is replaced (Go map assignment). Container keys (struct, list,
   set, map: dump tags 6 / 7) are stored by POINTER in the Go map, so two equal ones are two entries: ties are ordered by
   the value dump (the harness sorts by key dump, then value dump) *)
Definition ptr_key (k : list Z) : bool := match k with 6 :: _ => true | 7 :: _ => true | _ => false end.
Fixpoint kins (k v : list Z) (l : list (list Z * list Z)) : list (list Z * list Z) :=
  match l with
  | [] => [(k, v)]
  | (k', v') :: r =>
    if bytes_eqb k k' then
      (if ptr_key k then (if bytes_ltb v' v then (k', v') :: kins k v r else (k, v) :: l) else (k, v) :: r)
    else if bytes_ltb k k' then (k, v) :: l else (k', v') :: kins k v r
  end.

Definition dump_map (sub : Z) (ps : list (list Z * list Z)) : list Z :=
  let sorted := fold_left (fun acc p => kins (fst p) (snd p) acc) ps [] in
  7 :: sub :: enc_int 4 (zlen sorted) ++ flat_map (fun p => fst p ++ snd p) sorted.

Definition dump_int (z : Z) : list Z := 2 :: enc_int 8 z.

Fixpoint gdump (obin obyid : bool) (v : tval) : list Z :=
  match v with
  | VBool raw => [1; if raw =? 0 then 0 else 1]
  | VByte z => dump_int (z mod 256)          (* the code presents I08 through an unsigned byte *)
  | VI16 z => dump_int z | VI32 z => dump_int z | VI64 z => dump_int z
  | VDouble bits => 3 :: enc_int 8 bits
  | VString s => (if obin then 5 else 4) :: enc_int 4 (zlen s) ++ s
  | VList _ es => 6 :: enc_int 4 (zlen es) ++ flat_map (gdump obin obyid) es
  | VSet _ es => 6 :: enc_int 4 (zlen es) ++ flat_map (gdump obin obyid) es
  | VStruct fs => dump_map (if obyid then 4 else 2) (map (fun f => (dump_int (fst f), gdump obin obyid (snd f))) fs)
  | VMap kt _ es =>
      if kt =? T_STRING then
        dump_map 1 (map (fun e => (match fst e with VString s => 4 :: enc_int 4 (zlen s) ++ s | _ => [255] end,
                                    gdump obin obyid (snd e))) es)
      else if is_int_type kt then
        dump_map 2 (map (fun e => (gdump obin obyid (fst e), gdump obin obyid (snd e))) es)
      else dump_map 3 (map (fun e => (gdump obin obyid (fst e), gdump obin obyid (snd e))) es)
  end.

(* InterfaceMap on any map: keys through Interface() *)
Definition gdump_ifmap (obin obyid : bool) (v : tval) : list Z :=
  match v with
  | VMap _ _ es => dump_map 3 (map (fun e => (match fst e with
                                              | VString s => 4 :: enc_int 4 (zlen s) ++ s   (* a []byte cannot be a Go map key *)
                                              | _ => gdump obin obyid (fst e)
                                              end, gdump obin obyid (snd e))) es)
  | _ => gdump obin obyid v
  end.

(* known deviation 107: InterfaceMap with CastStringAsBinary on a string-keyed map uses a []byte as Go map key: panic *)
Definition ifmap_panics (obin : bool) (v : tval) : bool :=
  match v with
  | VMap _ _ es => obin && existsb (fun e => match fst e with VString _ => true | _ => false end) es
  | _ => false
  end.

(* +0.0 and -0.0 are one key of a Go map: outside the domain of the comparison *)
Fixpoint zero_clash (v : tval) : bool :=
  match v with
  | VStruct fs => existsb (fun f => zero_clash (snd f)) fs
  | VList _ es => existsb zero_clash es
  | VSet _ es => existsb zero_clash es
  | VMap _ _ es =>
      (existsb (fun e => match fst e with VDouble b => b =? 0 | _ => false end) es &&
       existsb (fun e => match fst e with VDouble b => b =? 2 ^ 63 | _ => false end) es)
      || existsb (fun e => zero_clash (fst e) || zero_clash (snd e)) es
  | _ => false
  end.

(* 105: fields = type, bytes, api (1 Interface, 2 List/StrMap/IntMap/InterfaceMap by kind, 3 InterfaceMap), option bits, status, dump *)
Definition check_105 (fs : list field) : verdict :=
  match fs with
  | [FZ t; FB bs; FZ api; FZ ob; FZ st; FB dump] =>
    match decode_all t bs with
    | None => VSkip
    | Some v =>
      if negb (wf v) then VSkip else if zero_clash v then VSkip else
      let obin := Z.testbit ob 2 in let obyid := Z.testbit ob 3 in
      let exp := if api =? 3 then gdump_ifmap obin obyid v else gdump obin obyid v in
      if (st =? 0) && bytes_eqb dump exp then VOk
      else if (api =? 3) && ifmap_panics obin v && (st =? 3) then VKnown 107
      else VBad 1 [FB exp]
    end
  | _ => VBad 99 []
  end.

(* 106: fields = struct type, bytes, field id, name known to the IDL, base offset of the struct in the root buffer,
   untyped observation (Node.Field by id, relative to the struct), typed observation (Value.FieldByName, relative to the root),
   type of the descriptor attached to the typed result *)
Definition check_106 (fs : list field) : verdict :=
  match fs with
  | [FZ t; FB bs; FZ id; FZ known; FZ base; FZ s1; FZ t1; FZ a1; FZ b1; FZ s2; FZ t2; FZ a2; FZ b2; FZ dty] =>
    match decode_all t bs with
    | None => VSkip
    | Some v =>
      if negb (wf v) then VSkip else
      let spec := lookup1 v (PField id) in
      let untyped_ok := bulk_ok spec (s1, t1, a1, b1) && negb ((s1 =? 2) && match spec with LNotFound => true | _ => false end) in
      let typed_ok :=
        if known =? 1 then
          match spec with
          | LFound sub off => bulk_ok spec (s2, t2, a2 - base, b2 - base) && (dty =? type_of sub)
          | _ => bulk_ok spec (s2, t2, a2, b2)
          end
        else (s2 =? 1) || (s2 =? 2) in
      expect 1 (untyped_ok && typed_ok) (let '(a, b, c, d) := quad_of_lres spec in [FZ a; FZ b; FZ c; FZ d])
    end
  | _ => VBad 99 []
  end.

(* ---- 107: GetDescByPath ---- *)
Fixpoint parse_pairs (n : nat) (fs : list field) : option (list (Z * Z)) :=
  match n with
  | O => match fs with [] => Some [] | _ => None end
  | S n' => match fs with FZ a :: FZ b :: r => match parse_pairs n' r with Some l => Some ((a, b) :: l) | None => None end | _ => None end
  end.

Fixpoint assoc (k : Z) (l : list (Z * Z)) : option Z :=
  match l with [] => None | (a, b) :: r => if a =? k then Some b else assoc k r end.

(* known deviation 106: GetDescByPath resolves EVERY step against the root descriptor (it never descends) *)
Fixpoint desc_quirk (rootdecl : list (Z * Z)) (p : list pstep) (cur : Z) : option Z :=
  match p with
  | [] => Some cur
  | PField id :: r => match assoc id rootdecl with Some ty => desc_quirk rootdecl r ty | None => None end
  | _ => None
  end.

Definition check_107 (fs : list field) : verdict :=
  match fs with
  | FZ t :: FB bs :: rest =>
    match parse_path rest with
    | Some (p, FZ st :: FZ dty :: FZ nroot :: decl) =>
      match decode_all t bs, parse_pairs (Z.to_nat nroot) decl with
      | Some v, Some rootdecl =>
        if negb (wf v) then VSkip else
        match lookup v 0 p with
        | LFound sub _ =>
          if (st =? 0) && (dty =? type_of sub) then VOk
          else if (2 <=? zlen p) &&
                  match desc_quirk rootdecl p T_STRUCT with
                  | Some ty => (st =? 0) && (dty =? ty)
                  | None => st =? 2
                  end then VKnown 106
          else VBad 1 [FZ 0; FZ (type_of sub)]
        | _ => VSkip
        end
      | None, _ => VSkip
      | _, None => VBad 99 []
      end
    | _ => VBad 99 []
    end
  | _ => VBad 99 []
  end.

(* ---- 109: Value.Foreach over a struct with a descriptor that declares only SOME of the fields present ---- *)
Fixpoint parse_ids (n : nat) (fs : list field) : option (list Z * list field) :=
  match n with
  | O => Some ([], fs)
  | S n' => match fs with FZ a :: r => match parse_ids n' r with Some (l, r') => Some (a :: l, r') | None => None end | _ => None end
  end.

Definition declared_item (decl : list Z) (it : item) : bool :=
  match it with (PField id, _, _) => existsb (Z.eqb id) decl | _ => true end.

(* what the typed iteration visits: the fields the descriptor declares, in wire order, with their spans; undeclared fields
   are skipped wherever they are *)
Definition typed_items (decl : list Z) (v : tval) : list item := filter (declared_item decl) (items_of v).

(* 109: fields = type, bytes, option bits (32 = DisallowUnknow), n declared, declared ids, status, n, items *)
Definition check_109 (fs : list field) : verdict :=
  match fs with
  | FZ t :: FB bs :: FZ ob :: FZ nd :: rest =>
    if (nd <? 0) || (nd >? 100000) then VBad 99 [] else
    match parse_ids (Z.to_nat nd) rest with
    | Some (decl, FZ st :: FZ n :: items) =>
      match decode_all t bs with
      | None => VSkip
      | Some v =>
        if negb (wf v) then VSkip else
        let all := items_of v in
        let exp := typed_items decl v in
        if Z.testbit ob 5 && negb (zlen exp =? zlen all) then expect 2 ((st =? 1) || (st =? 2)) [FZ 2]
        else expect 1 ((st =? 0) && (n =? zlen exp) && match_items false 0 exp items) (FZ (zlen exp) :: flat_items exp)
      end
    | _ => VBad 99 []
    end
  | _ => VBad 99 []
  end.

(* ---- 110: Children with the Path of each child, in every storage mode (StoreChildrenById / ByHash / neither): the
   non-empty entries, ordered by start offset by the harness, are the model's children in wire order: (step, type, span) ---- *)
Definition check_110 (fs : list field) : verdict :=
  match fs with
  | FZ t :: FB bs :: FZ ob :: FZ st :: FZ n :: rest =>
    match decode_all t bs with
    | None => VSkip
    | Some v =>
      if negb (wf v) then VSkip else
      let exp := items_of v in
      expect 1 ((st =? 0) && (n =? zlen exp) && match_items false 0 exp rest) (FZ (zlen exp) :: flat_items exp)
    end
  | _ => VBad 99 []
  end.
