(* C08 at ALGORITHM level: conv/p2j/impl.go as a walk over BYTES that appends JSON TEXT.

   [p2j_walk fuel o S name bs] mirrors  do -> doRecurse -> unmarshalSingular / unmarshalList / unmarshalMap  (tree after
   the fixes f704ab5, 795f251, 0c7175e, 3878b17): one pass over the records in wire order, nothing is grouped or merged,
   text is appended as the records are met.
     walk_fields    the message loop  `for p.Read < end { ConsumeTag; ByNumber; ... }` with the comma flag; a number that
                    is not declared is skipped by wire type (Skip) or is an error under DisallowUnknownField
     read_single    unmarshalSingular: one value read by the KIND of the descriptor (the wire type of the tag is not
                    consulted), printed as the code prints it (EncodeBool / EncodeInt64 / EncodeUint64 / quoted int64
                    under Int642String / checkFinite + EncodeFloat64 / EncodeString / EncodeBaniry); a MESSAGE value is
                    a length, then the message loop over exactly that many bytes
     walk_list      unmarshalList: packed branch iff the tag says length-delimited and the element kind is packable
                    (`typeId == BytesType && IsPacked()`), elements separated by the comma rule
                    `p.Read != start && p.Read != start+len`; otherwise the unpacked run: one element, then - while
                    bytes of the enclosing message remain - peek the next tag (ConsumeTagWithoutMove), stop when it
                    carries another field number, else comma + element
     walk_map       unmarshalMap: pair length (read and ignored), key tag, key (quoted unless it is a string or an int64
                    that Int642String already quotes), ':', value tag, value; the run continues like the unpacked run
   Representation of the cursor: the code keeps ONE buffer and offsets (p.Read, end = start + l); here a message body is
   the slice [take l] of its parent and the cursor is the remaining suffix, so "p.Read < end" is "the suffix is not
   empty".  The two agree on every input in which no record straddles the end of its enclosing message (in particular
   on everything an encoder emits); where a record does straddle it the code reads on in the parent's bytes, the walk
   fails.
   Float lexemes: the code prints the shortest decimal that reads back (native f64toa); the walk takes the printer as a
   parameter [fl].  [p2j_walk] uses the exact decimal expansion [f64_lex] (the spec's lexeme); the correspondence check
   802 uses a marker printer and compares the implementation's lexeme by value.
   Model only - proofs are in proofs/P2JBytesProofs.v. *)
From Coq Require Import ZArith List Bool.
From DG Require Import CaseFormat ProtoWireRef ProtoMsg Json Num Base64 P2J.
Import ListNotations.
Local Open Scope Z_scope.

Definition text := list Z.

(* ConsumeTag / ConsumeTagWithoutMove: (field number, wire type, bytes after the tag) *)
Definition rd_tag (bs : list Z) : option (Z * Z * list Z) :=
  let '(tag, n) := varint_dec bs in
  if n <? 0 then None
  else let num := tag / 8 in
       if (num >? 2147483647) || (num <? 1) then None
       else Some (num, tag mod 8, skipn (Z.to_nat n) bs).

(* ReadLength: the varint, and the bytes after it *)
Definition rd_len (bs : list Z) : option (Z * list Z) :=
  let '(l, n) := varint_dec bs in
  if n <? 0 then None else Some (l, skipn (Z.to_nat n) bs).

(* Skip(wireType): varint, fixed64, length-delimited, fixed32; every other wire type: nothing is skipped, no error *)
Definition skip_val (wt : Z) (bs : list Z) : option (list Z) :=
  if (wt =? 0) || (wt =? 1) || (wt =? 2) || (wt =? 5)
  then match wdec_val wt bs with Some (_, r) => Some r | None => None end
  else Some bs.

Definition wval_u (w : wval) : Z :=
  match w with WVarint v => v | WFix64 v => v | WFix32 v => v | WBytes _ => 0 end.

(* the Go value the reader of kind k returns for the unsigned number u on the wire (bool: DecodeBool is int8(v) == 1) *)
Definition go_value (k u : Z) : Z :=
  if k =? K_BOOL then (if u mod 256 =? 1 then 1 else 0) else scalar_of_u k u.

Section Walk.
  Variable fl : Z -> list Z.            (* printer of a finite binary64 bit pattern *)
  Variable o : p2j_opts.

  (* what unmarshalSingular appends for the value v of numeric kind k; None = checkFinite fails *)
  Definition value_text (k v : Z) : option text :=
    if k =? K_BOOL then Some (if v =? 0 then lit_false else lit_true)
    else if k =? K_DOUBLE then (if f64_is_finite v then Some (fl v) else None)
    else if k =? K_FLOAT then (if f32_is_finite v then Some (fl (widen32 v)) else None)
    else if (k =? K_INT64) && o_int64_string o then Some (34 :: fmt_int v ++ [34])
    else Some (fmt_int v).

  (* EncodeString / EncodeBaniry *)
  Definition bytes_text (k : Z) (b : list Z) : text :=
    if k =? K_STRING then quote_ref b else 34 :: b64_encode b ++ [34].

  Section Level.
    Variable S : schema.
    (* the message loop one nesting level further down: message name -> body -> text of the object *)
    Variable rec : list Z -> list Z -> option text.

    Definition read_single (t : ftype) (bs : list Z) : option (text * list Z) :=
      match t with
      | TScalar k =>
        if is_byteskind k then
          match wdec_val 2 bs with
          | Some (WBytes b, r) => Some (bytes_text k b, r)
          | _ => None
          end
        else if is_numeric k then
          match wdec_val (wt_of_kind k) bs with
          | Some (w, r) => match value_text k (go_value k (wval_u w)) with Some t => Some (t, r) | None => None end
          | None => None
          end
        else None
      | TMsg name =>
        match wdec_val 2 bs with
        | Some (WBytes body, r) => match rec name body with Some t => Some (t, r) | None => None end
        | _ => None
        end
      end.

    (* packed payload: elements until the payload is used up; ',' after an element unless it was the last *)
    Fixpoint packed_loop (fuel : nat) (t : ftype) (payload : list Z) : option text :=
      match payload with
      | [] => Some []
      | _ :: _ =>
        match fuel with
        | O => None
        | Datatypes.S f =>
          match read_single t payload with
          | None => None
          | Some (x, r) =>
            match r with
            | [] => Some x
            | _ :: _ => match packed_loop f t r with Some more => Some (x ++ 44 :: more) | None => None end
            end
          end
        end
      end.

    (* the rest of an unpacked run, after its first element: (text of ",elem,elem...", bytes left) *)
    Fixpoint unpacked_loop (fuel : nat) (t : ftype) (n : Z) (bs : list Z) : option (text * list Z) :=
      match bs with
      | [] => Some ([], [])
      | _ :: _ =>
        match fuel with
        | O => None
        | Datatypes.S f =>
          match rd_tag bs with
          | None => None
          | Some (num, _, r) =>
            if negb (num =? n) then Some ([], bs)
            else match read_single t r with
                 | None => None
                 | Some (x, r') =>
                   match unpacked_loop f t n r' with
                   | Some (more, rest) => Some (44 :: x ++ more, rest)
                   | None => None
                   end
                 end
          end
        end
      end.

    Definition walk_list (n : Z) (t : ftype) (wt : Z) (bs : list Z) : option (text * list Z) :=
      if (wt =? 2) && type_numeric t then
        match rd_len bs with
        | None => None
        | Some (l, r) =>
          match take l r with
          | None => None
          | Some (payload, rest) =>
            match packed_loop (Datatypes.S (length payload)) t payload with
            | Some x => Some (91 :: x ++ [93], rest)
            | None => None
            end
          end
        end
      else
        match read_single t bs with
        | None => None
        | Some (x, r) =>
          match unpacked_loop (Datatypes.S (length r)) t n r with
          | Some (more, rest) => Some (91 :: x ++ more ++ [93], rest)
          | None => None
          end
        end.

    (* one map pair after its tag: length (ignored), key tag, key, ':', value tag, value *)
    Definition read_entry (kk : Z) (t : ftype) (bs : list Z) : option (text * list Z) :=
      match rd_len bs with
      | None => None
      | Some (_, r0) =>
        match rd_tag r0 with
        | None => None
        | Some (_, _, r1) =>
          match read_single (TScalar kk) r1 with
          | None => None
          | Some (k, r2) =>
            let quote_key := negb (kk =? K_STRING) && negb ((kk =? K_INT64) && o_int64_string o) in
            let key := if quote_key then 34 :: k ++ [34] else k in
            match rd_tag r2 with
            | None => None
            | Some (_, _, r3) =>
              match read_single t r3 with
              | None => None
              | Some (v, r4) => Some (key ++ 58 :: v, r4)
              end
            end
          end
        end
      end.

    Fixpoint map_loop (fuel : nat) (kk : Z) (t : ftype) (n : Z) (bs : list Z) : option (text * list Z) :=
      match bs with
      | [] => Some ([], [])
      | _ :: _ =>
        match fuel with
        | O => None
        | Datatypes.S f =>
          match rd_tag bs with
          | None => None
          | Some (num, _, r) =>
            if negb (num =? n) then Some ([], bs)
            else match read_entry kk t r with
                 | None => None
                 | Some (x, r') =>
                   match map_loop f kk t n r' with
                   | Some (more, rest) => Some (44 :: x ++ more, rest)
                   | None => None
                   end
                 end
          end
        end
      end.

    Definition walk_map (n kk : Z) (t : ftype) (bs : list Z) : option (text * list Z) :=
      match read_entry kk t bs with
      | None => None
      | Some (x, r) =>
        match map_loop (Datatypes.S (length r)) kk t n r with
        | Some (more, rest) => Some (123 :: x ++ more ++ [125], rest)
        | None => None
        end
      end.

    (* doRecurse: by the shape of the descriptor *)
    Definition walk_field (fd : fdesc) (wt : Z) (bs : list Z) : option (text * list Z) :=
      match fd_label fd with
      | LSingular => read_single (fd_type fd) bs
      | LRepeated _ => walk_list (fd_num fd) (fd_type fd) wt bs
      | LMap kk => walk_map (fd_num fd) kk (fd_type fd) bs
      end.

    (* the message loop over the bytes of one message; comma = a member has been written already *)
    Fixpoint walk_fields (fuel : nat) (md : mdesc) (comma : bool) (bs : list Z) : option text :=
      match bs with
      | [] => Some []
      | _ :: _ =>
        match fuel with
        | O => None
        | Datatypes.S f =>
          match rd_tag bs with
          | None => None
          | Some (num, wt, r) =>
            match find_field md num with
            | None =>
              if o_disallow_unknown o then None
              else match skip_val wt r with Some r' => walk_fields f md comma r' | None => None end
            | Some fd =>
              match walk_field fd wt r with
              | None => None
              | Some (x, r') =>
                match walk_fields f md true r' with
                | Some more => Some ((if comma then [44] else []) ++ quote_ref (fd_json fd) ++ 58 :: x ++ more)
                | None => None
                end
              end
            end
          end
        end
      end.

    Definition walk_body (name : list Z) (body : list Z) : option text :=
      match find_msg S name with
      | Some md =>
        match walk_fields (Datatypes.S (length body)) md false body with
        | Some x => Some (123 :: x ++ [125])
        | None => None
        end
      | None => None
      end.
  End Level.

  (* fuel = message nesting depth still allowed *)
  Fixpoint walk_msg (S : schema) (fuel : nat) (name : list Z) (body : list Z) : option text :=
    match fuel with
    | O => None
    | Datatypes.S f => walk_body S (walk_msg S f) name body
    end.
End Walk.

Definition p2j_walk_gen (fl : Z -> list Z) (fuel : nat) (o : p2j_opts) (S : schema) (name : list Z) (bs : list Z) : option text :=
  walk_msg fl o S fuel name bs.

(* THE algorithm-level model: float lexemes are the exact decimal expansions *)
Definition p2j_walk (fuel : nat) (o : p2j_opts) (S : schema) (name : list Z) (bs : list Z) : option text :=
  p2j_walk_gen f64_lex fuel o S name bs.
