(* Correspondence checks for C20 (Protobuf wire codec). The expected values are computed by
   the definitions GENERATED from proto/protowire and proto/binary (so this also validates the
   translator against the running code) and by the reference definitions. *)
From Coq Require Import ZArith List Bool.
From DG Require Import GoSem CaseFormat ProtoWireRef Gen_protowire Gen_proto Gen_protobinary.
Import ListNotations.
Local Open Scope Z_scope.

(* 2001: AppendVarint.  fields: v, impl bytes, reference (protobuf-go) bytes *)
Definition check_2001 (fs : list field) : verdict :=
  match fs with
  | [FZ v; FB impl; FB ref] =>
    let g := AppendVarint [] v in
    vand (expect 1 (bytes_eqb impl ref) [FB ref])
   (vand (expect 2 (bytes_eqb g impl) [FB g])
         (expect 3 (bytes_eqb (varint_enc v) impl) [FB (varint_enc v)]))
  | _ => VBad 99 []
  end.

(* 2002: ConsumeVarint on arbitrary bytes.  fields: input, impl v, impl n, ref v, ref n *)
Definition check_2002 (fs : list field) : verdict :=
  match fs with
  | [FB input; FZ iv; FZ inn; FZ rv; FZ rn] =>
    let '(gv, gn) := ConsumeVarint input in
    let '(sv, sn) := varint_dec input in
    vand (expect 1 (if rn <? 0 then inn <? 0 else (iv =? rv) && (inn =? rn)) [FZ rv; FZ rn])
   (vand (expect 2 ((gv =? iv) && (gn =? inn)) [FZ gv; FZ gn])
         (expect 3 ((sv =? iv) && (sn =? inn)) [FZ sv; FZ sn]))
  | _ => VBad 99 []
  end.

(* 2003: fixed32/fixed64 append+consume, zig-zag, size.
   fields: v64, impl fixed64 bytes, impl fixed32 bytes (of v mod 2^32), impl zigzag enc of (signed v), impl zigzag dec of v, impl SizeVarint v *)
Definition check_2003 (fs : list field) : verdict :=
  match fs with
  | [FZ v; FB f64; FB f32; FZ zze; FZ zzd; FZ size] =>
    let sv := wraps 64 v in
    vand (expect 1 (bytes_eqb (AppendFixed64 [] v) f64) [FB (AppendFixed64 [] v)])
   (vand (expect 2 (bytes_eqb (AppendFixed32 [] (wrapu 32 v)) f32) [FB (AppendFixed32 [] (wrapu 32 v))])
   (vand (expect 3 (EncodeZigZag sv =? zze) [FZ (EncodeZigZag sv)])
   (vand (expect 4 (DecodeZigZag v =? zzd) [FZ (DecodeZigZag v)])
   (vand (expect 5 (SizeVarint v =? size) [FZ (SizeVarint v)])
   (vand (expect 6 (zigzag_enc sv =? zze) [FZ (zigzag_enc sv)])
   (vand (expect 7 (bytes_eqb (le_enc 8 v) f64) [FB (le_enc 8 v)])
         (expect 8 (Z.of_nat (length (varint_enc v)) =? size) [])))))))
  | _ => VBad 99 []
  end.

(* 2004: descriptor-level scalar write then read through BinaryProtocol (kind t, Go value v as integer / bits).
   fields: t, v, impl written bytes, impl read-back value, impl read err (0 = nil), reference bytes (protobuf-go, same kind) *)
Definition check_2004 (fs : list field) : verdict :=
  match fs with
  | [FZ t; FZ v; FB iw; FZ ir; FZ ierr; FB ref] =>
    match WriteBase_scalar t [] 0 v with
    | None => VBad 98 []
    | Some (_, gbuf, _) =>
      vand (expect 1 (bytes_eqb iw ref) [FB ref])
     (vand (expect 2 (bytes_eqb gbuf iw) [FB gbuf])
      match ReadBase_scalar t iw 0 with
      | None => VBad 97 []
      | Some (gv, gerr, _, grd) =>
        vand (expect 3 ((gv =? ir) && (Bool.eqb (gerr =? 0) (ierr =? 0))) [FZ gv; FZ gerr])
             (expect 4 ((ir =? v) && (ierr =? 0)) [FZ v])
      end)
    end
  | _ => VBad 99 []
  end.

(* 2005: ConsumeBytes / ConsumeFixed on arbitrary bytes. fields: input, impl bytes value, impl n, impl all, impl fixed32 v, n, impl fixed64 v, n *)
Definition check_2005 (fs : list field) : verdict :=
  match fs with
  | [FB input; FB bv; FZ bn; FZ ball; FZ f32v; FZ f32n; FZ f64v; FZ f64n] =>
    let '(gb, gn, gall) := ConsumeBytes input in
    let '(g32, n32) := ConsumeFixed32 input in
    let '(g64, n64) := ConsumeFixed64 input in
    vand (expect 1 (bytes_eqb gb bv && (gn =? bn) && (gall =? ball)) [FB gb; FZ gn; FZ gall])
   (vand (expect 2 ((g32 =? f32v) && (n32 =? f32n)) [FZ g32; FZ n32])
         (expect 3 ((g64 =? f64v) && (n64 =? f64n)) [FZ g64; FZ n64]))
  | _ => VBad 99 []
  end.

(* 2006: AppendSpeculativeLength + payload + FinishSpeculativeLength.
   fields: prefix, payload, result, reference (protowire.AppendVarint(prefix, len) ++ payload) *)
From DG Require Import ProtoSpecLen.
Definition zeros9 : list Z := [0;0;0;0;0;0;0;0;0].
Definition check_2006 (fs : list field) : verdict :=
  match fs with
  | [FB prefix; FB payload; FB res; FB ref] =>
    let b := fst (append_spec prefix) ++ payload in
    let m := finish_spec b zeros9 (snd (append_spec prefix)) in
    vand (expect 1 (bytes_eqb res m) [FB m])
         (expect 2 (bytes_eqb res ref) [FB ref])
  | _ => VBad 99 []
  end.
