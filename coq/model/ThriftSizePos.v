(* thrift/binary.go WriteListBeginWithSizePos / WriteMapBeginWithSizePos + ModifyI32 (a container header written with a provisional
   count whose position is recorded, the count patched in place later) AS CODED, and the retention rule of the copy-mode reads.
   Model only - theorems in proofs/ThriftSizePosProofs.v. *)
From Coq Require Import ZArith List Bool.
From DG Require Import CaseFormat ProtoWireRef ThriftWire ThriftAnyDesc.
Import ListNotations.
Local Open Scope Z_scope.

(* the header bytes and the position of the count inside them *)
Definition list_begin (et n : Z) : list Z := et :: enc_int 4 n.
Definition map_begin (kt vt n : Z) : list Z := kt :: vt :: enc_int 4 n.
(* Write*BeginWithSizePos on a buffer [pre]: the new buffer and the recorded position *)
Definition list_begin_pos (pre : list Z) (et n : Z) : list Z * Z := (pre ++ list_begin et n, zlen pre + 1).
Definition map_begin_pos (pre : list Z) (kt vt n : Z) : list Z * Z := (pre ++ map_begin kt vt n, zlen pre + 2).

(* ModifyI32(pos, v): status 0 nil, 1 error (fewer than pos+4 bytes: nothing changes), 3 panic (negative pos: p.Buf[:pos]) *)
Definition modify_i32 (pos v : Z) (buf : list Z) : list Z * Z :=
  if zlen buf <? pos + 4 then (buf, 1)
  else if pos <? 0 then (buf, 3)
  else (firstn (Z.to_nat pos) buf ++ enc_int 4 v ++ skipn (Z.to_nat (pos + 4)) buf, 0).

(* ---- retention: a value read in copy mode owns its bytes. As coded, ReadAnyWithDesc reads the keys of a string-keyed map with
   ReadString(false) whatever copyString says: such keys (when not empty) alias the protocol buffer (finding 1924) *)
Definition nonempty_key (e : list Z * gval) : bool := match fst e with [] => false | _ => true end.
Fixpoint alias_keys (fuel : nat) (byname : bool) (d : adesc) (g : gval) : bool :=
  match fuel with
  | O => false
  | S f =>
    match d, g with
    | AList e, GList l => existsb (alias_keys f byname e) l
    | ASet e, GList l => existsb (alias_keys f byname e) l
    | AMap k e, GMapS es => existsb nonempty_key es || existsb (fun x => alias_keys f byname e (snd x)) es
    | AMap k e, GMapI _ es => existsb (fun x => alias_keys f byname e (snd x)) es
    | AMap k e, GMapA es =>
      existsb (fun x => alias_keys f byname k (match fst x with GPtr y => y | y => y end) || alias_keys f byname e (snd x)) es
    | AStruct fs, GStructN ms =>
      existsb (fun m => match afby_id (fst m) fs with Some (_, fd) => alias_keys f byname fd (snd m) | None => false end) ms
    | AStruct fs, GMapS ms =>
      existsb (fun m => match afby_name (fst m) fs with Some (_, fd) => alias_keys f byname fd (snd m) | None => false end) ms
    | _, _ => false
    end
  end.
