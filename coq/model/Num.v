(* Numbers as text: decimal integers, JSON number lexemes as exact decimals (m * 10^e), and the
   correctly rounded (round-to-nearest, ties-to-even) IEEE-754 binary64 / binary32 value of an exact
   decimal, by integer arithmetic on Z only.  Model only — proofs are in proofs/NumProofs.v. *)
From Coq Require Import ZArith List Bool.
From DG Require Import Json.
Import ListNotations.
Local Open Scope Z_scope.

(* ---- decimal integers ---- *)
Definition digits_val (ds : list Z) (acc : Z) : Z := fold_left (fun a d => a * 10 + (d - 48)) ds acc.

Fixpoint span_digits (bs : list Z) : list Z * list Z :=
  match bs with
  | c :: r => if is_digit c then let (ds, r') := span_digits r in (c :: ds, r') else ([], bs)
  | [] => ([], [])
  end.

Fixpoint fmt_nat_aux (fuel : nat) (n : Z) (acc : list Z) : list Z :=
  match fuel with
  | O => acc
  | S f => if n <? 10 then (48 + n) :: acc else fmt_nat_aux f (n / 10) ((48 + n mod 10) :: acc)
  end.
(* canonical decimal of n >= 0 (fuel: one unit per binary digit is more than one per decimal digit) *)
Definition fmt_nat (n : Z) : list Z := fmt_nat_aux (S (Z.to_nat (Z.log2 n))) n [].
(* canonical decimal of any integer: optional '-', no leading zeros, "0" for zero *)
Definition fmt_int (z : Z) : list Z := if z <? 0 then 45 :: fmt_nat (- z) else fmt_nat z.

(* optional '-', then one or more digits, nothing else (leading zeros and "-0" are accepted;
   canonicity is the separate test  fmt_int z = s) *)
Definition parse_int (bs : list Z) : option Z :=
  let '(neg, r0) := match bs with c :: r => if c =? 45 then (true, r) else (false, bs) | [] => (false, bs) end in
  match span_digits r0 with
  | ([], _) => None
  | (ds, []) => Some (if neg then - digits_val ds 0 else digits_val ds 0)
  | (_, _ :: _) => None
  end.

(* ---- JSON number lexeme -> exact decimal (negative?, mantissa >= 0, exponent of ten) ---- *)
Definition lex_decimal (l : list Z) : option (bool * Z * Z) :=
  if negb (num_okb l) then None else
  let '(neg, r0) := match l with c :: r => if c =? 45 then (true, r) else (false, l) | [] => (false, l) end in
  let '(ip, r1) := span_digits r0 in
  let '(fp, r2) := match r1 with c :: r => if c =? 46 then span_digits r else ([], r1) | [] => ([], r1) end in
  let ex := match r2 with
            | _ :: c :: r =>      (* 'e' or 'E', then sign or first digit *)
              if c =? 45 then - digits_val (fst (span_digits r)) 0
              else if c =? 43 then digits_val (fst (span_digits r)) 0
              else digits_val (fst (span_digits (c :: r))) 0
            | _ => 0
            end in
  Some (neg, digits_val (ip ++ fp) 0, ex - Z.of_nat (length fp)).

(* does the exact decimal (neg, m, e) denote the integer z?  (10^k is only computed for k bounded by the size of the operands) *)
Definition dec_eq_int (d : bool * Z * Z) (z : Z) : bool :=
  let '(neg, m, e) := d in
  if m =? 0 then z =? 0 else
  let az := Z.abs z in
  if negb (Bool.eqb neg (z <? 0)) then false else
  if 0 <=? e then (if Z.log2 az + 1 <? e then false else m * 10 ^ e =? az)
  else (if Z.log2 m + 1 <? - e then false else m =? az * 10 ^ (- e)).

Definition lex_eq_int (l : list Z) (z : Z) : bool :=
  match lex_decimal l with Some d => dec_eq_int d z | None => false end.

(* the lexeme is an integer literal in the narrow sense: -? digits (no fraction, no exponent) *)
Definition lex_is_plain_int (l : list Z) : bool :=
  num_okb l && forallb (fun c => is_digit c || (c =? 45)) l.

(* ---- correctly rounded binary floating point from an exact decimal ----
   format: p = precision in bits (53 / 24), emin = exponent of the least subnormal quantum (-1074 / -149).
   result: the magnitude bits (sign bit clear); infinity when the rounded value overflows.
   value x = m * 10^e = N / D.  Choose k with  2^(p-1) <= floor(x / 2^k) < 2^p  or k = emin, q = round-half-even(x / 2^k);
   bits = (k - emin) * 2^(p-1) + q  (a carry of q into 2^p / 2^(p-1) lands on the next binade / the least normal by itself). *)
Definition fp_mag (p emin : Z) (m e : Z) : Z :=
  let inf := (2 * (2 - emin - p) + 1) * 2 ^ (p - 1) in       (* all-ones exponent, zero fraction *)
  if m <=? 0 then 0 else
  (* m < 10^(log2 m / 3 + 1):  x < 10^(e + log2 m / 3 + 1) *)
  if e + Z.log2 m / 3 + 1 <? (emin - p) / 3 - 8 then 0 else       (* x < 10^((emin-p)/3 - 8) < 2^(emin-1): rounds to zero *)
  if (2 - emin) / 3 + 8 <? e then inf else                        (* x >= 10^e > 2^(2-emin-p+1+p): overflow *)
  let N := if 0 <=? e then m * 10 ^ e else m in
  let D := if 0 <=? e then 1 else 10 ^ (- e) in
  (* 2^(lN-lD-1) < x < 2^(lN-lD+1) *)
  let k0 := Z.log2 N - Z.log2 D - p in
  let k1 := Z.max k0 emin in
  let q1 := if 0 <=? k1 then N / (D * 2 ^ k1) else (N * 2 ^ (- k1)) / D in
  let k := if 2 ^ p <=? q1 then k1 + 1 else k1 in
  let num := if 0 <=? k then N else N * 2 ^ (- k) in
  let den := if 0 <=? k then D * 2 ^ k else D in
  let q := num / den in
  let r := num mod den in
  let q' := if 2 * r <? den then q else if den <? 2 * r then q + 1 else if Z.even q then q else q + 1 in
  let bits := (k - emin) * 2 ^ (p - 1) + q' in
  if inf <=? bits then inf else bits.

Definition dec2f64_mag (m e : Z) : Z := fp_mag 53 (-1074) m e.
Definition dec2f32_mag (m e : Z) : Z := fp_mag 24 (-149) m e.

(* full bit patterns; the sign is given separately so that "-0" keeps its sign *)
Definition dec2f64 (d : bool * Z * Z) : Z :=
  let '(neg, m, e) := d in (if neg then 2 ^ 63 else 0) + dec2f64_mag m e.
Definition dec2f32 (d : bool * Z * Z) : Z :=
  let '(neg, m, e) := d in (if neg then 2 ^ 31 else 0) + dec2f32_mag m e.

Definition f64_is_finite (bits : Z) : bool := negb ((bits / 2 ^ 52) mod 2048 =? 2047).
Definition f32_is_finite (bits : Z) : bool := negb ((bits / 2 ^ 23) mod 256 =? 255).
Definition f64_is_nan (bits : Z) : bool := ((bits / 2 ^ 52) mod 2048 =? 2047) && negb (bits mod 2 ^ 52 =? 0).

(* ---- specification of correct rounding, as a decidable test (independent of the algorithm fp_mag) ----
   magnitude bits b of a format (p, emin) denote  val b = mant b * 2^(expo b);  the bit patterns are ordered as their values,
   the pattern "infinity" standing for 2^(emax+1).  x = m * 10^e (m >= 0) rounds to b  iff  x lies between the midpoints to the
   neighbouring patterns, a midpoint itself going to the pattern with even mantissa (= even bit pattern). *)
Definition fp_mant (p : Z) (b : Z) : Z := let ex := b / 2 ^ (p - 1) in let fr := b mod 2 ^ (p - 1) in if ex =? 0 then fr else fr + 2 ^ (p - 1).
Definition fp_expo (p emin : Z) (b : Z) : Z := let ex := b / 2 ^ (p - 1) in if ex =? 0 then emin else emin + ex - 1.

(* compare m * 10^e with M * 2^K (m, M >= 0) *)
Definition cmp_dec_dyadic (m e M K : Z) : comparison :=
  let l := m * (if 0 <=? e then 10 ^ e else 1) * (if K <? 0 then 2 ^ (- K) else 1) in
  let r := M * (if 0 <=? K then 2 ^ K else 1) * (if e <? 0 then 10 ^ (- e) else 1) in
  l ?= r.

(* midpoint between the values of patterns b and b+1, as M * 2^K *)
Definition fp_mid (p emin : Z) (b : Z) : Z * Z :=
  let m1 := fp_mant p b in let k1 := fp_expo p emin b in
  let m2 := fp_mant p (b + 1) in let k2 := fp_expo p emin (b + 1) in
  (* k1 <= k2 <= k1 + 1 *)
  (m1 + m2 * 2 ^ (k2 - k1), k1 - 1).

Definition fp_rounds_to (p emin : Z) (m e : Z) (b : Z) : bool :=
  let inf := (2 * (2 - emin - p) + 1) * 2 ^ (p - 1) in
  if (b <? 0) || (inf <? b) then false else
  if m <=? 0 then b =? 0 else
  if e + Z.log2 m / 3 + 1 <? (emin - p) / 3 - 8 then b =? 0 else
  if (2 - emin) / 3 + 8 <? e then b =? inf else
  let even := Z.even b in
  let above_lower :=
    if b =? 0 then true else
    let '(M, K) := fp_mid p emin (b - 1) in
    match cmp_dec_dyadic m e M K with Gt => true | Eq => even | Lt => false end in
  let below_upper :=
    if b =? inf then true else
    let '(M, K) := fp_mid p emin b in
    match cmp_dec_dyadic m e M K with Lt => true | Eq => even | Gt => false end in
  above_lower && below_upper.

Definition f64_rounds_to (d : bool * Z * Z) (bits : Z) : bool :=
  let '(neg, m, e) := d in
  Bool.eqb neg (2 ^ 63 <=? bits) && fp_rounds_to 53 (-1074) m e (bits mod 2 ^ 63).
Definition f32_rounds_to (d : bool * Z * Z) (bits : Z) : bool :=
  let '(neg, m, e) := d in
  Bool.eqb neg (2 ^ 31 <=? bits) && fp_rounds_to 24 (-149) m e (bits mod 2 ^ 31).

(* lexeme -> binary64 bits (None: not a number lexeme) *)
Definition lex2f64 (l : list Z) : option Z := option_map dec2f64 (lex_decimal l).
Definition lex2f32 (l : list Z) : option Z := option_map dec2f32 (lex_decimal l).

(* the lexeme denotes, under round-to-nearest-even, exactly these bits: judged by the specification [f64_rounds_to] AND by the
   algorithm [dec2f64] (a disagreement between the two is an alarm, never a silent acceptance) *)
Definition lex_is_f64 (l : list Z) (bits : Z) : bool :=
  match lex_decimal l with
  | Some d => (dec2f64 d =? bits) && f64_rounds_to d bits
  | None => false
  end.
Definition lex_is_f32 (l : list Z) (bits : Z) : bool :=
  match lex_decimal l with
  | Some d => (dec2f32 d =? bits) && f32_rounds_to d bits
  | None => false
  end.
