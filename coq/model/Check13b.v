(* Correspondence checks for C13 (Protobuf half): compositions of the REAL converters on reference-encoded messages
     b --p2j--> J --j2p--> b' --p2j--> J''
   1311: fields = schema (ProtoCase.parse_schema), DisallowUnknownField of p2j, of j2p, b, ec1, J, ec2, b'.
         b and b' are decoded by the proved decoder (ProtoMsgProofs.decode_top_encode); the two messages must be equal up to the
         reference implementation's message equality (pval_eqv: order of fields and map entries free; the decoder already
         normalises packed / unpacked).  Domain: b is the canonical encoding of what it decodes to (no unknown fields) and the
         round trip holds ON THE MODELS for that message ( pdenote (pjson_of m) re-encoded and re-decoded is eqv to m ): that is
         decided per case by evaluating P2J.v and J2P.v, so every clause the two specs leave open (non-finite floats, map key
         kinds without a JSON reading, ...) is outside, and nothing else.
   1312: fields = schema, options, J (an output of p2j), ec2, b', ec3, J''.  Domain: J parses and the j2p spec gives it a
         denotation.  J and J'' are compared by denotation (RoundTrip.json_same).
   The sign of zero: J2P.v leaves the reading of "-0" open (RUndef), C13 does not: the domain test is made on the message with
   every -0.0 replaced by +0.0, the demand on the message itself.
   Error classes: 0 nil, 1 error, 2 panic, 4 no answer. *)
From Coq Require Import ZArith List Bool.
From DG Require Import CaseFormat ProtoWireRef ProtoMsg ProtoCase Json Num Base64 P2J P2JQuirk J2P RoundTrip Check13.
Import ListNotations.
Local Open Scope Z_scope.

Definition is_negzero_scalar (k v : Z) : bool := ((k =? K_DOUBLE) && (v =? 2 ^ 63)) || ((k =? K_FLOAT) && (v =? 2 ^ 31)).

Fixpoint p_has_negzero (v : pval) : bool :=
  match v with
  | VScalar k x => is_negzero_scalar k x
  | VBytes _ _ => false
  | VMsg fs => existsb (fun nv => p_has_negzero (snd nv)) fs
  | VList _ vs => existsb p_has_negzero vs
  | VMap kvs => existsb (fun kx => p_has_negzero (snd kx)) kvs
  end.
Fixpoint p_drop_negzero (v : pval) : pval :=
  match v with
  | VScalar k x => VScalar k (if is_negzero_scalar k x then 0 else x)
  | VBytes _ _ => v
  | VMsg fs => VMsg (map (fun nv => (fst nv, p_drop_negzero (snd nv))) fs)
  | VList p vs => VList p (map p_drop_negzero vs)
  | VMap kvs => VMap (map (fun kx => (fst kx, p_drop_negzero (snd kx))) kvs)
  end.
Definition m_drop_negzero (m : pmsg) : pmsg := map (fun nv => (fst nv, p_drop_negzero (snd nv))) m.

Definition p2j_plain : p2j_opts := mk_p2j_opts false false.

(* the round trip on the models: Some m'' = what the proved decoder reads from the spec's encoding of the message the spec's
   document denotes *)
Definition model_rt (S : schema) (root : list Z) (m : pmsg) : option pmsg :=
  match pjson_of S p2j_plain root m, find_msg S root with
  | Some (JObj ms as j), Some md =>
    (* J2P.pdenote without its final well-formedness test: that test rejects a numeric repeated field declared [packed=false]
       (the denotation always packs), which is a wire-form detail the proved decoder normalises away *)
    match denote_members false false S (json_depth j) md ms with
    | ROk m' => decode_top S root (encode_msg m')
    | _ => None
    end
  | _, _ => None
  end.

(* finding 1324: j2p writes the elements of a numeric repeated field declared [packed=false] with neither tag nor length.
   Selector: the decoded message holds an unpacked list of numeric scalars (the decoder keeps the schema's packedness);
   quirk: the canonical encoding with exactly those lists written as bare payloads. *)
Definition is_scalar_val (v : pval) : bool := match v with VScalar _ _ => true | _ => false end.
Fixpoint p_has_unpacked_num (v : pval) : bool :=
  match v with
  | VList false vs => (negb (is_nil vs) && forallb is_scalar_val vs) || existsb p_has_unpacked_num vs
  | VList true _ => false
  | VMsg fs => existsb (fun nv => p_has_unpacked_num (snd nv)) fs
  | VMap kvs => existsb (fun kx => p_has_unpacked_num (snd kx)) kvs
  | _ => false
  end.
Fixpoint q_enc (n : Z) (v : pval) {struct v} : list Z :=
  match v with
  | VList false vs =>
    if negb (is_nil vs) && forallb is_scalar_val vs then flat_map packed_elem vs
    else flat_map (fun x => q_enc n x) vs
  | VMsg fs => wenc [(n, WBytes (flat_map (fun nv => q_enc (fst nv) (snd nv)) fs))]
  | VMap kvs => flat_map (fun kx => wenc [(n, WBytes (wenc [key_field (fst kx)] ++ q_enc 2 (snd kx)))]) kvs
  | _ => wenc (wfld n v)
  end.
Definition q_encode_msg (m : pmsg) : list Z := flat_map (fun nv => q_enc (fst nv) (snd nv)) m.

Definition msg_eqv (a b : pmsg) : bool := pval_eqv (VMsg a) (VMsg b).

(* which recorded defects of p2j (findings/C08.json) explain the document it returned for m: None = not explained *)
Definition p2j_explained (S : schema) (root : list Z) (m : pmsg) (J : list Z) : option (list Z) :=
  match pj_of S p2j_plain root m with
  | None => None
  | Some p =>
    match json_parse J with
    | Some j => mor (pj_match false false p j) (pj_match true false p j)
    | None => match json_parse_len J with Some j => pj_match true false p j | None => None end
    end
  end.
Definition has_id (i : Z) (o : option (list Z)) : bool := match o with Some l => existsb (Z.eqb i) l | None => false end.

Fixpoint json_count_negzero (j : json) : Z :=
  match j with
  | JNum l => if lex_negzero l then 1 else 0
  | JArr xs => fold_right (fun x a => json_count_negzero x + a) 0 xs
  | JObj ms => fold_right (fun m a => json_count_negzero (snd m) + a) 0 ms
  | _ => 0
  end.

Definition check_1311 (fs : list field) : verdict :=
  match parse_schema fs with
  | Some (root, Sc, [FZ dis1; FZ dis2; FB b; FZ ec1; FB J; FZ ec2; FB b2]) =>
    match decode_top Sc root b with
    | None => VSkip
    | Some m =>
      (* no unknown fields and nothing the decoder had to repair: either b is the canonical encoding of m, or it differs from it
         only in wire-form choices the decoder normalises (a packed-declared repeated scalar arriving unpacked): stripping
         undeclared records changes nothing and re-decoding the canonical encoding gives the same message *)
      if negb (if bytes_eqb (encode_msg m) b then true
               else match strip_unknown Sc (Datatypes.S (length b)) root b with
                    | Some sb =>
                      if bytes_eqb sb b
                      then match decode_top Sc root (encode_msg m) with Some m' => if msg_eqv m m' then msg_eqv m' m else false | None => false end
                      else false
                    | None => false
                    end)
      then VSkip else
      let m0 := m_drop_negzero m in
      match model_rt Sc root m0 with
      | None => VSkip                                               (* no JSON image, or the j2p spec leaves its reading open *)
      | Some m0' =>
        if negb (msg_eqv m0 m0') then VBad 91 [] else               (* the two SPECS disagree: a defect of the models *)
        if (ec1 =? 2) || (ec1 =? 4) || (ec2 =? 2) || (ec2 =? 4) then VBad 9 [] else
        if negb (ec1 =? 0) then VBad 1 [] else
        (* a document that deviates from the p2j spec exactly as C08's recorded defects describe has no way back:
           802 a bool map key without quotes (not JSON), 801 an unsigned 64-bit value or key >= 2^63 written as a negative number *)
        let ex := p2j_explained Sc root m J in
        let known := if has_id F_BARE_KEY ex then VKnown 1321 else if has_id F_UNSIGNED_NEG ex then VKnown 1323
                     else if existsb (fun nv => p_has_unpacked_num (snd nv)) m && (ec2 =? 0) &&
                             (bytes_eqb b2 (q_encode_msg m) || bytes_eqb b2 (q_encode_msg m0)) then VKnown 1324
                     else VBad 2 [FB J] in
        if negb (ec2 =? 0) then known else
        match decode_top Sc root b2 with
        | None => (match known with VKnown k => VKnown k | _ => VBad 4 [FB J] end)
        | Some m2 =>
          if msg_eqv m m2 then VOk
          else if existsb (fun nv => p_has_negzero (snd nv)) m && msg_eqv m0 m2 then VKnown 1322
          else (match known with VKnown k => VKnown k | _ => VBad 3 [FB J] end)
        end
      end
    end
  | _ => VBad 99 []
  end.

Definition check_1312 (fs : list field) : verdict :=
  match parse_schema fs with
  | Some (root, Sc, [FZ dis1; FZ dis2; FB J; FZ ec2; FB b2; FZ ec3; FB J2]) =>
    match json_parse J with
    | None => VDrift 10                                              (* p2j returned text that is not JSON: C08's business *)
    | Some j =>
      if negb (json_utf8 j) then VSkip else
      let nz := json_has_negzero false j in
      match pdenote (negb (dis2 =? 0)) Sc root (if nz then json_drop_negzero false j else j) with
      | ROk _ =>
        if (ec2 =? 2) || (ec2 =? 4) || (ec3 =? 2) || (ec3 =? 4) then VBad 9 [] else
        if negb (ec2 =? 0) then VBad 11 [] else
        if negb (ec3 =? 0) then VBad 12 [] else
        match json_parse J2 with
        | None => VBad 13 []
        | Some j2 =>
          if json_same j j2 then VOk else
          (* the value is a Protobuf message: compare the denotations (an empty array / object is an absent field) *)
          match pdenote false Sc root (json_drop_negzero false j), pdenote false Sc root (json_drop_negzero false j2) with
          | ROk m1, ROk m2 =>
            if negb (msg_eqv m1 m2) then VBad 14 [FB J]
            else if json_count_negzero j =? json_count_negzero j2 then VOk
            else if json_count_negzero j2 =? 0 then VKnown 1322
            else VBad 15 [FB J]
          | _, _ => VBad 14 [FB J]
          end
        end
      | _ => VDrift 2                                                (* the j2p spec gives this document no denotation *)
      end
    end
  | _ => VBad 99 []
  end.
