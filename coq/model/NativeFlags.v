(* The flag word handed to the native JSON->Thrift converter (native/thrift.h: F_ALLOW_UNKNOWN .. F_TRACE_BACK) and how the
   models' option records are read off it.  The constants are the ones of native/thrift.h, the header the assembly under
   internal/native/{avx2,avx,sse} is compiled from; proofs/GenJ2tflagsProofs.v proves that conv/j2t toFlags (generated from the
   Go source on every build) produces exactly this word.  Definitions only. *)
From Coq Require Import ZArith List Bool.
From DG Require J2T Requireness.
Import ListNotations.
Local Open Scope Z_scope.

Definition NF_ALLOW_UNKNOWN : Z := 1.      (* 1ull *)
Definition NF_WRITE_DEFAULT : Z := 2.      (* 1ull << 1 *)
Definition NF_VALUE_MAPPING : Z := 4.
Definition NF_HTTP_MAPPING : Z := 8.
Definition NF_STRING_INT : Z := 16.
Definition NF_WRITE_REQUIRE : Z := 32.
Definition NF_NO_BASE64 : Z := 64.
Definition NF_WRITE_OPTIONAL : Z := 128.
Definition NF_TRACE_BACK : Z := 256.

(* `flags & F_X` as the C code tests it *)
Definition flag_on (fl m : Z) : bool := negb (Z.land fl m =? 0).

(* the option record of the J2T model (C02) / of the requiredness model (C16), as the native code sees it in the flag word *)
Definition jopts_of_flags (fl : Z) : J2T.jopts :=
  J2T.mkOpts (negb (flag_on fl NF_ALLOW_UNKNOWN)) (flag_on fl NF_STRING_INT) (flag_on fl NF_NO_BASE64) (flag_on fl NF_VALUE_MAPPING).

Definition wopts_of_flags (fl : Z) : Requireness.wopts :=
  {| Requireness.w_require := flag_on fl NF_WRITE_REQUIRE; Requireness.w_default := flag_on fl NF_WRITE_DEFAULT;
     Requireness.w_optional := flag_on fl NF_WRITE_OPTIONAL; Requireness.w_disallow_unknown := negb (flag_on fl NF_ALLOW_UNKNOWN) |}.

(* the flag word of a model option record (all other options off) *)
Definition bit_if (b : bool) (m : Z) : Z := if b then m else 0.
Definition flags_of_jopts (o : J2T.jopts) : Z :=
  bit_if (negb (J2T.o_disallow_unknown o)) NF_ALLOW_UNKNOWN + bit_if (J2T.o_str2int o) NF_STRING_INT +
  bit_if (J2T.o_nob64 o) NF_NO_BASE64 + bit_if (J2T.o_vm o) NF_VALUE_MAPPING.
Definition flags_of_wopts (w : Requireness.wopts) : Z :=
  bit_if (negb (Requireness.w_disallow_unknown w)) NF_ALLOW_UNKNOWN + bit_if (Requireness.w_require w) NF_WRITE_REQUIRE +
  bit_if (Requireness.w_default w) NF_WRITE_DEFAULT + bit_if (Requireness.w_optional w) NF_WRITE_OPTIONAL.

(* the ten options toFlags looks at, in the order the harness numbers them (bit i of the case's first field):
   0 WriteDefaultField, 1 DisallowUnknownField, 2 EnableValueMapping, 3 EnableHttpMapping, 4 String2Int64, 5 WriteRequireField,
   6 NoBase64Binary, 7 WriteOptionalField, 8 ReadHttpValueFallback, 9 TracebackRequredOrRootFields.
   F_TRACE_BACK (unset required / root-level fields are handed back to Go) is wanted by ReadHttpValueFallback, and by
   TracebackRequredOrRootFields when http mapping is on (repair of finding 1711).  The word they must produce: *)
Definition nflags_of_bits (b : Z) : Z :=
  bit_if (Z.testbit b 0) NF_WRITE_DEFAULT + bit_if (negb (Z.testbit b 1)) NF_ALLOW_UNKNOWN + bit_if (Z.testbit b 2) NF_VALUE_MAPPING +
  bit_if (Z.testbit b 3) NF_HTTP_MAPPING + bit_if (Z.testbit b 4) NF_STRING_INT + bit_if (Z.testbit b 5) NF_WRITE_REQUIRE +
  bit_if (Z.testbit b 6) NF_NO_BASE64 + bit_if (Z.testbit b 7) NF_WRITE_OPTIONAL + bit_if (Z.testbit b 8 || (Z.testbit b 3 && Z.testbit b 9)) NF_TRACE_BACK.
Definition native_flag_list : list Z :=
  [NF_ALLOW_UNKNOWN; NF_WRITE_DEFAULT; NF_VALUE_MAPPING; NF_HTTP_MAPPING; NF_STRING_INT; NF_WRITE_REQUIRE; NF_NO_BASE64; NF_WRITE_OPTIONAL; NF_TRACE_BACK].
