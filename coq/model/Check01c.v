(* Correspondence check for the typed (descriptor-carrying) read layer: the implementation's Value.GetByPath (ids and
   names), Value.Field / Index / GetByStr / GetByInt and Value.FieldByName are judged by the model of ThriftTyped
   (theorems: typed_untyped_agree & co in Properties_C01). The descriptor is the abstract type shape the harness generated
   the IDL from, serialised into the case. *)
From Coq Require Import ZArith List Bool.
From DG Require Import CaseFormat ProtoWireRef ThriftWire ThriftGeneric ThriftTyped Check01.
Import ListNotations.
Local Open Scope Z_scope.

(* descriptor bytes: scalar [t]; list [15] e; set [14] e; map [13] k e; struct [12; n_hi; n_lo] then n x (id_hi id_lo len name.. desc) *)
Fixpoint parse_desc (fuel : nat) (bs : list Z) : option (tdesc * list Z) :=
  match fuel with
  | O => None
  | S f =>
    match bs with
    | [] => None
    | t :: r =>
      if t =? T_LIST then match parse_desc f r with Some (e, r') => Some (DList e, r') | None => None end
      else if t =? T_SET then match parse_desc f r with Some (e, r') => Some (DSet e, r') | None => None end
      else if t =? T_MAP then
        match parse_desc f r with
        | Some (k, r') => match parse_desc f r' with Some (e, r'') => Some (DMap k e, r'') | None => None end
        | None => None
        end
      else if t =? T_STRUCT then
        match r with
        | nh :: nl :: r' =>
          match
            (fix fields (n : nat) (bs : list Z) : option (list (Z * list Z * tdesc) * list Z) :=
               match n with
               | O => Some ([], bs)
               | S n' =>
                 match bs with
                 | ih :: il :: len :: r1 =>
                   if (Z.to_nat len <=? length r1)%nat then
                     match parse_desc f (skipn (Z.to_nat len) r1) with
                     | Some (d, r2) =>
                       match fields n' r2 with
                       | Some (l, r3) => Some ((to_s 16 (ih * 256 + il), firstn (Z.to_nat len) r1, d) :: l, r3)
                       | None => None
                       end
                     | None => None
                     end
                   else None
                 | _ => None
                 end
               end) (Z.to_nat (nh * 256 + nl)) r'
          with
          | Some (l, r3) => Some (DStruct l, r3)
          | None => None
          end
        | _ => None
        end
      else Some (DScalar t, r)
    end
  end.

(* typed path: n steps; kind 6 = field NAME (followed by the id the harness believes it has: ignored) *)
Fixpoint parse_tsteps (n : nat) (fs : list field) : option (list tstep * list field) :=
  match n with
  | O => Some ([], fs)
  | S n' =>
    match fs with
    | FZ 1 :: FZ id :: r => match parse_tsteps n' r with Some (p, r') => Some (TField id :: p, r') | None => None end
    | FZ 2 :: FZ i :: r => match parse_tsteps n' r with Some (p, r') => Some (TIndex i :: p, r') | None => None end
    | FZ 3 :: FB s :: r => match parse_tsteps n' r with Some (p, r') => Some (TStrKey s :: p, r') | None => None end
    | FZ 4 :: FZ k :: r => match parse_tsteps n' r with Some (p, r') => Some (TIntKey k :: p, r') | None => None end
    | FZ 5 :: FB b :: r => match parse_tsteps n' r with Some (p, r') => Some (TBinKey b :: p, r') | None => None end
    | FZ 6 :: FB nm :: FZ _ :: r => match parse_tsteps n' r with Some (p, r') => Some (TName nm :: p, r') | None => None end
    | _ => None
    end
  end.

Definition parse_tpath (fs : list field) : option (list tstep * list field) :=
  match fs with
  | FZ n :: r => if (n <? 0) || (n >? 1000) then None else parse_tsteps (Z.to_nat n) r
  | _ => None
  end.

Definition gres_eqb (a b : gres) : bool :=
  match a, b with
  | GFound t s e, GFound t' s' e' => (t =? t') && (s =? s') && (e =? e')
  | GNotFound, GNotFound => true
  | GErr, GErr => true
  | _, _ => false
  end.

Definition gres_fields (r : gres) : list field :=
  match r with GFound t s e => [FZ 0; FZ t; FZ s; FZ e] | GNotFound => [FZ 1] | GErr => [FZ 2] end.

(* observation vs model result: Found exact; NotFound = the not-found status (the one-step Index accessor reports an index
   >= size as another error); Err = any error status, never success, never a panic *)
Definition tobs_ok (idx_single : bool) (exp : gres) (st ty s e : Z) : bool :=
  match exp with
  | GFound t a b => (st =? 0) && (ty =? t) && (s =? a) && (e =? b)
  | GNotFound => (st =? 1) || (idx_single && (st =? 2))
  | GErr => (st =? 1) || (st =? 2)
  end.

Definition last_tstep (p : list tstep) : option (list tstep * tstep) :=
  match rev p with [] => None | s :: rp => Some (rev rp, s) end.

(* the typed parent handle a one-step accessor is called on: (descriptor, type, bytes from its start, start offset) *)
Definition typed_parent (d : tdesc) (t : Z) (bs : list Z) (pre : list tstep) : option (tdesc * Z * list Z * Z) :=
  match vget_by_path d t bs 0 pre, vdesc_by_path d pre with
  | GFound t' a _, Some d' => Some (d', t', skipn (Z.to_nat a) bs, a)
  | _, _ => None
  end.

(* 108: fields = root type, bytes, descriptor bytes, api, typed path, status, type, start, end.
   api 2 / 3 = Value.GetByPath (ids / names), 5 = one-step accessor on the typed parent (Field / Index / GetByStr / GetByInt),
   6 = FieldByName on the typed parent *)
Definition check_108 (fs : list field) : verdict :=
  match fs with
  | FZ t :: FB bs :: FB db :: FZ api :: rest =>
    match parse_tpath rest, parse_desc (S (length db)) db with
    | Some (p, [FZ st; FZ ty; FZ s; FZ e]), Some (d, []) =>
      match decode_all t bs with
      | None => VSkip
      | Some v =>
        if negb (wf v && desc_ok d && conforms d v) then VSkip else
        if (api =? 2) || (api =? 3) then
          let typed := vget_by_path d t bs 0 p in
          (* the theorem's right-hand side, evaluated on the same case *)
          if negb (gres_eqb typed (typed_spec (resolve d p) (get_by_path t bs 0))) then VBad 50 (gres_fields typed)
          else expect 1 (tobs_ok false typed st ty s e) (gres_fields typed)
        else
          match last_tstep p with
          | None => VBad 98 []
          | Some (pre, lst) =>
            match typed_parent d t bs pre with
            | None => VSkip
            | Some (d', t', bs', a) =>
              if api =? 5 then
                let r := vsingle d' t' bs' a lst in
                expect 2 (tobs_ok (match lst with TIndex _ => true | _ => false end) r st ty s e) (gres_fields r)
              else
                match lst with
                | TName nm => let r := vfield_by_name d' t' bs' a nm in expect 3 (tobs_ok false r st ty s e) (gres_fields r)
                | _ => VBad 98 []
                end
            end
          end
      end
    | _, _ => VBad 99 []
    end
  | _ => VBad 99 []
  end.
