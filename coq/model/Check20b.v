(* C20, message level: descriptor-driven writer / reader (proto/binary WriteAnyWithDesc / ReadAnyWithDesc) on whole
   messages. The abstract schema and message come from the harness generator; every byte string the implementation
   or the reference produced is decoded HERE with the proved decoder (ProtoMsg.decode_top) and compared, up to field
   order / map entry order, with the abstract message. *)
From Coq Require Import ZArith List Bool.
From DG Require Import CaseFormat ProtoWireRef ProtoMsg ProtoCase.
Import ListNotations.
Local Open Scope Z_scope.

Definition same_msg (S : schema) (root : list Z) (m : pmsg) (bs : list Z) : bool :=
  match decode_top S root bs with
  | Some m' => pval_eqv (VMsg m') (VMsg m) && pval_eqv (VMsg m) (VMsg m')
  | None => false
  end.

(* a map<string, message> field anywhere in the value (finding 2002: WriteMap's string-key branch swaps two arguments) *)
Fixpoint has_strkey_msgval (v : pval) : bool :=
  match v with
  | VMsg fs => existsb (fun nv => has_strkey_msgval (snd nv)) fs
  | VList _ vs => existsb has_strkey_msgval vs
  | VMap kvs => existsb (fun kx => (match fst kx, snd kx with KStr _, VMsg _ => true | _, _ => false end)
                                   || has_strkey_msgval (snd kx)) kvs
  | _ => false
  end.

(* 2007. fields: schema.., message.., mode, write code, b, read code, b_rt, ref bytes, read-ref code, b_rt2, accepted, b_can *)
Definition check_2007 (fs : list field) : verdict :=
  match parse_schema fs with
  | None => VBad 98 []
  | Some (root, SC, rest) =>
    match parse_msg rest with
    | Some (m, [FZ mode; FZ wc; FB b; FZ rc; FB brt; FB refb; FZ rc2; FB brt2; FZ acc; FB bcan]) =>
      if negb (wf_msg SC root m) then VSkip else
      (* the harness's reference bytes must be the abstract message (model vs reference tie) *)
      if negb (same_msg SC root m refb) then VBad 90 [FB (encode_msg m)] else
      vand (expect 1 (wc =? 0) [])
     (vand (expect 2 (same_msg SC root m b) [FB (encode_msg m)])
     (vand (expect 3 ((acc =? 0) && same_msg SC root m bcan) [FB (encode_msg m)])
     (vand (expect 4 ((rc =? 0) && same_msg SC root m brt) [FZ rc; FB brt])
           (expect 5 ((rc2 =? 0) && same_msg SC root m brt2) [FZ rc2; FB brt2]))))
    | _ => VBad 99 []
    end
  end.
