(* C04 check 403: the byte-level algorithm model (ThriftEditBytes.set_by_path / unset_by_path, the functions
   C04_set_refines / C04_unset_refines / C04_history_refines are about) is run on the BYTES of the current state and must
   produce exactly the implementation's bytes after each step of a history (same splice, same insertion position, same
   count patch), the same 'exist' flag and the same error class.
   Case: type, bytes, number of ops, then per op: kind (1 set, 2 unset), path, sub type, sub bytes, impl err (0 nil,
   1 error, 3 panic), impl exist, impl bytes after the op, flags (bit 0: Value API, bit 1: all field steps declared). *)
From Coq Require Import ZArith List Bool.
From DG Require Import CaseFormat ProtoWireRef ThriftWire ThriftGeneric ThriftEdit ThriftEditBytes Check01 Check04.
Import ListNotations.
Local Open Scope Z_scope.

(* the implementation inserted the new element at ANOTHER position of the addressed container (the property leaves the
   position open): the path now finds exactly the new bytes, and taking the element out again (byte-level unset, which
   is position independent) gives back the previous buffer *)
Definition inserted_elsewhere (t : Z) (cur : list Z) (p : list pstep) (st : Z) (sb res : list Z) : bool :=
  match skip_go t res with Some [] => true | _ => false end &&     (* unjudged implementation bytes: bounds-checked walk first *)
  match get_by_path t res 0 p with
  | GFound t' s e =>
      (t' =? st) && bytes_eqb (bfirstn (e - s) (bskipn s res)) sb &&
      match unset_by_path true t res p with UbOk b => bytes_eqb b cur | _ => false end
  | _ => false
  end.

(* model-internal agreement inside the domain of the refinement theorems: when the current buffer is the encoding of a
   well-formed value and the op is in op_dom, the byte-level step must be the encoding of the AST-level step *)
Definition spec_agrees (t : Z) (cur : list Z) (o : eop) : bool :=
  match decode_all t cur with
  | Some v =>
      if wf v && op_dom true v o && op_compat v o then     (* op_dom first: it walks raw keys with bounds checks before decoding them *)
        let '(t', b') := bytes_step true (t, cur) o in
        let v' := ast_step true v o in (t' =? type_of v') && bytes_eqb b' (encode v')
      else true
  | None => true
  end.

(* finding 408 (repaired in /repo by 384585a; the model's [fx = true] is the repaired deleteChild): BEFORE the repair deleteChild
   compared the raw bytes of Path.ToRaw with the raw key bytes of a map without checking that the step is of the map's key
   kind: a string-key step on a map with another key type (for GetByPath / SetByPath an error, for the spec a path that
   addresses nothing) removed the entry whose key bytes happen to equal the 4-byte length + bytes of the string
   (UnsetByPath(StrKey("")) removed key 0 of a map<i32,_>), nil error.  If that behaviour comes back it is reported under
   its id: the implementation's bytes equal the result of the model WITHOUT the repair ([fx = false]) where the model with
   the repair reports an error.  Selector: *)
Definition is_408 (t : Z) (cur : list Z) (p : list pstep) : bool :=
  match decode_all t cur with
  | Some v =>
      wf v &&
      match split_last p with
      | Some (pre, PStrKey _) =>
          match lookup v 0 pre with LFound (VMap kt _ _) _ => negb (kt =? T_STRING) | _ => false end
      | _ => false
      end
  | None => false
  end.

(* verdict and whether the history goes on.  A Value-API insertion of a node whose type is not the declared one (witness: the
   initial value v0, see Check04.declared_mismatch) is outside the API contract: the value stops conforming to its descriptor,
   the Value API (declared types) and the byte model (wire types) legitimately part ways; the history ends there. *)
Definition ends_403 (v0 : tval) (t : Z) (cur : list Z) (kind : Z) (p : list pstep) (st : Z) (sb : list Z) (flags : Z) : bool :=
  (kind =? 1) && Z.testbit flags 0 &&
  match decode_all st sb with
  | Some x => declared_mismatch v0 p x &&
              match set_by_path t cur p sb st with Some (_, false) => true | _ => false end
  | None => false
  end.

Definition step_403 (idx t : Z) (cur : list Z) (kind : Z) (p : list pstep) (st : Z) (sb : list Z)
                    (err ex : Z) (res : list Z) (flags : Z) : verdict :=
  if is_nil p then VBad 94 [] else
  if kind =? 5 then
    (* ReplaceByPath (Node's method, also reached through a Value's embedded node: no descriptor guard).  Callback from
       flags bits 2-3: 0 returns the node (st, sb) whatever it is given, 1 returns its argument, 2 returns an error node *)
    let mode := (flags / 4) mod 4 in
    let cb := if mode =? 1 then CbId else if mode =? 2 then CbErr else CbConst st sb in
    let internal :=
      match decode_all t cur with
      | Some v =>
          if wf v && (depth v <=? max_skip_depth)%nat then
            let acb := if mode =? 1 then Some ACId else if mode =? 2 then Some ACErr
                       else match decode_all st sb with Some x => Some (ACConst x) | None => None end in
            match acb with
            | Some a => match replace_by_path t cur p cb, rres_of (ast_replace p a v) with
                        | ROk b1, ROk b2 => bytes_eqb b1 b2
                        | RErr e1, RErr e2 => Bool.eqb e1 e2
                        | _, _ => false
                        end
            | None => true
            end
          else true
      | None => true
      end in
    if negb internal then VBad 52 [] else
    match replace_by_path t cur p cb with
    | ROk b => expect (800 + idx) ((err =? 0) && (ex =? 1) && bytes_eqb res b) [FZ 0; FZ 1; FB b]
    | RErr e => expect (900 + idx) ((err =? 1) && (ex =? Z.b2z e) && bytes_eqb res cur) [FZ 1; FZ (Z.b2z e); FB cur]
    end
  else
  (* Value API through a field the IDL does not declare: the descriptor guard answers before the algorithm runs (set: an error;
     unset consults the descriptor for the parent only); the buffer is unchanged *)
  if Z.testbit flags 0 && negb (Z.testbit flags 1) then
    expect (700 + idx) (((err =? 1) || (kind =? 2)) && bytes_eqb res cur) [FZ 1; FB cur] else
  if kind =? 1 then
    let internal := match decode_all st sb with Some x => spec_agrees t cur (OSet p x) | None => true end in
    if negb internal then VBad 50 [] else
    match set_by_path t cur p sb st with
    | Some (bs', e) =>
        if (err =? 0) && (ex =? Z.b2z e) && bytes_eqb res bs' then VOk
        else if negb e && (err =? 0) && (ex =? 0) && inserted_elsewhere t cur p st sb res then VDrift 1
        else VBad (200 + idx) [FZ 0; FZ (Z.b2z e); FB bs']
    | None => expect (100 + idx) ((err =? 1) && bytes_eqb res cur) [FZ 1; FB cur]
    end
  else if kind =? 2 then
    if negb (spec_agrees t cur (OUnset p)) then VBad 51 [] else
    match unset_by_path true t cur p with
    | UbOk bs' => expect (300 + idx) ((err =? 0) && bytes_eqb res bs') [FZ 0; FB bs']
    | UbNotFound => expect (400 + idx) ((err =? 1) && bytes_eqb res cur) [FZ 1; FB cur]
    | UbErr bs' =>
        if (err =? 1) && bytes_eqb res bs' then VOk
        else if is_408 t cur p && (err =? 0) &&
                match unset_by_path false t cur p with UbOk b => negb (bytes_eqb b cur) && bytes_eqb res b | _ => false end
             then VKnown 408
        else VBad (500 + idx) [FZ 1; FB bs']
    end
  else VBad 98 [].

(* the next step starts from the implementation's buffer (equal to the model's unless the verdict was a drift).  An insertion
   outside the API contract (a raw key that is no key encoding, a node of a type the container does not declare) is performed
   by the code and by the byte model alike, but leaves a buffer that is no value any more: the history is judged up to that
   step and ends there (the walk of the next step would read declared lengths the bounds-checked skip rejects) *)
Definition walkable (t : Z) (bs : list Z) : bool := match skip_go t bs with Some [] => true | _ => false end.

Fixpoint run_403 (v0 : tval) (n : nat) (idx t : Z) (cur : list Z) (fs : list field) : verdict :=
  match n with
  | O => match fs with [] => VOk | _ => VBad 97 [] end
  | S n' =>
    match fs with
    | FZ kind :: rest =>
      match parse_path rest with
      | Some (p, FZ st :: FB sb :: FZ err :: FZ ex :: FB res :: FZ flags :: rest') =>
        let ends := ends_403 v0 t cur kind p st sb flags in
        (* a code that REJECTS the out-of-contract insertion (error, buffer unchanged) is fine too: the history goes on *)
        if ends && (err =? 1) && bytes_eqb res cur then run_403 v0 n' (idx + 1) t cur rest' else
        let go_on := negb ends && walkable t res in
        match step_403 idx t cur kind p st sb err ex res flags with
        | VOk => if go_on then run_403 v0 n' (idx + 1) t res rest' else VOk
        | VDrift c => if go_on then match run_403 v0 n' (idx + 1) t res rest' with VOk => VDrift c | o => o end else VDrift c
        | o => o
        end
      | _ => VBad 96 []
      end
    | _ => VBad 95 []
    end
  end.

Definition check_403 (fs : list field) : verdict :=
  match fs with
  | FZ t :: FB bs :: FZ nops :: rest =>
    (* the walk below runs on the implementation's bytes: only start from a buffer the proved decoder accepts *)
    match decode_all t bs with
    | None => VSkip
    | Some v => if negb (wf v) then VSkip else
                if (nops <? 0) || (nops >? 1000) then VBad 99 [] else run_403 v (Z.to_nat nops) 0 t bs rest
    end
  | _ => VBad 99 []
  end.
