(* C19, algorithm level: the as-coded model of thrift.BinaryProtocol.WriteAnyWithDesc / ReadAnyWithDesc (model/ThriftAnyDesc.v,
   theorems in proofs/ThriftAnyDescProofs.v) against the implementation, byte for byte and value for value.
     1925  WriteAnyWithDesc(desc, goValue, cast, disallowUnknown, useFieldName): error status and the whole buffer must equal
           write_any_desc. A Go map has no order: the order the implementation iterated in is recovered by reading its own
           output with the (raw) model reader and re-ordering the association lists of the case value accordingly (reorder:
           an entry is moved to the place of an entry of the output whose model encoding it has); the re-ordered value must
           be the same Go value (gser: canonical serialisation with sorted maps) and is then written by the model - any
           mistake in the recovery can only make the exact comparison fail.
     1926  ReadAnyWithDesc(desc, bytes, byteAsUint8, copyString, disallowUnknown, useFieldName): error / value (modulo map
           order) / bytes left must equal read_any_desc.
   Go values travel in the prefix code of harness/c19_anydesc.go (see parse_gval), descriptors as bytes (parse_adesc). *)
From Coq Require Import ZArith List Bool.
From DG Require Import CaseFormat ProtoWireRef ThriftWire ThriftGeneric ThriftEnvelope ThriftAnyDesc.
Import ListNotations.
Local Open Scope Z_scope.

(* descriptor bytes: scalar [t]; string [11; bin]; list [15] e; set [14] e; map [13] k e;
   struct [12; n_hi; n_lo] then n x (id_hi id_lo len key.. desc) *)
Fixpoint parse_adesc (fuel : nat) (bs : list Z) : option (adesc * list Z) :=
  match fuel with
  | O => None
  | S f =>
    match bs with
    | [] => None
    | t :: r =>
      if t =? T_LIST then match parse_adesc f r with Some (e, r') => Some (AList e, r') | None => None end
      else if t =? T_SET then match parse_adesc f r with Some (e, r') => Some (ASet e, r') | None => None end
      else if t =? T_MAP then
        match parse_adesc f r with
        | Some (k, r') => match parse_adesc f r' with Some (e, r'') => Some (AMap k e, r'') | None => None end
        | None => None
        end
      else if t =? T_STRING then match r with b :: r' => Some (AString (negb (b =? 0)), r') | [] => None end
      else if t =? T_STRUCT then
        match r with
        | nh :: nl :: r' =>
          match
            (fix fields (n : nat) (bs : list Z) : option (list (Z * list Z * adesc) * list Z) :=
               match n with
               | O => Some ([], bs)
               | S n' =>
                 match bs with
                 | ih :: il :: len :: r1 =>
                   if (Z.to_nat len <=? length r1)%nat then
                     match parse_adesc f (skipn (Z.to_nat len) r1) with
                     | Some (d, r2) =>
                       match fields n' r2 with
                       | Some (l, r3) => Some ((ih * 256 + il, firstn (Z.to_nat len) r1, d) :: l, r3)
                       | None => None
                       end
                     | None => None
                     end
                   else None
                 | _ => None
                 end
               end) (Z.to_nat (nh * 256 + nl)) r'
          with
          | Some (l, r3) => Some (AStruct l, r3)
          | None => None
          end
        | _ => None
        end
      else Some (AScalar t, r)
    end
  end.

(* ---- Go values *)
Definition cnt_ok (n : Z) (fs : list field) : bool := (0 <=? n) && (n <=? zlen fs).

Section GLoops.
  Variable p : list field -> option (gval * list field).
  Fixpoint gparse_n (n : nat) (fs : list field) : option (list gval * list field) :=
    match n with
    | O => Some ([], fs)
    | S n' => match p fs with
              | Some (v, r) => match gparse_n n' r with Some (l, r') => Some (v :: l, r') | None => None end
              | None => None
              end
    end.
  Fixpoint gparse_s (n : nat) (fs : list field) : option (list (list Z * gval) * list field) :=
    match n with
    | O => Some ([], fs)
    | S n' => match fs with
              | FB k :: r => match p r with
                             | Some (v, r1) => match gparse_s n' r1 with Some (l, r2) => Some ((k, v) :: l, r2) | None => None end
                             | None => None
                             end
              | _ => None
              end
    end.
  Fixpoint gparse_z (n : nat) (fs : list field) : option (list (Z * gval) * list field) :=
    match n with
    | O => Some ([], fs)
    | S n' => match fs with
              | FZ k :: r => match p r with
                             | Some (v, r1) => match gparse_z n' r1 with Some (l, r2) => Some ((k, v) :: l, r2) | None => None end
                             | None => None
                             end
              | _ => None
              end
    end.
  Fixpoint gparse_a (n : nat) (fs : list field) : option (list (gval * gval) * list field) :=
    match n with
    | O => Some ([], fs)
    | S n' => match p fs with
              | Some (k, r) => match p r with
                               | Some (v, r1) => match gparse_a n' r1 with Some (l, r2) => Some ((k, v) :: l, r2) | None => None end
                               | None => None
                               end
              | None => None
              end
    end.
End GLoops.

(* n0 nil | n1 n<b> bool | n2 n<t> n<z> integer | n3 n<bits> float32 | n4 n<bits> float64 | n5 x string | n6 x []byte
   n7 n<len> v* | n8 n<len> {x<key> v}* map[string] | n9 n<t> n<len> {n<key> v}* map[intN] | n10 n<len> {v v}* map[interface{}]
   n11 n<len> {n<id> v}* map[FieldID] | n12 v pointer *)
Fixpoint parse_gval (fuel : nat) (fs : list field) : option (gval * list field) :=
  match fuel with
  | O => None
  | S f =>
    match fs with
    | FZ 0 :: r => Some (GNil, r)
    | FZ 1 :: FZ b :: r => Some (GBool (negb (b =? 0)), r)
    | FZ 2 :: FZ t :: FZ z :: r => Some (GInt t z, r)
    | FZ 3 :: FZ b :: r => Some (GF32 b, r)
    | FZ 4 :: FZ b :: r => Some (GF64 b, r)
    | FZ 5 :: FB s :: r => Some (GStr s, r)
    | FZ 6 :: FB s :: r => Some (GBytes s, r)
    | FZ 7 :: FZ n :: r =>
      if negb (cnt_ok n r) then None else
      match gparse_n (parse_gval f) (Z.to_nat n) r with Some (l, r') => Some (GList l, r') | None => None end
    | FZ 8 :: FZ n :: r =>
      if negb (cnt_ok n r) then None else
      match gparse_s (parse_gval f) (Z.to_nat n) r with Some (l, r') => Some (GMapS l, r') | None => None end
    | FZ 9 :: FZ t :: FZ n :: r =>
      if negb (cnt_ok n r) then None else
      match gparse_z (parse_gval f) (Z.to_nat n) r with Some (l, r') => Some (GMapI t l, r') | None => None end
    | FZ 10 :: FZ n :: r =>
      if negb (cnt_ok n r) then None else
      match gparse_a (parse_gval f) (Z.to_nat n) r with Some (l, r') => Some (GMapA l, r') | None => None end
    | FZ 11 :: FZ n :: r =>
      if negb (cnt_ok n r) then None else
      match gparse_z (parse_gval f) (Z.to_nat n) r with Some (l, r') => Some (GStructN l, r') | None => None end
    | FZ 12 :: r => match parse_gval f r with Some (g, r') => Some (GPtr g, r') | None => None end
    | _ => None
    end
  end.

(* ---- canonical serialisation: maps as sorted entry lists (a self-delimiting prefix code over Z) *)
Fixpoint lex_le (a b : list Z) : bool :=
  match a, b with
  | [], _ => true
  | _ :: _, [] => false
  | x :: a', y :: b' => if x <? y then true else if y <? x then false else lex_le a' b'
  end.
Fixpoint insert_sorted (x : list Z) (l : list (list Z)) : list (list Z) :=
  match l with
  | [] => [x]
  | y :: r => if lex_le x y then x :: l else y :: insert_sorted x r
  end.
Definition sort_ser (l : list (list Z)) : list Z := concat (fold_right insert_sorted [] l).

Fixpoint gser (g : gval) : list Z :=
  match g with
  | GNil => [0]
  | GBool b => [1; if b then 1 else 0]
  | GInt t z => [2; t; z]
  | GF32 b => [3; b]
  | GF64 b => [4; b]
  | GStr s => 5 :: zlen s :: s
  | GBytes s => 6 :: zlen s :: s
  | GList l => 7 :: zlen l :: flat_map gser l
  | GMapS es => 8 :: zlen es :: sort_ser (map (fun e => zlen (fst e) :: fst e ++ gser (snd e)) es)
  | GMapI t es => 9 :: t :: zlen es :: sort_ser (map (fun e => fst e :: gser (snd e)) es)
  | GMapA es => 10 :: zlen es :: sort_ser (map (fun e => gser (fst e) ++ gser (snd e)) es)
  | GStructN fs => 11 :: zlen fs :: sort_ser (map (fun e => fst e :: gser (snd e)) fs)
  | GPtr g' => 12 :: gser g'
  end.
Definition gval_same (a b : gval) : bool := bytes_eqb (gser a) (gser b).

(* ---- recovering the iteration order of the implementation *)
(* the first element [mt] accepts (in the form mt returns it) and the others *)
Fixpoint extract_map {X} (mt : X -> option X) (l : list X) : option (X * list X) :=
  match l with
  | [] => None
  | x :: r => match mt x with
              | Some x' => Some (x', r)
              | None => match extract_map mt r with Some (y, r') => Some (y, x :: r') | None => None end
              end
  end.
(* the entries of [rem] in the order of [order]; entries that match nothing there keep their place at the end *)
Fixpoint pick_by {X R} (mt : R -> X -> option X) (rem : list X) (order : list R) : list X :=
  match order with
  | [] => rem
  | o :: os =>
    match extract_map (mt o) rem with
    | Some (x, rem') => x :: pick_by mt rem' os
    | None => pick_by mt rem os
    end
  end.
Fixpoint map2g (re : gval -> gval -> gval) (l m : list gval) : list gval :=
  match l, m with
  | x :: l', y :: m' => re x y :: map2g re l' m'
  | _, _ => l
  end.

Section Reorder.
  Variables cast dis byname : bool.
  Definition c19d_fuel : nat := 64%nat.
  Definition wr (d : adesc) (g : gval) : wst := write_any_desc cast dis byname c19d_fuel d [] g.
  (* both are written without error and to the same bytes *)
  Definition same_out (a b : wst) : bool := (snd a =? 0) && (snd b =? 0) && bytes_eqb (fst a) (fst b).
  Definition deref (g : gval) : gval := match g with GPtr x => if ptr_target_ok x then x else g | _ => g end.

  Fixpoint reorder (fuel : nat) (d : adesc) (g gr : gval) : gval :=
    match fuel with
    | O => g
    | S f =>
      match d, g, gr with
      | AList e, GList l, GList lr => GList (map2g (reorder f e) l lr)
      | ASet e, GList l, GList lr => GList (map2g (reorder f e) l lr)
      | AMap k e, GMapS es, GMapS er =>
        GMapS (pick_by (fun (o : list Z * gval) (x : list Z * gval) =>
                          if bytes_eqb (fst o) (fst x) then Some (fst x, reorder f e (snd x) (snd o)) else None) es er)
      | AMap k e, GMapI t es, GMapI _ er =>
        GMapI t (pick_by (fun (o : Z * gval) (x : Z * gval) =>
                            if same_out (write_int_key (dtype k) (fst o) []) (write_int_key (dtype k) (fst x) []) then
                              let v' := reorder f e (snd x) (snd o) in
                              if same_out (wr e v') (wr e (snd o)) then Some (fst x, v') else None
                            else None) es er)
      | AMap k e, GMapA es, GMapA er =>
        GMapA (pick_by (fun (o : gval * gval) (x : gval * gval) =>
                          let k' := match fst x, fst o with
                                    | GPtr a, GPtr b => GPtr (reorder f k a b)
                                    | kx, _ => kx
                                    end in
                          if same_out (wr k (deref k')) (wr k (deref (fst o))) then
                            let v' := reorder f e (snd x) (snd o) in
                            if same_out (wr e v') (wr e (snd o)) then Some (k', v') else None
                          else None) es er)
      | AStruct fs, GStructN ms, GStructN mr =>
        GStructN (pick_by (fun (o : Z * gval) (x : Z * gval) =>
                             if fst o =? fst x then
                               match afby_id (fst x) fs with
                               | Some (_, fd) => Some (fst x, reorder f fd (snd x) (snd o))
                               | None => Some x
                               end
                             else None) ms mr)
      | AStruct fs, GMapS ms, GMapS mr =>
        GMapS (pick_by (fun (o : list Z * gval) (x : list Z * gval) =>
                          if bytes_eqb (fst o) (fst x) then
                            match afby_name (fst x) fs with
                            | Some (_, fd) => Some (fst x, reorder f fd (snd x) (snd o))
                            | None => Some x
                            end
                          else None) ms mr)
      | _, _, _ => g
      end
    end.
End Reorder.

(* 1925. fields: descriptor, options (1 cast, 2 disallowUnknown, 4 useFieldName), family (0 conforming, 1 deviant, 2 other Go
   types with cast), value.., code (0 nil, 1 error, 3 panic), buffer *)
Definition check_1925 (fs : list field) : verdict :=
  match fs with
  | FB db :: FZ o :: FZ fam :: rest =>
    match parse_adesc (S (length db)) db with
    | Some (d, []) =>
      match parse_gval (S (length rest)) rest with
      | Some (g, [FZ wc; FB buf]) =>
        let cast := Z.testbit o 0 in let dis := Z.testbit o 1 in let byname := Z.testbit o 2 in
        if wc =? 3 then VBad 3 [] else
        let g1 := if wc =? 0 then
                    match read_any_gen skip_go false false byname true c19d_fuel d buf with
                    | Some (gr, []) => reorder cast dis byname c19d_fuel d g gr
                    | _ => g
                    end
                  else g in
        if negb (gval_same g g1) then VBad 97 [] else
        let r := wr cast dis byname d g1 in
        if snd r =? 2 then VSkip
        else if (snd r =? wc) && (negb (wc =? 0) || bytes_eqb (fst r) buf) then VOk
        else VBad 1 [FZ (snd r); FB (fst r)]
      | _ => VBad 99 []
      end
    | _ => VBad 98 []
    end
  | _ => VBad 99 []
  end.

(* 1926. fields: descriptor, options (1 byteAsUint8, 2 disallowUnknown, 4 useFieldName), input, code (0 ok, 1 error, 3 panic,
   4 foreign Go type), [value.. when code = 0], bytes left *)
Definition check_1926 (fs : list field) : verdict :=
  match fs with
  | FB db :: FZ o :: FB input :: FZ rc :: rest =>
    match parse_adesc (S (length db)) db with
    | Some (d, []) =>
      let u8 := Z.testbit o 0 in let dis := Z.testbit o 1 in let byname := Z.testbit o 2 in
      if (rc =? 3) || (rc =? 4) then VBad rc [] else
      let m := read_any_desc u8 dis byname c19d_fuel d input in
      if rc =? 0 then
        match parse_gval (S (length rest)) rest with
        | Some (g, [FZ nleft]) =>
          match m with
          | Some (gm, r) => vand (expect 1 (gval_same gm g) []) (expect 2 (zlen r =? nleft) [FZ (zlen r)])
          | None => VBad 5 []
          end
        | _ => VBad 99 []
        end
      else
        match m with
        | None => VOk
        | Some (_, r) => VBad 6 [FZ (zlen r)]
        end
    | _ => VBad 98 []
    end
  | _ => VBad 99 []
  end.
