(* Correspondence checks for C13 (Thrift half): compositions of the REAL converters
     b --t2j--> J --j2t--> b' --t2j--> J''
   1301: fields = map-field way, descriptor (C02 format: struct table, root type), t2j option bits, j2t option bits,
         b, t2j error class, J, j2t error class, b'.
         b is decoded by the proved decoder; when the value is in the domain of the round-trip theorem (rt_dom, matching options,
         strings valid UTF-8) t2j must succeed, j2t must succeed and b' must equal b byte for byte.  Outside the domain: skip.
   1302: fields = way, descriptor, option bits, J (an output of t2j: a canonical document), j2t error class, b', t2j error class, J''.
         J and J'' are parsed by the proved parser and compared by denotation (json_same).
   Error classes: 0 nil, 1 error, 2 panic, 3 memory fault.
   Recorded defects are recognised by selector + equality with an executable model of what the code does:
     1301  descriptor parsed with MapFieldUseFieldName: j2t accepts only field names, t2j still writes the api.key alias
           (quirk = the j2t model run on the implementation's own document with the name-only key table);
     1302  the double -0.0 is written as the integer-looking lexeme "-0", which j2t reads as +0.0
           (quirk = drop_negzero: the same value with every -0.0 replaced by +0.0);
     1303  (= C02 finding 208) api.js_conv on an i16 field: j2t writes one extra byte (quirk = J2T policy p_vm_quirks). *)
From Coq Require Import ZArith List Bool.
From DG Require Import CaseFormat ProtoWireRef ThriftWire Json Num Base64 T2J J2T RoundTrip Check02.
Import ListNotations.
Local Open Scope Z_scope.

(* the harness gives every field the key t2j writes (alias) first and the field name second when it differs;
   the map-field way of the descriptor decides which of them j2t accepts: 0 alias, 1 field name, 2 both *)
Definition keys_for (way : Z) (ks : list (list Z)) : list (list Z) :=
  if way =? 0 then firstn 1 ks
  else if way =? 1 then match ks with [_; nm] => [nm] | _ => ks end
  else ks.
Definition defs_for (way : Z) (D : defs) : defs :=
  map (map (fun fd => mkFld (J2T.f_id fd) (keys_for way (f_keys fd)) (f_ty fd) (J2T.f_req fd) (f_vm fd))) D.

(* selector of finding 1301 *)
Definition alias_split (way : Z) (D : defs) : bool :=
  (way =? 1) && existsb (existsb (fun fd => 1 <? zlen (f_keys fd))) D.

(* selector and quirk of finding 1302, on values and on documents *)
Definition NEGZERO : Z := 2 ^ 63.
Fixpoint has_negzero (v : tval) : bool :=
  match v with
  | VDouble b => b =? NEGZERO
  | VStruct fs => existsb (fun f => has_negzero (snd f)) fs
  | VMap _ _ es => existsb (fun e => has_negzero (snd e)) es
  | VSet _ es | VList _ es => existsb has_negzero es
  | _ => false
  end.
Fixpoint drop_negzero (v : tval) : tval :=
  match v with
  | VDouble b => VDouble (if b =? NEGZERO then 0 else b)
  | VStruct fs => VStruct (map (fun f => (fst f, drop_negzero (snd f))) fs)
  | VMap kt vt es => VMap kt vt (map (fun e => (fst e, drop_negzero (snd e))) es)
  | VSet et es => VSet et (map drop_negzero es)
  | VList et es => VList et (map drop_negzero es)
  | _ => v
  end.
Definition lex_negzero (l : list Z) : bool := zlist_eqb l [45; 48].
(* [instr]: a double under api.js_conv (value mapping on) is written as a quoted number, so "-0" inside a string counts too *)
Fixpoint json_has_negzero (instr : bool) (j : json) : bool :=
  match j with
  | JNum l => lex_negzero l
  | JStr l => instr && lex_negzero l
  | JArr xs => existsb (json_has_negzero instr) xs
  | JObj ms => existsb (fun m => json_has_negzero instr (snd m)) ms
  | _ => false
  end.
Fixpoint json_drop_negzero (instr : bool) (j : json) : json :=
  match j with
  | JNum l => JNum (if lex_negzero l then [48] else l)
  | JStr l => JStr (if instr && lex_negzero l then [48] else l)
  | JArr xs => JArr (map (json_drop_negzero instr) xs)
  | JObj ms => JObj (map (fun m => (fst m, json_drop_negzero instr (snd m))) ms)
  | _ => j
  end.

(* selector of finding 1303: value mapping is on and some i16 field carries api.js_conv; quirk: the J2T model under the policy that
   describes the code (casts as compiled + the missing break) *)
Definition has_i16_vm (D : defs) : bool :=
  existsb (existsb (fun fd => f_vm fd && match f_ty fd with TI16 => true | _ => false end)) D.
Definition code_vm_quirks : policy := mkPolicy num_code false true.

Definition parse13 (fs : list field) : option (Z * defs * defs * ty * Z * jopts * list field) :=
  match fs with
  | FZ way :: r0 =>
    match parse_defs02 r0 with
    | Some (D0, r) =>
      match parse_ty02 (S (length r)) r with
      | Some (t, FZ o :: FZ ob :: r') => Some (way, D0, defs_for way D0, t, o, opts02 ob, r')
      | _ => None
      end
    | None => None
    end
  | _ => None
  end.

(* the j2t model's reading of a document loses a required field (then the implementation reports a missing required field) *)
Definition loses_required (D : defs) (t : ty) (r : res) : bool :=
  match r with
  | Err _ => true
  | Ok mb => match decode_all (tcode t) mb with Some v' => negb (rt_dom D t v') | None => false end
  end.

Definition check_1301 (fs : list field) : verdict :=
  match parse13 fs with
  | Some (way, D0, D, t, o, o', [FB b; FZ ec1; FB J; FZ ec2; FB b2]) =>
    if negb (matching_optsb o o') then VSkip else
    match decode_all (tcode t) b with
    | None => VSkip
    | Some v =>
      if negb (wf v && rt_dom D t v && (Z.of_nat (depth v) <=? max_level)) then VSkip else
      match T2J.json_of o (tdesc_of D (depth v) t) v with
      | TOk e =>
        if negb (jexp_utf8 e) then VSkip else                       (* strings that are not UTF-8: outside the property's domain *)
        if (ec1 =? 2) || (ec1 =? 3) || (ec2 =? 2) then VBad 9 [] else
        if negb (ec1 =? 0) then VBad 1 [] else
        if ec2 =? 3 then VBad 8 [] else
        (* what the j2t model makes of the implementation's document ("-0" read as the code reads it when the value has a -0.0) *)
        let P0 := if has_negzero v then num_drift else num_strict in
        let mj := j2t_text (mkPolicy P0 false false) D o' t J in
        if negb (ec2 =? 0) then
          (if alias_split way D0 && loses_required D t mj then VKnown 1301 else VBad 2 [FB b])
        else if bytes_eqb b2 b then VOk
        else if has_negzero v && bytes_eqb b2 (encode (drop_negzero v)) then VKnown 1302
        else if alias_split way D0 && (res_is mj [] b2 || res_is (j2t_text (mkPolicy num_code false (J2T.o_vm o')) D o' t J) [] b2) then VKnown 1301
        else if J2T.o_vm o' && has_i16_vm D && res_is (j2t_text code_vm_quirks D o' t J) [] b2 then VKnown 1303
        else VBad 3 [FB b]
      | _ => VBad 90 []        (* contradicts theorem t2j_j2t_id_ast: a defect of the model *)
      end
    end
  | _ => VBad 99 []
  end.

Definition check_1302 (fs : list field) : verdict :=
  match parse13 fs with
  | Some (way, D0, D, t, o, o', [FB J; FZ ec2; FB b2; FZ ec3; FB J2]) =>
    if negb (matching_optsb o o') then VSkip else
    match json_parse J with
    | None => VDrift 10                                             (* t2j returned text that is not JSON: C03's business *)
    | Some j =>
      if negb (json_utf8 j) then VSkip else
      let nz := json_has_negzero (J2T.o_vm o') j in
      let P0 := if nz then num_drift else num_strict in
      let mj := j2t_text (mkPolicy P0 false false) D o' t J in
      match mj with
      | Err _ => if alias_split way D0 && negb (ec2 =? 0) then VKnown 1301 else VDrift 2   (* the j2t model has no reading of this document *)
      | Ok mb =>
        if (ec2 =? 2) || (ec3 =? 2) || (ec3 =? 3) then VBad 9 [] else
        if ec2 =? 3 then VBad 8 [] else
        if negb (ec2 =? 0) then (if alias_split way D0 && loses_required D t mj then VKnown 1301 else VBad 11 []) else
        let q208 := J2T.o_vm o' && has_i16_vm D && negb (bytes_eqb b2 mb) && res_is (j2t_text code_vm_quirks D o' t J) [] b2 in
        if negb (ec3 =? 0) then (if q208 then VKnown 1303 else VBad 12 []) else
        match json_parse J2 with
        | None => VBad 13 []
        | Some j2 =>
          if json_same j j2 then VOk
          else if q208 then VKnown 1303
          else if alias_split way D0 && bytes_eqb b2 mb then VKnown 1301
          else if nz && json_same (json_drop_negzero (J2T.o_vm o') j) j2 then VKnown 1302
          else VBad 14 [FB J]
        end
      end
    end
  | _ => VBad 99 []
  end.
