(* Correspondence checks for C04 (Thrift in-place edits): whole histories are replayed on the AST. *)
From Coq Require Import ZArith List Bool.
From DG Require Import CaseFormat ProtoWireRef ThriftWire ThriftGeneric ThriftEdit Check01.
Import ListNotations.
Local Open Scope Z_scope.

(* one op: kind, path, sub type, sub bytes, impl err, impl exist, impl result bytes, flags *)
Definition step_401 (idx : Z) (t : Z) (v : tval) (kind : Z) (p : list pstep) (st : Z) (sb : list Z)
                    (err ex : Z) (res : list Z) (flags : Z) : verdict * option tval :=
  let prev := encode v in
  let typed := (kind =? 3) || (kind =? 4) in
  let declared := Z.testbit flags 1 in
  if typed && negb declared then
    (* typed access through a field the IDL does not declare: an error that leaves the value unchanged *)
    (expect (500 + idx) (((err =? 1) || (kind =? 4)) && bytes_eqb res prev) [FZ 1; FB prev], Some v)
  else
  if negb (Z.odd flags) then (VBad (1000 + idx) [], None) else      (* fork / origin changed by the op *)
  if (kind =? 1) || (kind =? 3) then
    match decode_all st sb with
    | None => (VSkip, None)
    | Some x =>
      (* the next model state is always ast_step (the function the history theorems of Properties_C04 are about) *)
      match ast_set true p x v with
      | None => (expect (100 + idx) ((err =? 1) && bytes_eqb res prev) [FZ 1; FB prev], Some (ast_step true v (OSet p x)))
      | Some (v', e) =>
        if (err =? 0) && (ex =? Z.b2z e) && bytes_eqb res (encode v') then (VOk, Some (ast_step true v (OSet p x)))
        else match ast_set false p x v with
             | Some (v2, e2) =>
               if (err =? 0) && (ex =? Z.b2z e2) && bytes_eqb res (encode v2) then (VDrift 1, Some (ast_step false v (OSet p x)))
               else (VBad (200 + idx) [FZ 0; FZ (Z.b2z e); FB (encode v')], None)
             | None => (VBad (200 + idx) [FZ 0; FZ (Z.b2z e); FB (encode v')], None)
             end
      end
    end
  else if (kind =? 2) || (kind =? 4) then
    match ast_unset p v with
    | DErr => (* a path that addresses nothing: the value must stay unchanged (error or not) *)
              (expect (300 + idx) (((err =? 1) || (err =? 0)) && bytes_eqb res prev) [FZ 1; FB prev], Some (ast_step true v (OUnset p)))
    | DOk v' removed =>
      (expect (400 + idx) (bytes_eqb res (encode v') && (if removed then err =? 0 else true)) [FZ 0; FB (encode v')], Some (ast_step true v (OUnset p)))
    end
  else (VBad 98 [], None).

Fixpoint run_401 (n : nat) (idx : Z) (t : Z) (v : tval) (fs : list field) : verdict :=
  match n with
  | O => match fs with [] => VOk | _ => VBad 97 [] end
  | S n' =>
    match fs with
    | FZ kind :: rest =>
      match parse_path rest with
      | Some (p, FZ st :: FB sb :: FZ err :: FZ ex :: FB res :: FZ flags :: rest') =>
        match step_401 idx t v kind p st sb err ex res flags with
        | (VOk, Some v') => run_401 n' (idx + 1) t v' rest'
        | (VDrift c, Some v') => match run_401 n' (idx + 1) t v' rest' with VOk => VDrift c | o => o end
        | (o, _) => o
        end
      | _ => VBad 96 []
      end
    | _ => VBad 95 []
    end
  end.

Definition check_401 (fs : list field) : verdict :=
  match fs with
  | FZ t :: FB bs :: FZ nops :: rest =>
    match decode_all t bs with
    | None => VSkip
    | Some v => if negb (wf v) then VSkip else
                if (nops <? 0) || (nops >? 1000) then VBad 99 [] else run_401 (Z.to_nat nops) 0 t v rest
    end
  | _ => VBad 99 []
  end.
