(* Correspondence checks for C04 (Thrift in-place edits): whole histories are replayed on the AST. *)
From Coq Require Import ZArith List Bool.
From DG Require Import CaseFormat ProtoWireRef ThriftWire ThriftGeneric ThriftEdit Check01.
Import ListNotations.
Local Open Scope Z_scope.

(* The Value API (descriptor attached) works with the DECLARED type of the addressed position: Value.GetByPath skips and
   types the element by the descriptor, replace() compares the declared type with the new node's.  The model has no
   descriptor, but the INITIAL value v0 of a history conforms to it (the generator builds value and IDL from one shape), so
   wherever a path finds something in v0, that element's type IS the declared type of the position (a descriptor is a tree:
   the type at a path depends on the field ids along it, not on the element reached).  A typed INSERTION of a node whose type
   differs from that witness (the element had been unset by an earlier op) is outside the API contract, exactly as an element of
   a type the container does not declare is for lists / sets / maps (set_compat): the code inserts it, the value stops
   conforming to its descriptor, and from then on the Value API (declared types) and the model (wire types) legitimately
   disagree about it. *)
Definition declared_mismatch (v0 : tval) (p : list pstep) (x : tval) : bool :=
  match lookup v0 0 p with
  | LFound s _ => negb (type_of s =? type_of x)
  | _ => false
  end.

(* one op: kind, path, sub type, sub bytes, impl err, impl exist, impl result bytes, flags; v0 = initial value of the history *)
Definition step_401_core (v0 : tval) (idx : Z) (t : Z) (v : tval) (kind : Z) (p : list pstep) (st : Z) (sb : list Z)
                    (err ex : Z) (res : list Z) (flags : Z) : verdict * option tval :=
  let prev := encode v in
  let typed := (kind =? 3) || (kind =? 4) in
  let declared := Z.testbit flags 1 in
  if typed && negb declared then
    (* typed access through a field the IDL does not declare: an error that leaves the value unchanged *)
    (expect (500 + idx) (((err =? 1) || (kind =? 4)) && bytes_eqb res prev) [FZ 1; FB prev], Some v)
  else
  if negb (Z.odd flags) then (VBad (1000 + idx) [], None) else      (* fork / origin changed by the op *)
  if (kind =? 1) || (kind =? 3) then
    match decode_all st sb with
    | None => (VSkip, None)
    | Some x =>
      (* an INSERTION outside the API contract (element of a type the container does not declare, count overflow, malformed
         key: set_compat of ThriftEdit.v, the hypothesis of C04_ast_set_wf) is outside the property's domain: the history
         ends here, what was judged so far stands *)
      if negb (wf x && set_compat p x v) then (VOk, None) else
      (* the same for a typed insertion of a node whose type is not the declared one (witness: the initial value) *)
      let ends := typed && declared_mismatch v0 p x && match ast_set true p x v with Some (_, false) => true | _ => false end in
      let next (s : tval) := if ends then None else Some s in     (* the insertion itself is judged, then the history ends *)
      (* ... unless the code REJECTS it (proposed hardening findings/patches/C04-value-insert-declared-type.diff): an error that
         leaves the value unchanged is the other acceptable outcome, and the history goes on from the unchanged value *)
      if ends && (err =? 1) && bytes_eqb res prev then (VOk, Some v) else
      (* the next model state is always ast_step (the function the history theorems of Properties_C04 are about) *)
      match ast_set true p x v with
      | None => (expect (100 + idx) ((err =? 1) && bytes_eqb res prev) [FZ 1; FB prev], Some (ast_step true v (OSet p x)))
      | Some (v', e) =>
        if (err =? 0) && (ex =? Z.b2z e) && bytes_eqb res (encode v') then (VOk, next (ast_step true v (OSet p x)))
        else match ast_set false p x v with
             | Some (v2, e2) =>
               if (err =? 0) && (ex =? Z.b2z e2) && bytes_eqb res (encode v2) then (VDrift 1, next (ast_step false v (OSet p x)))
               else (VBad (200 + idx) [FZ 0; FZ (Z.b2z e); FB (encode v')], None)
             | None => (VBad (200 + idx) [FZ 0; FZ (Z.b2z e); FB (encode v')], None)
             end
      end
    end
  else if (kind =? 2) || (kind =? 4) then
    match ast_unset p v with
    | DErr => (* a path that addresses nothing: the value must stay unchanged (error or not) *)
              (expect (300 + idx) (((err =? 1) || (err =? 0)) && bytes_eqb res prev) [FZ 1; FB prev], Some (ast_step true v (OUnset p)))
    | DOk v' removed =>
      (expect (400 + idx) (bytes_eqb res (encode v') && (if removed then err =? 0 else true)) [FZ 0; FB (encode v')], Some (ast_step true v (OUnset p)))
    end
  else (VBad 98 [], None).

(* known deviation 405: deleteChild does not reject a negative list/set index. The size is patched to size-1 in place
   first; then for fixed-size elements the [d] bytes at (start of elements + d*index) are cut out (for index -1 these are
   bytes of the size field itself), for variable-size elements element 0 is cut out; on an empty list of variable-size
   elements the skip fails AFTER the size was patched to -1. Byte-level model of exactly that: *)
Definition zfirstn (n : Z) (l : list Z) : list Z := firstn (Z.to_nat n) l.
Definition zskipn (n : Z) (l : list Z) : list Z := skipn (Z.to_nat n) l.
Definition quirk_405 (prev : list Z) (off : Z) (c : tval) (i : Z) : option (Z * list Z) :=
  let go (et : Z) (es : list tval) :=
    let n := zlen es in let d := fixed_size et in
    let patched := zfirstn (off + 1) prev ++ enc_int 4 (n - 1) ++ zskipn (off + 5) prev in
    if d >? 0 then
      let s := off + 5 + d * i in
      if s <? 0 then None else Some (0, zfirstn s patched ++ zskipn (s + d) patched)
    else match es with
         | x :: _ => Some (0, zfirstn (off + 5) patched ++ zskipn (off + 5 + zlen (encode x)) patched)
         | [] => Some (1, patched)
         end in
  match c with
  | VList et es => go et es
  | VSet et es => go et es
  | _ => None
  end.

Definition is_405 (v : tval) (p : list pstep) (err : Z) (res : list Z) : bool :=
  match rev p with
  | PIndex i :: rpre =>
    if i <? 0 then
      match lookup v 0 (rev rpre) with
      | LFound c off =>
        match quirk_405 (encode v) off c i with
        | Some (e, bs) => (err =? e) && bytes_eqb res bs
        | None => false
        end
      | _ => false
      end
    else false
  | _ => false
  end.

(* known deviation 404 (consequence of finding 106, GetDescByPath never descends): a typed edit whose LAST step is a field
   NAME below depth 2 that has to consult GetDescByPath (every unset; a set of an absent field) fails — error or nil-dereference
   panic — and leaves the value unchanged, where the model performs the edit *)
Definition step_401 (v0 : tval) (idx : Z) (t : Z) (v : tval) (kind : Z) (p : list pstep) (st : Z) (sb : list Z)
                    (err ex : Z) (res : list Z) (flags : Z) : verdict * option tval :=
  match step_401_core v0 idx t v kind p st sb err ex res flags with
  | (VBad c d, o) =>
    let consulted := (kind =? 4) || ((kind =? 3) && match lookup v 0 p with LFound _ _ => false | _ => true end) in
    if Z.testbit flags 2 && consulted && ((err =? 1) || (err =? 3)) && bytes_eqb res (encode v) then (VKnown 404, None)
    else if ((kind =? 2) || (kind =? 4)) && is_405 v p err res then (VKnown 405, None)
    else (VBad c d, o)
  | r => r
  end.

Fixpoint run_401 (v0 : tval) (n : nat) (idx : Z) (t : Z) (v : tval) (fs : list field) : verdict :=
  match n with
  | O => match fs with [] => VOk | _ => VBad 97 [] end
  | S n' =>
    match fs with
    | FZ kind :: rest =>
      match parse_path rest with
      | Some (p, FZ st :: FB sb :: FZ err :: FZ ex :: FB res :: FZ flags :: rest') =>
        match step_401 v0 idx t v kind p st sb err ex res flags with
        | (VOk, Some v') => run_401 v0 n' (idx + 1) t v' rest'
        | (VDrift c, Some v') => match run_401 v0 n' (idx + 1) t v' rest' with VOk => VDrift c | o => o end
        | (o, _) => o
        end
      | _ => VBad 96 []
      end
    | _ => VBad 95 []
    end
  end.

Definition check_401 (fs : list field) : verdict :=
  match fs with
  | FZ t :: FB bs :: FZ nops :: rest =>
    match decode_all t bs with
    | None => VSkip
    | Some v => if negb (wf v) then VSkip else
                if (nops <? 0) || (nops >? 1000) then VBad 99 [] else run_401 v (Z.to_nat nops) 0 t v rest
    end
  | _ => VBad 99 []
  end.
