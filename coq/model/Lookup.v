(* C14 — executable models of the per-struct lookup structures of dynamicgo, written as the Go code is written:
     internal/util/fieldmap.go   FieldIDMap (slice indexed by id), FieldNameMap (Set / Build: dispersion statistic -> trie | hash)
     internal/caching/trie.go    TrieTree (positions, ascii2Int bucket, leaves compare the whole key)
     internal/caching/map.go     HashMap (open addressing, linear probing over DJBHash32, hash 0 marks an empty slot)
     internal/caching/hashing.go DJBHash32
     native/map.c                hm_get / trie_get twins used by the native j2t converter
   Specification level: association lists ([assoc], [assocZ]).  No proofs here (coq/proofs/LookupProofs.v). *)
From Coq Require Import ZArith List Bool.
From DG Require Import CaseFormat.
Import ListNotations.
Local Open Scope Z_scope.

Definition key := list Z.                      (* byte string *)
Definition key_eqb : key -> key -> bool := bytes_eqb.

(* ---------------------------------------------------------------- specification: association lists *)

Fixpoint assoc {V} (k : key) (kvs : list (key * V)) : option V :=
  match kvs with
  | [] => None
  | (k', v) :: r => if key_eqb k k' then Some v else assoc k r
  end.

Fixpoint assocZ {V} (id : Z) (l : list (Z * V)) : option V :=
  match l with
  | [] => None
  | (i, v) :: r => if id =? i then Some v else assocZ id r
  end.

(* update in place or append: FieldNameMap.Set on [all], TrieTree.Set on a leaf list *)
Fixpoint upsert {V} (k : key) (v : V) (l : list (key * V)) : list (key * V) :=
  match l with
  | [] => [(k, v)]
  | (k', v') :: r => if key_eqb k k' then (k', v) :: r else (k', v') :: upsert k v r
  end.

Fixpoint upsertZ {V} (id : Z) (v : V) (l : list (Z * V)) : list (Z * V) :=
  match l with
  | [] => [(id, v)]
  | (i, v') :: r => if id =? i then (i, v) :: r else (i, v') :: upsertZ id v r
  end.

Fixpoint set_nth {A} (n : nat) (x : A) (l : list A) : list A :=
  match l, n with
  | [], _ => []
  | _ :: r, O => x :: r
  | y :: r, S n' => y :: set_nth n' x r
  end.

Fixpoint upd_nth {A} (n : nat) (f : A -> A) (l : list A) : list A :=
  match l, n with
  | [], _ => []
  | y :: r, O => f y :: r
  | y :: r, S n' => y :: upd_nth n' f r
  end.

(* ---------------------------------------------------------------- FieldIDMap (fieldmap.go:168-215) *)

Record fidmap (V : Type) := FidMap { fid_m : list (option V); fid_all : list (Z * V) }.
Arguments FidMap {V}. Arguments fid_m {V}. Arguments fid_all {V}.

Definition fid_empty {V} : fidmap V := FidMap [] [].

(* Get: `if id < 0 || int(id) >= len(fd.m) { return nil }; return fd.m[id]` (the `id < 0` test was added by fix 5273bb1). *)
Definition fid_get {V} (m : fidmap V) (id : Z) : option V :=
  if Z.of_nat (length (fid_m m)) <=? id then None
  else if id <? 0 then None
  else nth (Z.to_nat id) (fid_m m) None.

(* Set: grow the slice to id+1, remember the field in [all] (appended if the slot was empty, otherwise the entry that the
   slot pointed to is replaced), store.  None = the Go code panics (negative id: index out of range). *)
Definition fid_set {V} (m : fidmap V) (id : Z) (v : V) : option (fidmap V) :=
  if id <? 0 then None else
  let n := Z.to_nat id in
  let mm := if Z.of_nat (length (fid_m m)) <=? id then fid_m m ++ repeat None (S n - length (fid_m m)) else fid_m m in
  let all := match nth n mm None with
             | None => fid_all m ++ [(id, v)]
             | Some _ => upsertZ id v (fid_all m)
             end in
  Some (FidMap (set_nth n (Some v) mm) all).

Definition fid_build {V} (fs : list (Z * V)) : option (fidmap V) :=
  fold_left (fun om f => match om with Some m => fid_set m (fst f) (snd f) | None => None end) fs (Some fid_empty).

(* the sweep the harness performs: all ids in [0, n) that are found *)
Definition fid_found {V} (m : fidmap V) (n : nat) : list Z :=
  filter (fun id => match fid_get m id with Some _ => true | None => false end) (map Z.of_nat (seq 0 n)).

(* ---------------------------------------------------------------- DJBHash32, ascii2Int *)

Definition djb (k : key) : Z := fold_left (fun h c => (h * 33 + c) mod 4294967296) k 5381.

(* uint8(255) + uint8(c) - uint8('.') for c < '.', c - '.' otherwise: 0x00..0x2d -> 209..254, 0x2e..0xff -> 0..209
   (0x00 and 0xff share bucket 209; leaves compare the whole key) *)
Definition ascii2int (c : Z) : Z := if c <? 46 then c + 209 else c - 46.

(* ---------------------------------------------------------------- TrieTree (trie.go) *)

Inductive tnode (V : Type) := TNode (leaves : option (list (key * V))) (index : list (tnode V)).
Arguments TNode {V}.
Definition tn_leaves {V} (n : tnode V) := match n with TNode l _ => l end.
Definition tn_index {V} (n : tnode V) := match n with TNode _ i => i end.
Definition tn_fresh {V} : tnode V := TNode None [].
(* `if fp.Leaves == nil { x := make([]Pair, 0, 4); fp.Leaves = &x }` *)
Definition tn_ensure {V} (n : tnode V) : tnode V :=
  TNode (Some (match tn_leaves n with Some l => l | None => [] end)) (tn_index n).

Record trie (V : Type) := Trie { t_count : Z; t_positions : list Z; t_empty : option V; t_root : tnode V }.
Arguments Trie {V}. Arguments t_count {V}. Arguments t_positions {V}. Arguments t_empty {V}. Arguments t_root {V}.

Definition trie_new {V} (positions : list Z) : trie V := Trie 0 positions None tn_fresh.

(* byte looked at for position p: `if i > l { i = l }` with l = len(k)-1 (k is not empty here) *)
Definition key_byte (p : Z) (k : key) : Z := nth (Z.to_nat (Z.min p (Z.of_nat (length k) - 1))) k 0.
Definition bucket (p : Z) (k : key) : nat := Z.to_nat (ascii2int (key_byte p k)).

(* `if int(j) >= len(fs) { tmp := make([]TrieNode, j+1); copy(tmp, fs) ... }` *)
Definition grow {V} (j : nat) (idx : list (tnode V)) : list (tnode V) :=
  if (length idx <=? j)%nat then idx ++ repeat tn_fresh (S j - length idx) else idx.

Fixpoint tn_set {V} (ps : list Z) (k : key) (v : V) (n : tnode V) : tnode V :=
  match ps with
  | [] => TNode (Some (upsert k v (match tn_leaves n with Some l => l | None => [] end))) (tn_index n)
  | p :: ps' =>
    let j := bucket p k in
    TNode (tn_leaves n) (upd_nth j (fun c => tn_set ps' k v (tn_ensure c)) (grow j (tn_index n)))
  end.

Fixpoint tn_get {V} (ps : list Z) (k : key) (n : tnode V) : option V :=
  match ps with
  | [] => match tn_leaves n with Some ls => assoc k ls | None => None end
  | p :: ps' =>
    match nth_error (tn_index n) (bucket p k) with
    | None => None                                            (* int(j) >= len(fs) *)
    | Some c => match tn_leaves c with
                | None => None                                (* fp.Leaves == nil *)
                | Some _ => tn_get ps' k c
                end
    end
  end.

Definition is_some {A} (o : option A) : bool := match o with Some _ => true | None => false end.

Definition trie_get {V} (t : trie V) (k : key) : option V :=
  match k with
  | [] => t_empty t
  | _ => match tn_leaves (t_root t) with
         | None => None           (* Go dereferences fn.Leaves here: see trie_get_panics *)
         | Some _ => tn_get (t_positions t) k (t_root t)
         end
  end.

(* `var ls = *fn.Leaves` with fn.Leaves == nil: a trie into which only the empty key was ever Set *)
Definition trie_get_panics {V} (t : trie V) (k : key) : bool :=
  match k with [] => false | _ => negb (is_some (tn_leaves (t_root t))) end.

Definition trie_set {V} (t : trie V) (k : key) (v : V) : trie V :=
  match k with
  | [] => Trie (if is_some (t_empty t) then t_count t else t_count t + 1) (t_positions t) (Some v) (t_root t)
  | _ =>
    let r := tn_ensure (t_root t) in
    let existed := is_some (tn_get (t_positions t) k r) in
    Trie (if existed then t_count t else t_count t + 1) (t_positions t) (t_empty t) (tn_set (t_positions t) k v r)
  end.

Definition trie_build {V} (positions : list Z) (kvs : list (key * V)) : trie V :=
  fold_left (fun t kv => trie_set t (fst kv) (snd kv)) kvs (trie_new positions).

(* native twin (native/map.c trie_get): the bounds test is `if (j > fs.len) return NULL`, so j = fs.len reads the TrieNode
   one past the index array.
   [tn_get_native_nospare]: the tree as it was before fix 0d2d3ac — None = that out-of-bounds read happens (behaviour then
   depends on adjacent memory; finding 1403).  Kept as the recogniser of a regression.
   [tn_get_native]: TrieTree.Set now allocates every index slice with one spare zeroed node behind len
   (`make([]TrieNode, j+1, j+2)`), so the read at j = len lands on a node with Leaves == nil: not found.  Only an index that was
   never allocated (len 0, nil buffer) still has nothing behind it. *)
Fixpoint tn_get_native_nospare {V} (ps : list Z) (k : key) (n : tnode V) : option (option V) :=
  match ps with
  | [] => Some (match tn_leaves n with Some ls => assoc k ls | None => None end)
  | p :: ps' =>
    let j := bucket p k in
    if (length (tn_index n) <? j)%nat then Some None
    else match nth_error (tn_index n) j with
         | None => None                                       (* j = len: out of bounds *)
         | Some c => match tn_leaves c with
                     | None => Some None
                     | Some _ => tn_get_native_nospare ps' k c
                     end
         end
  end.

Fixpoint tn_get_native {V} (ps : list Z) (k : key) (n : tnode V) : option (option V) :=
  match ps with
  | [] => Some (match tn_leaves n with Some ls => assoc k ls | None => None end)
  | p :: ps' =>
    let j := bucket p k in
    if (length (tn_index n) <? j)%nat then Some None
    else match nth_error (tn_index n) j with
         | None => match tn_index n with [] => None | _ => Some None end     (* j = len: the spare zeroed node *)
         | Some c => match tn_leaves c with
                     | None => Some None
                     | Some _ => tn_get_native ps' k c
                     end
         end
  end.

(* ---------------------------------------------------------------- HashMap (map.go) *)

Record hslot (V : Type) := HS { hs_hash : Z; hs_key : key; hs_val : option V }.
Arguments HS {V}. Arguments hs_hash {V}. Arguments hs_key {V}. Arguments hs_val {V}.
Definition hs_empty {V} : hslot V := HS 0 [] None.

Definition htable (V : Type) := list (hslot V).

(* NewHashMap(n, loadFactor): N = n * loadFactor zeroed entries *)
Definition hm_new {V} (n : nat) : htable V := repeat hs_empty n.

Definition hm_slot {V} (T : htable V) (p : nat) : hslot V := nth p T hs_empty.
Definition hm_home {V} (T : htable V) (h : Z) : nat := Z.to_nat (h mod Z.of_nat (length T)).     (* p := h % self.N *)
Definition hm_next {V} (T : htable V) (p : nat) : nat := (S p) mod (length T).                   (* p = (p + 1) % self.N *)

(* `for s.Hash != 0 { p = (p+1) % N }`: None = no slot with hash 0 among the N probed ones, the Go loop does not terminate *)
Fixpoint hm_probe_empty {V} (fuel : nat) (T : htable V) (p : nat) : option nat :=
  match fuel with
  | O => None
  | S f => if hs_hash (hm_slot T p) =? 0 then Some p else hm_probe_empty f T (hm_next T p)
  end.

(* Set: first slot whose hash is 0 on the probe path gets (h, name, val) *)
Definition hm_set {V} (T : htable V) (k : key) (v : V) : htable V :=
  match hm_probe_empty (length T) T (hm_home T (djb k)) with
  | Some p => set_nth p (HS (djb k) k (Some v)) T
  | None => T
  end.

(* Get: Some (Some v) found, Some None not found (reached a slot whose hash is 0), None = the Go loop does not terminate *)
Fixpoint hm_probe_get {V} (fuel : nat) (T : htable V) (h : Z) (k : key) (p : nat) : option (option V) :=
  match fuel with
  | O => None
  | S f =>
    let s := hm_slot T p in
    if hs_hash s =? 0 then Some None
    else if (hs_hash s =? h) && key_eqb (hs_key s) k then Some (hs_val s)
    else hm_probe_get f T h k (hm_next T p)
  end.

Definition hm_get {V} (T : htable V) (k : key) : option (option V) :=
  hm_probe_get (length T) T (djb k) k (hm_home T (djb k)).

(* native twin (native/map.c hm_get): hash_DJB32 adds `(uint32_t)str.buf[i]` where buf is `const char *` (signed on amd64), so a
   byte >= 0x80 is sign-extended; the table itself was filled by the Go code with the unsigned hash *)
Definition djb_native (k : key) : Z :=
  fold_left (fun h c => (h * 33 + (if 128 <=? c then c + 4294967040 else c)) mod 4294967296) k 5381.
Definition hm_get_native {V} (T : htable V) (k : key) : option (option V) :=
  hm_probe_get (length T) T (djb_native k) k (hm_home T (djb_native k)).

(* plain insertion of a list (caching.HashMap used directly) *)
Definition hm_build {V} (load : nat) (kvs : list (key * V)) : htable V :=
  fold_left (fun T kv => hm_set T (fst kv) (snd kv)) kvs (hm_new (length kvs * load)).

(* ---------------------------------------------------------------- FieldNameMap (fieldmap.go:34-166) *)

Inductive fnimpl (V : Type) := FNone | FTrie (t : trie V) | FHash (T : htable V).
Arguments FNone {V}. Arguments FTrie {V}. Arguments FHash {V}.

Record fnmap (V : Type) := FnMap { fn_maxlen : Z; fn_all : list (key * V); fn_impl : fnimpl V }.
Arguments FnMap {V}. Arguments fn_maxlen {V}. Arguments fn_all {V}. Arguments fn_impl {V}.

Definition fnm_empty {V} : fnmap V := FnMap 0 [] FNone.

Definition fnm_set {V} (m : fnmap V) (k : key) (v : V) : fnmap V :=
  FnMap (Z.max (fn_maxlen m) (Z.of_nat (length k))) (upsert k v (fn_all m)) (fn_impl m).

(* dispersion statistic of one position: number of distinct bytes (0 beyond the end of a key) *)
Definition char_at (j : nat) (k : key) : Z := nth j k 0.
Definition distinct_at {V} (j : nat) (kvs : list (key * V)) : nat :=
  length (nodup Z.eq_dec (map (fun kv => char_at j (fst kv)) kvs)).

(* The Go code compares float64 quotients f = count / l with min (10.0 at first, later the best f).  Both operands are small
   integers, so the comparison is modelled on exact rationals: (a, b) stands for a / b. *)
Definition rat_lt (a b c d : Z) : bool := a * d <? c * b.     (* a/b < c/d for positive b, d *)

(* scan positions maxlen-1 .. 0: `if f < min { min = f; idealPos = i }` (the `min == 1` break does not change the result) *)
Fixpoint ideal_scan {V} (kvs : list (key * V)) (count : Z) (pos : nat) (minn mind : Z) (best : option nat) : option nat :=
  match pos with
  | O => best
  | S i =>
    let l := Z.of_nat (distinct_at i kvs) in
    if rat_lt count l minn mind then
      (if (count =? l) then Some i else ideal_scan kvs count i count l (Some i))
    else ideal_scan kvs count i minn mind best
  end.

Definition ideal_pos {V} (maxlen : Z) (kvs : list (key * V)) : option nat :=
  ideal_scan kvs (Z.of_nat (length kvs)) (Z.to_nat maxlen) 10 1 None.

(* position with the smallest average bucket size whatever its value (`if f < best { best = f; bestPos = i }`, best = count+1
   at first); only consulted when no ideal position exists, i.e. when the scan was not cut short by the `min == 1` break *)
Fixpoint best_scan {V} (kvs : list (key * V)) (count : Z) (pos : nat) (bn bd : Z) (best : option nat) : option nat :=
  match pos with
  | O => best
  | S i =>
    let l := Z.of_nat (distinct_at i kvs) in
    if rat_lt count l bn bd then best_scan kvs count i count l (Some i) else best_scan kvs count i bn bd best
  end.

Definition best_pos {V} (maxlen : Z) (kvs : list (key * V)) : option nat :=
  best_scan kvs (Z.of_nat (length kvs)) (Z.to_nat maxlen) (Z.of_nat (length kvs) + 1) 1 None.

(* hashMapSafe: caching.HashMap cannot hold a key whose DJB hash is 0 and its native twin mis-hashes bytes >= 0x80 *)
Definition hash_map_safe (k : key) : bool := forallb (fun c => c <? 128) k && negb (djb k =? 0).

Definition load_factor : nat := 4.

(* position of the trie that Build constructs, None = hash path.
   [fallback] = true: the code since fix bd82c3d (no ideal position but some key is not hash-map safe: trie on the best position);
   [fallback] = false: the code before the fix (findings 1401 / 1402), kept as the recogniser of a regression. *)
Definition build_pos {V} (fallback : bool) (maxlen : Z) (kvs : list (key * V)) : option nat :=
  match ideal_pos maxlen kvs with
  | Some p => Some p
  | None => if fallback && negb (forallb (fun kv => hash_map_safe (fst kv)) kvs) then best_pos maxlen kvs else None
  end.

Definition fnm_build_gen {V} (fallback : bool) (m : fnmap V) : fnmap V :=
  match fn_all m with
  | [] => m
  | _ =>
    (* `empty = v.Val` is only assigned inside the loop over positions: never when maxKeyLength = 0 *)
    let empty := if 0 <? fn_maxlen m then assoc [] (fn_all m) else None in
    match build_pos fallback (fn_maxlen m) (fn_all m) with
    | Some p =>
      let t := trie_build [Z.of_nat p] (fn_all m) in
      let t := match empty with Some e => Trie (t_count t) (t_positions t) (Some e) (t_root t) | None => t end in
      FnMap (fn_maxlen m) (fn_all m) (FTrie t)
    | None =>
      let T := fold_left (fun T kv => match hm_get T (fst kv) with
                                      | Some (Some _) => T                 (* `o := ft.hash.Get(v.Key); if o == nil { Set }` *)
                                      | _ => hm_set T (fst kv) (snd kv)
                                      end) (fn_all m) (hm_new (length (fn_all m) * load_factor)) in
      let T := match empty with Some e => hm_set T [] e | None => T end in
      FnMap (fn_maxlen m) (fn_all m) (FHash T)
    end
  end.

Definition fnm_build {V} (m : fnmap V) : fnmap V := fnm_build_gen true m.
Definition fnm_build_prefix {V} (m : fnmap V) : fnmap V := fnm_build_gen false m.      (* before fix bd82c3d *)

(* FieldNameMap.Get; None at top level = the Go code would not terminate (never happens, see fnm_get_build) *)
Definition fnm_get {V} (m : fnmap V) (k : key) : option (option V) :=
  match fn_impl m with
  | FTrie t => Some (trie_get t k)
  | FHash T => hm_get T k
  | FNone => Some None
  end.

Definition fnm_of_list {V} (kvs : list (key * V)) : fnmap V :=
  fold_left (fun m kv => fnm_set m (fst kv) (snd kv)) kvs fnm_empty.

(* which structure Build chose: 0 none, 1 trie (with its position), 2 hash *)
Definition fnm_kind {V} (m : fnmap V) : Z * Z :=
  match fn_impl m with
  | FNone => (0, -1)
  | FTrie t => (1, match t_positions t with p :: _ => p | [] => -1 end)
  | FHash _ => (2, -1)
  end.

Definition fnm_uses_hash {V} (m : fnmap V) : bool :=
  match fn_impl (fnm_build m) with FHash _ => true | _ => false end.
