(* thrift/binary.go WriteStringWithDesc = DecodeText(val, desc, disallowUnknown, base64Binary, useFieldName = true, asJson = false)
   and ReadStringWithDesc = EncodeText(desc, buf, byteAsUint8, disallowUnknown, base64Binary, useFieldName = true, asJson = false),
   transcribed AS CODED over byte lists, on the descriptors and the writer status of ThriftAnyDesc.v (0 nil, 1 error, 2 outside).
   As coded:
     - every integer type is parsed by strconv.ParseInt(val, 10, 64) and then CONVERTED to the width of the type: a text beyond
       int64 is an error, a text beyond the width of the type is truncated silently ("300" for a BYTE writes 0x2c);
     - BOOL accepts what strconv.ParseBool accepts (1 t T TRUE true True / 0 f F FALSE false False);
     - DOUBLE is strconv.ParseFloat: transcribed for the JSON number grammar (Num.lex2f64 = correctly rounded, proved against the
       rounding specification; a result beyond the largest double is ErrRange); every other text (leading '+', '.5', hexadecimal,
       Inf / NaN spellings, the empty text, garbage) is OUTSIDE the model (status 2);
     - STRING is written as it is; a binary field with base64Binary is decoded with base64.StdEncoding (CR / LF skipped);
     - LIST / SET: strings.Split(val, ",") and every piece converted by the element type, after the header has been written (a
       failing piece leaves the header and the pieces before it in the buffer); an empty text is ONE empty piece;
     - MAP / STRUCT: errNotImplemented without asJson (the JSON path through sonic + WriteAnyWithDesc is not reached by
       WriteStringWithDesc and is outside this model).
   The reader side prints BYTE as an UNSIGNED number whatever byteAsUint8 says (ReadByte returns a byte), joins container
   elements with ',' and map pairs with ':'; its STRUCT case (the sense of disallowUnknown is inverted and the value of an
   undeclared field is not skipped) is outside this model.  The text of a double (json.EncodeFloat64) is a parameter [fd].
   Model only - theorems in proofs/ThriftTextProofs.v. *)
From Coq Require Import ZArith List Bool.
From DG Require Import CaseFormat ProtoWireRef ThriftWire ThriftGeneric ThriftEnvelope ThriftAnyDesc Json Num Base64.
Import ListNotations.
Local Open Scope Z_scope.

(* strconv.ParseInt(s, 10, 64): optional sign, digits, in the int64 range; None = error *)
Definition in_int64 (o : option Z) : option Z :=
  match o with Some z => if in_sb 64 z then Some z else None | None => None end.
Definition text_int (s : list Z) : option Z :=
  match s with
  | [] => None
  | c :: r =>
    if c =? 43 then match r with
                    | d :: _ => if d =? 45 then None else in_int64 (parse_int r)
                    | [] => None
                    end
    else in_int64 (parse_int s)
  end.

Definition s_true : list (list Z) := [[49]; [116]; [84]; [84; 82; 85; 69]; [116; 114; 117; 101]; [84; 114; 117; 101]].
Definition s_false : list (list Z) := [[48]; [102]; [70]; [70; 65; 76; 83; 69]; [102; 97; 108; 115; 101]; [70; 97; 108; 115; 101]].
Definition mem_text (s : list Z) (l : list (list Z)) : bool := existsb (bytes_eqb s) l.
(* strconv.ParseBool *)
Definition text_bool (s : list Z) : option bool :=
  if mem_text s s_true then Some true else if mem_text s s_false then Some false else None.

(* strconv.ParseFloat(s, 64) on the JSON number grammar: Some (Some bits), Some None = ErrRange, None = outside the model *)
Definition text_f64 (s : list Z) : option (option Z) :=
  match lex2f64 s with
  | Some b => if f64_is_finite b then Some (Some b) else Some None
  | None => None
  end.

(* base64.StdEncoding.DecodeString *)
Definition strip_crlf (s : list Z) : list Z := filter (fun c => negb ((c =? 10) || (c =? 13))) s.
Definition text_b64 (s : list Z) : option (list Z) := b64_decode (strip_crlf s).

(* strings.Split(s, ",") *)
Fixpoint split_comma (s : list Z) : list (list Z) :=
  match s with
  | [] => [[]]
  | c :: r => match split_comma r with
              | h :: t => if c =? 44 then [] :: h :: t else (c :: h) :: t
              | [] => [[c]]
              end
  end.

Definition text_scalar (t : Z) (b : list Z) (s : list Z) : wst :=
  if t =? T_BOOL then match text_bool s with Some v => (b ++ [if v then 1 else 0], 0) | None => (b, 1) end
  else if t =? T_BYTE then match text_int s with Some z => (b ++ [z mod 256], 0) | None => (b, 1) end
  else if t =? T_I16 then match text_int s with Some z => (b ++ enc_int 2 z, 0) | None => (b, 1) end
  else if t =? T_I32 then match text_int s with Some z => (b ++ enc_int 4 z, 0) | None => (b, 1) end
  else if t =? T_I64 then match text_int s with Some z => (b ++ enc_int 8 z, 0) | None => (b, 1) end
  else if t =? T_DOUBLE then
    match text_f64 s with Some (Some x) => (b ++ enc_int 8 x, 0) | Some None => (b, 1) | None => (b, 2) end
  else (b, 1).

Section TextWriter.
  Variable b64 : bool.                       (* base64Binary *)

  Section Pieces.
    Variable rec : list Z -> list Z -> wst.  (* buffer, piece *)
    Fixpoint write_pieces (b : list Z) (ps : list (list Z)) : wst :=
      match ps with
      | [] => (b, 0)
      | p :: r => wbind (rec b p) (fun b' => write_pieces b' r)
      end.
  End Pieces.

  (* WriteStringWithDesc(val, desc, disallowUnknown, base64Binary) *)
  Fixpoint write_string_desc (d : adesc) (b : list Z) (s : list Z) : wst :=
    match d with
    | AScalar t => text_scalar t b s
    | AString bin =>
      if b64 && bin then match text_b64 s with Some v => (b ++ str_bytes v, 0) | None => (b, 1) end
      else (b ++ str_bytes s, 0)
    | AList e | ASet e =>
      let ps := split_comma s in
      write_pieces (write_string_desc e) (b ++ dtype e :: enc_int 4 (zlen ps)) ps
    | AMap _ _ | AStruct _ => (b, 1)
    end.
End TextWriter.

(* ---------------------------------------------------------------- ReadStringWithDesc *)
Fixpoint join_with (sep : Z) (l : list (list Z)) : list Z :=
  match l with
  | [] => []
  | [x] => x
  | x :: r => x ++ sep :: join_with sep r
  end.

Section TextReader.
  Variable fd : Z -> list Z.                 (* json.EncodeFloat64 on the bits *)
  Variable b64 : bool.

  Definition read_text_scalar (t : Z) (bs : list Z) : option (list Z * list Z) :=
    if t =? T_BOOL then match bs with x :: r => Some ((if x =? 1 then [116; 114; 117; 101] else [102; 97; 108; 115; 101]), r) | [] => None end
    else if t =? T_BYTE then match bs with x :: r => Some (fmt_int x, r) | [] => None end
    else if t =? T_I16 then match take 2 bs with Some (x, r) => Some (fmt_int (dec_int x), r) | None => None end
    else if t =? T_I32 then match take 4 bs with Some (x, r) => Some (fmt_int (dec_int x), r) | None => None end
    else if t =? T_I64 then match take 8 bs with Some (x, r) => Some (fmt_int (dec_int x), r) | None => None end
    else if t =? T_DOUBLE then match take 8 bs with Some (x, r) => Some (fd (dec_uint x), r) | None => None end
    else None.

  Section Loops.
    Variable rec : adesc -> list Z -> option (list Z * list Z).
    Fixpoint rt_elems (n : nat) (e : adesc) (bs : list Z) : option (list (list Z) * list Z) :=
      match n with
      | O => Some ([], bs)
      | S n' =>
        match rec e bs with
        | None => None
        | Some (x, r) => match rt_elems n' e r with Some (xs, r') => Some (x :: xs, r') | None => None end
        end
      end.
    Fixpoint rt_pairs (n : nat) (k e : adesc) (bs : list Z) : option (list (list Z) * list Z) :=
      match n with
      | O => Some ([], bs)
      | S n' =>
        match rec k bs with
        | None => None
        | Some (kt, r) =>
          match rec e r with
          | None => None
          | Some (x, r2) => match rt_pairs n' k e r2 with Some (xs, r3) => Some ((kt ++ 58 :: x) :: xs, r3) | None => None end
          end
        end
      end.
  End Loops.

  (* the text appended to *buf and the bytes left; None = error; structs: None as well (outside this model) *)
  Fixpoint read_string_desc (fuel : nat) (d : adesc) (bs : list Z) : option (list Z * list Z) :=
    match fuel with
    | O => None
    | S f =>
      match d with
      | AScalar t => read_text_scalar t bs
      | AString bin =>
        match read_strbytes bs with
        | Some (s, r) => Some ((if b64 && bin then b64_encode s else s), r)
        | None => None
        end
      | AList e | ASet e =>
        match bs with
        | [] => None
        | et :: r =>
          if negb (type_valid et) then None else
          match read_count r with
          | None => None
          | Some (n, r2) =>
            if negb (dtype e =? et) then None
            else if n >? zlen r2 then None
            else match rt_elems (read_string_desc f) (Z.to_nat n) e r2 with
                 | Some (l, r3) => Some (join_with 44 l, r3)
                 | None => None
                 end
          end
        end
      | AMap k e =>
        match bs with
        | kt :: vt :: r =>
          if negb (type_valid kt) then None else
          if negb (type_valid vt) then None else
          match read_count r with
          | None => None
          | Some (n, r2) =>
            if negb (dtype e =? vt) || negb (kt =? dtype k) then None
            else if n >? zlen r2 then None
            else match rt_pairs (read_string_desc f) (Z.to_nat n) k e r2 with
                 | Some (l, r3) => Some (join_with 44 l, r3)
                 | None => None
                 end
          end
        | _ => None
        end
      | AStruct _ => None
      end
    end.
End TextReader.

(* ---------------------------------------------------------------- canonical spellings *)
(* the text ReadStringWithDesc prints for a scalar / string value (fd for doubles) *)
Definition canon_text (fd : Z -> list Z) (b64 : bool) (d : adesc) (v : tval) : list Z :=
  match v with
  | VBool raw => if raw =? 1 then [116; 114; 117; 101] else [102; 97; 108; 115; 101]
  | VByte z => fmt_int (z mod 256)
  | VI16 z | VI32 z | VI64 z => fmt_int z
  | VDouble x => fd x
  | VString s => match d with AString true => if b64 then b64_encode s else s | _ => s end
  | _ => []
  end.

Definition is_leaf (v : tval) : bool :=
  match v with VStruct _ | VMap _ _ _ | VSet _ _ | VList _ _ => false | _ => true end.

(* the double formatter prints a text ParseFloat reads back to the same finite double *)
Definition fd_ok_at (fd : Z -> list Z) (x : Z) : bool :=
  f64_is_finite x && match lex2f64 (fd x) with Some y => y =? x | None => false end.
Fixpoint doubles_ok (fd : Z -> list Z) (v : tval) : bool :=
  match v with
  | VDouble x => fd_ok_at fd x
  | VList _ es => forallb (doubles_ok fd) es
  | VSet _ es => forallb (doubles_ok fd) es
  | _ => true
  end.

Definition no_comma (s : list Z) : bool := forallb (fun c => negb (c =? 44)) s.
