(* Correspondence checks for C07 (proto/generic reads). The oracle is decode_top (round-trip theorem
   decode_encode_msg in proofs/ProtoMsgProofs.v) + the AST-level lookup plookup; the reference
   implementation's own report of the message is cross-checked against the model in 701. *)
From Coq Require Import ZArith List Bool.
From DG Require Import CaseFormat ProtoWireRef ProtoMsg ProtoCase ProtoGeneric ProtoGenericAlg ProtoGenericDom.
Import ListNotations.
Local Open Scope Z_scope.

Definition parse_head (fs : list field) : option (list Z * schema * list Z * list field) :=
  match parse_schema fs with
  | Some (root, sc, FB bs :: r) => Some (root, sc, bs, r)
  | _ => None
  end.

Fixpoint parse_steps (n : nat) (fs : list field) : option (list pstep * list field) :=
  match n with
  | O => Some ([], fs)
  | S n' =>
    let k (s : pstep) (r : list field) :=
      match parse_steps n' r with Some (p, r') => Some (s :: p, r') | None => None end in
    match fs with
    | FZ 1 :: FZ id :: r => k (PField id) r
    | FZ 2 :: FB nm :: r => k (PName nm) r
    | FZ 3 :: FZ i :: r => k (PIndex i) r
    | FZ 4 :: FB s :: r => k (PStrKey s) r
    | FZ 5 :: FZ i :: r => k (PIntKey i) r
    | _ => None
    end
  end.
Definition parse_path (fs : list field) : option (list pstep * list field) :=
  match fs with
  | FZ n :: r => if count_ok n then parse_steps (Z.to_nat n) r else None
  | _ => None
  end.

(* worst verdict wins: bad > known (smallest id) > drift > ok > skip *)
Definition vworse (a b : verdict) : verdict :=
  match a, b with
  | VBad _ _, _ => a
  | _, VBad _ _ => b
  | VKnown i, VKnown j => if i <=? j then a else b
  | VKnown _, _ => a
  | _, VKnown _ => b
  | VDrift _, _ => a
  | _, VDrift _ => b
  | VOk, _ => a
  | _, VOk => b
  | VSkip, VSkip => VSkip
  end.

(* ------------------------------------------------------------------ 701: model vs reference
   fields: schema, bytes, value the reference decoder reports *)
Definition check_701_gen (domain : bool) (fs : list field) : verdict :=
  match parse_head fs with
  | Some (root, sc, bs, r) =>
    match parse_msg r with
    | Some (exp, []) =>
      match decode_top sc root bs with
      | None => VBad 51 []                                        (* the model rejects reference bytes *)
      | Some m =>
        vand (expect 52 (pval_eqv (VMsg m) (VMsg exp)) [])         (* same value as the reference reports *)
       (vand (expect 53 (bytes_eqb (encode_msg m) bs) [FB (encode_msg m)])   (* canonical encoder = reference encoder *)
             (expect 54 (if domain then wf_msg sc root m else true) []))   (* inside the domain of the round-trip theorem *)
      end
    | _ => VBad 99 []
    end
  | None => VBad 99 []
  end.
Definition check_701 (fs : list field) : verdict := check_701_gen true fs.
(* 704: the same for the deep class (values nested 10 .. 5000 levels along a self-typed field) without the wf_msg test:
   the executable wf_fld re-encodes every sub-message at every level (cubic in the depth: 15 s at depth 1024) *)
Definition check_704 (fs : list field) : verdict := check_701_gen false fs.

(* ------------------------------------------------------------------ 702: lookups *)
Definition last_step (p : list pstep) : option pstep := match rev p with s :: _ => Some s | [] => None end.
Definition last_is_index (p : list pstep) : bool := match last_step p with Some (PIndex _) => true | _ => false end.

(* key kinds the property names: int32/int64/uint32/uint64 (+ sint) and string; maps keyed by the other
   legal kinds (bool, fixed, sfixed) are outside its subset *)
Definition key_in_subset (kk : Z) : bool := (kk =? 5) || (kk =? 3) || (kk =? 13) || (kk =? 4) || (kk =? 17) || (kk =? 18) || (kk =? 9).

(* does the path walk through a map whose key kind is outside the subset? (walk along the value) *)
Fixpoint path_out_of_subset (S : schema) (lbl : flabel) (t : ftype) (v : pval) (p : list pstep) {struct p} : bool :=
  match p with
  | [] => false
  | s :: p' =>
    match lbl, v with
    | LSingular, VMsg fs =>
      match t with
      | TMsg name =>
        match find_msg S name with
        | Some md =>
          match step_field md s with
          | Some fd => match assoc_z (fd_num fd) fs with
                       | Some x => path_out_of_subset S (fd_label fd) (fd_type fd) x p'
                       | None => false
                       end
          | None => false
          end
        | None => false
        end
      | _ => false
      end
    | LRepeated _, VList _ vs =>
      match s with
      | PIndex i => match nth_error vs (Z.to_nat i) with Some x => path_out_of_subset S LSingular t x p' | None => false end
      | _ => false
      end
    | LMap kk, VMap kvs =>
      negb (key_in_subset kk) ||
      match s with
      | PStrKey k => match assoc_key (KStr k) kvs with Some x => path_out_of_subset S LSingular t x p' | None => false end
      | PIntKey i => match find (fun kx => key_matches i (fst kx)) kvs with
                     | Some kx => path_out_of_subset S LSingular t (snd kx) p' | None => false end
      | _ => false
      end
    | _, _ => false
    end
  end.

Definition exp_fields (r : lres) : list field :=
  match r with
  | LFound lbl t num v => [FZ 0; FZ (node_type lbl t); FB (node_raw lbl num v)]
  | LNotFound l => [FZ 1; FZ (if l then 1 else 0)]
  | LUndeclared => [FZ 2; FZ 0]
  | LErr => [FZ 2; FZ 1]
  end.

(* spec conformance of one observation (status, type, raw) *)
Definition obs_ok (api : Z) (p : list pstep) (r : lres) (st ty : Z) (raw : list Z) : bool :=
  match r with
  | LFound lbl t num v => (st =? 0) && (ty =? node_type lbl t) && bytes_eqb raw (node_raw lbl num v)
  | LNotFound last =>
    (st =? 1) ||
    ((st =? 2) && (negb last || ((api =? 4) && last_is_index p)))   (* an error that is not the not-found error *)
  | LUndeclared => (st =? 1) || (st =? 2)
  | LErr => (st =? 1) || (st =? 2)
  end.

(* ---- known findings: a deviation from the spec is a KNOWN finding only if it is exactly what the code does
   with some of the recorded defects unrepaired. [classify rel matches] tries the sets of unrepaired defects
   among [rel] by increasing size ([] = everything repaired) and returns the first whose as-coded model
   (ProtoGenericAlg, flags = the others repaired) reproduces the observation. *)
Fixpoint powerset (l : list Z) : list (list Z) :=
  match l with
  | [] => [[]]
  | x :: r => let ps := powerset r in ps ++ map (cons x) ps
  end.
Definition subsets_by_size (l : list Z) : list (list Z) :=
  let ps := powerset l in
  flat_map (fun k => filter (fun s => (length s =? k)%nat) ps) (seq 0 (Datatypes.S (length l))).
Definition fx_of (off : list Z) : fixes :=
  let on (id : Z) := negb (existsb (Z.eqb id) off) in
  mk_fixes (on 701) (on 702) (on 703) (on 704) (on 705) (on 706) (on 707) (on 709) (on 710) (on 711).
Definition classify (rel : list Z) (matches : fixes -> bool) : option (list Z) :=
  find (fun off => matches (fx_of off)) (subsets_by_size rel).
Fixpoint zmin (l : list Z) (d : Z) : Z := match l with [] => d | x :: r => Z.min x (zmin r x) end.
(* verdict for a spec violation *)
Definition known_or_bad (c : option (list Z)) (bad : verdict) : verdict :=
  match c with
  | Some (id :: r) => VKnown (zmin (id :: r) id)
  | Some [] => match bad with VBad _ d => VBad 6 d | v => v end    (* even the fully repaired model deviates from the spec *)
  | None => bad
  end.

(* does the observation (status, type, raw) equal an as-coded outcome? *)
Definition obs_matches_alg (g : gout) (st ty : Z) (raw : list Z) : bool :=
  match g with
  | GFoundA t r _ => (st =? 0) && (ty =? t) && bytes_eqb raw r
  | GNotFoundA => st =? 1
  | GErrA => (st =? 1) || (st =? 2)
  | GPanicA => st =? 3
  | GUnmodelled => false
  end.
Definition obs_matches_ares (a : ares) (st ty : Z) (raw : list Z) : bool :=
  match a with
  | ANode n => (st =? 0) && (ty =? an_t n) && bytes_eqb raw (an_raw n)
  | ABroken t => (st =? 3) && (ty =? t)
  | ANotFound => st =? 1
  | AErr => (st =? 1) || (st =? 2)
  | APanic => (st =? 3) && (ty =? 0)
  | AUnmod => false
  end.
(* a child / bulk result: Some (type, raw) | None = absent *)
Definition obs_matches_child (c : option (Z * list Z)) (st ty : Z) (raw : list Z) : bool :=
  match c with
  | Some (t, r) => if t =? 0 then st =? 1                       (* an UNKNOWN node is reported as absent by the harness *)
                   else (st =? 0) && (ty =? t) && bytes_eqb raw r
  | None => st =? 1
  end.

Fixpoint pval_any (f : pval -> bool) (v : pval) {struct v} : bool :=
  f v ||
  match v with
  | VMsg fs => existsb (fun nv => pval_any f (snd nv)) fs
  | VList _ vs => existsb (pval_any f) vs
  | VMap kvs => existsb (fun kx => pval_any f (snd kx)) kvs
  | _ => false
  end.
Definition is_oos_map (v : pval) : bool :=
  match v with VMap ((KInt k _, _) :: _) => negb (key_in_subset k) | _ => false end.
Definition has_direct (f : pval -> bool) (v : pval) : bool :=
  match v with VMsg fs => existsb (fun nv => f (snd nv)) fs | _ => false end.

Definition parent_of (p : list pstep) : list pstep := removelast p.

(* the parent node the implementation obtained (observed type / raw / Len) is the node the spec designates *)
Definition parent_node (sc : schema) (root : list Z) (m : pmsg) (bs : list Z) (p : list pstep)
           (pst pty : Z) (praw : list Z) (psize : Z) : option (anode * pval) :=
  if negb (pst =? 0) then None else
  match parent_of p with
  | [] => if (pty =? K_MESSAGE) && bytes_eqb praw bs then Some (root_node root bs, VMsg m) else None
  | pre =>
    match plookup_root sc root m pre with
    | LFound lbl t num v =>
      if (pty =? node_type lbl t) && bytes_eqb praw (node_raw lbl num v)
      then Some (mk_anode pty praw psize false lbl t num, v) else None
    | _ => None
    end
  end.

(* extra fields of a query of APIs 5, 6, 9: parent observation, requests, position *)
Record qextra := mk_qextra { q_pst : Z; q_pty : Z; q_praw : list Z; q_psize : Z; q_reqs : list pstep; q_at : Z; q_len : Z }.
Definition no_extra : qextra := mk_qextra 9 0 [] 0 [] 0 (-1).

(* Len() of a LIST / MAP node of a loaded tree: the element count after a recursive load, 0 on a lazily loaded child *)
Definition len_ok (recursive : bool) (r : lres) (ln : Z) : bool :=
  match r with
  | LFound (LRepeated _) _ _ v | LFound (LMap _) _ _ v => ln =? (if recursive then size_of v else 0)
  | _ => true
  end.

(* recursive loads of the root for every repair configuration (APIs 7 and 10; computed only for a query that deviates
   from the spec, and only for messages up to 6000 bytes - the as-coded scan of a value nested 5000 levels costs seconds per
   configuration: a deviation on a larger message (deep class only) is reported as a violation without classification) *)
Definition root_loads (sc : schema) (root : list Z) (bs : list Z) : list (list Z * tres) :=
  map (fun off => (off, a_load (fx_of off) sc true (root_node root bs))) (subsets_by_size [706; 711]).

Definition judge_702 (sc : schema) (root : list Z) (m : pmsg) (bs : list Z) (api : Z) (loads : unit -> list (list Z * tres))
           (p : list pstep) (st ty : Z) (raw : list Z) (x : qextra) : verdict :=
  if st =? 9 then VSkip else
  let r := plookup_root sc root m p in
  let bad := VBad 2 (exp_fields r) in
  let rootv := VMsg m in
  if (api =? 1) || (api =? 2) || (api =? 3) then
    (* Value.GetByPath / GetByPathWithAddress *)
    if obs_ok api p r st ty raw then VOk
    else if path_out_of_subset sc LSingular (TMsg root) rootv p then VDrift 1
    else known_or_bad (classify [701; 702; 703; 704; 710]
                                (fun fx => obs_matches_alg (gbp fx sc root bs p) st ty raw)) bad
  else if api =? 4 then
    (* chained Field / FieldByName / Index / GetByStr / GetByInt *)
    if obs_ok api p r st ty raw then VOk
    else if path_out_of_subset sc LSingular (TMsg root) rootv p then VDrift 1
    else known_or_bad (classify [703; 705]
                                (fun fx => obs_matches_ares (a_chain fx sc (root_node root bs) p) st ty raw)) bad
  else if (api =? 5) || (api =? 9) || (api =? 6) then
    match parent_node sc root m bs p (q_pst x) (q_pty x) (q_praw x) (q_psize x) with
    | None => VSkip                       (* the parent itself is not located correctly: reported under APIs 1-3 *)
    | Some (pn, pv) =>
      if obs_ok api p r st ty raw then VOk
      else if path_out_of_subset sc LSingular (TMsg root) rootv p || has_direct is_oos_map pv || is_oos_map pv then VDrift 1
      else if api =? 6 then
        (* PathNode.Load(recurse=false) on the parent node: no repair recorded, the code as it is *)
        let model := match a_load no_fixes sc false pn with
                     | TOk kids _ => match last_step p with
                                     | Some s => match find_kid s kids with
                                                 | Some (ATree _ t rw _) => obs_matches_child (Some (t, rw)) st ty raw
                                                 | None => st =? 1
                                                 end
                                     | None => false
                                     end
                     | TErr => (st =? 1) || (st =? 2)
                     | TPanic => st =? 3
                     | TUnmod => false
                     end in
        match an_lbl pn, an_t pn =? K_MESSAGE, parent_of p with
        | LSingular, true, _ :: _ => if model then VKnown 708 else bad     (* nested message node: length prefix parsed as a tag *)
        | _, _, _ => bad
        end
      else
        (* GetMany with the recorded requests; the queried path is request number q_at *)
        known_or_bad (classify [703; 707]
          (fun fx => match a_getmany fx sc pn (q_reqs x) with
                     | MOk l => match nth_error l (Z.to_nat (q_at x)) with
                                | Some c => obs_matches_child c st ty raw
                                | None => false
                                end
                     | MErr => (st =? 1) || (st =? 2)
                     | MPanic => st =? 3
                     | MUnmod => false
                     end)) bad
    end
  else if (api =? 7) || (api =? 10) then
    (* PathNode.Load(recurse=true) / Node.Children(recurse=true) on the root, then a walk along the path *)
    if obs_ok api p r st ty raw then (if len_ok true r (q_len x) then VOk else VBad 7 [FZ (q_len x)])
    else if pval_any is_oos_map rootv then VDrift 1
    else known_or_bad
           (option_map fst
              (find (fun ol => match snd ol with
                               | TOk kids _ => obs_matches_child (walk_tree kids p) st ty raw
                               | TErr => (st =? 1) || (st =? 2)
                               | TPanic => st =? 3
                               | TUnmod => false
                               end) (loads tt))) bad
  else
    if obs_ok api p r st ty raw then (if len_ok false r (q_len x) then VOk else VBad 7 [FZ (q_len x)])
    else if path_out_of_subset sc LSingular (TMsg root) rootv p then VDrift 1
    else bad.

Definition has_extra (api : Z) : bool := (api =? 5) || (api =? 9) || (api =? 6).

Definition parse_extra (fs : list field) : option (qextra * list field) :=
  match fs with
  | FZ pst :: FZ pty :: FB praw :: FZ psize :: FZ nreq :: r =>
    if negb (count_ok nreq) then None else
    match parse_steps (Z.to_nat nreq) r with
    | Some (reqs, FZ at_ :: r') => Some (mk_qextra pst pty praw psize reqs at_ (-1), r')
    | _ => None
    end
  | _ => None
  end.

(* returns the combined verdict; bad queries are collected (index + expected observation) *)
Fixpoint run_queries (judge : list pstep -> Z -> Z -> list Z -> qextra -> verdict) (extra haslen : bool)
         (n : nat) (idx : Z) (fs : list field) (acc : verdict) (bad : list field) : verdict :=
  match n with
  | O => match fs with
         | [] => match bad with [] => acc | _ => VBad 1 bad end
         | _ => VBad 99 []
         end
  | S n' =>
    match parse_path fs with
    | Some (p, FZ st :: FZ ty :: FB raw :: r) =>
      match (if extra then parse_extra r
             else if haslen then match r with FZ ln :: r' => Some (mk_qextra 9 0 [] 0 [] 0 ln, r') | _ => None end
             else Some (no_extra, r)) with
      | Some (x, r') =>
        match judge p st ty raw x with
        | VBad c d => run_queries judge extra haslen n' (idx + 1) r' acc (bad ++ FZ idx :: FZ c :: d)
        | v => run_queries judge extra haslen n' (idx + 1) r' (vworse acc v) bad
        end
      | None => VBad 99 [FZ idx]
      end
    | _ => VBad 99 [FZ idx]
    end
  end.

(* fields: schema, bytes, api, #queries, { path, status, type, raw [, parent obs, requests, position] } *)
Definition check_702 (fs : list field) : verdict :=
  match parse_head fs with
  | Some (root, sc, bs, FZ api :: FZ nq :: r) =>
    if negb (count_ok nq) then VBad 99 [] else
    match decode_top sc root bs with
    | None => VSkip
    | Some m => run_queries (judge_702 sc root m bs api (fun _ => if ((api =? 7) || (api =? 10)) && (plen bs <=? 6000) then root_loads sc root bs else [])) (has_extra api) ((api =? 7) || (api =? 8) || (api =? 10)) (Z.to_nat nq) 0 r VOk []
    end
  | _ => VBad 99 []
  end.

(* ------------------------------------------------------------------ 703: typed casts and Interface *)
Section GvalParse.
  Variable p : list field -> option (gval * list field).
  Fixpoint gparse_n (n : nat) (fs : list field) : option (list gval * list field) :=
    match n with
    | O => Some ([], fs)
    | S n' => match p fs with
              | Some (v, r) => match gparse_n n' r with Some (l, r') => Some (v :: l, r') | None => None end
              | None => None
              end
    end.
  Fixpoint gparse_ni (n : nat) (fs : list field) : option (list (Z * gval) * list field) :=
    match n with
    | O => Some ([], fs)
    | S n' => match fs with
              | FZ k :: r =>
                match p r with
                | Some (v, r1) => match gparse_ni n' r1 with Some (l, r2) => Some ((k, v) :: l, r2) | None => None end
                | None => None
                end
              | _ => None
              end
    end.
  Fixpoint gparse_ns (n : nat) (fs : list field) : option (list (list Z * gval) * list field) :=
    match n with
    | O => Some ([], fs)
    | S n' => match fs with
              | FB k :: r =>
                match p r with
                | Some (v, r1) => match gparse_ns n' r1 with Some (l, r2) => Some ((k, v) :: l, r2) | None => None end
                | None => None
                end
              | _ => None
              end
    end.
End GvalParse.

Fixpoint parse_gval (fuel : nat) (fs : list field) : option (gval * list field) :=
  match fuel with
  | O => None
  | S f =>
    match fs with
    | FZ 0 :: r => Some (GNil, r)
    | FZ 1 :: FZ v :: r => Some (GInt v, r)
    | FZ 2 :: FZ v :: r => Some (GUint v, r)
    | FZ 3 :: FZ v :: r => Some (GF64 v, r)
    | FZ 4 :: FZ v :: r => Some (GF32 v, r)
    | FZ 5 :: FZ v :: r => Some (GBool v, r)
    | FZ 6 :: FB s :: r => Some (GStr s, r)
    | FZ 7 :: FB s :: r => Some (GBin s, r)
    | FZ 8 :: FZ n :: r =>
      if negb (count_ok n) then None else
      match gparse_n (parse_gval f) (Z.to_nat n) r with Some (l, r') => Some (GList l, r') | None => None end
    | FZ 9 :: FZ n :: r | FZ 10 :: FZ n :: r =>
      if negb (count_ok n) then None else
      match gparse_ni (parse_gval f) (Z.to_nat n) r with Some (l, r') => Some (GMapI l, r') | None => None end
    | FZ 11 :: FZ n :: r =>
      if negb (count_ok n) then None else
      match gparse_ns (parse_gval f) (Z.to_nat n) r with Some (l, r') => Some (GMapS l, r') | None => None end
    | FZ 99 :: r => Some (GOther, r)
    | _ => None
    end
  end.

(* value a typed cast must return: the integer image / the bytes *)
Definition cast_expected (cast : Z) (v : pval) : option gval :=
  match v with
  | VScalar k x =>
    if (cast =? 1) && is_signed_kind k && negb (k =? 14) then Some (GInt x)
    else if (cast =? 2) && is_unsigned_kind k then Some (GUint x)
    else if (cast =? 3) && (k =? 1) then Some (GF64 x)
    else if (cast =? 4) && (k =? 8) then Some (GBool x)
    else if (cast =? 7) && (k =? 14) then Some (GInt x)
    else None
  | VBytes k b =>
    if (cast =? 5) && (k =? 9) then Some (GStr b)
    else if (cast =? 6) && (k =? 12) then Some (GBin b)
    else None
  | _ => None
  end.

(* the harness writes cast results as a bare integer / byte string *)
Definition parse_cast_value (cast : Z) (fs : list field) : option (gval * list field) :=
  match fs with
  | FZ v :: r =>
    if cast =? 1 then Some (GInt v, r) else if cast =? 2 then Some (GUint v, r) else if cast =? 3 then Some (GF64 v, r)
    else if cast =? 4 then Some (GBool v, r) else if cast =? 7 then Some (GInt v, r) else None
  | FB b :: r => if cast =? 5 then Some (GStr b, r) else if cast =? 6 then Some (GBin b, r) else None
  | _ => None
  end.

Definition gval_fields (g : gval) : list field :=
  match g with
  | GInt x => [FZ 1; FZ x] | GUint x => [FZ 2; FZ x] | GF64 x => [FZ 3; FZ x] | GF32 x => [FZ 4; FZ x]
  | GBool x => [FZ 5; FZ x] | GStr s => [FZ 6; FB s] | GBin s => [FZ 7; FB s]
  | GList l => [FZ 8; FZ (plen l)] | GMapI l => [FZ 9; FZ (plen l)] | GMapS l => [FZ 11; FZ (plen l)]
  | GNil => [FZ 0] | GOther => [FZ 99]
  end.

Definition ires_matches (i : ires) (st : Z) (got : option gval) : bool :=
  match i with
  | IOk g => match got with Some g' => (st =? 0) && gval_eqv g g' | None => false end
  | IErr => (st =? 1) || (st =? 2)
  | IPanic => st =? 3
  | IUnmod => false
  end.

(* nty / nraw: type and bytes of the node the cast was applied to (the harness obtains it with GetByPath) *)
Definition judge_703 (sc : schema) (root : list Z) (m : pmsg) (bs : list Z) (p : list pstep)
           (nty : Z) (nraw : list Z) (cast st : Z) (got : option gval) : verdict :=
  match plookup_root sc root m p with
  | LFound lbl t num v =>
    let isroot := is_nil p in
    let node_ok := if isroot then (nty =? K_MESSAGE) && bytes_eqb nraw bs
                   else (nty =? node_type lbl t) && bytes_eqb nraw (node_raw lbl num v) in
    (* when the lookup itself deviates it is reported by 702 *)
    if negb node_ok then VSkip else
    let exp := if cast =? 8 then Some (to_gval v) else cast_expected cast v in
    match exp with
    | None => VSkip
    | Some e =>
      let ok := match got with Some g => (st =? 0) && gval_eqv e g | None => false end in
      let bad := VBad (match got with Some _ => 3 | None => 4 end) (FZ st :: gval_fields e) in
      if ok then VOk
      else if path_out_of_subset sc LSingular (TMsg root) (VMsg m) p || pval_any is_oos_map v then VDrift 1
      else if cast =? 8 then
        let nd := mk_anode nty nraw 0 isroot lbl t num in
        known_or_bad (classify [703; 709]
                               (fun fx => ires_matches (a_interface (S (length nraw)) fx sc nd) st got)) bad
      else bad
    end
  | _ => VSkip
  end.

Fixpoint run_casts (sc : schema) (root : list Z) (m : pmsg) (bs : list Z) (n : nat) (idx : Z) (fs : list field)
         (acc : verdict) (bad : list field) : verdict :=
  match n with
  | O => match fs with
         | [] => match bad with [] => acc | _ => VBad 1 bad end
         | _ => VBad 99 []
         end
  | S n' =>
    match parse_path fs with
    | Some (p, FZ nty :: FB nraw :: FZ cast :: FZ st :: r) =>
      let parsed :=
        if negb (st =? 0) then match r with FZ 0 :: r' => Some (None, r') | _ => None end
        else if cast =? 8 then match parse_gval (S (length r)) r with Some (g, r') => Some (Some g, r') | None => None end
        else match parse_cast_value cast r with Some (g, r') => Some (Some g, r') | None => None end in
      match parsed with
      | Some (got, r') =>
        match judge_703 sc root m bs p nty nraw cast st got with
        | VBad c d => run_casts sc root m bs n' (idx + 1) r' acc (bad ++ FZ idx :: FZ c :: d)
        | v => run_casts sc root m bs n' (idx + 1) r' (vworse acc v) bad
        end
      | None => VBad 98 [FZ idx]
      end
    | _ => VBad 99 [FZ idx]
    end
  end.

(* fields: schema, bytes, #queries, { path, cast, status, value } *)
Definition check_703 (fs : list field) : verdict :=
  match parse_head fs with
  | Some (root, sc, bs, FZ nq :: r) =>
    if negb (count_ok nq) then VBad 99 [] else
    match decode_top sc root bs with
    | None => VSkip
    | Some m => run_casts sc root m bs (Z.to_nat nq) 0 r VOk []
    end
  | _ => VBad 99 []
  end.
