(* Correspondence checks for C07 (proto/generic reads). The oracle is decode_top (round-trip theorem
   decode_encode_msg in proofs/ProtoMsgProofs.v) + the AST-level lookup plookup; the reference
   implementation's own report of the message is cross-checked against the model in 701. *)
From Coq Require Import ZArith List Bool.
From DG Require Import CaseFormat ProtoWireRef ProtoMsg ProtoCase ProtoGeneric.
Import ListNotations.
Local Open Scope Z_scope.

Definition parse_head (fs : list field) : option (list Z * schema * list Z * list field) :=
  match parse_schema fs with
  | Some (root, sc, FB bs :: r) => Some (root, sc, bs, r)
  | _ => None
  end.

Fixpoint parse_steps (n : nat) (fs : list field) : option (list pstep * list field) :=
  match n with
  | O => Some ([], fs)
  | S n' =>
    let k (s : pstep) (r : list field) :=
      match parse_steps n' r with Some (p, r') => Some (s :: p, r') | None => None end in
    match fs with
    | FZ 1 :: FZ id :: r => k (PField id) r
    | FZ 2 :: FB nm :: r => k (PName nm) r
    | FZ 3 :: FZ i :: r => k (PIndex i) r
    | FZ 4 :: FB s :: r => k (PStrKey s) r
    | FZ 5 :: FZ i :: r => k (PIntKey i) r
    | _ => None
    end
  end.
Definition parse_path (fs : list field) : option (list pstep * list field) :=
  match fs with
  | FZ n :: r => if count_ok n then parse_steps (Z.to_nat n) r else None
  | _ => None
  end.

(* worst verdict wins: bad > known (smallest id) > drift > ok > skip *)
Definition vworse (a b : verdict) : verdict :=
  match a, b with
  | VBad _ _, _ => a
  | _, VBad _ _ => b
  | VKnown i, VKnown j => if i <=? j then a else b
  | VKnown _, _ => a
  | _, VKnown _ => b
  | VDrift _, _ => a
  | _, VDrift _ => b
  | VOk, _ => a
  | _, VOk => b
  | VSkip, VSkip => VSkip
  end.

(* ------------------------------------------------------------------ 701: model vs reference
   fields: schema, bytes, value the reference decoder reports *)
Definition check_701 (fs : list field) : verdict :=
  match parse_head fs with
  | Some (root, sc, bs, r) =>
    match parse_msg r with
    | Some (exp, []) =>
      match decode_top sc root bs with
      | None => VBad 51 []                                        (* the model rejects reference bytes *)
      | Some m =>
        vand (expect 52 (pval_eqv (VMsg m) (VMsg exp)) [])         (* same value as the reference reports *)
       (vand (expect 53 (bytes_eqb (encode_msg m) bs) [FB (encode_msg m)])   (* canonical encoder = reference encoder *)
             (expect 54 (wf_msg sc root m) []))                    (* inside the domain of the round-trip theorem *)
      end
    | _ => VBad 99 []
    end
  | None => VBad 99 []
  end.

(* ------------------------------------------------------------------ 702: lookups *)
Definition last_step (p : list pstep) : option pstep := match rev p with s :: _ => Some s | [] => None end.
Definition last_is_index (p : list pstep) : bool := match last_step p with Some (PIndex _) => true | _ => false end.

(* key kinds the property names: int32/int64/uint32/uint64 (+ sint) and string; maps keyed by the other
   legal kinds (bool, fixed, sfixed) are outside its subset *)
Definition key_in_subset (kk : Z) : bool := (kk =? 5) || (kk =? 3) || (kk =? 13) || (kk =? 4) || (kk =? 17) || (kk =? 18) || (kk =? 9).

(* does the path walk through a map whose key kind is outside the subset? (walk along the value) *)
Fixpoint path_out_of_subset (S : schema) (lbl : flabel) (t : ftype) (v : pval) (p : list pstep) {struct p} : bool :=
  match p with
  | [] => false
  | s :: p' =>
    match lbl, v with
    | LSingular, VMsg fs =>
      match t with
      | TMsg name =>
        match find_msg S name with
        | Some md =>
          match step_field md s with
          | Some fd => match assoc_z (fd_num fd) fs with
                       | Some x => path_out_of_subset S (fd_label fd) (fd_type fd) x p'
                       | None => false
                       end
          | None => false
          end
        | None => false
        end
      | _ => false
      end
    | LRepeated _, VList _ vs =>
      match s with
      | PIndex i => match nth_error vs (Z.to_nat i) with Some x => path_out_of_subset S LSingular t x p' | None => false end
      | _ => false
      end
    | LMap kk, VMap kvs =>
      negb (key_in_subset kk) ||
      match s with
      | PStrKey k => match assoc_key (KStr k) kvs with Some x => path_out_of_subset S LSingular t x p' | None => false end
      | PIntKey i => match find (fun kx => key_matches i (fst kx)) kvs with
                     | Some kx => path_out_of_subset S LSingular t (snd kx) p' | None => false end
      | _ => false
      end
    | _, _ => false
    end
  end.

Definition exp_fields (r : lres) : list field :=
  match r with
  | LFound lbl t num v => [FZ 0; FZ (node_type lbl t); FB (node_raw lbl num v)]
  | LNotFound l => [FZ 1; FZ (if l then 1 else 0)]
  | LUndeclared => [FZ 2; FZ 0]
  | LErr => [FZ 2; FZ 1]
  end.

(* spec conformance of one observation (status, type, raw) *)
Definition obs_ok (api : Z) (p : list pstep) (r : lres) (st ty : Z) (raw : list Z) : bool :=
  match r with
  | LFound lbl t num v => (st =? 0) && (ty =? node_type lbl t) && bytes_eqb raw (node_raw lbl num v)
  | LNotFound last =>
    (st =? 1) ||
    ((st =? 2) && (negb last || ((api =? 4) && last_is_index p)))   (* an error that is not the not-found error *)
  | LUndeclared => (st =? 1) || (st =? 2)
  | LErr => (st =? 1) || (st =? 2)
  end.

Section Queries.
  Variable judge : list pstep -> Z -> Z -> list Z -> verdict.
  (* returns the combined verdict; bad queries are collected (index + expected observation) *)
  Fixpoint run_queries (n : nat) (idx : Z) (fs : list field) (acc : verdict) (bad : list field) : verdict :=
    match n with
    | O => match fs with
           | [] => match bad with [] => acc | _ => VBad 1 bad end
           | _ => VBad 99 []
           end
    | S n' =>
      match parse_path fs with
      | Some (p, FZ st :: FZ ty :: FB raw :: r) =>
        match judge p st ty raw with
        | VBad c d => run_queries n' (idx + 1) r acc (bad ++ FZ idx :: FZ c :: d)
        | v => run_queries n' (idx + 1) r (vworse acc v) bad
        end
      | _ => VBad 99 []
      end
    end.
End Queries.

Definition judge_702 (sc : schema) (root : list Z) (m : pmsg) (bs : list Z) (api : Z)
           (p : list pstep) (st ty : Z) (raw : list Z) : verdict :=
  if st =? 9 then VSkip else
  let r := plookup_root sc root m p in
  if obs_ok api p r st ty raw then VOk
  else if path_out_of_subset sc LSingular (TMsg root) (VMsg m) p then VDrift 1
  else VBad 2 (exp_fields r).

(* fields: schema, bytes, api, #queries, { path, status, type, raw } *)
Definition check_702 (fs : list field) : verdict :=
  match parse_head fs with
  | Some (root, sc, bs, FZ api :: FZ nq :: r) =>
    if negb (count_ok nq) then VBad 99 [] else
    match decode_top sc root bs with
    | None => VSkip
    | Some m => run_queries (judge_702 sc root m bs api) (Z.to_nat nq) 0 r VOk []
    end
  | _ => VBad 99 []
  end.

(* ------------------------------------------------------------------ 703: typed casts and Interface *)
Section GvalParse.
  Variable p : list field -> option (gval * list field).
  Fixpoint gparse_n (n : nat) (fs : list field) : option (list gval * list field) :=
    match n with
    | O => Some ([], fs)
    | S n' => match p fs with
              | Some (v, r) => match gparse_n n' r with Some (l, r') => Some (v :: l, r') | None => None end
              | None => None
              end
    end.
  Fixpoint gparse_ni (n : nat) (fs : list field) : option (list (Z * gval) * list field) :=
    match n with
    | O => Some ([], fs)
    | S n' => match fs with
              | FZ k :: r =>
                match p r with
                | Some (v, r1) => match gparse_ni n' r1 with Some (l, r2) => Some ((k, v) :: l, r2) | None => None end
                | None => None
                end
              | _ => None
              end
    end.
  Fixpoint gparse_ns (n : nat) (fs : list field) : option (list (list Z * gval) * list field) :=
    match n with
    | O => Some ([], fs)
    | S n' => match fs with
              | FB k :: r =>
                match p r with
                | Some (v, r1) => match gparse_ns n' r1 with Some (l, r2) => Some ((k, v) :: l, r2) | None => None end
                | None => None
                end
              | _ => None
              end
    end.
End GvalParse.

Fixpoint parse_gval (fuel : nat) (fs : list field) : option (gval * list field) :=
  match fuel with
  | O => None
  | S f =>
    match fs with
    | FZ 0 :: r => Some (GNil, r)
    | FZ 1 :: FZ v :: r => Some (GInt v, r)
    | FZ 2 :: FZ v :: r => Some (GUint v, r)
    | FZ 3 :: FZ v :: r => Some (GF64 v, r)
    | FZ 4 :: FZ v :: r => Some (GF32 v, r)
    | FZ 5 :: FZ v :: r => Some (GBool v, r)
    | FZ 6 :: FB s :: r => Some (GStr s, r)
    | FZ 7 :: FB s :: r => Some (GBin s, r)
    | FZ 8 :: FZ n :: r =>
      if negb (count_ok n) then None else
      match gparse_n (parse_gval f) (Z.to_nat n) r with Some (l, r') => Some (GList l, r') | None => None end
    | FZ 9 :: FZ n :: r | FZ 10 :: FZ n :: r =>
      if negb (count_ok n) then None else
      match gparse_ni (parse_gval f) (Z.to_nat n) r with Some (l, r') => Some (GMapI l, r') | None => None end
    | FZ 11 :: FZ n :: r =>
      if negb (count_ok n) then None else
      match gparse_ns (parse_gval f) (Z.to_nat n) r with Some (l, r') => Some (GMapS l, r') | None => None end
    | FZ 99 :: r => Some (GOther, r)
    | _ => None
    end
  end.

(* value a typed cast must return: the integer image / the bytes *)
Definition cast_expected (cast : Z) (v : pval) : option gval :=
  match v with
  | VScalar k x =>
    if (cast =? 1) && is_signed_kind k && negb (k =? 14) then Some (GInt x)
    else if (cast =? 2) && is_unsigned_kind k then Some (GUint x)
    else if (cast =? 3) && (k =? 1) then Some (GF64 x)
    else if (cast =? 4) && (k =? 8) then Some (GBool x)
    else if (cast =? 7) && (k =? 14) then Some (GInt x)
    else None
  | VBytes k b =>
    if (cast =? 5) && (k =? 9) then Some (GStr b)
    else if (cast =? 6) && (k =? 12) then Some (GBin b)
    else None
  | _ => None
  end.

(* the harness writes cast results as a bare integer / byte string *)
Definition parse_cast_value (cast : Z) (fs : list field) : option (gval * list field) :=
  match fs with
  | FZ v :: r =>
    if cast =? 1 then Some (GInt v, r) else if cast =? 2 then Some (GUint v, r) else if cast =? 3 then Some (GF64 v, r)
    else if cast =? 4 then Some (GBool v, r) else if cast =? 7 then Some (GInt v, r) else None
  | FB b :: r => if cast =? 5 then Some (GStr b, r) else if cast =? 6 then Some (GBin b, r) else None
  | _ => None
  end.

Definition gval_fields (g : gval) : list field :=
  match g with
  | GInt x => [FZ 1; FZ x] | GUint x => [FZ 2; FZ x] | GF64 x => [FZ 3; FZ x] | GF32 x => [FZ 4; FZ x]
  | GBool x => [FZ 5; FZ x] | GStr s => [FZ 6; FB s] | GBin s => [FZ 7; FB s]
  | GList l => [FZ 8; FZ (plen l)] | GMapI l => [FZ 9; FZ (plen l)] | GMapS l => [FZ 11; FZ (plen l)]
  | GNil => [FZ 0] | GOther => [FZ 99]
  end.

Definition judge_703 (sc : schema) (root : list Z) (m : pmsg) (p : list pstep) (cast st : Z) (got : option gval) : verdict :=
  match plookup_root sc root m p with
  | LFound lbl t num v =>
    let exp := if cast =? 8 then Some (to_gval v) else cast_expected cast v in
    match exp with
    | None => VSkip
    | Some e =>
      match got with
      | Some g => if (st =? 0) && gval_eqv e g then VOk
                  else if path_out_of_subset sc LSingular (TMsg root) (VMsg m) p then VDrift 1
                  else VBad 3 (gval_fields e)
      | None => VBad 4 (gval_fields e)
      end
    end
  | _ => VSkip
  end.

Fixpoint run_casts (sc : schema) (root : list Z) (m : pmsg) (n : nat) (idx : Z) (fs : list field)
         (acc : verdict) (bad : list field) : verdict :=
  match n with
  | O => match fs with
         | [] => match bad with [] => acc | _ => VBad 1 bad end
         | _ => VBad 99 []
         end
  | S n' =>
    match parse_path fs with
    | Some (p, FZ cast :: FZ st :: r) =>
      let parsed :=
        if negb (st =? 0) then match r with FZ 0 :: r' => Some (None, r') | _ => None end
        else if cast =? 8 then match parse_gval (S (length r)) r with Some (g, r') => Some (Some g, r') | None => None end
        else match parse_cast_value cast r with Some (g, r') => Some (Some g, r') | None => None end in
      match parsed with
      | Some (got, r') =>
        match judge_703 sc root m p cast st got with
        | VBad c d => run_casts sc root m n' (idx + 1) r' acc (bad ++ FZ idx :: FZ c :: d)
        | v => run_casts sc root m n' (idx + 1) r' (vworse acc v) bad
        end
      | None => VBad 98 [FZ idx]
      end
    | _ => VBad 99 [FZ idx]
    end
  end.

(* fields: schema, bytes, #queries, { path, cast, status, value } *)
Definition check_703 (fs : list field) : verdict :=
  match parse_head fs with
  | Some (root, sc, bs, FZ nq :: r) =>
    if negb (count_ok nq) then VBad 99 [] else
    match decode_top sc root bs with
    | None => VSkip
    | Some m => run_casts sc root m (Z.to_nat nq) 0 r VOk []
    end
  | _ => VBad 99 []
  end.
