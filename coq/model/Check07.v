(* Correspondence checks for C07 (proto/generic reads). The oracle is decode_top (round-trip theorem
   decode_encode_msg in proofs/ProtoMsgProofs.v) + the AST-level lookup plookup; the reference
   implementation's own report of the message is cross-checked against the model in 701. *)
From Coq Require Import ZArith List Bool.
From DG Require Import CaseFormat ProtoWireRef ProtoMsg ProtoCase ProtoGeneric ProtoGenericAlg.
Import ListNotations.
Local Open Scope Z_scope.

Definition parse_head (fs : list field) : option (list Z * schema * list Z * list field) :=
  match parse_schema fs with
  | Some (root, sc, FB bs :: r) => Some (root, sc, bs, r)
  | _ => None
  end.

Fixpoint parse_steps (n : nat) (fs : list field) : option (list pstep * list field) :=
  match n with
  | O => Some ([], fs)
  | S n' =>
    let k (s : pstep) (r : list field) :=
      match parse_steps n' r with Some (p, r') => Some (s :: p, r') | None => None end in
    match fs with
    | FZ 1 :: FZ id :: r => k (PField id) r
    | FZ 2 :: FB nm :: r => k (PName nm) r
    | FZ 3 :: FZ i :: r => k (PIndex i) r
    | FZ 4 :: FB s :: r => k (PStrKey s) r
    | FZ 5 :: FZ i :: r => k (PIntKey i) r
    | _ => None
    end
  end.
Definition parse_path (fs : list field) : option (list pstep * list field) :=
  match fs with
  | FZ n :: r => if count_ok n then parse_steps (Z.to_nat n) r else None
  | _ => None
  end.

(* worst verdict wins: bad > known (smallest id) > drift > ok > skip *)
Definition vworse (a b : verdict) : verdict :=
  match a, b with
  | VBad _ _, _ => a
  | _, VBad _ _ => b
  | VKnown i, VKnown j => if i <=? j then a else b
  | VKnown _, _ => a
  | _, VKnown _ => b
  | VDrift _, _ => a
  | _, VDrift _ => b
  | VOk, _ => a
  | _, VOk => b
  | VSkip, VSkip => VSkip
  end.

(* ------------------------------------------------------------------ 701: model vs reference
   fields: schema, bytes, value the reference decoder reports *)
Definition check_701 (fs : list field) : verdict :=
  match parse_head fs with
  | Some (root, sc, bs, r) =>
    match parse_msg r with
    | Some (exp, []) =>
      match decode_top sc root bs with
      | None => VBad 51 []                                        (* the model rejects reference bytes *)
      | Some m =>
        vand (expect 52 (pval_eqv (VMsg m) (VMsg exp)) [])         (* same value as the reference reports *)
       (vand (expect 53 (bytes_eqb (encode_msg m) bs) [FB (encode_msg m)])   (* canonical encoder = reference encoder *)
             (expect 54 (wf_msg sc root m) []))                    (* inside the domain of the round-trip theorem *)
      end
    | _ => VBad 99 []
    end
  | None => VBad 99 []
  end.

(* ------------------------------------------------------------------ 702: lookups *)
Definition last_step (p : list pstep) : option pstep := match rev p with s :: _ => Some s | [] => None end.
Definition last_is_index (p : list pstep) : bool := match last_step p with Some (PIndex _) => true | _ => false end.

(* key kinds the property names: int32/int64/uint32/uint64 (+ sint) and string; maps keyed by the other
   legal kinds (bool, fixed, sfixed) are outside its subset *)
Definition key_in_subset (kk : Z) : bool := (kk =? 5) || (kk =? 3) || (kk =? 13) || (kk =? 4) || (kk =? 17) || (kk =? 18) || (kk =? 9).

(* does the path walk through a map whose key kind is outside the subset? (walk along the value) *)
Fixpoint path_out_of_subset (S : schema) (lbl : flabel) (t : ftype) (v : pval) (p : list pstep) {struct p} : bool :=
  match p with
  | [] => false
  | s :: p' =>
    match lbl, v with
    | LSingular, VMsg fs =>
      match t with
      | TMsg name =>
        match find_msg S name with
        | Some md =>
          match step_field md s with
          | Some fd => match assoc_z (fd_num fd) fs with
                       | Some x => path_out_of_subset S (fd_label fd) (fd_type fd) x p'
                       | None => false
                       end
          | None => false
          end
        | None => false
        end
      | _ => false
      end
    | LRepeated _, VList _ vs =>
      match s with
      | PIndex i => match nth_error vs (Z.to_nat i) with Some x => path_out_of_subset S LSingular t x p' | None => false end
      | _ => false
      end
    | LMap kk, VMap kvs =>
      negb (key_in_subset kk) ||
      match s with
      | PStrKey k => match assoc_key (KStr k) kvs with Some x => path_out_of_subset S LSingular t x p' | None => false end
      | PIntKey i => match find (fun kx => key_matches i (fst kx)) kvs with
                     | Some kx => path_out_of_subset S LSingular t (snd kx) p' | None => false end
      | _ => false
      end
    | _, _ => false
    end
  end.

Definition exp_fields (r : lres) : list field :=
  match r with
  | LFound lbl t num v => [FZ 0; FZ (node_type lbl t); FB (node_raw lbl num v)]
  | LNotFound l => [FZ 1; FZ (if l then 1 else 0)]
  | LUndeclared => [FZ 2; FZ 0]
  | LErr => [FZ 2; FZ 1]
  end.

(* spec conformance of one observation (status, type, raw) *)
Definition obs_ok (api : Z) (p : list pstep) (r : lres) (st ty : Z) (raw : list Z) : bool :=
  match r with
  | LFound lbl t num v => (st =? 0) && (ty =? node_type lbl t) && bytes_eqb raw (node_raw lbl num v)
  | LNotFound last =>
    (st =? 1) ||
    ((st =? 2) && (negb last || ((api =? 4) && last_is_index p)))   (* an error that is not the not-found error *)
  | LUndeclared => (st =? 1) || (st =? 2)
  | LErr => (st =? 1) || (st =? 2)
  end.

Section Queries.
  Variable judge : list pstep -> Z -> Z -> list Z -> verdict.
  (* returns the combined verdict; bad queries are collected (index + expected observation) *)
  Fixpoint run_queries (n : nat) (idx : Z) (fs : list field) (acc : verdict) (bad : list field) : verdict :=
    match n with
    | O => match fs with
           | [] => match bad with [] => acc | _ => VBad 1 bad end
           | _ => VBad 99 []
           end
    | S n' =>
      match parse_path fs with
      | Some (p, FZ st :: FZ ty :: FB raw :: r) =>
        match judge p st ty raw with
        | VBad c d => run_queries n' (idx + 1) r acc (bad ++ FZ idx :: FZ c :: d)
        | v => run_queries n' (idx + 1) r (vworse acc v) bad
        end
      | _ => VBad 99 []
      end
    end.
End Queries.

(* does the observation equal what getByPath as coded does? *)
Definition obs_matches_alg (g : gout) (st ty : Z) (raw : list Z) : bool :=
  match g with
  | GFoundA t r => (st =? 0) && (ty =? t) && bytes_eqb raw r
  | GNotFoundA => st =? 1
  | GErrA => (st =? 1) || (st =? 2)
  | GPanicA => st =? 3
  | GUnmodelled => false
  end.

(* does the path take index 0 of an unpacked list (string / bytes / message elements)? *)
Fixpoint path_idx0_unpacked (S : schema) (lbl : flabel) (t : ftype) (v : pval) (p : list pstep) {struct p} : bool :=
  match p with
  | [] => false
  | s :: p' =>
    match lbl, v with
    | LSingular, VMsg fs =>
      match t with
      | TMsg name =>
        match find_msg S name with
        | Some md =>
          match step_field md s with
          | Some fd => match assoc_z (fd_num fd) fs with
                       | Some x => path_idx0_unpacked S (fd_label fd) (fd_type fd) x p'
                       | None => false
                       end
          | None => false
          end
        | None => false
        end
      | _ => false
      end
    | LRepeated _, VList _ vs =>
      match s with
      | PIndex i =>
        ((i =? 0) && negb (type_numeric t)) ||
        match nth_error vs (Z.to_nat i) with Some x => path_idx0_unpacked S LSingular t x p' | None => false end
      | _ => false
      end
    | LMap kk, VMap kvs =>
      match s with
      | PStrKey k => match assoc_key (KStr k) kvs with Some x => path_idx0_unpacked S LSingular t x p' | None => false end
      | PIntKey i => match find (fun kx => key_matches i (fst kx)) kvs with
                     | Some kx => path_idx0_unpacked S LSingular t (snd kx) p' | None => false end
      | _ => false
      end
    | _, _ => false
    end
  end.

Fixpoint is_prefix (a b : list Z) : bool :=
  match a, b with
  | [], _ => true
  | x :: a', y :: b' => (x =? y) && is_prefix a' b'
  | _, _ => false
  end.

Definition is_index_step (s : option pstep) : bool := match s with Some (PIndex _) => true | _ => false end.

(* known findings of getByPath (APIs 1-3): selector on the case; the caller has already established
   that the observation equals the as-coded model's output *)
Definition gbp_finding (sc : schema) (root : list Z) (m : pmsg) (p : list pstep) (r : lres) (raw : list Z) : option Z :=
  let oob := match r with LNotFound true => is_index_step (last_step p) | _ => false end in
  let absent_key := match r, last_step p with
                    | LNotFound _, Some (PStrKey _) | LNotFound _, Some (PIntKey _) => true
                    | _, _ => false end in
  if oob then Some 701
  else if absent_key then Some 704      (* the scan for an absent key runs past the end of the enclosing message *)
  else
    if path_idx0_unpacked sc LSingular (TMsg root) (VMsg m) p then Some 702
    else match r with
         | LFound (LRepeated _) t num v =>
           if type_numeric t && negb (wt_of_kind (kind_of_type t) =? 0) then Some 703
           else if negb (type_numeric t) && is_prefix (node_raw (LRepeated false) num v) raw then Some 704
           else None
         | LFound (LMap kk) t num v => if is_prefix (node_raw (LMap kk) num v) raw then Some 704 else None
         | _ => None
         end.

(* ---- structural selectors for the other APIs *)
Fixpoint pval_any (f : pval -> bool) (v : pval) {struct v} : bool :=
  f v ||
  match v with
  | VMsg fs => existsb (fun nv => pval_any f (snd nv)) fs
  | VList _ vs => existsb (pval_any f) vs
  | VMap kvs => existsb (fun kx => pval_any f (snd kx)) kvs
  | _ => false
  end.
Definition is_float (v : pval) : bool := match v with VScalar k _ => k =? 2 | _ => false end.
Definition is_packed_fixed (v : pval) : bool :=
  match v with VList true (VScalar k _ :: _) => negb (wt_of_kind k =? 0) | _ => false end.
Definition is_oos_map (v : pval) : bool :=
  match v with VMap ((KInt k _, _) :: _) => negb (key_in_subset k) | _ => false end.
Definition is_empty_msg (v : pval) : bool := match v with VMsg [] => true | _ => false end.
Definition has_direct (f : pval -> bool) (v : pval) : bool :=
  match v with VMsg fs => existsb (fun nv => f (snd nv)) fs | _ => false end.

(* does f hold at a position the path visits (after at least one step)? *)
Fixpoint path_visits (f : pval -> bool) (S : schema) (lbl : flabel) (t : ftype) (v : pval) (p : list pstep) {struct p} : bool :=
  match p with
  | [] => false
  | s :: p' =>
    let k (lbl' : flabel) (t' : ftype) (x : pval) := f x || path_visits f S lbl' t' x p' in
    match lbl, v with
    | LSingular, VMsg fs =>
      match t with
      | TMsg name =>
        match find_msg S name with
        | Some md =>
          match step_field md s with
          | Some fd => match assoc_z (fd_num fd) fs with Some x => k (fd_label fd) (fd_type fd) x | None => false end
          | None => false
          end
        | None => false
        end
      | _ => false
      end
    | LRepeated _, VList _ vs =>
      match s with
      | PIndex i => match nth_error vs (Z.to_nat i) with Some x => k LSingular t x | None => false end
      | _ => false
      end
    | LMap kk, VMap kvs =>
      match s with
      | PStrKey key => match assoc_key (KStr key) kvs with Some x => k LSingular t x | None => false end
      | PIntKey i => match find (fun kx => key_matches i (fst kx)) kvs with Some kx => k LSingular t (snd kx) | None => false end
      | _ => false
      end
    | _, _ => false
    end
  end.

Definition strict_prefix (a b : list Z) : bool := is_prefix a b && negb (length a =? length b)%nat.

(* the parent of the last step is located correctly by getByPath as coded (prefix path) *)
Definition parent_of (p : list pstep) : list pstep := removelast p.
Definition parent_ok (sc : schema) (root : list Z) (m : pmsg) (bs : list Z) (p : list pstep) : option lres :=
  match parent_of p with
  | [] => Some (plookup_root sc root m [])
  | pre =>
    match plookup_root sc root m pre, gbp sc root bs pre with
    | LFound lbl t num v, GFoundA ty raw =>
      if (ty =? node_type lbl t) && bytes_eqb raw (node_raw lbl num v) then Some (LFound lbl t num v) else None
    | _, _ => None
    end
  end.

Definition judge_702 (sc : schema) (root : list Z) (m : pmsg) (bs : list Z) (api : Z)
           (p : list pstep) (st ty : Z) (raw : list Z) : verdict :=
  if st =? 9 then VSkip else
  let r := plookup_root sc root m p in
  let isgbp := (api =? 1) || (api =? 2) || (api =? 3) in
  let alg := if isgbp then gbp sc root bs p else GUnmodelled in
  let alg_ok := obs_matches_alg alg st ty raw in
  let bad := VBad 2 (exp_fields r) in
  let rootv := VMsg m in
  if obs_ok api p r st ty raw then
    (if isgbp && negb alg_ok then VDrift 2 else VOk)       (* spec holds; the as-coded model needs re-alignment *)
  else if path_out_of_subset sc LSingular (TMsg root) rootv p then VDrift 1
  else if isgbp then
    (if alg_ok then match gbp_finding sc root m p r raw with Some id => VKnown id | None => VBad 5 (exp_fields r) end
     else bad)
  else if api =? 4 then
    (* single-step APIs: Field / FieldByName / Index / GetByStr / GetByInt *)
    let oob := match r with LNotFound true => is_index_step (last_step p) | _ => false end in
    if oob && ((st =? 0) || (st =? 3)) then VKnown 705
    else if path_visits is_packed_fixed sc LSingular (TMsg root) rootv p then VKnown 703
    else match r with
         | LFound (LRepeated q) t num v =>
           if (st =? 0) && (ty =? T_LIST) && negb (type_numeric t) && strict_prefix (node_raw (LRepeated q) num v) raw then VKnown 704 else bad
         | LFound (LMap kk) t num v =>
           if (st =? 0) && (ty =? T_MAP) && strict_prefix (node_raw (LMap kk) num v) raw then VKnown 704 else bad
         | _ => bad
         end
  else if (api =? 5) || (api =? 9) || (api =? 6) then
    match parent_ok sc root m bs p with
    | None => VSkip                       (* the parent itself is not located correctly: reported under APIs 1-3 *)
    | Some (LFound plbl pt pnum pv) =>
      if api =? 6 then
        (* PathNode.Load(recurse=false) on the parent node *)
        match plbl, pv, parent_of p with
        | LSingular, VMsg _, _ :: _ => VKnown 708      (* nested message node: length prefix parsed as a tag *)
        | _, _, _ => bad
        end
      else
        (* GetMany *)
        if has_direct is_packed_fixed pv then VKnown 703        (* the over-read derails the iteration over the parent's fields *)
        else if (api =? 9) && (match last_step p with Some (PStrKey _) | Some (PIntKey _) => true | _ => false end)
                && ((st =? 1) || (st =? 2)) then VKnown 707
        else if has_direct is_oos_map pv then VDrift 1
        else bad
    | Some _ => VSkip
    end
  else if api =? 7 then
    (* PathNode.Load(recurse=true) on the root *)
    if pval_any is_oos_map rootv then VDrift 1
    else if existsb (fun nv => pval_any is_empty_msg (snd nv)) m && (st =? 2) then VKnown 706
    else bad
  else bad.

(* fields: schema, bytes, api, #queries, { path, status, type, raw } *)
Definition check_702 (fs : list field) : verdict :=
  match parse_head fs with
  | Some (root, sc, bs, FZ api :: FZ nq :: r) =>
    if negb (count_ok nq) then VBad 99 [] else
    match decode_top sc root bs with
    | None => VSkip
    | Some m => run_queries (judge_702 sc root m bs api) (Z.to_nat nq) 0 r VOk []
    end
  | _ => VBad 99 []
  end.

(* ------------------------------------------------------------------ 703: typed casts and Interface *)
Section GvalParse.
  Variable p : list field -> option (gval * list field).
  Fixpoint gparse_n (n : nat) (fs : list field) : option (list gval * list field) :=
    match n with
    | O => Some ([], fs)
    | S n' => match p fs with
              | Some (v, r) => match gparse_n n' r with Some (l, r') => Some (v :: l, r') | None => None end
              | None => None
              end
    end.
  Fixpoint gparse_ni (n : nat) (fs : list field) : option (list (Z * gval) * list field) :=
    match n with
    | O => Some ([], fs)
    | S n' => match fs with
              | FZ k :: r =>
                match p r with
                | Some (v, r1) => match gparse_ni n' r1 with Some (l, r2) => Some ((k, v) :: l, r2) | None => None end
                | None => None
                end
              | _ => None
              end
    end.
  Fixpoint gparse_ns (n : nat) (fs : list field) : option (list (list Z * gval) * list field) :=
    match n with
    | O => Some ([], fs)
    | S n' => match fs with
              | FB k :: r =>
                match p r with
                | Some (v, r1) => match gparse_ns n' r1 with Some (l, r2) => Some ((k, v) :: l, r2) | None => None end
                | None => None
                end
              | _ => None
              end
    end.
End GvalParse.

Fixpoint parse_gval (fuel : nat) (fs : list field) : option (gval * list field) :=
  match fuel with
  | O => None
  | S f =>
    match fs with
    | FZ 0 :: r => Some (GNil, r)
    | FZ 1 :: FZ v :: r => Some (GInt v, r)
    | FZ 2 :: FZ v :: r => Some (GUint v, r)
    | FZ 3 :: FZ v :: r => Some (GF64 v, r)
    | FZ 4 :: FZ v :: r => Some (GF32 v, r)
    | FZ 5 :: FZ v :: r => Some (GBool v, r)
    | FZ 6 :: FB s :: r => Some (GStr s, r)
    | FZ 7 :: FB s :: r => Some (GBin s, r)
    | FZ 8 :: FZ n :: r =>
      if negb (count_ok n) then None else
      match gparse_n (parse_gval f) (Z.to_nat n) r with Some (l, r') => Some (GList l, r') | None => None end
    | FZ 9 :: FZ n :: r | FZ 10 :: FZ n :: r =>
      if negb (count_ok n) then None else
      match gparse_ni (parse_gval f) (Z.to_nat n) r with Some (l, r') => Some (GMapI l, r') | None => None end
    | FZ 11 :: FZ n :: r =>
      if negb (count_ok n) then None else
      match gparse_ns (parse_gval f) (Z.to_nat n) r with Some (l, r') => Some (GMapS l, r') | None => None end
    | FZ 99 :: r => Some (GOther, r)
    | _ => None
    end
  end.

(* value a typed cast must return: the integer image / the bytes *)
Definition cast_expected (cast : Z) (v : pval) : option gval :=
  match v with
  | VScalar k x =>
    if (cast =? 1) && is_signed_kind k && negb (k =? 14) then Some (GInt x)
    else if (cast =? 2) && is_unsigned_kind k then Some (GUint x)
    else if (cast =? 3) && (k =? 1) then Some (GF64 x)
    else if (cast =? 4) && (k =? 8) then Some (GBool x)
    else if (cast =? 7) && (k =? 14) then Some (GInt x)
    else None
  | VBytes k b =>
    if (cast =? 5) && (k =? 9) then Some (GStr b)
    else if (cast =? 6) && (k =? 12) then Some (GBin b)
    else None
  | _ => None
  end.

(* the harness writes cast results as a bare integer / byte string *)
Definition parse_cast_value (cast : Z) (fs : list field) : option (gval * list field) :=
  match fs with
  | FZ v :: r =>
    if cast =? 1 then Some (GInt v, r) else if cast =? 2 then Some (GUint v, r) else if cast =? 3 then Some (GF64 v, r)
    else if cast =? 4 then Some (GBool v, r) else if cast =? 7 then Some (GInt v, r) else None
  | FB b :: r => if cast =? 5 then Some (GStr b, r) else if cast =? 6 then Some (GBin b, r) else None
  | _ => None
  end.

Definition gval_fields (g : gval) : list field :=
  match g with
  | GInt x => [FZ 1; FZ x] | GUint x => [FZ 2; FZ x] | GF64 x => [FZ 3; FZ x] | GF32 x => [FZ 4; FZ x]
  | GBool x => [FZ 5; FZ x] | GStr s => [FZ 6; FB s] | GBin s => [FZ 7; FB s]
  | GList l => [FZ 8; FZ (plen l)] | GMapI l => [FZ 9; FZ (plen l)] | GMapS l => [FZ 11; FZ (plen l)]
  | GNil => [FZ 0] | GOther => [FZ 99]
  end.

Definition judge_703 (sc : schema) (root : list Z) (m : pmsg) (bs : list Z) (p : list pstep) (cast st : Z) (got : option gval) : verdict :=
  match plookup_root sc root m p with
  | LFound lbl t num v =>
    (* the value is obtained with GetByPath: when that lookup itself deviates it is reported by 702 *)
    if negb (is_nil p) && negb (obs_matches_alg (gbp sc root bs p) 0 (node_type lbl t) (node_raw lbl num v)) then VSkip else
    let exp := if cast =? 8 then Some (to_gval v) else cast_expected cast v in
    match exp with
    | None => VSkip
    | Some e =>
      let ok := match got with Some g => (st =? 0) && gval_eqv e g | None => false end in
      if ok then VOk
      else if path_out_of_subset sc LSingular (TMsg root) (VMsg m) p || pval_any is_oos_map v then VDrift 1
      else if (cast =? 8) && pval_any is_float v && negb (st =? 0) && negb (st =? 3) then VKnown 709   (* Interface() has no FLOAT case *)
      else if (cast =? 8) && pval_any is_packed_fixed v && negb (is_packed_fixed v)
           then VKnown 703                                                     (* SkipAllElements inside Interface() of a message *)
      else VBad (match got with Some _ => 3 | None => 4 end) (FZ st :: gval_fields e)
    end
  | _ => VSkip
  end.

Fixpoint run_casts (sc : schema) (root : list Z) (m : pmsg) (bs : list Z) (n : nat) (idx : Z) (fs : list field)
         (acc : verdict) (bad : list field) : verdict :=
  match n with
  | O => match fs with
         | [] => match bad with [] => acc | _ => VBad 1 bad end
         | _ => VBad 99 []
         end
  | S n' =>
    match parse_path fs with
    | Some (p, FZ cast :: FZ st :: r) =>
      let parsed :=
        if negb (st =? 0) then match r with FZ 0 :: r' => Some (None, r') | _ => None end
        else if cast =? 8 then match parse_gval (S (length r)) r with Some (g, r') => Some (Some g, r') | None => None end
        else match parse_cast_value cast r with Some (g, r') => Some (Some g, r') | None => None end in
      match parsed with
      | Some (got, r') =>
        match judge_703 sc root m bs p cast st got with
        | VBad c d => run_casts sc root m bs n' (idx + 1) r' acc (bad ++ FZ idx :: FZ c :: d)
        | v => run_casts sc root m bs n' (idx + 1) r' (vworse acc v) bad
        end
      | None => VBad 98 [FZ idx]
      end
    | _ => VBad 99 [FZ idx]
    end
  end.

(* fields: schema, bytes, #queries, { path, cast, status, value } *)
Definition check_703 (fs : list field) : verdict :=
  match parse_head fs with
  | Some (root, sc, bs, FZ nq :: r) =>
    if negb (count_ok nq) then VBad 99 [] else
    match decode_top sc root bs with
    | None => VSkip
    | Some m => run_casts sc root m bs (Z.to_nat nq) 0 r VOk []
    end
  | _ => VBad 99 []
  end.
