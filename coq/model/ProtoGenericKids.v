(* Spec side of the listing / bulk APIs of proto/generic (C07): the child a one-step lookup describes, and the
   bytes each child occupies inside its parent's payload. *)
From Coq Require Import ZArith List Bool.
From DG Require Import CaseFormat ProtoWireRef ProtoMsg ProtoGeneric ProtoGenericAlg ProtoGenericDom.
Import ListNotations.
Local Open Scope Z_scope.

(* the child a one-step lookup describes (None: the lookup finds nothing) *)
Definition child_of_lres (st : pstep) (r : lres) : option atree :=
  match r with
  | LFound lbl t num v => Some (ATree st (node_type lbl t) (node_raw lbl num v) [])
  | _ => None
  end.
(* the steps a listing can name: field numbers, indexes, keys in the Go int range (names are resolved by the caller) *)
Definition listing_step (s : pstep) : bool := match s with PName _ => false | _ => step_okb s end.

Definition tag_bytes (n wt : Z) : list Z := varint_enc (n * 8 + wt).

(* the bytes a child occupies inside its parent's payload: its node bytes behind the framing the parent's kind puts
   in front of every child (a tag for singular fields / unpacked elements; nothing for packed elements and for
   LIST / MAP children, whose node bytes start at their first tag; the entry header and the key for map values) *)
Definition kid_field_span (md : mdesc) (nv : Z * pval) : list Z :=
  match find_field md (fst nv) with
  | Some fd => match fd_label fd with
               | LSingular => tag_bytes (fst nv) (elem_wt (fd_type fd)) ++ node_raw LSingular (fst nv) (snd nv)
               | lbl => node_raw lbl (fst nv) (snd nv)
               end
  | None => []
  end.
Definition kid_elem_span (t : ftype) (num : Z) (x : pval) : list Z := tag_bytes num (elem_wt t) ++ encode_elem x.
Definition kid_entry_span (t : ftype) (num : Z) (kx : mkey * pval) : list Z :=
  let kw := snd (key_field (fst kx)) in
  let body := tag_bytes 1 (wt_of_wval kw) ++ wenc_val kw ++ tag_bytes 2 (elem_wt t) ++ encode_elem (snd kx) in
  tag_bytes num 2 ++ varint_enc (plen body) ++ body.

(* the payload of a node as the concatenation of its children's spans *)
Definition payload_of_children (S : schema) (lbl : flabel) (t : ftype) (num : Z) (v : pval) : option (list Z) :=
  match lbl, v with
  | LSingular, VMsg fs =>
    match t with
    | TMsg name => match find_msg S name with Some md => Some (flat_map (kid_field_span md) fs) | None => None end
    | TScalar _ => None
    end
  | LRepeated _, VList q vs =>
    if q then Some (tag_bytes num 2 ++ varint_enc (plen (flat_map encode_elem vs)) ++ flat_map encode_elem vs)
    else Some (flat_map (kid_elem_span t num) vs)
  | LMap _, VMap kvs => Some (flat_map (kid_entry_span t num) kvs)
  | _, _ => None
  end.

(* the answer of a bulk lookup (GetMany / Fields / Indexes / Gets) for one request: node type and bytes of the element
   the single lookup finds, None (slot left untouched) when it finds none *)
Definition lookup_out (S : schema) (lbl : flabel) (t : ftype) (num : Z) (v : pval) (s : pstep) : option (Z * list Z) :=
  match plookup S lbl t num v [s] with
  | LFound l' t' n' v' => Some (node_type l' t', node_raw l' n' v')
  | _ => None
  end.
Definition is_field_req (s : pstep) : bool := match s with PField _ => true | _ => false end.
Definition is_index_req (s : pstep) : bool := match s with PIndex _ => true | _ => false end.
Definition is_key_req (s : pstep) : bool := match s with PStrKey _ | PIntKey _ => step_okb s | _ => false end.
(* requests: non-empty, pairwise distinct (Go fills only the FIRST slot naming a child: duplicates stay empty) *)
Definition step_eq (a b : pstep) : bool :=
  match a, b with
  | PField x, PField y | PIndex x, PIndex y | PIntKey x, PIntKey y => x =? y
  | PName x, PName y | PStrKey x, PStrKey y => bytes_eqb x y
  | _, _ => false
  end.
Definition reqs_okb (kind : pstep -> bool) (reqs : list pstep) : bool :=
  negb (is_nil reqs) && forallb kind reqs && nodupb step_eq reqs.

(* ---- computable domain of the listing / bulk / conversion refinements: a well-formed value under a descriptor whose
   packedness is the proto3 default (the listing and conversion code decides "packed" by the element type alone),
   field number in range, map keys of a readable kind, node bytes shorter than 2^63 (Go int) *)
Definition label_okb (lbl : flabel) (t : ftype) (num : Z) : bool :=
  match lbl with
  | LSingular => true
  | LRepeated p => Bool.eqb p (type_numeric t) && (1 <=? num) && (num <=? MAX_FIELD_NUMBER)
  | LMap kk => ((kk =? 9) || kind_is_int kk) && (1 <=? num) && (num <=? MAX_FIELD_NUMBER)
  end.
Definition node_domain (S : schema) (lbl : flabel) (t : ftype) (num : Z) (v : pval) : bool :=
  schema_okb S && schema_packed_okb S && wf_fld S lbl t v && label_okb lbl t num && (plen (node_raw lbl num v) <? 2 ^ 63).
Definition root_domain (S : schema) (root : list Z) (m : pmsg) : bool :=
  schema_okb S && schema_packed_okb S && wf_msg S root m && (plen (encode_msg m) <? 2 ^ 63).
(* the node every lookup / listing returns for a value (element count as getByPath reports it) *)
Definition node_of (lbl : flabel) (t : ftype) (num : Z) (v : pval) : anode :=
  mk_anode (node_type lbl t) (node_raw lbl num v) (size_of v) false lbl t num.
(* which requests a bulk lookup on a node of this label takes *)
Definition req_kind (lbl : flabel) : pstep -> bool :=
  match lbl with LSingular => is_field_req | LRepeated _ => is_index_req | LMap _ => is_key_req end.
Definition is_container (v : pval) : bool := match v with VMsg _ | VList _ _ | VMap _ => true | _ => false end.
