(* Correspondence checks for go2coq-generated definitions, second round (see Check20g.v for the first): skipping primitives of the
   Thrift and Protobuf protocols, pool reset, finite tests, map-key conversions.  The harness calls the REAL Go function; code 1 of
   every check compares with the generated definition (validates the translator), code 2.. with the hand model the theorems tie it to. *)
From Coq Require Import ZArith List Bool.
From DG Require Import GoSem CaseFormat.
From DG Require Gen_thrift Gen_protowire Gen_protobinary Gen_protoskip ThriftWire ProtoMsg.
Import ListNotations.
Local Open Scope Z_scope.

Definition zb' (z : Z) : bool := negb (z =? 0).

(* ------------------------------------------------------------------ proto/binary Skip *)
(* the observable result of a skip: succeeded or not, and the cursor *)
Definition skip_obs (buf : list Z) (rd wt : Z) : bool * Z :=
  match ProtoMsg.wdec_val wt (slice_from buf rd) with
  | Some (_, r) => (true, blen buf - blen r)
  | None => (false, rd)
  end.
Definition obs_of (res : Z * list Z * Z) : bool * Z := let '(e, _, rd) := res in (e =? 0, rd).
Definition obs_eqb (a b : bool * Z) : bool := Bool.eqb (fst a) (fst b) && (snd a =? snd b).
Definition obs_fields (a : bool * Z) : list field := [FZ (Z.b2z (fst a)); FZ (snd a)].

(* 692 / 792 / 892 / 1092 fields: buffer, cursor, wire type, error (0 nil), cursor afterwards, panicked *)
Definition check_protoskip (fs : list field) : verdict :=
  match fs with
  | [FB buf; FZ rd; FZ wt; FZ err; FZ rd'; FZ panicked] =>
    let g := Gen_protoskip.BinaryProtocol_Skip buf rd wt false in
    let '(ge, _, _) := g in
    vand (expect 1 (if ge =? Err_PANIC then panicked =? 1 else (panicked =? 0) && obs_eqb (obs_of g) (err =? 0, rd')) (obs_fields (obs_of g)))
         (if (wt =? 0) || (wt =? 1) || (wt =? 2) || (wt =? 5)
          then expect 2 ((panicked =? 0) && obs_eqb (skip_obs buf rd wt) (err =? 0, rd')) (obs_fields (skip_obs buf rd wt))
          else expect 3 ((panicked =? 0) && (err =? 0) && (rd' =? rd)) [])
  | _ => VBad 99 []
  end.
Definition check_692 (fs : list field) : verdict := check_protoskip fs.
Definition check_792 (fs : list field) : verdict := check_protoskip fs.
Definition check_892 (fs : list field) : verdict := check_protoskip fs.
Definition check_1092 (fs : list field) : verdict := check_protoskip fs.

(* ------------------------------------------------------------------ thrift/binary_skip.go skipn / skipstr / next_nopanic *)
(* the model's view: what ThriftWire's drop / skipstr / take do on the bytes from the cursor on *)
Definition tskip_model (kind : Z) (buf : list Z) (rd n : Z) : bool * Z :=
  let bs := slice_from buf rd in
  let r := if kind =? 1 then ThriftWire.skipstr bs else ThriftWire.drop n bs in
  match r with Some rest => (true, blen buf - blen rest) | None => (false, rd) end.
Definition tskip_gen (kind : Z) (buf : list Z) (rd n : Z) : bool * Z * list Z :=
  if kind =? 0 then let '(e, _, rd') := Gen_thrift.BinaryProtocol_skipn buf rd n in (e =? 0, rd', [])
  else if kind =? 1 then let '(e, _, rd') := Gen_thrift.BinaryProtocol_skipstr buf rd in (e =? 0, rd', [])
  else let '(ret, e, _, rd') := Gen_thrift.BinaryProtocol_next_nopanic buf rd n in (e =? 0, rd', ret).

(* 192 / 693 fields: kind (0 skipn, 1 skipstr, 2 next_nopanic), buffer, cursor, n, error (0 nil), cursor afterwards, returned bytes *)
Definition check_thriftskip (fs : list field) : verdict :=
  match fs with
  | [FZ kind; FB buf; FZ rd; FZ n; FZ err; FZ rd'; FB ret] =>
    let '(gok, grd, gret) := tskip_gen kind buf rd n in
    vand (expect 1 (Bool.eqb gok (err =? 0) && (grd =? rd') && bytes_eqb gret ret) [FZ (Z.b2z gok); FZ grd; FB gret])
         (expect 2 (obs_eqb (tskip_model kind buf rd n) (err =? 0, rd')) (obs_fields (tskip_model kind buf rd n)))
  | _ => VBad 99 []
  end.
Definition check_192 (fs : list field) : verdict := check_thriftskip fs.
Definition check_693 (fs : list field) : verdict := check_thriftskip fs.

(* ------------------------------------------------------------------ BinaryProtocol.Recycle / Reset (thrift and proto/binary) *)
From DG Require Gen_thriftpool Gen_protopool.
(* 1291 fields: which (0 thrift, 1 proto), content before, Read before, borrowed before; len(Buf), cap(Buf), Read, borrowed afterwards *)
Definition check_1291 (fs : list field) : verdict :=
  match fs with
  | [FZ which; FB buf; FZ rd; FZ brw; FZ len'; FZ cap'; FZ rd'; FZ brw'] =>
    let '(eff, gbuf, grd, gb) := if which =? 0 then Gen_thriftpool.BinaryProtocol_Recycle buf rd (zb' brw)
                                 else Gen_protopool.BinaryProtocol_Recycle buf rd (zb' brw) in
    vand (expect 1 ((blen gbuf =? len') && (grd =? rd') && Bool.eqb gb (zb' brw')) [FZ (blen gbuf); FZ grd; FZ (Z.b2z gb)])
         (* what enters the pool is reset: empty, cursor 0, not borrowed; a borrowed (caller's) array does not enter the pool at all *)
         (expect 2 ((len' =? 0) && (rd' =? 0) && (brw' =? 0) && (if zb' brw then cap' =? 0 else true)) [])
  | _ => VBad 99 []
  end.

(* ------------------------------------------------------------------ the finite test in front of EncodeFloat64 (conv/p2j, conv/t2j) *)
From DG Require Gen_p2jfinite Gen_t2jfinite Num.
(* 392 / 893 / 1392 fields: which (0 p2j checkFinite, 1 t2j double field through BinaryConv.Do), IEEE bits, an error came back *)
Definition check_finite (fs : list field) : verdict :=
  match fs with
  | [FZ which; FZ bits; FZ errd] =>
    let g := if which =? 0 then negb (fst (Gen_p2jfinite.checkFinite bits 1) =? 0) else Gen_t2jfinite.double_not_finite bits in
    vand (expect 1 (Bool.eqb g (zb' errd)) [FZ (Z.b2z g)])
         (expect 2 (Bool.eqb (negb (Num.f64_is_finite bits)) (zb' errd)) [FZ (Z.b2z (negb (Num.f64_is_finite bits)))])
  | _ => VBad 99 []
  end.
Definition check_392 (fs : list field) : verdict := check_finite fs.
Definition check_893 (fs : list field) : verdict := check_finite fs.
Definition check_1392 (fs : list field) : verdict := check_finite fs.

(* ------------------------------------------------------------------ conv/j2p encodeMapKey *)
From DG Require Gen_j2pkey J2P.
(* the generated definition fed with what strconv.ParseInt / ParseUint / ParseBool answer on the key (the model's go_parse functions) *)
Definition ok_or (r : option Z) : Z * Z := match r with Some z => (z, 0) | None => (0, 1) end.
Definition gen_key (buf : list Z) (rd : Z) (key : list Z) (kk : Z) : Z * list (Z * list Z) * list Z * Z :=
  let '(t1, e1) := ok_or (J2P.go_parse_int key 32) in
  let '(t2, e2) := ok_or (J2P.go_parse_uint key 32) in
  let '(t3, e3) := ok_or (J2P.go_parse_uint key 64) in
  let '(t4, e4) := ok_or (J2P.go_parse_int key 64) in
  let '(t5, e5) := match J2P.go_parse_bool key with Some b => (b, 0) | None => (false, 1) end in
  Gen_j2pkey.visitorUserNode_encodeMapKey buf rd key kk t1 e1 t2 e2 t3 e3 t4 e4 t5 e5 1.

(* 991 fields: key text, key type byte, bytes already in the buffer, buffer afterwards, an error came back *)
Definition check_991 (fs : list field) : verdict :=
  match fs with
  | [FB key; FZ kk; FB pre; FB outb; FZ errd] =>
    let '(e, _, gbuf, _) := gen_key pre 0 key kk in
    vand (expect 1 (Bool.eqb (e =? 0) (errd =? 0) && bytes_eqb gbuf outb) [FZ e; FB gbuf])
         match J2P.encode_map_key pre key kk with
         | Some b => expect 2 ((errd =? 0) && bytes_eqb b outb) [FB b]
         | None => expect 3 ((errd =? 1) && bytes_eqb pre outb) []
         end
  | _ => VBad 99 []
  end.

(* ------------------------------------------------------------------ thrift/generic seekIntHash *)
From DG Require Gen_domhash.
(* the slot linear probing must find: the first empty slot at or after h, cyclically; h itself after N occupied probes *)
Fixpoint first_empty (fuel : nat) (occ : list Z) (N h : Z) : Z :=
  match fuel with
  | O => h
  | S f => if idx occ h =? 0 then h else first_empty f occ N ((h + 1) mod N)
  end.
(* 591 fields: occupancy of the N slots (one byte each, 0 = empty), key, slot returned *)
Definition check_591 (fs : list field) : verdict :=
  match fs with
  | [FB occ; FZ key; FZ slot] =>
    let N := blen occ in
    let g := Gen_domhash.seekIntHash {| Gen_domhash.seekIntHash_next_Path_t := fun i => idx occ i |} key N in
    vand (expect 1 (g =? slot) [FZ g])
         (expect 2 (first_empty (Z.to_nat N) occ N (key mod N) =? slot) [FZ (first_empty (Z.to_nat N) occ N (key mod N))])
  | _ => VBad 99 []
  end.

(* ------------------------------------------------------------------ SkipGo, fixed-size fast paths (count x width handed to skipn) *)
From DG Require Gen_thriftskipfast.
Definition fast_amount (r : Z * list (Z * list Z)) : Z := match snd r with [(_, [n])] => n | _ => -1 end.
(* 694 / 193 fields: kind (0 list/set, 1 map), element (key) type, value type, declared count (int32), bytes after the header,
                    SkipGo error (0 nil), p.Read afterwards.  Only emitted for fixed-size element types and count >= 0. *)
Definition check_skipfast (fs : list field) : verdict :=
  match fs with
  | [FZ kind; FZ kt; FZ vt; FZ sz; FZ payload; FZ err; FZ rd'] =>
    let hdr := if kind =? 0 then 5 else 6 in
    let n := if kind =? 0 then fast_amount (Gen_thriftskipfast.SkipGo_list_fast kt sz)
             else fast_amount (Gen_thriftskipfast.SkipGo_map_fast sz (Gen_thriftskipfast.typeSize kt) (Gen_thriftskipfast.typeSize vt)) in
    let m := if kind =? 0 then sz * ThriftWire.fixed_size kt else sz * (ThriftWire.fixed_size kt + ThriftWire.fixed_size vt) in
    let expd := fun amount => if amount >? payload then (err =? 1) && (rd' =? hdr) else (err =? 0) && (rd' =? hdr + amount) in
    vand (expect 1 (expd n) [FZ n]) (expect 2 (expd m) [FZ m])
  | _ => VBad 99 []
  end.
Definition check_694 (fs : list field) : verdict := check_skipfast fs.
Definition check_193 (fs : list field) : verdict := check_skipfast fs.
