(* Correspondence checks for go2coq-generated definitions, second round (see Check20g.v for the first): skipping primitives of the
   Thrift and Protobuf protocols, pool reset, finite tests, map-key conversions.  The harness calls the REAL Go function; code 1 of
   every check compares with the generated definition (validates the translator), code 2.. with the hand model the theorems tie it to. *)
From Coq Require Import ZArith List Bool.
From DG Require Import GoSem CaseFormat.
From DG Require Gen_thrift Gen_protowire Gen_protobinary Gen_protoskip ThriftWire ProtoMsg.
Import ListNotations.
Local Open Scope Z_scope.

Definition zb' (z : Z) : bool := negb (z =? 0).

(* ------------------------------------------------------------------ proto/binary Skip *)
(* the observable result of a skip: succeeded or not, and the cursor *)
Definition skip_obs (buf : list Z) (rd wt : Z) : bool * Z :=
  match ProtoMsg.wdec_val wt (slice_from buf rd) with
  | Some (_, r) => (true, blen buf - blen r)
  | None => (false, rd)
  end.
Definition obs_of (res : Z * list Z * Z) : bool * Z := let '(e, _, rd) := res in (e =? 0, rd).
Definition obs_eqb (a b : bool * Z) : bool := Bool.eqb (fst a) (fst b) && (snd a =? snd b).
Definition obs_fields (a : bool * Z) : list field := [FZ (Z.b2z (fst a)); FZ (snd a)].

(* 692 / 792 / 892 / 1092 fields: buffer, cursor, wire type, error (0 nil), cursor afterwards, panicked *)
Definition check_protoskip (fs : list field) : verdict :=
  match fs with
  | [FB buf; FZ rd; FZ wt; FZ err; FZ rd'; FZ panicked] =>
    let g := Gen_protoskip.BinaryProtocol_Skip buf rd wt false in
    let '(ge, _, _) := g in
    vand (expect 1 (if ge =? Err_PANIC then panicked =? 1 else (panicked =? 0) && obs_eqb (obs_of g) (err =? 0, rd')) (obs_fields (obs_of g)))
         (if (wt =? 0) || (wt =? 1) || (wt =? 2) || (wt =? 5)
          then expect 2 ((panicked =? 0) && obs_eqb (skip_obs buf rd wt) (err =? 0, rd')) (obs_fields (skip_obs buf rd wt))
          else expect 3 ((panicked =? 0) && (err =? 0) && (rd' =? rd)) [])
  | _ => VBad 99 []
  end.
Definition check_692 (fs : list field) : verdict := check_protoskip fs.
Definition check_792 (fs : list field) : verdict := check_protoskip fs.
Definition check_892 (fs : list field) : verdict := check_protoskip fs.
Definition check_1092 (fs : list field) : verdict := check_protoskip fs.

(* ------------------------------------------------------------------ thrift/binary_skip.go skipn / skipstr / next_nopanic *)
(* the model's view: what ThriftWire's drop / skipstr / take do on the bytes from the cursor on *)
Definition tskip_model (kind : Z) (buf : list Z) (rd n : Z) : bool * Z :=
  let bs := slice_from buf rd in
  let r := if kind =? 1 then ThriftWire.skipstr bs else ThriftWire.drop n bs in
  match r with Some rest => (true, blen buf - blen rest) | None => (false, rd) end.
Definition tskip_gen (kind : Z) (buf : list Z) (rd n : Z) : bool * Z * list Z :=
  if kind =? 0 then let '(e, _, rd') := Gen_thrift.BinaryProtocol_skipn buf rd n in (e =? 0, rd', [])
  else if kind =? 1 then let '(e, _, rd') := Gen_thrift.BinaryProtocol_skipstr buf rd in (e =? 0, rd', [])
  else let '(ret, e, _, rd') := Gen_thrift.BinaryProtocol_next_nopanic buf rd n in (e =? 0, rd', ret).

(* 192 / 693 fields: kind (0 skipn, 1 skipstr, 2 next_nopanic), buffer, cursor, n, error (0 nil), cursor afterwards, returned bytes *)
Definition check_thriftskip (fs : list field) : verdict :=
  match fs with
  | [FZ kind; FB buf; FZ rd; FZ n; FZ err; FZ rd'; FB ret] =>
    let '(gok, grd, gret) := tskip_gen kind buf rd n in
    vand (expect 1 (Bool.eqb gok (err =? 0) && (grd =? rd') && bytes_eqb gret ret) [FZ (Z.b2z gok); FZ grd; FB gret])
         (expect 2 (obs_eqb (tskip_model kind buf rd n) (err =? 0, rd')) (obs_fields (tskip_model kind buf rd n)))
  | _ => VBad 99 []
  end.
Definition check_192 (fs : list field) : verdict := check_thriftskip fs.
Definition check_693 (fs : list field) : verdict := check_thriftskip fs.
