(* C15, check 1506: descriptor IDENTITY by pointer. Same payload as 1501 (harness/c15b.go emits it for schemas
   rich in recursion, mutual recursion and repeated occurrences of one type).
   The implementation's pointer graph (node = *MessageDescriptor) must be ISOMORPHIC to the graph of
   PIdlParse.parse_service — the traversal with the memo keyed by the fully-qualified name, proved equal to
   pelab by C15_parse_refines_pelab: walking both graphs from the method roots, the visited pairs
   (implementation node, model node) must form a bijection, i.e.
     - two occurrences of one type within a request (or a response) tree are the SAME pointer,
     - different declarations (and request vs response side) are DIFFERENT pointers,
   on top of every node carrying the declared fields (as in 1501). *)
From Coq Require Import ZArith List Bool.
From DG Require Import CaseFormat PIdl PIdlParse Check15.
Import ListNotations.
Local Open Scope Z_scope.

Section IsoWalk.
  Variable look : Z -> option (list (mfield Z)).
  Variable inodes : list inode.

  Definition sstep (st : list (Z * Z) * list (Z * Z)) : (list (Z * Z) * list (Z * Z)) + (wres * list (Z * Z)) :=
    let '(work, seen) := st in
    match work with
    | [] => inr (WOk, seen)
    | (i, r) :: w =>
      if existsb (fun q => (fst q =? i) && (snd q =? r)) seen then inl (w, seen) else
      if i <? 0 then inr (WFail 13 [FZ i], seen) else
      match nth_error inodes (Z.to_nat i), look r with
      | Some nd, Some mfs =>
        match check_node Z false 1 nd mfs with
        | inl e => inr (e, seen)
        | inr ps => inl (ps ++ w, (i, r) :: seen)
        end
      | _, _ => inr (WFail 901 [FZ i], seen)
      end
    end.

  Fixpoint siter (n : nat) (st : list (Z * Z) * list (Z * Z)) : (list (Z * Z) * list (Z * Z)) + (wres * list (Z * Z)) :=
    match n with
    | O => sstep st
    | S n' => match siter n' st with inl st' => siter n' st' | inr r => inr r end
    end.
End IsoWalk.

(* the relation must be a bijection between the visited implementation nodes and the visited model nodes.
   clash kinds: 2 = two pointers for ONE model node (a type parsed twice within one side), or one pointer for two
   DIFFERENT declarations: violation; 1 = one pointer for two model nodes built from the SAME declaration (request
   and response side sharing a descriptor): the property text does not forbid it -> drift *)
Definition name_of (nodes : list (qname * list (mfield Z))) (j : Z) : qname :=
  match nth_error nodes (Z.to_nat j) with Some (nm, _) => nm | None => [] end.

Definition clash_kind (nodes : list (qname * list (mfield Z))) (p q : Z * Z) : Z :=
  if (fst p =? fst q) && negb (snd p =? snd q) then
    (if qname_eqb (name_of nodes (snd p)) (name_of nodes (snd q)) then 1 else 2)
  else if negb (fst p =? fst q) && (snd p =? snd q) then 2 else 0.

Definition worst_clash (nodes : list (qname * list (mfield Z))) (seen : list (Z * Z)) : Z * (Z * Z) :=
  fold_left (fun acc p => fold_left (fun acc q => let k := clash_kind nodes p q in if fst acc <? k then (k, p) else acc) seen acc)
            seen (0, (0, 0)).

Definition judge_iso (c : c15case) : verdict :=
  let s := cc_schema c in
  let im := cc_impl c in
  if negb (schema_ok (cc_mode c) s) then VSkip else
  if negb (id_err im =? 0) then VBad 91 [] else
  let d := pelab (cc_mode c) s in
  match check_methods d im with
  | WFail code det => VBad code det
  | WOk =>
    let '(ms, st) := parse_service (cc_mode c) s in
    let nodes := q_nodes st in
    let look := fun (i : Z) => if i <? 0 then None else match nth_error nodes (Z.to_nat i) with Some (_, fs) => Some fs | None => None end in
    let tab := map (fun x => (pm_name (fst (fst x)), (snd (fst x), snd x))) ms in
    let roots := flat_map (fun m => match assocb_last (im_name m) tab with
                                    | Some (i, o) => [(im_in m, i); (im_out m, o)]
                                    | None => [] end) (id_methods im) in
    match siter look (id_nodes im) 48 (roots, []) with
    | inr (WOk, seen) =>
      let '(k, p) := worst_clash nodes seen in
      if k =? 0 then VOk else if k =? 1 then VDrift 61 else VBad 60 [FZ (fst p); FZ (snd p)]
    | inr (WFail code det, _) => VBad code det
    | inl _ => VBad 900 []
    end
  end.

Definition check_1506 (fs : list field) : verdict :=
  match p_case fs with
  | Some (c, []) => judge_iso c
  | _ => VBad 99 []
  end.

(* 1507: one call of a SEQUENCE of parses through some entry point (fresh / reused includes map, same or different
   main path, from files) — harness/c15c.go. Payload and judgement of 1501: the descriptor of a call must be the
   elaboration of THAT call's content, whatever was parsed before. *)
Definition check_1507 (fs : list field) : verdict := check_c15 1 fs.
