(* C14 — abstract Thrift IDL AST (what the harness generates and prints to .thrift text) and its elaboration [elab]
   into the descriptor tree that thrift/idl.go builds: typedef chains, enums, includes, unions / exceptions, requiredness
   per option, aliases from annotations, default values, service / function selection.  Recursive struct references are
   kept by name and unrolled up to a struct-nesting depth (the harness dumps the Go descriptor to the same depth).
   No proofs here (coq/proofs/IdlProofs.v). *)
From Coq Require Import ZArith List Bool.
From DG Require Import CaseFormat GoSem Lookup.
Import ListNotations.
Local Open Scope Z_scope.

Definition name := list Z.

(* ------------------------------------------------------------------ AST *)

Inductive texpr :=
| TBase (b : Z)          (* 0 bool, 1 byte, 2 i8, 3 i16, 4 i32, 5 i64, 6 double, 7 string, 8 binary, 9 void *)
| TList (e : texpr)
| TSet (e : texpr)
| TMap (k v : texpr)
| TNamed (n : name).     (* typedef / enum / struct / union / exception, possibly "include.Name" *)

Inductive constval :=
| CNone
| CInt (z : Z)
| CDouble (bits : Z)
| CStr (s : list Z)
| CIdent (x : name)      (* true / false / CONST / inc.CONST / Enum.Value / inc.Enum.Value *)
| COther.                (* list / map literal: not representable as DefaultValue *)

Record anno := Anno { a_key : name; a_vals : list name }.

Record ifield := IField { f_id : Z; f_name : name; f_type : texpr; f_req : Z (* 0 default, 1 required, 2 optional *);
                          f_def : constval; f_annos : list anno }.

Record slike := SLike { s_kind : Z (* 0 struct, 1 union, 2 exception *); s_name : name; s_fields : list ifield; s_annos : list anno }.

Record ifunc := IFunc { fn_name : name; fn_oneway : bool; fn_ret : texpr; fn_args : list ifield; fn_throws : list ifield }.

Record isvc := ISvc { sv_name : name; sv_extends : name (* [] = none *); sv_funcs : list ifunc }.

Record ifile := IFile { fl_path : name; fl_ns : list (name * name); fl_includes : list (name * Z) (* alias -> file index *);
                        fl_typedefs : list (name * texpr); fl_enums : list (name * list (name * Z));
                        fl_consts : list (name * constval); fl_structs : list slike; fl_svcs : list isvc }.

Definition program := list ifile.   (* file 0 is the main file *)

Record popts := POpts { o_mapway : Z (* 0 alias, 1 field name, 2 both *); o_enum64 : bool; o_optbitmap : bool; o_usedefault : bool;
                        o_fnmode : Z (* 0 both, 1 request only, 2 response only *); o_svcmode : Z (* 0 last, 1 first, 2 combine *);
                        o_svcname : name; o_base : bool; o_bodyfast : bool; o_putns : bool; o_putfile : bool }.

(* ------------------------------------------------------------------ descriptor tree *)

Inductive dval := DVInt (z : Z) (bin : list Z) | DVDouble (bits : Z) | DVStr (s : list Z) | DVBool (b : bool).

Record fmeta := FMeta { m_id : Z; m_name : name; m_alias : name; m_req : Z (* Required(): 0 optional, 1 default, 2 required *);
                        m_bit : Z (* bit of the requires bitmap *); m_def : option dval; m_reqbase : bool; m_respbase : bool }.

Inductive tdesc :=
| DBase (code : Z) (binary : bool)
| DList (e : tdesc)
| DSet (e : tdesc)
| DMap (k v : tdesc)
| DStruct (tname sname : name) (fields : list (fmeta * tdesc)) (keys : list (name * Z)) (annos : list anno)
| DCut.                  (* struct below the unrolling depth *)

Record dfunc := DFunc { d_name : name; d_oneway : bool; d_hasbase : bool; d_req : option tdesc; d_resp : option tdesc }.

(* ------------------------------------------------------------------ names *)

Definition n_api_key : name := [97; 112; 105; 46; 107; 101; 121].
Definition n_go_tag : name := [103; 111; 46; 116; 97; 103].
Definition n_api_body : name := [97; 112; 105; 46; 98; 111; 100; 121].
Definition n_deprecated : name := [100; 121; 110; 97; 109; 105; 99; 103; 111; 46; 100; 101; 112; 114; 101; 99; 97; 116; 101; 100].
Definition n_api_none : name := [97; 112; 105; 46; 110; 111; 110; 101].
Definition n_base_Base : name := [98; 97; 115; 101; 46; 66; 97; 115; 101].
Definition n_base_BaseResp : name := [98; 97; 115; 101; 46; 66; 97; 115; 101; 82; 101; 115; 112].
Definition n_true : name := [116; 114; 117; 101].
Definition n_false : name := [102; 97; 108; 115; 101].
Definition n_combined : name := [67; 111; 109; 98; 105; 110; 101; 100; 83; 101; 114; 118; 105; 99; 101; 115].
Definition n_ns_key : name := [116; 104; 114; 105; 102; 116; 46; 110; 97; 109; 101; 95; 115; 112; 97; 99; 101].
Definition n_file_key : name := [116; 104; 114; 105; 102; 116; 46; 102; 105; 108; 101; 110; 97; 109; 101].

Definition name_eqb : name -> name -> bool := bytes_eqb.

(* util.SplitSubfix: split at the LAST '.'; ("", n) when there is none *)
Fixpoint split_rev (acc r : name) : name * name :=
  match r with
  | [] => ([], acc)
  | c :: r' => if c =? 46 then (rev r', acc) else split_rev (c :: acc) r'
  end.
Definition split_last_dot (n : name) : name * name := split_rev [] (rev n).

Definition lower (n : name) : name := map (fun c => if (65 <=? c) && (c <=? 90) then c + 32 else c) n.

Fixpoint lookup {A} (n : name) (l : list (name * A)) : option A :=
  match l with
  | [] => None
  | (k, v) :: r => if name_eqb n k then Some v else lookup n r
  end.

Definition get_file (p : program) (i : Z) : option ifile := if i <? 0 then None else nth_error p (Z.to_nat i).

(* tree.GetReference(pkg): the included file whose alias is pkg *)
Definition get_ref (p : program) (f : ifile) (pkg : name) : option (Z * ifile) :=
  match lookup pkg (fl_includes f) with
  | Some i => match get_file p i with Some f' => Some (i, f') | None => None end
  | None => None
  end.

Fixpoint find_struct (kind : Z) (n : name) (l : list slike) : option slike :=
  match l with
  | [] => None
  | s :: r => if (s_kind s =? kind) && name_eqb n (s_name s) then Some s else find_struct kind n r
  end.

(* GetUnion, then GetStruct, then GetException *)
Definition get_slike (f : ifile) (n : name) : option slike :=
  match find_struct 1 n (fl_structs f) with
  | Some s => Some s
  | None => match find_struct 0 n (fl_structs f) with
            | Some s => Some s
            | None => find_struct 2 n (fl_structs f)
            end
  end.

Fixpoint find_svc (n : name) (l : list isvc) : option isvc :=
  match l with [] => None | s :: r => if name_eqb n (sv_name s) then Some s else find_svc n r end.

(* ------------------------------------------------------------------ builtin types *)

(* thrift.Type codes: VOID 1, BOOL 2, BYTE/I08 3, DOUBLE 4, I16 6, I32 8, I64 10, STRING 11, STRUCT 12, MAP 13, SET 14, LIST 15 *)
Definition base_code (b : Z) : Z :=
  if b =? 0 then 2 else if b =? 1 then 3 else if b =? 2 then 3 else if b =? 3 then 6 else if b =? 4 then 8
  else if b =? 5 then 10 else if b =? 6 then 4 else if b =? 7 then 11 else if b =? 8 then 11 else 1.

Definition code_is_int (c : Z) : bool := (c =? 3) || (c =? 6) || (c =? 8) || (c =? 10).
Definition int_width (c : Z) : Z := if c =? 3 then 1 else if c =? 6 then 2 else if c =? 8 then 4 else 8.

Definition desc_code (d : tdesc) : Z :=
  match d with DBase c _ => c | DList _ => 15 | DSet _ => 14 | DMap _ _ => 13 | DStruct _ _ _ _ _ => 12 | DCut => 12 end.

(* ------------------------------------------------------------------ default values (makeDefaultValue) *)

(* p.WriteInt(typ, v): big endian, width of the type *)
Definition int_binary (code : Z) (v : Z) : list Z := be_put (int_width code) (v mod 2 ^ (8 * int_width code)).
Definition str_binary (s : list Z) : list Z := be_put 4 (Z.of_nat (length s)) ++ s.

(* IEEE-754 binary64 bits of an integer of magnitude below 2^53 (exactly representable) *)
Definition double_bits_of_int (z : Z) : Z :=
  if z =? 0 then 0 else
  let a := Z.abs z in
  let e := Z.log2 a in
  (if z <? 0 then 2 ^ 63 else 0) + (e + 1023) * 2 ^ 52 + (a * 2 ^ (52 - e) - 2 ^ 52).

(* [intlit]: specification level — an integer literal is a legal default of a double or bool field; the Go code drops it *)
Fixpoint make_default (intlit : bool) (fuel : nat) (p : program) (f : ifile) (code : Z) (c : constval) : option dval :=
  match fuel with O => None | S fuel' =>
  match c with
  | CNone | COther => None
  | CInt z => if code_is_int code then Some (DVInt z (int_binary code z))
              else if intlit && (code =? 4) then Some (DVDouble (double_bits_of_int z))
              else if intlit && (code =? 2) then Some (DVBool (negb (z =? 0))) else None
  | CDouble b => if code =? 4 then Some (DVDouble b) else None
  | CStr s => if code =? 11 then Some (DVStr s) else None
  | CIdent x =>
    let as_bool := if code =? 2 then
                     (if name_eqb (lower x) n_true then Some (DVBool true)
                      else if name_eqb (lower x) n_false then Some (DVBool false) else None)
                   else None in
    match as_bool with
    | Some d => Some d
    | None =>
      let '(pkg, nm) := split_last_dot x in
      let ctree := match pkg with
                   | [] => f
                   | _ => match get_ref p f pkg with Some (_, f') => f' | None => f end
                   end in
      match lookup nm (fl_consts ctree) with
      | Some y => make_default intlit fuel' p ctree code y
      | None =>
        match pkg with
        | [] => None
        | _ =>
          let '(emp, emt) := split_last_dot pkg in
          let etree := match emp with
                       | [] => f
                       | _ => match get_ref p f emp with Some (_, f') => f' | None => f end
                       end in
          match lookup emt (fl_enums etree) with
          | None => None
          | Some vals =>
            if negb (code_is_int code) then None else
            match lookup nm vals with
            | Some v => Some (DVInt v (int_binary code v))
            | None => None
            end
          end
        end
      end
    end
  end end.

(* ------------------------------------------------------------------ annotations -> alias, skipping *)

Fixpoint has_anno (k : name) (l : list anno) : bool :=
  match l with [] => false | a :: r => name_eqb (a_key a) k || has_anno k r end.

(* groups produced by the annotation mappers, in the order in which the mappers first appear *)
Definition mapped_group (k : name) (root fast : bool) (l : list anno) : list (list name) :=
  flat_map (fun a =>
    if name_eqb (a_key a) k then
      (if name_eqb k n_go_tag then map (fun v => [v]) (a_vals a)              (* one api.key per json tag name *)
       else if root && fast then [a_vals a] else [])                          (* api.body at the body root with ApiBodyFastPath *)
    else []) l.

Fixpoint first_mapper (l : list anno) : Z :=       (* 1 go.tag first, 2 api.body first, 0 none *)
  match l with
  | [] => 0
  | a :: r => if name_eqb (a_key a) n_go_tag then 1 else if name_eqb (a_key a) n_api_body then 2 else first_mapper r
  end.

Definition key_candidates (root fast : bool) (l : list anno) : list (list name) :=
  let direct := flat_map (fun a => if name_eqb (a_key a) n_api_key then [a_vals a] else []) l in
  let g := mapped_group n_go_tag root fast l in
  let b := mapped_group n_api_body root fast l in
  direct ++ (if first_mapper l =? 2 then b ++ g else g ++ b).

(* keyMappingAnnotation.Make: the first annotation with exactly one value *)
Fixpoint first_single (c : list (list name)) : option name :=
  match c with
  | [] => None
  | [v] :: _ => Some v
  | _ :: r => first_single r
  end.

Definition alias_of (root fast : bool) (fname : name) (l : list anno) : name :=
  match first_single (key_candidates root fast l) with Some v => v | None => fname end.

(* handleNativeFieldAnnotation: dynamicgo.deprecated always, api.none in responses *)
Definition field_skipped (target : Z) (l : list anno) : bool :=
  has_anno n_deprecated l || ((target =? 1) && has_anno n_api_none l).

(* ------------------------------------------------------------------ requiredness (convertRequireness) *)

(* Required(): parser Default 0 -> 1, Required 1 -> 2, Optional 2 -> 0 *)
Definition req_of (r : Z) : Z := if r =? 0 then 1 else if r =? 1 then 2 else 0.
(* value put into the requires bitmap; the bit is set for Default (1) and Required (2) *)
Definition bitmap_req (r : Z) (optbitmap isbase : bool) : Z :=
  if isbase then 0
  else if r =? 0 then (if optbitmap then 2 else 1)
  else if r =? 1 then 2
  else (if optbitmap then 1 else 0).
Definition bit_of (breq : Z) : Z := if breq =? 0 then 0 else 1.

(* ------------------------------------------------------------------ elaboration of types (parseType) *)

Definition struct_annos (o : popts) (f : ifile) (s : slike) : list anno :=
  s_annos s ++ (if o_putns o then [Anno n_ns_key (flat_map (fun x => [fst x; snd x]) (fl_ns f))] else [])
            ++ (if o_putfile o then [Anno n_file_key [fl_path f]] else []).

Definition reg_keys (mapway : Z) (id : Z) (nm al : name) : list (name * Z) :=
  if mapway =? 0 then [(al, id)] else if mapway =? 1 then [(nm, id)] else [(al, id); (nm, id)].

(* is the field kept in the descriptor? (handleNativeFieldAnnotation) *)
Definition field_kept (target : Z) (fd : ifield) : bool := negb (field_skipped target (f_annos fd)).

Definition is_named (t : texpr) (n : name) : bool := match t with TNamed x => name_eqb x n | _ => false end.

(* descriptor of one field, given the descriptor [d] of its type *)
Definition elab_meta_code (intlit : bool) (p : program) (o : popts) (tf : ifile) (kind : Z) (root : bool) (fd : ifield) (code : Z) : fmeta :=
  let isreq := o_base o && root && is_named (f_type fd) n_base_Base in
  let isresp := o_base o && root && is_named (f_type fd) n_base_BaseResp in
  let r0 := if kind =? 1 then 2 else f_req fd in                (* thriftgo makes every union field optional *)
  FMeta (f_id fd) (f_name fd) (alias_of root (o_bodyfast o) (f_name fd) (f_annos fd)) (req_of r0)
        (bit_of (bitmap_req r0 (o_optbitmap o) (isreq || isresp)))
        (if o_usedefault o then make_default intlit 8 p tf code (f_def fd) else None)
        isreq isresp.
Definition elab_meta (intlit : bool) (p : program) (o : popts) (tf : ifile) (kind : Z) (root : bool) (fd : ifield) (d : tdesc) : fmeta :=
  elab_meta_code intlit p o tf kind root fd (desc_code d).

(* the loop over st.Fields: [rec] elaborates a field type *)
Fixpoint elab_fields (rec : texpr -> option tdesc) (intlit : bool) (p : program) (o : popts) (tf : ifile) (kind : Z) (root : bool)
                     (target : Z) (fs : list ifield) : option (list (fmeta * tdesc) * list (name * Z)) :=
  match fs with
  | [] => Some ([], [])
  | fd :: r =>
    (* `if field.ID < 0 { return nil, fmt.Errorf("negative field id ...") }` (fix cc65c3e; FieldID is a uint16) *)
    if f_id fd <? 0 then None else
    if field_kept target fd then
      match rec (f_type fd) with
      | None => None
      | Some d =>
        let m := elab_meta intlit p o tf kind root fd d in
        match elab_fields rec intlit p o tf kind root target r with
        | None => None
        | Some (ms, ks) => Some ((m, d) :: ms, reg_keys (o_mapway o) (m_id m) (m_name m) (m_alias m) ++ ks)
        end
      end
    else elab_fields rec intlit p o tf kind root target r
  end.

(* fuel: plain recursion fuel; sdepth: remaining struct-nesting depth of the unrolling; rdepth: recursionDepth of the Go code
   (0 only for the request / response type itself); target: 0 request, 1 response, 2 exception *)
Fixpoint elab_type (intlit : bool) (fuel : nat) (p : program) (o : popts) (f : ifile) (sdepth : nat) (rdepth : Z) (target : Z) (t : texpr)
  : option tdesc :=
  match fuel with O => None | S fuel' =>
  match t with
  | TBase b => Some (DBase (base_code b) (b =? 8))
  | TList e => option_map DList (elab_type intlit fuel' p o f sdepth (rdepth + 1) target e)
  | TSet e => option_map DSet (elab_type intlit fuel' p o f sdepth (rdepth + 1) target e)
  | TMap k v =>
    match elab_type intlit fuel' p o f sdepth (rdepth + 1) target k, elab_type intlit fuel' p o f sdepth (rdepth + 1) target v with
    | Some dk, Some dv => Some (DMap dk dv)
    | _, _ => None
    end
  | TNamed n =>
    let '(pkg, tn) := split_last_dot n in
    let tree := match pkg with [] => Some f | _ => option_map snd (get_ref p f pkg) end in
    match tree with
    | None => None                                                      (* miss reference *)
    | Some tf =>
      match lookup tn (fl_typedefs tf) with
      | Some t' => elab_type intlit fuel' p o tf sdepth (rdepth + 1) target t'
      | None =>
        match lookup tn (fl_enums tf) with
        | Some _ => Some (DBase (if o_enum64 o then 10 else 8) false)
        | None =>
          match get_slike tf tn with
          | None => None                                                (* missing type *)
          | Some s =>
            match sdepth with
            | O => Some DCut
            | S sd =>
              match elab_fields (elab_type intlit fuel' p o tf sd (rdepth + 1) target) intlit p o tf (s_kind s) (rdepth =? 0) target (s_fields s) with
              | None => None
              | Some (ms, ks) => Some (DStruct n tn ms ks (struct_annos o tf s))
              end
            end
          end
        end
      end
    end
  end end.

(* ------------------------------------------------------------------ functions (addFunction, parseRequest, parseResponse) *)

Definition empty_meta (id : Z) (nm al : name) : fmeta := FMeta id nm al 0 0 None false false.

Definition has_request_base (d : tdesc) : bool :=
  match d with DStruct _ _ fs _ _ => existsb (fun x => m_reqbase (fst x)) fs | _ => false end.

Definition elab_request (intlit : bool) (fuel : nat) (p : program) (o : popts) (f : ifile) (sdepth : nat) (fn : ifunc) : option (tdesc * bool) :=
  match fn_args fn with
  | [] => None                                                           (* empty arguments in function *)
  | a :: _ =>                                                            (* WARN: only support single argument *)
    match elab_type intlit fuel p o f sdepth 0 0 (f_type a) with
    | None => None
    | Some d => Some (DStruct [] [] [(empty_meta (f_id a) (f_name a) [], d)] [(f_name a, f_id a)] [], has_request_base d)
    end
  end.

Definition elab_response (intlit : bool) (fuel : nat) (p : program) (o : popts) (f : ifile) (sdepth : nat) (fn : ifunc) : option tdesc :=
  match elab_type intlit fuel p o f sdepth 0 1 (fn_ret fn) with
  | None => None
  | Some d =>
    match fn_throws fn with
    | [] => Some (DStruct [] [] [(empty_meta 0 [] [], d)] [([], 0)] [])
    | e :: _ =>                                                          (* only support single exception *)
      match elab_type intlit fuel p o f sdepth 0 2 (f_type e) with
      | None => None
      | Some de => Some (DStruct [] [] [(empty_meta 0 [] [], d); (empty_meta (f_id e) (f_name e) (f_name e), de)]
                                 [([], 0); (f_name e, f_id e)] [])
      end
    end
  end.

Definition elab_func (intlit : bool) (fuel : nat) (p : program) (o : popts) (f : ifile) (sdepth : nat) (fn : ifunc) : option dfunc :=
  let rq := if o_fnmode o =? 2 then Some None
            else match elab_request intlit fuel p o f sdepth fn with Some (d, b) => Some (Some (d, b)) | None => None end in
  let rs := if o_fnmode o =? 1 then Some None
            else match elab_response intlit fuel p o f sdepth fn with Some d => Some (Some d) | None => None end in
  match fn_args fn, rq, rs with
  | [], _, _ => None
  | _, Some q, Some s =>
    Some (DFunc (fn_name fn) (fn_oneway fn) (match q with Some (_, b) => b | None => false end)
                (option_map fst q) s)
  | _, _, _ => None
  end.

(* ------------------------------------------------------------------ services (parse, getAllFuncs) *)

(* functions of a service followed by the inherited ones; [samefile]: follow `extends` of a service of the same file
   (Thrift semantics) — the Go code only follows references into included files *)
Fixpoint all_funcs (fuel : nat) (samefile : bool) (p : program) (f : ifile) (s : isvc) : list (ifile * ifunc) :=
  match fuel with O => [] | S fuel' =>
  map (fun fn => (f, fn)) (sv_funcs s) ++
  match sv_extends s with
  | [] => []
  | ext =>
    let '(pkg, sn) := split_last_dot ext in
    match pkg with
    | [] => if samefile then match find_svc sn (fl_svcs f) with Some s' => all_funcs fuel' samefile p f s' | None => [] end else []
    | _ => match get_ref p f pkg with
           | Some (_, f') => match find_svc sn (fl_svcs f') with Some s' => all_funcs fuel' samefile p f' s' | None => [] end
           | None => []
           end
    end
  end end.

Definition selected_services (o : popts) (main : ifile) : option (name * list isvc) :=
  match fl_svcs main with
  | [] => None                                                           (* empty service *)
  | svcs =>
    match o_svcname o with
    | _ :: _ => match find_svc (o_svcname o) svcs with Some s => Some (o_svcname o, [s]) | None => None end
    | [] =>
      if o_svcmode o =? 0 then match rev svcs with s :: _ => Some (sv_name s, [s]) | [] => None end
      else if o_svcmode o =? 1 then match svcs with s :: _ => Some (sv_name s, [s]) | [] => None end
      else Some (n_combined, svcs)
    end
  end.

Fixpoint has_dup (l : list name) : bool :=
  match l with [] => false | x :: r => existsb (name_eqb x) r || has_dup r end.

Fixpoint elab_funcs (intlit : bool) (fuel : nat) (p : program) (o : popts) (sdepth : nat) (l : list (ifile * ifunc)) : option (list dfunc) :=
  match l with
  | [] => Some []
  | (f, fn) :: r =>
    match elab_func intlit fuel p o f sdepth fn, elab_funcs intlit fuel p o sdepth r with
    | Some d, Some ds => Some (d :: ds)
    | _, _ => None
    end
  end.

(* None = the parse returns an error *)
Definition elab (samefile intlit : bool) (sdepth : nat) (p : program) (o : popts) : option (name * list dfunc) :=
  match p with
  | [] => None
  | main :: _ =>
    match selected_services o main with
    | None => None
    | Some (sn, svcs) =>
      let fl := flat_map (all_funcs 16 samefile p main) svcs in
      if has_dup (map (fun x => fn_name (snd x)) fl) then None       (* duplicate method name *)
      else match elab_funcs intlit 64 p o sdepth fl with
           | Some ds => Some (sn, ds)
           | None => None
           end
    end
  end.

(* does some selected service (or an ancestor reached through includes) extend a service of its own file? *)
Fixpoint extends_samefile (fuel : nat) (p : program) (f : ifile) (s : isvc) : bool :=
  match fuel with O => false | S fuel' =>
  match sv_extends s with
  | [] => false
  | ext =>
    let '(pkg, sn) := split_last_dot ext in
    match pkg with
    | [] => true
    | _ => match get_ref p f pkg with
           | Some (_, f') => match find_svc sn (fl_svcs f') with Some s' => extends_samefile fuel' p f' s' | None => false end
           | None => false
           end
    end
  end end.

(* ------------------------------------------------------------------ lookups on an elaborated struct *)

Definition struct_fields (d : tdesc) : list (fmeta * tdesc) := match d with DStruct _ _ fs _ _ => fs | _ => [] end.
Definition struct_keys (d : tdesc) : list (name * Z) := match d with DStruct _ _ _ ks _ => ks | _ => [] end.

(* FieldById / FieldByKey at specification level *)
Definition field_by_id (d : tdesc) (id : Z) : option fmeta :=
  assocZ id (map (fun x => (m_id (fst x), fst x)) (rev (struct_fields d))).
Definition field_by_key (d : tdesc) (k : name) : option Z := assoc k (rev (struct_keys d)).

(* ------------------------------------------------------------------ serialisation (the harness dumps the Go descriptor alike) *)

Definition fbool (b : bool) : field := FZ (if b then 1 else 0).

Fixpoint insert_by {A} (key : A -> Z) (x : A) (l : list A) : list A :=
  match l with
  | [] => [x]
  | y :: r => if key x <? key y then x :: y :: r else y :: insert_by key x r
  end.
Definition sort_by {A} (key : A -> Z) (l : list A) : list A := fold_right (insert_by key) [] l.

Definition ser_anno (a : anno) : list field := FB (a_key a) :: FZ (Z.of_nat (length (a_vals a))) :: map FB (a_vals a).

Definition ser_dval (d : option dval) : list field :=
  match d with
  | None => [FZ 0]
  | Some (DVInt z b) => [FZ 1; FZ z; FB b]
  | Some (DVDouble bits) => [FZ 2; FZ bits]
  | Some (DVStr s) => [FZ 3; FB s; FB (str_binary s)]
  | Some (DVBool b) => [FZ 4; fbool b; FB [if b then 1 else 0]]
  end.

Definition find_key_id (k : name) (keys : list (name * Z)) : Z := match assoc k (rev keys) with Some i => i | None => -1 end.

Fixpoint ser_desc (d : tdesc) : list field :=
  match d with
  | DBase c b => [FZ c; fbool b]
  | DList e => FZ 15 :: ser_desc e
  | DSet e => FZ 14 :: ser_desc e
  | DMap k v => FZ 13 :: ser_desc k ++ ser_desc v
  | DCut => [FZ 99]
  | DStruct tn sn fs keys an =>
    [FZ 12; FB tn; FB sn; FZ (Z.of_nat (length an))] ++ flat_map ser_anno an ++ [FZ (Z.of_nat (length fs))] ++
    (fix ser_fields (l : list (fmeta * tdesc)) : list field :=
       match l with
       | [] => []
       | (m, t) :: r =>
         [FZ (m_id m); FB (m_name m); FB (m_alias m); FZ (m_req m); FZ (m_bit m); fbool (m_reqbase m); fbool (m_respbase m);
          FZ (find_key_id (m_alias m) keys); FZ (find_key_id (m_name m) keys)] ++ ser_dval (m_def m) ++ ser_desc t ++ ser_fields r
       end) fs
  end.

(* fields sorted by id (declaration order is not part of the property) *)
Fixpoint sort_desc (d : tdesc) : tdesc :=
  match d with
  | DList e => DList (sort_desc e)
  | DSet e => DSet (sort_desc e)
  | DMap k v => DMap (sort_desc k) (sort_desc v)
  | DStruct tn sn fs keys an =>
    DStruct tn sn (sort_by (fun x => m_id (fst x))
                           ((fix go (l : list (fmeta * tdesc)) := match l with [] => [] | (m, t) :: r => (m, sort_desc t) :: go r end) fs))
            keys an
  | _ => d
  end.

Definition ser_opt_desc (d : option tdesc) : list field :=
  match d with None => [FZ 0] | Some x => FZ 1 :: ser_desc (sort_desc x) end.

Definition ser_func (f : dfunc) : list field :=
  [FB (d_name f); fbool (d_oneway f); fbool (d_hasbase f)] ++ ser_opt_desc (d_req f) ++ ser_opt_desc (d_resp f).

(* byte-lexicographic order on names, for sorting the function list *)
Fixpoint name_ltb (a b : name) : bool :=
  match a, b with
  | [], [] => false
  | [], _ => true
  | _, [] => false
  | x :: a', y :: b' => if x <? y then true else if y <? x then false else name_ltb a' b'
  end.
Fixpoint insert_func (x : dfunc) (l : list dfunc) : list dfunc :=
  match l with
  | [] => [x]
  | y :: r => if name_ltb (d_name x) (d_name y) then x :: y :: r else y :: insert_func x r
  end.
Definition sort_funcs (l : list dfunc) : list dfunc := fold_right insert_func [] l.

Definition ser_service (r : option (name * list dfunc)) : list field :=
  match r with
  | None => [FZ 0]
  | Some (sn, fs) => [FZ 1; FB sn; FZ (Z.of_nat (length fs))] ++ flat_map ser_func (sort_funcs fs)
  end.
