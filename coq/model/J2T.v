(* JSON -> Thrift binary (conv/j2t; native/thrift.c j2t_fsm_exec): descriptor model and the type-directed
   encoder over the JSON AST of Json.v.  Model only — proofs are in proofs/J2TProofs.v.

   What was read off the code (native/thrift.c, native/scanning.c vnumber, conv/j2t/impl.go):
   * object members are converted in DOCUMENT order: field header (type, id) + value; duplicate members are
     written twice; a member whose value is `null` writes nothing (the header is unwound); a member whose key
     is not in the descriptor is skipped (F_ALLOW_UNKNOWN) or is an error (DisallowUnknownField), whatever
     its value; the struct ends with STOP.  Absent required/default fields (j2t_write_unset_fields) belong to
     C16 and are NOT modelled: the model is exact for descriptors/options under which nothing is filled in.
   * arrays -> list/set (element type byte, count, elements); `null` ELEMENTS are dropped and not counted;
     objects -> map: keys parsed per key type (STRING keys raw — also for binary-typed keys; integer / double
     keys by the number parser on the unescaped key text; other key types unsupported), entries whose value is
     `null` are dropped (the key must still parse).
   * numbers (vnumber): RFC 8259 lexeme; for an integer field a plain integer lexeme that fits int64 is used
     exactly, anything else goes through a double and is cast.  The code does NOT range-check: out-of-range
     and fractional numbers are silently truncated (finding).  The STRICT policy below ([num_strict]) is the
     property's reading: the lexeme must denote an integer in the range of the field's type, else error;
     the cast behaviour is kept separately as [num_code] for finding classification in Check02.v.
     Doubles: correctly rounded binary64 of the lexeme ([dec2f64]); overflow to infinity is an error.
   * strings -> STRING (denoted bytes); binary fields: standard padded base64 unless NoBase64Binary;
     String2Int64: a JSON string whose content is a number lexeme is accepted for byte/i16/i32/i64/double.
   * true/false only for BOOL; any other kind combination is an error (the ERR_DISMATCH_TYPE family).
   * EnableValueMapping + api.js_conv on a scalar field (j2t_field_vm): the number may be given as a JSON number or as a
     string holding its lexeme ("" = zero value); a string field also takes a number's lexeme text.  The code has two quirks
     there (an i16 field gets an extra byte: missing `break`; a null member is an error instead of being omitted), kept
     behind [p_vm_quirks] for finding classification.
   * nesting: the FSM stack has 4096 slots; the value at nesting level s (root = 1) needs s <= 4095.
   * the top-level value is parsed as a PREFIX of the text (trailing bytes are never looked at). *)
From Coq Require Import ZArith List Bool.
From DG Require Import ProtoWireRef ThriftWire Json Num Base64.
Import ListNotations.
Local Open Scope Z_scope.

(* ---- descriptors (the abstract shape the harness prints as IDL) ---- *)
Inductive ty :=
| TBool | TByte | TI16 | TI32 | TI64 | TDouble | TString | TBinary
| TStruct (i : nat)                 (* index into the struct table: recursive types are back references *)
| TList (e : ty) | TSet (e : ty) | TMap (k v : ty).

Definition tcode (t : ty) : Z :=
  match t with
  | TBool => T_BOOL | TByte => T_BYTE | TI16 => T_I16 | TI32 => T_I32 | TI64 => T_I64 | TDouble => T_DOUBLE
  | TString | TBinary => T_STRING | TStruct _ => T_STRUCT | TList _ => T_LIST | TSet _ => T_SET | TMap _ _ => T_MAP
  end.

Record fld := mkFld {
  f_id : Z;
  f_keys : list (list Z);   (* the JSON keys that select the field: alias and/or name, per MapFieldWay *)
  f_ty : ty;
  f_req : Z;                (* 0 default, 1 required, 2 optional — not used by C02 (see C16) *)
  f_vm : bool               (* annotated api.js_conv: value mapping applies when EnableValueMapping is set *)
}.
Definition sdef := list fld.
Definition defs := list sdef.

Record jopts := mkOpts { o_disallow_unknown : bool; o_str2int : bool; o_nob64 : bool; o_vm : bool (* EnableValueMapping *) }.

Definition find_field (sd : sdef) (k : list Z) : option fld :=
  find (fun f => existsb (zlist_eqb k) (f_keys f)) sd.
Definition find_id (sd : sdef) (id : Z) : option fld := find (fun f => f_id f =? id) sd.

(* ---- results ---- *)
Inductive res := Ok (bs : list Z) | Err (c : Z).
Definition E_UNKNOWN := 1.  Definition E_KIND := 2.  Definition E_NUM := 3.  Definition E_B64 := 4.
Definition E_KEYTYPE := 5.  Definition E_DEPTH := 6. Definition E_PARSE := 7. Definition E_DESC := 8.

Definition rbind (r : res) (k : list Z -> res) : res := match r with Ok b => k b | Err c => Err c end.

(* concatenation of the per-element results, in order; the first error wins *)
Section RConcat.
  Context {A : Type}.
  Variable f : A -> res.
  Fixpoint rconcat (l : list A) : res :=
    match l with
    | [] => Ok []
    | x :: l' =>
      match f x with
      | Err c => Err c
      | Ok b => match rconcat l' with Err c => Err c | Ok bs => Ok (b ++ bs) end
      end
    end.
End RConcat.

Definition is_null (j : json) : bool := match j with JNull => true | _ => false end.
Definition count_nonnull (l : list json) : Z := zlen (filter (fun x => negb (is_null x)) l).
Definition nonempty {A} (l : list A) : bool := match l with [] => false | _ => true end.

Definition str_bytes (x : list Z) : list Z := enc_int 4 (zlen x) ++ x.

Definition is_num_ty (t : ty) : bool :=
  match t with TByte | TI16 | TI32 | TI64 | TDouble => true | _ => false end.

(* width of an integer type: (bytes, bits) *)
Definition int_width (t : ty) : option (nat * Z) :=
  match t with
  | TByte => Some (1%nat, 8) | TI16 => Some (2%nat, 16) | TI32 => Some (4%nat, 32) | TI64 => Some (8%nat, 64)
  | _ => None
  end.

(* the integer an exact decimal denotes, if it is one and is not astronomically large (|v| < 10^20 is all any field can hold) *)
Definition dec_int_val (d : bool * Z * Z) : option Z :=
  let '(neg, m, e) := d in
  if m =? 0 then Some 0 else
  if 0 <=? e then (if 19 <? e then None else Some ((if neg then -1 else 1) * (m * 10 ^ e)))
  else if Z.log2 m + 1 <? - e then None                      (* m < 2^(log2 m + 1) < 10^(-e): not integral *)
  else if m mod 10 ^ (- e) =? 0 then Some ((if neg then -1 else 1) * (m / 10 ^ (- e))) else None.

(* STRICT number policy (the property's reading): for lexemes accepted by num_okb *)
Definition num_strict (t : ty) (l : list Z) : res :=
  if negb (num_okb l) then Err E_NUM else
  match t with
  | TDouble =>
    match lex2f64 l with
    | Some b => if f64_is_finite b then Ok (enc_int 8 b) else Err E_NUM
    | None => Err E_NUM
    end
  | _ =>
    match int_width t with
    | None => Err E_KIND
    | Some (n, k) =>
      match (if lex_is_plain_int l then parse_int l else match lex_decimal l with Some d => dec_int_val d | None => None end) with
      | Some z => if in_sb k z then Ok (enc_int n z) else Err E_NUM
      | None => Err E_NUM
      end
    end
  end.

(* ---- what the code computes (vnumber + C casts as compiled for amd64) — used only to classify deviations ---- *)
Definition f64_trunc (bits : Z) : Z :=      (* integer part, toward zero, of a finite double *)
  let e := (bits / 2 ^ 52) mod 2048 in
  let f := bits mod 2 ^ 52 in
  let neg := 2 ^ 63 <=? bits in
  if e =? 0 then 0 else
  let m := 2 ^ 52 + f in
  let sh := e - 1075 in
  let mag := if 0 <=? sh then m * 2 ^ sh else m / 2 ^ (- sh) in
  if neg then - mag else mag.

(* cvttsd2si: out-of-range -> the "integer indefinite" value -2^(w-1) *)
Definition cvtt (w : Z) (bits : Z) : Z :=
  let v := f64_trunc bits in if in_sb w v then v else - 2 ^ (w - 1).

Definition num_code (t : ty) (l : list Z) : res :=
  if negb (num_okb l) then Err E_NUM else
  match lex_decimal l with
  | None => Err E_NUM
  | Some (neg, m, e) =>
    let plain := lex_is_plain_int l in
    let iv := if neg then - m else m in
    if plain && in_sb 64 iv then
      (* V_INTEGER *)
      match t with
      | TDouble => Ok (enc_int 8 (if m =? 0 then 0 else dec2f64 (neg, m, e)))     (* "-0" loses its sign *)
      | _ => match int_width t with Some (n, _) => Ok (enc_int n iv) | None => Err E_KIND end
      end
    else
      (* V_DOUBLE *)
      let b := dec2f64 (neg, m, e) in
      if negb (f64_is_finite b) then Err E_NUM else
      match t with
      | TDouble => Ok (enc_int 8 b)
      | TI64 => Ok (enc_int 8 (cvtt 64 b))
      | _ => match int_width t with Some (n, _) => Ok (enc_int n (cvtt 32 b)) | None => Err E_KIND end
      end
  end.

(* where the strict policy accepts, what the code computes (differs for "-0" doubles and for integers beyond 2^53 spelled with fraction/exponent) *)
Definition num_drift (t : ty) (l : list Z) : res :=
  match num_strict t l with Ok _ => num_code t l | Err c => Err c end.

Record policy := mkPolicy {
  p_num : ty -> list Z -> res;
  p_key_prefix : bool;         (* map keys of number type: parse the longest number prefix and ignore the rest (code) instead of the whole key (strict) *)
  p_vm_quirks : bool           (* api.js_conv as the code does it: a null member is an error instead of being omitted, and an i16 field gets one extra byte (missing break) *)
}.
Definition strict : policy := mkPolicy num_strict false false.

Definition max_level : Z := 4095.

Section Conv.
  Variable P : policy.
  Variable D : defs.
  Variable o : jopts.

  Definition key_bytes (k : ty) (kb : list Z) : res :=
    match k with
    | TString | TBinary => Ok (str_bytes kb)
    | TByte | TI16 | TI32 | TI64 | TDouble =>
      if p_key_prefix P then match scan_num N0 kb with Some (l, _) => p_num P k l | None => Err E_NUM end
      else if num_okb kb then p_num P k kb else Err E_NUM
    | _ => Err E_KEYTYPE
    end.

  (* api.js_conv (native/thrift.c j2t_field_vm, VM_JSCONV): the field accepts its number as a JSON number or as a string
     holding the number lexeme ("" = the zero value); a string field also accepts a number and takes its lexeme text.
     Only scalar non-bool types are supported. *)
  Definition vm_zero (t : ty) : res :=
    match t with
    | TDouble => Ok (enc_int 8 0)
    | _ => match int_width t with Some (n, _) => Ok (enc_int n 0) | None => Err E_KIND end
    end.
  Definition vm_extra (t : ty) (r : res) : res :=      (* finding 208 *)
    match t, r with
    | TI16, Ok b => if p_vm_quirks P then Ok (b ++ skipn 1 b) else r
    | _, _ => r
    end.
  Definition vm_val (t : ty) (j : json) : res :=
    match j with
    | JStr x =>
      match t with
      | TString | TBinary => Ok (str_bytes x)
      | _ => if is_num_ty t then
               (match x with [] => vm_zero t | _ => if num_okb x then vm_extra t (p_num P t x) else Err E_NUM end)
             else Err E_KIND
      end
    | JNum l =>
      match t with
      | TString | TBinary => if num_okb l then Ok (str_bytes l) else Err E_NUM
      | _ => if is_num_ty t then vm_extra t (p_num P t l) else Err E_KIND
      end
    | _ => Err E_KIND
    end.

  Fixpoint j2t_val (t : ty) (s : Z) (j : json) {struct j} : res :=
    match j with
    | JNull => Err E_KIND       (* null members / elements are dropped by the container; this is a top-level null *)
    | JBool b => match t with TBool => Ok [if b then 1 else 0] | _ => Err E_KIND end
    | JNum l => if is_num_ty t then p_num P t l else Err E_KIND
    | JStr x =>
      match t with
      | TString => Ok (str_bytes x)
      | TBinary => if o_nob64 o then Ok (str_bytes x)
                   else match b64_decode x with Some b => Ok (str_bytes b) | None => Err E_B64 end
      | _ => if is_num_ty t && o_str2int o then (if num_okb x then p_num P t x else Err E_NUM) else Err E_KIND
      end
    | JArr xs =>
      match t with
      | TList e | TSet e =>
        if nonempty xs && (max_level <=? s) then Err E_DEPTH else
        rbind (rconcat (fun x => if is_null x then Ok [] else j2t_val e (s + 1) x) xs)
              (fun body => Ok (tcode e :: enc_int 4 (count_nonnull xs) ++ body))
      | _ => Err E_KIND
      end
    | JObj ms =>
      match t with
      | TMap k v =>
        if nonempty ms && (max_level <=? s) then Err E_DEPTH else
        rbind (rconcat (fun m => rbind (key_bytes k (fst m)) (fun kb =>
                                 if is_null (snd m) then Ok [] else rbind (j2t_val v (s + 1) (snd m)) (fun vb => Ok (kb ++ vb)))) ms)
              (fun body => Ok (tcode k :: tcode v :: enc_int 4 (count_nonnull (map snd ms)) ++ body))
      | TStruct i =>
        match nth_error D i with
        | None => Err E_DESC
        | Some sd =>
          if nonempty ms && (max_level <=? s) then Err E_DEPTH else
          rbind (rconcat (fun m => match find_field sd (fst m) with
                                   | None => if o_disallow_unknown o then Err E_UNKNOWN else Ok []
                                   | Some f =>
                                     if o_vm o && f_vm f then
                                       (if is_null (snd m) then (if p_vm_quirks P then Err E_KIND else Ok [])
                                        else rbind (vm_val (f_ty f) (snd m)) (fun vb => Ok (tcode (f_ty f) :: enc_int 2 (f_id f) ++ vb)))
                                     else if is_null (snd m) then Ok []
                                     else rbind (j2t_val (f_ty f) (s + 1) (snd m))
                                                (fun vb => Ok (tcode (f_ty f) :: enc_int 2 (f_id f) ++ vb))
                                   end) ms)
                (fun body => Ok (body ++ [0]))
        end
      | _ => Err E_KIND
      end
    end.

  (* text level: prefix parse of the top-level value, then the type-directed encoder *)
  Definition j2t_text (t : ty) (text : list Z) : res :=
    match json_parse_prefix text with
    | Some (j, _) => j2t_val t 1 j
    | None => Err E_PARSE
    end.
End Conv.

Definition j2t (D : defs) (o : jopts) (t : ty) (j : json) : res := j2t_val strict D o t 1 j.

(* BinaryConv.do (conv/j2t/impl.go) in front of the converter, as documented there:
   * an empty body stands for the empty struct (a bare STOP); for any other descriptor type it is an error;
   * "special case for unquoted json string": with a top-level STRING / binary descriptor a text whose FIRST byte is not the
     double quote (34) is not JSON at all — the whole text is the string (it is quoted by the Go side and handed to the converter; for a
     binary descriptor it is then base64-decoded unless NoBase64Binary);
   * everything else is the prefix parse of the top-level value: leading blanks are skipped, bytes after the value
     (blanks or anything else) are never looked at, a text that ends inside the value is an error. *)
Definition is_str_ty (t : ty) : bool := match t with TString | TBinary => true | _ => false end.
Definition j2t_do (P : policy) (D : defs) (o : jopts) (t : ty) (text : list Z) : res :=
  match text with
  | [] => match t with TStruct _ => Ok [0] | _ => Err E_PARSE end
  | c :: _ => if is_str_ty t && negb (c =? 34) then j2t_val P D o t 1 (JStr text) else j2t_text P D o t text
  end.

(* which JSON kinds a type admits (null is handled by the containers) *)
Definition kind_ok (o : jopts) (t : ty) (j : json) : bool :=
  match j, t with
  | JBool _, TBool => true
  | JNum _, (TByte | TI16 | TI32 | TI64 | TDouble) => true
  | JStr _, (TString | TBinary) => true
  | JStr _, (TByte | TI16 | TI32 | TI64 | TDouble) => o_str2int o
  | JArr _, (TList _ | TSet _) => true
  | JObj _, (TMap _ _ | TStruct _) => true
  | _, _ => false
  end.

(* ---- the canonical JSON of a conforming value (used by the theorems and the examples) ----
   [dlex] prints a double; the theorems hold for every printer on the values it round-trips
   (checked by [conf]), so no unproved formatter contract is assumed. *)
Section Denote.
  Variable dlex : Z -> list Z.
  Variable D : defs.
  Variable o : jopts.

  Definition key1 (f : fld) : list Z := hd [] (f_keys f).

  Definition key_text (kv : tval) : list Z :=
    match kv with
    | VString x => x
    | VByte z | VI16 z | VI32 z | VI64 z => fmt_int z
    | VDouble b => dlex b
    | _ => []
    end.

  Fixpoint json_of (t : ty) (v : tval) {struct v} : json :=
    match v with
    | VBool b => JBool (negb (b =? 0))
    | VByte z | VI16 z | VI32 z | VI64 z => JNum (fmt_int z)
    | VDouble b => JNum (dlex b)
    | VString x => match t with TBinary => if o_nob64 o then JStr x else JStr (b64_encode x) | _ => JStr x end
    | VStruct fs =>
      match t with
      | TStruct i =>
        match nth_error D i with
        | Some sd => JObj (map (fun f => match find_id sd (fst f) with
                                         | Some fd => (key1 fd, json_of (f_ty fd) (snd f))
                                         | None => ([], JNull)
                                         end) fs)
        | None => JNull
        end
      | _ => JNull
      end
    | VList _ es => match t with TList e => JArr (map (json_of e) es) | _ => JNull end
    | VSet _ es => match t with TSet e => JArr (map (json_of e) es) | _ => JNull end
    | VMap _ _ es => match t with TMap k v => JObj (map (fun e => (key_text (fst e), json_of v (snd e))) es) | _ => JNull end
    end.

  Fixpoint ty_eqb (a b : ty) : bool :=
    match a, b with
    | TBool, TBool | TByte, TByte | TI16, TI16 | TI32, TI32 | TI64, TI64 | TDouble, TDouble | TString, TString | TBinary, TBinary => true
    | TStruct i, TStruct j => Nat.eqb i j
    | TList x, TList y | TSet x, TSet y => ty_eqb x y
    | TMap k v, TMap k' v' => ty_eqb k k' && ty_eqb v v'
    | _, _ => false
    end.

  Definition dbl_ok (b : Z) : bool :=
    num_okb (dlex b) && f64_is_finite b && match lex2f64 (dlex b) with Some b' => b' =? b | None => false end.

  (* types on which api.js_conv is defined and agrees with the plain conversion of the canonical JSON *)
  Definition vm_ty_ok (t : ty) : bool :=
    match t with TByte | TI16 | TI32 | TI64 | TDouble | TString => true | _ => false end.

  Definition is_key_ty (k : ty) : bool :=
    match k with TString | TBinary | TByte | TI16 | TI32 | TI64 | TDouble => true | _ => false end.

  (* v conforms to t (and is in the domain of the theorems): ranges, canonical booleans, declared field ids whose
     first key resolves back to the same field, element/key type bytes as declared, doubles round-tripped by dlex *)
  Fixpoint conf (t : ty) (v : tval) {struct v} : bool :=
    match v with
    | VBool b => match t with TBool => (b =? 0) || (b =? 1) | _ => false end
    | VByte z => match t with TByte => in_sb 8 z | _ => false end
    | VI16 z => match t with TI16 => in_sb 16 z | _ => false end
    | VI32 z => match t with TI32 => in_sb 32 z | _ => false end
    | VI64 z => match t with TI64 => in_sb 64 z | _ => false end
    | VDouble b => match t with TDouble => dbl_ok b | _ => false end
    | VString x => match t with TString => jbytes_okb x | TBinary => jbytes_okb x | _ => false end
    | VStruct fs =>
      match t with
      | TStruct i =>
        match nth_error D i with
        | Some sd =>
          forallb (fun f => match find_id sd (fst f) with
                            | Some fd => (f_id fd =? fst f) && in_sb 16 (fst f) && jbytes_okb (key1 fd) &&
                                         (negb (f_vm fd) || vm_ty_ok (f_ty fd)) &&
                                         match find_field sd (key1 fd) with
                                         | Some fd' => (f_id fd' =? f_id fd) && ty_eqb (f_ty fd') (f_ty fd) && Bool.eqb (f_vm fd') (f_vm fd)
                                         | None => false
                                         end && conf (f_ty fd) (snd f)
                            | None => false
                            end) fs
        | None => false
        end
      | _ => false
      end
    | VList et es => match t with TList e => (et =? tcode e) && forallb (conf e) es | _ => false end
    | VSet et es => match t with TSet e => (et =? tcode e) && forallb (conf e) es | _ => false end
    | VMap kt vt es =>
      match t with
      | TMap k v => (kt =? tcode k) && (vt =? tcode v) && is_key_ty k &&
                    forallb (fun e => conf k (fst e) && jbytes_okb (key_text (fst e)) && conf v (snd e)) es
      | _ => false
      end
    end.
End Denote.
