(* C20, algorithm level: the as-coded model of WriteAnyWithDesc / ReadAnyWithDesc (model/ProtoAny.v, theorems in
   proofs/ProtoAnyProofs.v) against the implementation, byte for byte and value for value.
     2009  WriteAnyWithDesc(desc, goValue, ...) : error status and the whole buffer must equal write_any_desc.
           A Go map has no order: the order the implementation iterated in is recovered by reading its own output
           with read_any_desc and re-ordering the association lists of the case value accordingly (reorder); the
           re-ordered value must be the same Go value (gval_eqv) and is then written by the model: any mistake in the
           recovery can only make the exact comparison fail.
     2010  ReadAnyWithDesc(desc, bytes, ...) : error / value (modulo map order) / bytes left must equal read_any_desc.
   Go values travel in the prefix code of harness/c20_any.go (see parse_gval). *)
From Coq Require Import ZArith List Bool.
From DG Require Import CaseFormat ProtoWireRef ProtoMsg ProtoCase ProtoAny.
Import ListNotations.
Local Open Scope Z_scope.

Section GLoops.
  Variable p : list field -> option (gval * list field).
  Fixpoint gparse_n (n : nat) (fs : list field) : option (list gval * list field) :=
    match n with
    | O => Some ([], fs)
    | S n' => match p fs with
              | Some (v, r) => match gparse_n n' r with Some (l, r') => Some (v :: l, r') | None => None end
              | None => None
              end
    end.
  Fixpoint gparse_s (n : nat) (fs : list field) : option (list (list Z * gval) * list field) :=
    match n with
    | O => Some ([], fs)
    | S n' => match fs with
              | FB k :: r => match p r with
                             | Some (v, r1) => match gparse_s n' r1 with Some (l, r2) => Some ((k, v) :: l, r2) | None => None end
                             | None => None
                             end
              | _ => None
              end
    end.
  Fixpoint gparse_z (n : nat) (fs : list field) : option (list (Z * gval) * list field) :=
    match n with
    | O => Some ([], fs)
    | S n' => match fs with
              | FZ k :: r => match p r with
                             | Some (v, r1) => match gparse_z n' r1 with Some (l, r2) => Some ((k, v) :: l, r2) | None => None end
                             | None => None
                             end
              | _ => None
              end
    end.
  Fixpoint gparse_a (n : nat) (fs : list field) : option (list (gval * gval) * list field) :=
    match n with
    | O => Some ([], fs)
    | S n' => match p fs with
              | Some (k, r) => match p r with
                               | Some (v, r1) => match gparse_a n' r1 with Some (l, r2) => Some ((k, v) :: l, r2) | None => None end
                               | None => None
                               end
              | None => None
              end
    end.
End GLoops.

(* n0 nil | n1 n<b> bool | n2 n<t> n<z> integer | n3 n<bits> float32 | n4 n<bits> float64 | n5 x string | n6 x []byte
   n7 n<len> v* | n8 n<len> {x<key> v}* map[string] | n9 n<len> {n<key> v}* map[int] | n10 n<len> {v v}* map[interface{}]
   n11 n<len> {n<number> v}* map[FieldNumber] *)
Fixpoint parse_gval (fuel : nat) (fs : list field) : option (gval * list field) :=
  match fuel with
  | O => None
  | S f =>
    match fs with
    | FZ 0 :: r => Some (GNil, r)
    | FZ 1 :: FZ b :: r => Some (GBool (negb (b =? 0)), r)
    | FZ 2 :: FZ t :: FZ z :: r => Some (GInt t z, r)
    | FZ 3 :: FZ b :: r => Some (GF32 b, r)
    | FZ 4 :: FZ b :: r => Some (GF64 b, r)
    | FZ 5 :: FB s :: r => Some (GStr s, r)
    | FZ 6 :: FB s :: r => Some (GBytes s, r)
    | FZ 7 :: FZ n :: r =>
      if negb (count_ok n) then None else
      match gparse_n (parse_gval f) (Z.to_nat n) r with Some (l, r') => Some (GList l, r') | None => None end
    | FZ 8 :: FZ n :: r =>
      if negb (count_ok n) then None else
      match gparse_s (parse_gval f) (Z.to_nat n) r with Some (l, r') => Some (GMapS l, r') | None => None end
    | FZ 9 :: FZ n :: r =>
      if negb (count_ok n) then None else
      match gparse_z (parse_gval f) (Z.to_nat n) r with Some (l, r') => Some (GMapI l, r') | None => None end
    | FZ 10 :: FZ n :: r =>
      if negb (count_ok n) then None else
      match gparse_a (parse_gval f) (Z.to_nat n) r with Some (l, r') => Some (GMapA l, r') | None => None end
    | FZ 11 :: FZ n :: r =>
      if negb (count_ok n) then None else
      match gparse_z (parse_gval f) (Z.to_nat n) r with Some (l, r') => Some (GMsgN l, r') | None => None end
    | _ => None
    end
  end.

(* ---- recovering the iteration order of the implementation *)
Fixpoint extract {A B} (p : A -> bool) (l : list (A * B)) : option ((A * B) * list (A * B)) :=
  match l with
  | [] => None
  | x :: r => if p (fst x) then Some (x, r)
              else match extract p r with Some (y, r') => Some (y, x :: r') | None => None end
  end.

(* the entries of [rem] in the order of [order] (values re-ordered by [re]); entries not found there keep their place at the end *)
Fixpoint pick {A R} (eq : R -> A -> bool) (re : gval -> gval -> gval) (rem : list (A * gval)) (order : list (R * gval))
  : list (A * gval) :=
  match order with
  | [] => rem
  | (kr, vr) :: o' =>
    match extract (eq kr) rem with
    | Some ((k, v), rem') => (k, re v vr) :: pick eq re rem' o'
    | None => pick eq re rem o'
    end
  end.

Fixpoint map2g (re : gval -> gval -> gval) (l m : list gval) : list gval :=
  match l, m with
  | x :: l', y :: m' => re x y :: map2g re l' m'
  | _, _ => l
  end.

Fixpoint reorder (fuel : nat) (g gr : gval) : gval :=
  match fuel with
  | O => g
  | S f =>
    match g, gr with
    | GList l, GList lr => GList (map2g (reorder f) l lr)
    | GMsgN fs, GMsgN fr => GMsgN (pick Z.eqb (reorder f) fs fr)
    | GMapS fs, GMapS fr => GMapS (pick bytes_eqb (reorder f) fs fr)
    | GMapS fs, GMapA fr => GMapS (pick (fun kr k => match kr with GStr s => bytes_eqb s k | _ => false end) (reorder f) fs fr)
    | GMapA fs, GMapA fr => GMapA (pick gkey_eqb (reorder f) fs fr)
    | _, _ => g
    end
  end.

(* the top-level members in the order of the first record of each field in the buffer (wire level only: survives
   entries whose inside is not readable) *)
Definition reorder_top (SC : schema) (root : list Z) (g : gval) (bs : list Z) : gval :=
  match wdec bs with
  | None => g
  | Some w =>
    let order := map (fun f : wfield => (fst f, GNil)) w in
    match g with
    | GMsgN fs => GMsgN (pick Z.eqb (fun v _ => v) fs order)
    | GMapS fs =>
      match find_msg SC root with
      | Some md => GMapS (pick (fun n k => match find_field md n with Some fd => bytes_eqb (fd_name fd) k | None => false end)
                               (fun v _ => v) fs order)
      | None => g
      end
    | _ => g
    end
  end.

(* byte histogram equality: the two buffers are permutations of each other (degraded comparison, see check_2009) *)
Fixpoint count_byte (x : Z) (l : list Z) : Z :=
  match l with [] => 0 | y :: r => (if x =? y then 1 else 0) + count_byte x r end.
Definition same_bytes_multiset (a b : list Z) : bool :=
  (length a =? length b)%nat && forallb (fun x => count_byte x a =? count_byte x b) a.

Definition c20d_junk : list Z := repeat 0 16%nat.
Definition c20d_fuel : nat := 64%nat.

(* 2009. fields: schema.., byname, cast, disallowUnknown, needMessageLen, family (0 conforming value, 1 deviant, 2 other Go types), value.., code (0 nil, 1 error, 3 panic), buffer *)
Definition check_2009 (fs : list field) : verdict :=
  match parse_schema fs with
  | None => VBad 98 []
  | Some (root, SC, FZ bn :: FZ cs :: FZ dis :: FZ nl :: FZ fam :: rest) =>
    match parse_gval (S (length rest)) rest with
    | Some (g, [FZ wc; FB buf]) =>
      let byname := negb (bn =? 0) in
      let cast := negb (cs =? 0) in
      let disallow := negb (dis =? 0) in
      let needlen := negb (nl =? 0) in
      if wc =? 3 then VBad 3 [] else
      let rd := read_any_desc SC false byname c20d_fuel LSingular (TMsg root) needlen buf in
      let g1 := match rd with
                | Some (gr, _) => reorder c20d_fuel g gr
                | None => g
                end in
      let g2 := reorder_top SC root g1 buf in
      let same := fun x : gval => gval_eqv g x && gval_eqv x g in
      if negb (same g1 && same g2) then VBad 97 [] else
      let run := fun (fx : bool) (x : gval) =>
                   write_any_desc SC cast disallow byname c20d_junk fx c20d_fuel 0 LSingular (TMsg root) needlen x in
      let agree := fun r : wst => (snd r =? wc) && ((negb (wc =? 0)) || bytes_eqb (fst r) buf) in
      let r := run true g2 in
      if snd r =? 2 then VSkip
      else if agree r || agree (run true g1) then VOk
      else if agree (run false g2) || agree (run false g1) then VKnown 2004
      (* deviant values only (family > 0): a dropped error left records that cannot be parsed back, so the iteration
         order cannot be recovered; the comparison degrades to "same bytes up to order" and is reported as drift *)
      else if (0 <? fam) && (snd r =? wc) && same_bytes_multiset (fst r) buf then VDrift 7
      else if (0 <? fam) && (snd r =? wc) && same_bytes_multiset (fst (run false g2)) buf then VKnown 2004
      else VBad 1 [FZ (snd r); FB (fst r)]
    | _ => VBad 99 []
    end
  | _ => VBad 99 []
  end.

(* 2010. fields: schema.., byname, disallowUnknown, hasMessageLen, input, code (0 ok, 1 error, 3 panic, 4 foreign Go type),
   [value.. when code = 0], bytes left *)
Definition check_2010 (fs : list field) : verdict :=
  match parse_schema fs with
  | None => VBad 98 []
  | Some (root, SC, FZ bn :: FZ dis :: FZ hl :: FB input :: FZ rc :: rest) =>
    let byname := negb (bn =? 0) in
    let disallow := negb (dis =? 0) in
    let haslen := negb (hl =? 0) in
    if (rc =? 3) || (rc =? 4) then VBad rc [] else
    let m := read_any_desc SC disallow byname (S (length input)) LSingular (TMsg root) haslen input in
    if rc =? 0 then
      match parse_gval (S (length rest)) rest with
      | Some (g, [FZ nleft]) =>
        match m with
        | Some (gm, r) =>
          vand (expect 1 (gval_eqv gm g && gval_eqv g gm) [])
         (vand (expect 2 (plen r =? nleft) [FZ (plen r)])
               (* implementation = model. Where the proved reference decoder reads the input as a message m but the reader
                  answers another value (a packed field arriving unpacked, a split run, a bool varint > 1: the refuted
                  witnesses of proofs/ProtoAnyMoreProofs.v), the case is counted as drift 8: the property speaks about what
                  the writer / the reference ENCODERS emit, which is canonical *)
               (match decode_top SC root input with
                | Some mm => let e := gtop SC byname true root mm in
                             if haslen || (gval_eqv gm e && gval_eqv e gm) then VOk else VDrift 8
                | None => VOk
                end))
        | None => VBad 5 []
        end
      | _ => VBad 99 []
      end
    else
      match m with
      | None => match decode_top SC root input with Some _ => if haslen then VOk else VDrift 8 | None => VOk end
      | Some (_, r) => VBad 6 [FZ (plen r)]
      end
  | _ => VBad 99 []
  end.

(* 2013. WriteAnyWithDesc / ReadAnyWithDesc on the TypeDescriptor of a repeated or map FIELD (a LIST / MAP descriptor at the
   top; theorems write_any_top / read_any_top). fields: schema.., byname, needMessageLen, hasMessageLen, disallowUnknown,
   field number (in the root message), value.., write code, buffer, read code of ReadAnyWithDesc(buffer), [value read..], bytes left *)
Definition check_2013 (fs : list field) : verdict :=
  match parse_schema fs with
  | None => VBad 98 []
  | Some (root, SC, FZ bn :: FZ nl :: FZ hl :: FZ dis :: FZ fnum :: rest) =>
    match parse_gval (S (length rest)) rest with
    | Some (g, FZ wc :: FB buf :: FZ rc :: rest2) =>
      let byname := negb (bn =? 0) in
      match (match find_msg SC root with Some md => find_field md fnum | None => None end) with
      | None => VBad 96 []
      | Some fd =>
        if (wc =? 3) || (rc =? 3) || (rc =? 4) then VBad 3 [] else
        let rd := read_any_desc SC false byname c20d_fuel (fd_label fd) (fd_type fd) (negb (hl =? 0)) buf in
        let g' := match rd with Some (gr, _) => reorder c20d_fuel g gr | None => g end in
        if negb (gval_eqv g g' && gval_eqv g' g) then VBad 97 [] else
        let r := write_any_desc SC false (negb (dis =? 0)) byname c20d_junk true c20d_fuel (fd_num fd) (fd_label fd) (fd_type fd)
                                (negb (nl =? 0)) g' in
        vand (expect 1 ((snd r =? wc) && bytes_eqb (fst r) buf) [FZ (snd r); FB (fst r)])
             (if rc =? 0 then
                match parse_gval (S (length rest2)) rest2, rd with
                | Some (gi, [FZ nleft]), Some (gm, rr) =>
                  vand (expect 2 (gval_eqv gm gi && gval_eqv gi gm) []) (expect 4 (plen rr =? nleft) [FZ (plen rr)])
                | Some _, None => VBad 5 []
                | _, _ => VBad 99 []
                end
              else match rd with None => VOk | Some _ => VBad 6 [] end)
      end
    | _ => VBad 99 []
    end
  | _ => VBad 99 []
  end.

(* 2014. the protocol's buffer is unchanged by a read, and a read is a function of the bytes: after ReadAnyWithDesc (success
   or error) Buf must be the caller's buffer again (same length, same bytes), and a lenient re-read on the SAME protocol
   object after rewinding must answer what read_any_desc answers on the input. fields: schema.., byname, disallowUnknown of
   the first read, input, code of the first read, len(Buf), Buf==input, code of the re-read (0 ok, 1 error, 3 panic, 4 foreign
   type), [value..], bytes left, len(Buf), Buf==input *)
Definition check_2014 (fs : list field) : verdict :=
  match parse_schema fs with
  | None => VBad 98 []
  | Some (root, SC, FZ bn :: FZ dis :: FB input :: FZ rc1 :: FZ bl1 :: FZ same1 :: FZ rc2 :: rest) =>
    let byname := negb (bn =? 0) in
    let fuel := S (length input) in
    let m1 := read_any_desc SC (negb (dis =? 0)) byname fuel LSingular (TMsg root) false input in
    let m2 := read_any_desc SC false byname fuel LSingular (TMsg root) false input in
    vand (expect 1 (Bool.eqb (rc1 =? 0) (match m1 with Some _ => true | None => false end)) [])
   (vand (expect 2 ((bl1 =? plen input) && (same1 =? 1)) [FZ (plen input)])
         (if (rc2 =? 3) || (rc2 =? 4) then VBad rc2 [] else
          if rc2 =? 0 then
            match parse_gval (S (length rest)) rest, m2 with
            | Some (g, [FZ nleft; FZ bl2; FZ same2]), Some (gm, r) =>
              vand (expect 3 (gval_eqv gm g && gval_eqv g gm) [])
             (vand (expect 4 (plen r =? nleft) [FZ (plen r)]) (expect 5 ((bl2 =? plen input) && (same2 =? 1)) []))
            | Some _, None => VBad 6 []
            | _, _ => VBad 99 []
            end
          else
            match rest, m2 with
            | [FZ _; FZ bl2; FZ same2], None => expect 5 ((bl2 =? plen input) && (same2 =? 1)) []
            | _, Some _ => VBad 7 []
            | _, _ => VBad 99 []
            end))
  | _ => VBad 99 []
  end.
