//go:build verif

package main

// C13 — JSON <-> Thrift conversions are mutually inverse on their domains.
// One run per case on the REAL converters:  b --t2j--> J --j2t--> b' --t2j--> J''
//   1301: (descriptor, option pair, b, ec1, J, ec2, b')          judged: in the domain b' must equal b byte for byte
//   1302: (descriptor, option pair, J, ec2, b', ec3, J'')        judged: J'' must denote what the canonical document J denotes
// Descriptor format = C02's (struct table + root type, see coq/model/Check02.v); every field carries the key t2j writes
// (FieldDescriptor.Alias() of the parsed descriptor) first and, when different, the field name second; the map-field way says which of them j2t accepts.

import (
	"context"
	"fmt"
	"math"
	"os"
	"runtime/debug"
	"strings"

	"github.com/cloudwego/dynamicgo/conv"
	"github.com/cloudwego/dynamicgo/conv/j2t"
	"github.com/cloudwego/dynamicgo/conv/t2j"
	"github.com/cloudwego/dynamicgo/meta"
	"github.com/cloudwego/dynamicgo/thrift"
)

func init() { generators["C13"] = genC13 }

var debug13 = os.Getenv("C13_DEBUG") != ""

type gen13 struct {
	*gen03
	alias  map[*Fld]string
	vm     map[*Fld]bool
	mapWay int // 0 alias, 1 field name, 2 both
	root   *Ty
	wkey   map[*Fld]string // the key the implementation's descriptor says t2j writes for the field (FieldDescriptor.Alias())
}

func newGen13(r *rng) *gen13 {
	g := &gen13{gen03: &gen03{tgen: newTgen(r.fork()), extra: map[*Fld]*fx03{}}, alias: map[*Fld]string{}, vm: map[*Fld]bool{}, wkey: map[*Fld]string{}}
	g.maxDepth = 2 + r.intn(3)
	g.maxFields = 2 + r.intn(5)
	g.allowReq = true
	// key kinds t2j can spell: string and the integers; rarely a kind outside the domain (double / bool keys: t2j errors)
	g.keyKinds = []thrift.Type{thrift.STRING, thrift.I08, thrift.I16, thrift.I32, thrift.I64, thrift.STRING, thrift.I64, thrift.I32}
	if r.chance(6) {
		g.keyKinds = append(g.keyKinds, thrift.DOUBLE, thrift.BOOL)
	}
	st := g.genStruct(0)
	g.root = st
	if r.chance(12) { // non-struct roots
		switch r.intn(4) {
		case 0:
			g.root = &Ty{K: thrift.LIST, Elem: st}
		case 1:
			g.root = &Ty{K: thrift.MAP, Key: &Ty{K: thrift.STRING}, Elem: st}
		case 2:
			g.root = &Ty{K: thrift.MAP, Key: &Ty{K: thrift.I64}, Elem: &Ty{K: thrift.LIST, Elem: &Ty{K: thrift.DOUBLE}}}
		default:
			g.root = &Ty{K: thrift.SET, Elem: &Ty{K: thrift.DOUBLE}}
		}
	}
	// recursive types: a struct refers to itself / an earlier struct through an optional field
	if r.chance(25) {
		s := g.structs[r.intn(len(g.structs))]
		tgt := g.structs[r.intn(len(g.structs))]
		var t *Ty
		switch r.intn(3) {
		case 0:
			t = tgt
		case 1:
			t = &Ty{K: thrift.LIST, Elem: tgt}
		default:
			t = &Ty{K: thrift.MAP, Key: &Ty{K: thrift.I32}, Elem: tgt}
		}
		id := int16(20000 + r.intn(100))
		s.Fields = append(s.Fields, &Fld{ID: id, Name: fmt.Sprintf("rec_%d", id), T: t, Req: 2})
	}
	// map<binary, V>: t2j writes the key bytes as they are and j2t copies the key text as it is (no base64 on either side)
	var binKeys func(t *Ty, seen map[*Ty]bool)
	binKeys = func(t *Ty, seen map[*Ty]bool) {
		if t == nil || seen[t] {
			return
		}
		seen[t] = true
		switch t.K {
		case thrift.STRUCT:
			for _, f := range t.Fields {
				binKeys(f.T, seen)
			}
		case thrift.LIST, thrift.SET:
			binKeys(t.Elem, seen)
		case thrift.MAP:
			if t.Key.K == thrift.STRING && r.chance(35) {
				t.Key.Binary = true
			}
			binKeys(t.Elem, seen)
		}
	}
	seenT := map[*Ty]bool{}
	for _, s := range g.structs {
		binKeys(s, seenT)
	}
	binKeys(g.root, seenT)
	g.mapWay = 0
	if r.chance(40) {
		g.mapWay = r.intn(3)
	}
	n := 0
	for _, s := range g.structs {
		for _, f := range s.Fields {
			n++
			if r.chance(30) {
				g.alias[f] = fmt.Sprintf("%s%d", aliasPool[r.intn(len(aliasPool))], n)
			}
			switch f.T.K {
			case thrift.I08, thrift.I16, thrift.I32, thrift.I64, thrift.DOUBLE:
				g.vm[f] = r.chance(15)
			case thrift.STRING:
				g.vm[f] = !f.T.Binary && r.chance(15)
			}
		}
	}
	return g
}

func (g *gen13) aliasOf(f *Fld) string {
	if a, ok := g.alias[f]; ok {
		return a
	}
	return f.Name
}

func (g *gen13) idl13() string {
	var sb strings.Builder
	sb.WriteString("namespace go verif\n")
	for i := len(g.structs) - 1; i >= 0; i-- {
		s := g.structs[i]
		sb.WriteString("struct " + s.Name + " {\n")
		for _, f := range s.Fields {
			req := ""
			if f.Req == 1 {
				req = "required "
			} else if f.Req == 2 {
				req = "optional "
			}
			var ann []string
			if a, ok := g.alias[f]; ok {
				ann = append(ann, fmt.Sprintf("api.key=%q", a))
			}
			if g.vm[f] {
				ann = append(ann, `api.js_conv=""`)
			}
			as := ""
			if len(ann) > 0 {
				as = " (" + strings.Join(ann, ", ") + ")"
			}
			sb.WriteString(fmt.Sprintf("  %d: %s%s %s%s\n", f.ID, req, f.T.idlName(), f.Name, as))
		}
		sb.WriteString("}\n")
	}
	sb.WriteString("service Svc { void M(1: " + g.root.idlName() + " req) }\n")
	return sb.String()
}

func (g *gen13) tyFields13(t *Ty) []string {
	switch t.K {
	case thrift.STRUCT:
		return []string{"n12", fi(g.structIndex(t))}
	case thrift.LIST:
		return append([]string{"n15"}, g.tyFields13(t.Elem)...)
	case thrift.SET:
		return append([]string{"n14"}, g.tyFields13(t.Elem)...)
	case thrift.MAP:
		return append(append([]string{"n13"}, g.tyFields13(t.Key)...), g.tyFields13(t.Elem)...)
	case thrift.STRING:
		if t.Binary {
			return []string{"n111"}
		}
	}
	return []string{fi(int(t.K))}
}

// map-field way, then C02's descriptor format with keys = [alias] or [alias, name]
func (g *gen13) descFields13() []string {
	out := []string{fi(g.mapWay), fi(len(g.structs))}
	for _, s := range g.structs {
		out = append(out, fi(len(s.Fields)))
		for _, f := range s.Fields {
			ks := []string{g.wkey[f]}
			if f.Name != ks[0] {
				ks = append(ks, f.Name)
			}
			vm := 0
			if g.vm[f] {
				vm = 1
			}
			out = append(out, fi(int(f.ID)), fi(f.Req), fi(vm), fi(len(ks)))
			for _, k := range ks {
				out = append(out, fs(k))
			}
			out = append(out, g.tyFields13(f.T)...)
		}
	}
	return append(out, g.tyFields13(g.root)...)
}

// the descriptor the implementation derived must carry the keys the harness tells the model (a harness bug must not look like a finding)
func (g *gen13) checkDesc(t *Ty, d *thrift.TypeDescriptor, seen map[*Ty]bool) {
	if d == nil {
		die("C13: nil descriptor for %s", t.idlName())
	}
	switch t.K {
	case thrift.STRUCT:
		if seen[t] {
			return
		}
		seen[t] = true
		for _, f := range t.Fields {
			fd := d.Struct().FieldById(thrift.FieldID(f.ID))
			if fd == nil {
				die("C13: field %d missing in descriptor", f.ID)
			}
			// the written key is taken from the descriptor itself; it must be the declared alias (under MapFieldUseFieldName
			// a tree that writes the field name instead is consistent too)
			if fd.Name() != f.Name || !(fd.Alias() == g.aliasOf(f) || (g.mapWay == 1 && fd.Alias() == f.Name)) {
				die("C13: field %d alias %q name %q, expected %q %q", f.ID, fd.Alias(), fd.Name(), g.aliasOf(f), f.Name)
			}
			g.wkey[f] = fd.Alias()
			g.checkDesc(f.T, fd.Type(), seen)
		}
	case thrift.LIST, thrift.SET:
		g.checkDesc(t.Elem, d.Elem(), seen)
	case thrift.MAP:
		g.checkDesc(t.Key, d.Key(), seen)
		g.checkDesc(t.Elem, d.Elem(), seen)
	}
}

// doubles: every finite class (signed zeros, least / largest subnormal, least normal, largest finite, 2^53 neighbourhood, powers of
// ten, short decimals, random patterns)
func (g *gen13) finite13() uint64 {
	for {
		d := g.genF64()
		f := math.Float64frombits(d)
		if !math.IsNaN(f) && !math.IsInf(f, 0) {
			return d
		}
	}
}

type opt13 struct {
	unknown   bool // add fields the descriptor does not declare (outside the domain of 1301, inside that of 1302)
	badUTF8   bool
	nonFinite bool
	badBool   bool
}

func (g *gen13) value13(t *Ty, depth int, o *opt13) *Val {
	r := g.r
	v := &Val{T: t}
	switch t.K {
	case thrift.BOOL:
		v.I = int64(r.intn(2))
		if o.badBool && r.chance(30) {
			v.I = int64(2 + r.intn(254))
		}
	case thrift.I08, thrift.I16, thrift.I32, thrift.I64:
		if r.chance(35) {
			b := c02Bounds(t.K)
			v.I = b[r.intn(len(b))]
		} else {
			v.I = g.genInt03(t.K)
		}
	case thrift.DOUBLE:
		v.D = g.finite13()
		if r.chance(6) { // +-2^63, 2^64, 2^53+2, 2^31: integral doubles at the integer-type boundaries (printers with an integer fast path)
			v.D = []uint64{0x43e0000000000000, 0xc3e0000000000000, 0x43f0000000000000, 0x4340000000000001, 0x41e0000000000000, 0xc1e0000000000000}[r.intn(6)]
		}
		if o.nonFinite && r.chance(30) {
			v.D = []uint64{0x7ff0000000000000, 0xfff0000000000000, 0x7ff8000000000000}[r.intn(3)]
		}
	case thrift.STRING:
		if t.Binary {
			n := r.intn(10)
			if r.chance(15) {
				n = 0
			} else if r.chance(10) {
				n = 46 + r.intn(6)
			}
			v.S = r.bytes(n)
		} else {
			v.S = g.genStr03(o.badUTF8)
		}
	case thrift.STRUCT:
		perm := r.permN(len(t.Fields))
		used := map[int16]bool{}
		for _, f := range t.Fields {
			used[f.ID] = true
		}
		for _, i := range perm {
			f := t.Fields[i]
			pAbsent := 20
			if depth > 3 {
				pAbsent = 60
			}
			if depth > 7 {
				pAbsent = 100
			}
			if f.Req != 1 && r.chance(pAbsent) {
				continue
			}
			if o.unknown && r.chance(20) {
				g.addUnknown(v, used, depth, &opt03{})
			}
			v.FIDs = append(v.FIDs, f.ID)
			v.Fields = append(v.Fields, g.value13(f.T, depth+1, o))
		}
	case thrift.LIST, thrift.SET:
		n := r.intn(4)
		if r.chance(15) || depth > 6 {
			n = 0
		} else if r.chance(4) {
			n = 17 + r.intn(20)
		}
		for i := 0; i < n; i++ {
			v.Elems = append(v.Elems, g.value13(t.Elem, depth+1, o))
		}
	case thrift.MAP:
		n := r.intn(4)
		if r.chance(15) || depth > 6 {
			n = 0
		}
		seen := map[string]bool{}
		for i := 0; i < n; i++ {
			k := g.value13(t.Key, depth+1, o)
			if t.Key.K == thrift.STRING && t.Key.Binary {
				// binary KEYS: text (mostly non-empty, valid UTF-8 so that the case stays inside the domain), not random bytes
				k.S = g.genStr03(o.badUTF8)
				if len(k.S) == 0 && r.chance(80) {
					k.S = []byte("ab")
				}
			}
			kb := string(k.encode(nil))
			if seen[kb] {
				continue
			}
			seen[kb] = true
			v.Keys = append(v.Keys, k)
			v.Elems = append(v.Elems, g.value13(t.Elem, depth+1, o))
		}
	}
	return v
}


// ---- rejected conversions interleaved with the round trips ------------------------------------------------------------------
// A conversion's result must not depend on what the same converter / goroutine did before: pooled visitors, native state
// machines and buffers go back to their pools after a REJECTED conversion too.  Right before a valid conversion the harness
// therefore runs (with probability 1/2, same goroutine, same and fresh converter objects) conversions that are rejected half-way:
// documents cut inside a known member, documents rejected inside the value of an UNKNOWN member, truncated / corrupted binary.
// Their outcome is not recorded (rejections are C02 / C03 / C06 / C08 / C09's subject); the model side is unchanged.

// malformed documents derived from a valid one
func c13BadJSON(r *rng, J []byte) [][]byte {
	var out [][]byte
	cut := func(b []byte) []byte {
		if len(b) < 2 {
			return []byte("{")
		}
		return append([]byte(nil), b[:1+r.intn(len(b)-1)]...)
	}
	for n := 1 + r.intn(3); n > 0; n-- {
		switch r.intn(7) {
		case 0: // cut somewhere (inside a known member, a string, a number ...)
			out = append(out, cut(J))
		case 1: // rejected right where the value of an unknown member should start
			out = append(out, []byte(`{"c13_unknown_member":}`))
		case 2: // truncated inside the value of an unknown member
			out = append(out, append([]byte(`{"c13_unknown_member":`), cut(J)...))
		case 3: // known members first, then an unknown member whose value is cut
			if len(J) > 2 && J[0] == '{' && J[len(J)-1] == '}' {
				d := append([]byte(nil), J[:len(J)-1]...)
				if len(J) > 2 {
					d = append(d, ',')
				}
				out = append(out, append(d, []byte(`"c13_unknown_member":[1,{"x":`)...))
			} else {
				out = append(out, append([]byte(`[`), cut(J)...))
			}
		case 4: // unknown member holding a string that never ends
			out = append(out, []byte(`{"c13_unknown_member":"abc`))
		case 5: // wrong bytes after an unknown key
			out = append(out, []byte(`{"c13_unknown_member" 1}`))
		default: // an unknown member with a complete value, then garbage
			out = append(out, append(append([]byte(`{"c13_unknown_member":`), J...), []byte(`,,`)...))
		}
	}
	return out
}

// malformed binary derived from a valid message
func c13BadBin(r *rng, b []byte) [][]byte {
	var out [][]byte
	for n := 1 + r.intn(2); n > 0; n-- {
		if len(b) < 2 {
			out = append(out, []byte{0x0f})
			continue
		}
		switch r.intn(3) {
		case 0:
			out = append(out, append([]byte(nil), b[:1+r.intn(len(b)-1)]...))
		case 1:
			c := append([]byte(nil), b...)
			c[r.intn(len(c))] ^= byte(1 + r.intn(255))
			out = append(out, c[:1+r.intn(len(c))])
		default:
			c := append([]byte(nil), b...)
			c[0] = 0x7f
			out = append(out, c)
		}
	}
	return out
}

// error classes: 0 nil, 1 error, 2 panic, 3 memory fault inside native code
func class13(ok bool, msg string, err error) int {
	if !ok {
		if strings.Contains(msg, "fault address") || strings.Contains(msg, "invalid memory address") {
			return 3
		}
		return 2
	}
	if err != nil {
		return 1
	}
	return 0
}

func run13(g *gen13, desc *thrift.TypeDescriptor, dfs []string, b []byte, o1 int, o2 int) {
	co1 := conv.Options{
		Int642String:         o1&o3Int642String != 0,
		ByteAsUint8:          o1&o3ByteAsUint8 != 0,
		NoBase64Binary:       o1&o3NoBase64Binary != 0,
		DisallowUnknownField: o1&o3DisallowUnknown != 0,
		UseNativeSkip:        o1&o3UseNativeSkip != 0,
		EnableValueMapping:   o1&o3ValueMapping != 0,
	}
	co2 := conv.Options{DisallowUnknownField: o2&1 != 0, String2Int64: o2&2 != 0, NoBase64Binary: o2&4 != 0, EnableValueMapping: o2&8 != 0}
	ctx := context.Background()
	cv1 := t2j.NewBinaryConv(co1)
	cv2 := j2t.NewBinaryConv(co2)
	var J, b2, J2 []byte
	var e1, e2, e3 error
	ec1, ec2, ec3 := 0, 0, 0
	poison := g.r.fork()
	poisonT2J := func(src []byte) {
		if poison.chance(50) {
			for _, bad := range c13BadBin(poison, src) {
				noPanic(func() { cv1.Do(ctx, desc, bad) })
				if poison.chance(30) {
					cvx := t2j.NewBinaryConv(conv.Options{})
					noPanic(func() { cvx.Do(ctx, desc, bad) })
				}
			}
		}
	}
	poisonJ2T := func(doc []byte) {
		if poison.chance(50) {
			for _, bad := range c13BadJSON(poison, doc) {
				noPanic(func() { cv2.Do(ctx, desc, bad) })
				if poison.chance(30) {
					cvx := j2t.NewBinaryConv(conv.Options{})
					noPanic(func() { cvx.Do(ctx, desc, bad) })
				}
			}
		}
	}
	poisonT2J(b)
	ok, msg := noPanic(func() { J, e1 = cv1.Do(ctx, desc, append([]byte(nil), b...)) })
	ec1 = class13(ok, msg, e1)
	if ec1 != 0 {
		J = nil
	}
	Jkeep := append([]byte(nil), J...)
	if ec1 == 0 {
		poisonJ2T(J)
		ok, msg = noPanic(func() { b2, e2 = cv2.Do(ctx, desc, append([]byte(nil), J...)) })
		ec2 = class13(ok, msg, e2)
		if ec2 != 0 {
			b2 = nil
			if debug13 {
				fmt.Fprintf(os.Stderr, "j2t: %v %s\n  J=%s\n", e2, msg, Jkeep)
			}
		}
		b2keep := append([]byte(nil), b2...)
		if ec2 == 0 {
			poisonT2J(b2)
			ok, msg = noPanic(func() { J2, e3 = cv1.Do(ctx, desc, append([]byte(nil), b2...)) })
			ec3 = class13(ok, msg, e3)
			if ec3 != 0 {
				J2 = nil
			}
		}
		b2 = b2keep
	}
	f := []string{}
	f = append(f, dfs...)
	f = append(f, fi(o1), fi(o2))
	f1 := append(append([]string(nil), f...), fx(b), fi(ec1), fx(Jkeep), fi(ec2), fx(b2))
	out.emit(1301, f1...)
	if ec1 == 0 {
		f2 := append(append([]string(nil), f...), fx(Jkeep), fi(ec2), fx(b2), fi(ec3), fx(J2))
		out.emit(1302, f2...)
	}
}

// matching option pairs (t2j bits as in C03, j2t bits as in C02)
func (g *gen13) optPair() (int, int) {
	r := g.r
	o1, o2 := 0, 0
	if r.chance(35) {
		o1 |= o3Int642String
		o2 |= 2
	} else if r.chance(25) {
		o2 |= 2 // String2Int64 alone is harmless
	}
	if r.chance(30) {
		o1 |= o3NoBase64Binary
		o2 |= 4
	}
	if r.chance(25) {
		o1 |= o3DisallowUnknown
	}
	if r.chance(25) {
		o2 |= 1
	}
	if r.chance(30) {
		o1 |= o3UseNativeSkip
	}
	if r.chance(10) {
		o1 |= o3ValueMapping
		o2 |= 8
	}
	return o1, o2
}

func genC13(r *rng, n int) {
	debug.SetPanicOnFault(true) // a memory fault inside the native code becomes a recoverable panic (error class 3)
	// main.go seeds the generator with seed*gamma: the stream of seed k+1 is the stream of seed k shifted by one draw, so the
	// forks of consecutive seeds would coincide.  Re-key from the first draw so that different seeds give unrelated streams.
	r = &rng{s: r.next()*0xbf58476d1ce4e5b9 + 0x2545f4914f6cdd1d}
	// 80 % of the budget: Thrift (1301/1302); 20 %: Protobuf (1311/1312, c13_proto.go)
	if os.Getenv("C13_ONLY_HUGE") != "" { // timing aid: only the 2^21-byte payload cases
		genC13Proto(r.fork(), 0)
		return
	}
	nProto := n / 5
	n -= nProto
	rp := r.fork()
	defer genC13Proto(rp, nProto)
	// widened classes (c13_wide.go): long high-expansion strings through Do / DoInto
	thorough := n >= 20000
	nStr := 60
	if thorough {
		nStr = 150 // fixed counts: the widened classes do not scale with the budget
	}
	n -= genC13ThriftStrings(r.fork(), nStr, thorough)
	made := 0
	batches13 := 0
	for made < n {
		g := newGen13(r.fork())
		idl := g.idl13()
		way := []meta.MapFieldWay{meta.MapFieldUseAlias, meta.MapFieldUseFieldName, meta.MapFieldUseBoth}[g.mapWay]
		svc, err := thrift.Options{MapFieldWay: way}.NewDescritorFromContent(context.Background(), "a.thrift", idl, map[string]string{}, false)
		if err != nil {
			die("C13: generated IDL does not parse: %v\n%s", err, idl)
		}
		desc := svc.Functions()["M"].Request().Struct().FieldById(1).Type()
		g.checkDesc(g.root, desc, map[*Ty]bool{})
		dfs := g.descFields13()
		// retention mode for a share of the descriptors: the whole batch through each leg by DoInto, results read afterwards
		batchMode := g.r.chance(35) && batches13 < 400 // at most a few hundred descriptors, whatever the budget
		if batchMode {
			batches13++
		}
		var batch [][]byte
		bo1, bo2 := g.optPair()
		for k := 0; k < 8 && made < n; k++ {
			vo := &opt13{unknown: g.r.chance(12), badUTF8: g.r.chance(5), nonFinite: g.r.chance(4), badBool: g.r.chance(5)}
			val := g.value13(g.root, 0, vo)
			b := val.encode(nil)
			o1, o2 := g.optPair()
			if debug13 {
				fmt.Fprintf(os.Stderr, "---- case %d way %d o1 %d o2 %d\n%s", made, g.mapWay, o1, o2, idl)
			}
			if batchMode {
				batch = append(batch, b)
				made++
				if len(batch) >= 2+g.r.intn(4) || k == 7 || made >= n {
					run13Batch(g, desc, dfs, batch, bo1, bo2)
					batch = nil
				}
				continue
			}
			run13(g, desc, dfs, b, o1, o2)
			made++
		}
		if len(batch) > 0 {
			run13Batch(g, desc, dfs, batch, bo1, bo2)
		}
	}
}
