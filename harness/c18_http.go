//go:build verif

package main

// C18 / 1809: HTTP-mapped requests (EnableHttpMapping with every combination of the write / fallback / traceback options) through the
// three native flavours and the portable converter. The request shapes, annotation lists and populated sources are those of C17's
// generator (c17_gen.go); C17 judges the VALUE against its model for the default flavour, this check judges AGREEMENT of the four
// implementations (the Go glue that resumes the native state machine after every hand-back — http mapping, unmatched fields,
// value mapping — is flavour independent, the state machine itself is not).

import (
	"context"
	"strings"

	"github.com/cloudwego/dynamicgo/conv"
	"github.com/cloudwego/dynamicgo/conv/j2t"
	"github.com/cloudwego/dynamicgo/conv/j2tportable"
	"github.com/cloudwego/dynamicgo/http"
	"github.com/cloudwego/dynamicgo/thrift"
)

type httpItem struct {
	desc     *thrift.TypeDescriptor
	bits     int
	pops     []hPop
	bodyKind int
	jbody    []byte
	uriPath  string
	res      [4]c18Res
}

func (it *httpItem) run(fl int) {
	req, _, err := buildRequest2(it.pops, it.bodyKind, it.jbody, it.uriPath)
	if err != nil {
		it.res[fl] = c18Res{err: 5} // the request itself cannot be built: not an observation
		return
	}
	ctx := context.WithValue(context.Background(), conv.CtxKeyHTTPRequest, http.RequestGetter(req))
	ctx = context.WithValue(ctx, conv.CtxKeyConvOptions, c17Opts(it.bits))
	body := append([]byte(nil), it.jbody...)
	var outb []byte
	var cerr error
	ok, _ := noPanic(func() {
		if fl == 3 {
			cv := j2tportable.NewBinaryConv(c17Opts(it.bits))
			outb, cerr = cv.Do(ctx, it.desc, body)
		} else {
			cv := j2t.NewBinaryConv(c17Opts(it.bits))
			outb, cerr = cv.Do(ctx, it.desc, body)
		}
	})
	switch {
	case !ok:
		it.res[fl] = c18Res{err: 3}
	case cerr != nil:
		it.res[fl] = c18Res{err: 1}
	default:
		it.res[fl] = c18Res{out: append([]byte(nil), outb...)}
	}
}

func (it *httpItem) emit(mask int) {
	var src []byte // the populated sources, for the replay file only
	for _, p := range it.pops {
		src = append(src, []byte(hkName[p.Kind]+"="+p.Key+"="+p.Val+"\n")...)
	}
	f := []string{fi(it.bits), fi(it.bodyKind), fx(it.jbody), fx(src), fi(mask)}
	for i := 0; i < 4; i++ {
		f = append(f, fx(it.res[i].out), fi(it.res[i].err))
	}
	out.emit(1809, f...)
}

func genC18Http(r *rng, n int) []c18Item {
	var items []c18Item
	for d := 0; d < n/60+4; d++ {
		g := &hgen{r: r.fork(), annPct: 65}
		root := g.annStruct(0, 2+r.intn(5))
		idl := g.idl(root)
		desc, _, err := c17Parse(idl)
		if err != nil {
			continue
		}
		for i := 0; i < 8; i++ {
			bits := r.intn(64)
			if r.chance(50) { // the fallback / traceback combinations that make the native state machine hand back at the end of every struct
				bits = []int{oRHF | oTB, oRHF | oTB | oWD, oTB | oWR, oRHF | oWR | oWD | oWO, oRHF, oTB}[r.intn(6)]
			}
			bodyKind := []int{0, 1, 2, 2, 2}[r.intn(5)]
			density := []int{15, 40, 75}[r.intn(3)]
			var pops []hPop
			for _, s := range g.structs {
				for _, f := range s.Fields {
					fkeys := []string{f.Name}
					for _, a := range f.Anns {
						if a.Key != f.Name {
							fkeys = append(fkeys, a.Key)
						}
					}
					mask := r.intn(64)
					for bi, kind := range hkKeyed {
						if mask&(1<<bi) == 0 {
							continue
						}
						for _, k := range fkeys {
							if r.chance(density) || (len(f.Anns) > 0 && r.chance(40)) {
								val := g.httpText(f.T)
								if kind == hkCookie && strings.ContainsAny(val, "\"\\;") && r.chance(90) {
									continue
								}
								pops = append(pops, hPop{Kind: kind, Key: k, Val: val})
							}
						}
					}
				}
			}
			var jbody []byte
			if bodyKind == 2 {
				jbody = []byte(g.jsonText(root, 0))
			}
			items = append(items, &httpItem{desc: desc, bits: bits, pops: pops, bodyKind: bodyKind, jbody: jbody, uriPath: []string{"/", "/p/a", "/items/7"}[r.intn(3)]})
		}
	}
	return items
}
