//go:build verif

// C06 corpus: well-formed Thrift / Protobuf / JSON messages with the byte positions of their type, count,
// length and tag fields, and the malformed inputs derived from them (truncations, substitutions at those
// positions, huge counts/lengths, nesting around the depth limit, random bytes). Everything derives from the rng.
package main

import (
	"context"
	"encoding/binary"
	"fmt"
	"math"
	"strings"

	"github.com/cloudwego/dynamicgo/proto"
	"github.com/cloudwego/dynamicgo/thrift"
)

// ---- Thrift ------------------------------------------------------------------------------------

type bpos struct {
	off  int
	kind byte // 'T' type byte, 'C' container count (4 bytes), 'L' string length (4 bytes), 'I' field id (2 bytes)
}

func (v *Val) encodePos(b []byte, ps *[]bpos) []byte {
	switch v.T.K {
	case thrift.STRING:
		*ps = append(*ps, bpos{len(b), 'L'})
		b = binary.BigEndian.AppendUint32(b, uint32(len(v.S)))
		return append(b, v.S...)
	case thrift.STRUCT:
		for i, id := range v.FIDs {
			*ps = append(*ps, bpos{len(b), 'T'})
			b = append(b, byte(v.Fields[i].T.K))
			*ps = append(*ps, bpos{len(b), 'I'})
			b = binary.BigEndian.AppendUint16(b, uint16(id))
			b = v.Fields[i].encodePos(b, ps)
		}
		*ps = append(*ps, bpos{len(b), 'T'})
		return append(b, 0)
	case thrift.LIST, thrift.SET:
		*ps = append(*ps, bpos{len(b), 'T'})
		b = append(b, byte(v.T.Elem.K))
		*ps = append(*ps, bpos{len(b), 'C'})
		b = binary.BigEndian.AppendUint32(b, uint32(len(v.Elems)))
		for _, e := range v.Elems {
			b = e.encodePos(b, ps)
		}
		return b
	case thrift.MAP:
		*ps = append(*ps, bpos{len(b), 'T'})
		*ps = append(*ps, bpos{len(b) + 1, 'T'})
		b = append(b, byte(v.T.Key.K), byte(v.T.Elem.K))
		*ps = append(*ps, bpos{len(b), 'C'})
		b = binary.BigEndian.AppendUint32(b, uint32(len(v.Elems)))
		for i, e := range v.Elems {
			b = v.Keys[i].encodePos(b, ps)
			b = e.encodePos(b, ps)
		}
		return b
	}
	return v.encode(b)
}

type tmsg struct {
	root  *Ty
	desc  *thrift.TypeDescriptor // descriptor of the root struct
	val   *Val
	buf   []byte
	pos   []bpos
	paths [][]Step
}

type c06input struct {
	b     []byte
	class string // valid | trunc | type | count | len | id | flip | nest | random
	msg   int    // index of the message whose descriptor / type applies
}

var typeSubst = []byte{0, 1, 2, 3, 4, 5, 6, 8, 10, 11, 12, 13, 14, 15, 16, 17, 0x7f, 0xff}
var countSubst = []uint32{0x7fffffff, 0xffffffff, 0x80000000, 1 << 18, 0x01000000, 3000, 255}

func genThriftMsgs(r *rng, n int) []*tmsg {
	var out []*tmsg
	for len(out) < n {
		g := newTgen(r.fork())
		g.maxDepth = 2 + r.intn(3)
		g.structKeys = r.chance(30)
		root := g.genStruct(0)
		idl := g.idl(root)
		desc, err := parseThrift(idl, thrift.Options{})
		if err != nil {
			continue
		}
		v := g.genValue(root, 0)
		m := &tmsg{root: root, desc: desc, val: v}
		m.buf = v.encodePos(nil, &m.pos)
		if len(m.buf) > 600 {
			continue
		}
		v.allPaths(nil, &m.paths, 12, g.r)
		out = append(out, m)
	}
	return out
}

func cloneBytes(b []byte) []byte { return append([]byte(nil), b...) }

// malformed variants of one thrift message. budget bounds the number of substitutions per position kind.
func thriftVariants(r *rng, mi int, m *tmsg, maxTrunc, budget int) []c06input {
	var out []c06input
	out = append(out, c06input{m.buf, "valid", mi})
	// every truncation point (sampled when the message is long)
	step := 1
	if len(m.buf) > maxTrunc {
		step = (len(m.buf) + maxTrunc - 1) / maxTrunc
	}
	for k := r.intn(step); k < len(m.buf); k += step {
		out = append(out, c06input{m.buf[:k], "trunc", mi})
	}
	pick := func(kind byte) []bpos {
		var ps []bpos
		for _, p := range m.pos {
			if p.kind == kind {
				ps = append(ps, p)
			}
		}
		for len(ps) > budget {
			i := r.intn(len(ps))
			ps = append(ps[:i], ps[i+1:]...)
		}
		return ps
	}
	for _, p := range pick('T') {
		for k := 0; k < 3; k++ {
			c := cloneBytes(m.buf)
			c[p.off] = typeSubst[r.intn(len(typeSubst))]
			out = append(out, c06input{c, "type", mi})
		}
	}
	for _, p := range pick('C') {
		for _, cv := range countSubst {
			c := cloneBytes(m.buf)
			binary.BigEndian.PutUint32(c[p.off:], cv)
			out = append(out, c06input{c, "count", mi})
		}
		c := cloneBytes(m.buf)
		binary.BigEndian.PutUint32(c[p.off:], uint32(len(m.buf)-p.off))
		out = append(out, c06input{c, "count", mi})
	}
	for _, p := range pick('L') {
		for _, cv := range []uint32{0x7fffffff, 0xffffffff, 0x80000000, uint32(len(m.buf) - p.off - 3), uint32(len(m.buf) - p.off - 4), 1 << 24} {
			c := cloneBytes(m.buf)
			binary.BigEndian.PutUint32(c[p.off:], cv)
			out = append(out, c06input{c, "len", mi})
		}
	}
	for _, p := range pick('I') {
		c := cloneBytes(m.buf)
		binary.BigEndian.PutUint16(c[p.off:], uint16(r.next()))
		out = append(out, c06input{c, "id", mi})
	}
	for k := 0; k < budget && len(m.buf) > 0; k++ {
		c := cloneBytes(m.buf)
		c[r.intn(len(c))] = byte(r.next())
		out = append(out, c06input{c, "flip", mi})
	}
	return out
}

// n nested containers of one kind, innermost one empty. kind: 0 list<list<..>>, 1 struct{1: struct{..}}, 2 map<i32, map<..>>, 3 set
func thriftNest(kind, n int) (thrift.Type, []byte) {
	var b []byte
	switch kind {
	case 0, 3:
		t := thrift.LIST
		if kind == 3 {
			t = thrift.SET
		}
		for i := 0; i < n-1; i++ {
			b = append(b, byte(t), 0, 0, 0, 1)
		}
		b = append(b, byte(thrift.I32), 0, 0, 0, 0)
		return t, b
	case 1:
		for i := 0; i < n-1; i++ {
			b = append(b, byte(thrift.STRUCT), 0, 1)
		}
		for i := 0; i < n; i++ {
			b = append(b, 0)
		}
		return thrift.STRUCT, b
	default:
		for i := 0; i < n-1; i++ {
			b = append(b, byte(thrift.I32), byte(thrift.MAP), 0, 0, 0, 1, 0, 0, 0, 7)
		}
		b = append(b, byte(thrift.I32), byte(thrift.I32), 0, 0, 0, 0)
		return thrift.MAP, b
	}
}

// ---- Protobuf ----------------------------------------------------------------------------------

const c06Proto = `syntax = "proto3";
package verif;
message Inner {
  int32 a = 1;
  string s = 2;
  repeated int32 pk = 3;
  Inner rec = 4;
  map<string, int32> m = 5;
}
message Outer {
  int32 i32 = 1;
  int64 i64 = 2;
  uint32 u32 = 3;
  uint64 u64 = 4;
  sint32 s32 = 5;
  sint64 s64 = 6;
  fixed32 f32 = 7;
  repeated int64 pk64 = 8;
  fixed64 f64 = 9;
  sfixed32 sf32 = 10;
  sfixed64 sf64 = 11;
  float fl = 12;
  double db = 13;
  bool b = 14;
  string str = 15;
  bytes byt = 16;
  Inner in = 17;
  repeated string rs = 18;
  repeated Inner rin = 19;
  repeated fixed32 pkf = 20;
  map<string, Inner> msi = 21;
  map<int32, string> mis = 22;
  repeated double pkd = 23;
  repeated bool pkb = 24;
  map<int64, Inner> mii = 25;
  repeated sint32 pks = 2000;
}
message Empty {}
service Svc { rpc M(Outer) returns (Outer); rpc E(Empty) returns (Inner); }
`

type pfield struct {
	num    int
	kind   string // int32 int64 uint32 uint64 sint32 sint64 fixed32 fixed64 sfixed32 sfixed64 float double bool string bytes msg
	rep    bool   // repeated (scalars numeric => packed)
	mapKey string // non-empty: map with this key kind; kind is the value kind
	msg    *pschema
}
type pschema struct {
	name   string
	fields []pfield
}

var pInner = &pschema{name: "Inner"}
var pOuter = &pschema{name: "Outer"}

func init() {
	pInner.fields = []pfield{{num: 1, kind: "int32"}, {num: 2, kind: "string"}, {num: 3, kind: "int32", rep: true}, {num: 4, kind: "msg", msg: pInner},
		{num: 5, kind: "int32", mapKey: "string"}}
	pOuter.fields = []pfield{{num: 1, kind: "int32"}, {num: 2, kind: "int64"}, {num: 3, kind: "uint32"}, {num: 4, kind: "uint64"}, {num: 5, kind: "sint32"},
		{num: 6, kind: "sint64"}, {num: 7, kind: "fixed32"}, {num: 8, kind: "int64", rep: true}, {num: 9, kind: "fixed64"}, {num: 10, kind: "sfixed32"},
		{num: 11, kind: "sfixed64"}, {num: 12, kind: "float"}, {num: 13, kind: "double"}, {num: 14, kind: "bool"}, {num: 15, kind: "string"},
		{num: 16, kind: "bytes"}, {num: 17, kind: "msg", msg: pInner}, {num: 18, kind: "string", rep: true}, {num: 19, kind: "msg", rep: true, msg: pInner},
		{num: 20, kind: "fixed32", rep: true}, {num: 21, kind: "msg", mapKey: "string", msg: pInner}, {num: 22, kind: "string", mapKey: "int32"},
		{num: 23, kind: "double", rep: true}, {num: 24, kind: "bool", rep: true}, {num: 25, kind: "msg", mapKey: "int64", msg: pInner},
		{num: 2000, kind: "sint32", rep: true}}
}

func pWire(kind string) int {
	switch kind {
	case "fixed32", "sfixed32", "float":
		return 5
	case "fixed64", "sfixed64", "double":
		return 1
	case "string", "bytes", "msg":
		return 2
	}
	return 0
}

func appendVarint(b []byte, v uint64) []byte {
	for v >= 0x80 {
		b = append(b, byte(v)|0x80)
		v >>= 7
	}
	return append(b, byte(v))
}

type ppos struct {
	off  int
	kind byte // 'G' tag, 'N' length varint, 'V' varint value
	n    int  // encoded length of the varint at off
}

type penc struct {
	r   *rng
	b   []byte
	pos []ppos
}

func (e *penc) varint(v uint64, kind byte) {
	o := len(e.b)
	e.b = appendVarint(e.b, v)
	e.pos = append(e.pos, ppos{o, kind, len(e.b) - o})
}

func (e *penc) scalar(kind string) {
	r := e.r
	switch kind {
	case "int32", "int64", "uint32", "uint64", "sint32", "sint64":
		v := r.u64()
		if kind == "uint32" || kind == "sint32" {
			v &= 0xffffffff
		}
		if kind == "int32" {
			v = uint64(int64(int32(v)))
		}
		e.varint(v, 'V')
	case "bool":
		e.varint(uint64(r.intn(2)), 'V')
	case "fixed32", "sfixed32":
		e.b = binary.LittleEndian.AppendUint32(e.b, uint32(r.next()))
	case "float":
		e.b = binary.LittleEndian.AppendUint32(e.b, math.Float32bits(float32(r.intn(1000))/8))
	case "fixed64", "sfixed64":
		e.b = binary.LittleEndian.AppendUint64(e.b, r.next())
	case "double":
		e.b = binary.LittleEndian.AppendUint64(e.b, math.Float64bits(float64(r.intn(100000))/16))
	case "string":
		s := strAlphabet[r.intn(len(strAlphabet))]
		e.varint(uint64(len(s)), 'N')
		e.b = append(e.b, s...)
	case "bytes":
		s := r.bytes(r.intn(9))
		e.varint(uint64(len(s)), 'N')
		e.b = append(e.b, s...)
	}
}

// length-delimited payload written by f, length prefix patched in front
func (e *penc) delimited(f func()) {
	sub := &penc{r: e.r}
	saved := e.b
	e.b = nil
	savedPos := e.pos
	e.pos = nil
	f()
	payload, ppos2 := e.b, e.pos
	e.b, e.pos = saved, savedPos
	_ = sub
	e.varint(uint64(len(payload)), 'N')
	base := len(e.b)
	e.b = append(e.b, payload...)
	for _, p := range ppos2 {
		p.off += base
		e.pos = append(e.pos, p)
	}
}

func (e *penc) tag(num, wt int) { e.varint(uint64(num)<<3|uint64(wt), 'G') }

func (e *penc) value(f pfield, depth int) {
	if f.kind == "msg" {
		e.delimited(func() { e.message(f.msg, depth+1) })
		return
	}
	e.scalar(f.kind)
}

func (e *penc) message(s *pschema, depth int) {
	r := e.r
	for _, f := range s.fields {
		if r.chance(45) {
			continue
		}
		if f.kind == "msg" && depth >= 3 {
			continue
		}
		n := 1
		if f.rep || f.mapKey != "" {
			n = 1 + r.intn(4)
		}
		switch {
		case f.mapKey != "":
			for i := 0; i < n; i++ {
				f := f
				e.tag(f.num, 2)
				e.delimited(func() {
					e.tag(1, pWire(f.mapKey))
					e.scalar(f.mapKey)
					e.tag(2, pWire(f.kind))
					e.value(pfield{kind: f.kind, msg: f.msg}, depth)
				})
			}
		case f.rep && pWire(f.kind) != 2: // packed
			f := f
			e.tag(f.num, 2)
			e.delimited(func() {
				for i := 0; i < n; i++ {
					e.scalar(f.kind)
				}
			})
		case f.rep:
			for i := 0; i < n; i++ {
				e.tag(f.num, 2)
				e.value(f, depth)
			}
		default:
			e.tag(f.num, pWire(f.kind))
			e.value(f, depth)
		}
	}
}

type pmsg struct {
	buf []byte
	pos []ppos
}

var c06ProtoDescs struct {
	outer, inner, empty *proto.TypeDescriptor
}

func loadProtoDescs() {
	if c06ProtoDescs.outer != nil {
		return
	}
	svc, err := proto.NewDescritorFromContent(context.Background(), "c06.proto", c06Proto, map[string]string{})
	if err != nil {
		die("c06 proto idl: %v", err)
	}
	c06ProtoDescs.outer = svc.LookupMethodByName("M").Input()
	c06ProtoDescs.empty = svc.LookupMethodByName("E").Input()
	c06ProtoDescs.inner = svc.LookupMethodByName("E").Output()
}

func genProtoMsgs(r *rng, n int) []*pmsg {
	var out []*pmsg
	for len(out) < n {
		e := &penc{r: r.fork()}
		e.message(pOuter, 0)
		if len(e.b) == 0 || len(e.b) > 500 {
			continue
		}
		out = append(out, &pmsg{e.b, e.pos})
	}
	return out
}

var bigVarints = []uint64{0x7fffffff, 0xffffffff, 1 << 32, 1 << 62, 1<<63 - 1, 1 << 63, 1<<64 - 1, 1<<64 - 10, 1<<64 - 5, 1<<63 - 5, 1 << 20, 1 << 35}

func protoVariants(r *rng, mi int, m *pmsg, maxTrunc, budget int) []c06input {
	var out []c06input
	out = append(out, c06input{m.buf, "valid", mi})
	step := 1
	if len(m.buf) > maxTrunc {
		step = (len(m.buf) + maxTrunc - 1) / maxTrunc
	}
	for k := r.intn(step); k < len(m.buf); k += step {
		out = append(out, c06input{m.buf[:k], "trunc", mi})
	}
	replaceVarint := func(p ppos, v uint64) []byte {
		c := append([]byte(nil), m.buf[:p.off]...)
		c = appendVarint(c, v)
		return append(c, m.buf[p.off+p.n:]...)
	}
	pick := func(kind byte) []ppos {
		var ps []ppos
		for _, p := range m.pos {
			if p.kind == kind {
				ps = append(ps, p)
			}
		}
		for len(ps) > budget {
			i := r.intn(len(ps))
			ps = append(ps[:i], ps[i+1:]...)
		}
		return ps
	}
	for _, p := range pick('G') {
		// wire type / field number substitutions
		old := m.buf[p.off]
		for k := 0; k < 3; k++ {
			c := cloneBytes(m.buf)
			c[p.off] = old&^7 | byte(r.intn(8))
			out = append(out, c06input{c, "tag", mi})
		}
		out = append(out, c06input{replaceVarint(p, uint64(r.next())), "tag", mi})
		out = append(out, c06input{replaceVarint(p, uint64(r.intn(30))<<3|uint64(r.intn(8))), "tag", mi})
		out = append(out, c06input{replaceVarint(p, 0), "tag", mi})
	}
	for _, p := range pick('N') {
		for _, v := range bigVarints {
			out = append(out, c06input{replaceVarint(p, v), "len", mi})
		}
		out = append(out, c06input{replaceVarint(p, uint64(len(m.buf)-p.off)), "len", mi})
		out = append(out, c06input{replaceVarint(p, uint64(r.intn(8))), "len", mi})
	}
	for _, p := range pick('M') {
		for _, v := range bigVarints {
			out = append(out, c06input{replaceVarint(p, v), "lennest", mi})
		}
		out = append(out, c06input{replaceVarint(p, uint64(len(m.buf)-p.off)), "lennest", mi})
		out = append(out, c06input{replaceVarint(p, uint64(r.intn(8))), "lennest", mi})
	}
	for _, p := range pick('V') {
		// over-long / unterminated varints
		c := append([]byte(nil), m.buf[:p.off]...)
		for i := 0; i < 9+r.intn(3); i++ {
			c = append(c, 0xff)
		}
		out = append(out, c06input{append(c, m.buf[p.off+p.n:]...), "varint", mi})
	}
	for k := 0; k < budget && len(m.buf) > 0; k++ {
		c := cloneBytes(m.buf)
		c[r.intn(len(c))] = byte(r.next())
		out = append(out, c06input{c, "flip", mi})
	}
	return out
}

// n nested Inner.rec messages inside Outer.in
func protoNest(n int) []byte {
	inner := []byte{}
	for i := 0; i < n; i++ {
		b := []byte{4<<3 | 2}
		b = appendVarint(b, uint64(len(inner)))
		inner = append(b, inner...)
	}
	b := []byte{0x8a, 0x01} // field 17, wire type 2
	b = appendVarint(b, uint64(len(inner)))
	return append(b, inner...)
}

// ---- JSON --------------------------------------------------------------------------------------

func jsonVariants(r *rng, mi int, js []byte, maxTrunc, budget int) []c06input {
	var out []c06input
	out = append(out, c06input{js, "valid", mi})
	step := 1
	if len(js) > maxTrunc {
		step = (len(js) + maxTrunc - 1) / maxTrunc
	}
	for k := r.intn(step); k < len(js); k += step {
		out = append(out, c06input{js[:k], "trunc", mi})
	}
	structural := []byte(`{}[]",:\-0123456789.eEtfn `)
	for k := 0; k < budget*3 && len(js) > 0; k++ {
		c := cloneBytes(js)
		i := r.intn(len(c))
		switch r.intn(3) {
		case 0:
			c[i] = structural[r.intn(len(structural))]
		case 1:
			c[i] = byte(r.next())
		default:
			// duplicate / drop a byte
			if r.bool() {
				c = append(c[:i], c[i+1:]...)
			} else {
				c = append(c[:i+1], c[i:]...)
			}
		}
		out = append(out, c06input{c, "flip", mi})
	}
	return out
}

func jsonSpecials() [][]byte {
	deep := func(open, close string, n int) []byte {
		return []byte(strings.Repeat(open, n) + strings.Repeat(close, n))
	}
	var out [][]byte
	for _, n := range []int{100, 1000, 4095, 4096, 4097, 20000} {
		out = append(out, deep("[", "]", n), deep(`{"a":`, "}", n), []byte(strings.Repeat("[", n)), []byte(strings.Repeat(`{"a":`, n)))
	}
	for _, s := range []string{"", " ", "nul", "tru", `"`, `"\`, `"\u`, `"\u12`, `"\ud800`, `"\ud800\u`, `{"a"`, `{"a":`, `{"a":1,`, `[1,`, "-", "1e", "1e+", "0.", "1" + strings.Repeat("0", 400),
		"1e999999", "-1e-999999", `"` + strings.Repeat("a", 5000), strings.Repeat(" ", 3000), "\xff\xfe", `{"a":"\xff"}`, `{"\u0000":1}`, fmt.Sprintf(`{"a":%s}`, strings.Repeat("9", 40))} {
		out = append(out, []byte(s))
	}
	return out
}
