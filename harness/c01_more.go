//go:build verif

package main

import (
	"bytes"
	"fmt"
	"encoding/binary"
	"math"
	"sort"

	"github.com/cloudwego/dynamicgo/thrift"
	"github.com/cloudwego/dynamicgo/thrift/generic"
)

// C01, second part: bulk lookups (GetMany / Fields / Indexes / Gets), iterators (Foreach / ForeachKV, Node and Value),
// conversions to Go values (Interface / List / StrMap / IntMap / InterfaceMap with options), lookup by field NAME
// (typed) vs by id (untyped), descriptor lookup by path, and values nested close to the skip depth limit.

func optsOf(bits int) *generic.Options {
	return &generic.Options{
		UseNativeSkip:       bits&1 != 0,
		ClearDirtyValues:    bits&2 != 0,
		CastStringAsBinary:  bits&4 != 0,
		MapStructById:       bits&8 != 0,
		IterateStructByName: bits&16 != 0,
		StoreChildrenById:   bits&64 != 0,
		StoreChildrenByHash: bits&128 != 0,
	}
}

// observation of a PathNode result of a bulk lookup: an untouched (empty) node is "not found"
func observeMany(raw []byte, n generic.Node) []string {
	if n.IsEmpty() {
		return []string{"n1", "n0", "n0", "n0"}
	}
	return observe(raw, n)
}

func isContainerKind(k thrift.Type) bool {
	return k == thrift.STRUCT || k == thrift.LIST || k == thrift.SET || k == thrift.MAP
}

// a request list for the container cv: present children in arbitrary order, absent ones, duplicates, bad indexes
func (g *tgen) bulkRequest(cv *Val) []Step {
	r := g.r
	var pool []Step
	switch cv.T.K {
	case thrift.STRUCT:
		for _, id := range cv.FIDs {
			pool = append(pool, Step{Kind: 1, N: int64(id)})
		}
		for _, f := range cv.T.Fields { // declared, maybe absent
			pool = append(pool, Step{Kind: 1, N: int64(f.ID)})
		}
		pool = append(pool, Step{Kind: 1, N: int64(1 + r.intn(32767))})
	case thrift.LIST, thrift.SET:
		n := len(cv.Elems)
		for i := 0; i < n; i++ {
			pool = append(pool, Step{Kind: 2, N: int64(i)})
		}
		pool = append(pool, Step{Kind: 2, N: int64(n)}, Step{Kind: 2, N: int64(n + 1 + r.intn(4))}, Step{Kind: 2, N: -1 - int64(r.intn(3))})
	case thrift.MAP:
		kk := cv.T.Key.K
		fam := 5
		if kk == thrift.STRING && r.chance(60) {
			fam = 3
		} else if (kk == thrift.I16 || kk == thrift.I32 || kk == thrift.I64 || kk == thrift.I08) && r.chance(60) {
			fam = 4
		}
		mk := func(k *Val) (Step, bool) {
			switch fam {
			case 3:
				return Step{Kind: 3, B: k.S}, true
			case 4:
				if kk == thrift.I08 && k.I < 0 {
					// the generic layer reads an I08 key as an UNSIGNED byte: key bytes 0x80..0xff are the int keys 128..255
					return Step{Kind: 4, N: k.I + 256}, true
				}
				return Step{Kind: 4, N: k.I}, true
			}
			return Step{Kind: 5, B: k.encode(nil)}, true
		}
		for _, k := range cv.Keys {
			if st, ok := mk(k); ok {
				pool = append(pool, st)
			}
		}
		for i := 0; i < 2; i++ { // probably absent keys
			if st, ok := mk(g.genValue(cv.T.Key, 9)); ok {
				pool = append(pool, st)
			}
		}
	}
	if len(pool) == 0 {
		return nil
	}
	k := 1 + r.intn(5)
	var req []Step
	for i := 0; i < k; i++ {
		req = append(req, pool[r.intn(len(pool))]) // with repetition: arbitrary order, duplicates
	}
	if r.chance(30) { // every present child, reversed
		req = nil
		for i := len(pool) - 1; i >= 0; i-- {
			req = append(req, pool[i])
		}
		if len(req) > 12 {
			req = req[:12]
		}
	}
	return req
}

func pathStep(s Step) generic.Path { return toPath([]Step{s})[0] }

// Step form of a path passed to a Foreach handler
func stepOfPath(p generic.Path, parent *Ty) Step {
	switch p.Type() {
	case generic.PathFieldId:
		return Step{Kind: 1, N: int64(p.Id())}
	case generic.PathFieldName:
		id := int64(-1)
		if parent != nil {
			for _, f := range parent.Fields {
				if f.Name == p.Str() {
					id = int64(f.ID)
				}
			}
		}
		return Step{Kind: 6, B: []byte(p.Str()), NameID: id}
	case generic.PathIndex:
		return Step{Kind: 2, N: int64(p.Int())}
	case generic.PathStrKey:
		return Step{Kind: 3, B: []byte(p.Str())}
	case generic.PathIntKey:
		return Step{Kind: 4, N: int64(p.Int())}
	case generic.PathBinKey:
		return Step{Kind: 5, B: append([]byte(nil), p.Bin()...)}
	}
	return Step{Kind: 9}
}

// ---- canonical dump of a Go value returned by Interface() & co (maps sorted by the dump of the key) ----
func dumpGo(v interface{}, b []byte) []byte {
	u32 := func(b []byte, n int) []byte { return binary.BigEndian.AppendUint32(b, uint32(n)) }
	type kv struct{ k, v []byte }
	emitMap := func(b []byte, sub byte, ps []kv) []byte {
		sort.Slice(ps, func(i, j int) bool {
			if c := bytes.Compare(ps[i].k, ps[j].k); c != 0 {
				return c < 0
			}
			return bytes.Compare(ps[i].v, ps[j].v) < 0 // equal container keys are distinct (pointer) keys of the Go map
		})
		b = append(b, 7, sub)
		b = u32(b, len(ps))
		for _, p := range ps {
			b = append(b, p.k...)
			b = append(b, p.v...)
		}
		return b
	}
	switch x := v.(type) {
	case bool:
		if x {
			return append(b, 1, 1)
		}
		return append(b, 1, 0)
	case int:
		return binary.BigEndian.AppendUint64(append(b, 2), uint64(int64(x)))
	case float64:
		return binary.BigEndian.AppendUint64(append(b, 3), math.Float64bits(x))
	case string:
		return append(u32(append(b, 4), len(x)), x...)
	case []byte:
		return append(u32(append(b, 5), len(x)), x...)
	case []interface{}:
		b = u32(append(b, 6), len(x))
		for _, e := range x {
			b = dumpGo(e, b)
		}
		return b
	case map[string]interface{}:
		var ps []kv
		for k, e := range x {
			ps = append(ps, kv{dumpGo(k, nil), dumpGo(e, nil)})
		}
		return emitMap(b, 1, ps)
	case map[int]interface{}:
		var ps []kv
		for k, e := range x {
			ps = append(ps, kv{dumpGo(k, nil), dumpGo(e, nil)})
		}
		return emitMap(b, 2, ps)
	case map[thrift.FieldID]interface{}:
		var ps []kv
		for k, e := range x {
			ps = append(ps, kv{dumpGo(int(k), nil), dumpGo(e, nil)})
		}
		return emitMap(b, 4, ps)
	case map[interface{}]interface{}:
		var ps []kv
		for k, e := range x {
			ps = append(ps, kv{dumpGo(k, nil), dumpGo(e, nil)})
		}
		return emitMap(b, 3, ps)
	case *map[string]interface{}:
		return dumpGo(*x, b)
	case *map[int]interface{}:
		return dumpGo(*x, b)
	case *map[interface{}]interface{}:
		return dumpGo(*x, b)
	case *map[thrift.FieldID]interface{}:
		return dumpGo(*x, b)
	case *[]interface{}:
		return dumpGo(*x, b)
	}
	return append(b, 255)
}

func genC01More(r *rng, g *tgen, root *Ty, desc *thrift.TypeDescriptor, val *Val, buf []byte, paths [][]Step, db []byte) {
	rootNode := generic.NewNode(thrift.STRUCT, buf)
	rootVal := generic.NewValue(desc, buf)
	for _, p := range paths {
		cv := val.at(p)
		if cv == nil {
			continue
		}
		ct := typeAt(root, p)
		// ---- 107: descriptor lookup by path (typed side) must give the type of the element the path addresses ----
		if len(p) >= 1 && ct != nil && declaredIn(root, p) && r.chance(25) {
			var d *thrift.TypeDescriptor
			var derr error
			ok, _ := noPanic(func() { d, derr = generic.GetDescByPath(desc, toPath(p)...) })
			f := []string{fi(int(thrift.STRUCT)), fx(buf)}
			f = append(f, pathFields(p)...)
			switch {
			case !ok:
				f = append(f, "n3", "n0")
			case derr != nil || d == nil:
				f = append(f, "n2", "n0")
			default:
				f = append(f, "n0", fi(int(d.Type())))
			}
			// the root's declared fields (abstract shape), for the classification of the known deviation
			f = append(f, fi(len(root.Fields)))
			for _, fd := range root.Fields {
				f = append(f, fi(int(fd.ID)), fi(int(fd.T.K)))
			}
			out.emit(107, f...)
		}
		if !isContainerKind(cv.T.K) {
			continue
		}
		sub := rootNode.GetByPath(toPath(p)...)
		if sub.IsError() {
			continue
		}
		raw := sub.Raw()
		head := []string{fi(int(cv.T.K)), fx(raw)}

		// ---- 103: bulk lookup ----
		if r.chance(30) {
			req := g.bulkRequest(cv)
			if len(req) > 0 {
				api := 1 + r.intn(2)
				ob := r.intn(4) // UseNativeSkip, ClearDirtyValues
				pns := make([]generic.PathNode, len(req))
				for i, s := range req {
					pns[i].Path = pathStep(s)
					if ob&2 != 0 {
						// a REUSED query slice: stale nodes from an earlier answer must be cleared (ClearDirtyValues)
						pns[i].Node = generic.NewNode(thrift.I32, []byte{0, 0, 0, 9})
					}
				}
				var e error
				ok, _ := noPanic(func() {
					if api == 1 {
						e = sub.GetMany(pns, optsOf(ob))
					} else {
						switch cv.T.K {
						case thrift.STRUCT:
							e = sub.Fields(pns, optsOf(ob))
						case thrift.LIST, thrift.SET:
							e = sub.Indexes(pns, optsOf(ob))
						default:
							e = sub.Gets(pns, optsOf(ob))
						}
					}
				})
				f := append([]string(nil), head...)
				f = append(f, fi(api), fi(ob))
				f = append(f, pathFields(req)...)
				switch {
				case !ok:
					f = append(f, "n3")
				case e != nil:
					f = append(f, "n2")
				default:
					f = append(f, "n0")
				}
				for i := range pns {
					if ok {
						f = append(f, observeMany(raw, pns[i].Node)...)
					} else {
						f = append(f, panicObs...)
					}
				}
				out.emit(103, f...)
			}
		}

		// ---- 104: iterators ----
		if r.chance(30) {
			api := 1 + r.intn(4)
			if cv.T.K != thrift.MAP && api >= 3 {
				api -= 2
			}
			ob := 0
			if r.chance(30) {
				ob |= 1
			}
			if r.chance(40) {
				ob |= 16
			}
			typed := api == 2 || api == 4
			if typed && (ct == nil || !declaredIn(root, p)) {
				api--
				typed = false
			}
			var items []string
			n := 0
			var e error
			ok, _ := noPanic(func() {
				switch api {
				case 1:
					e = sub.Foreach(func(pa generic.Path, nd generic.Node) bool {
						items = append(items, stepOfPath(pa, ct).fields()...)
						items = append(items, observe(raw, nd)[1:]...)
						n++
						return true
					}, optsOf(ob))
				case 2:
					tv := rootVal.GetByPath(toPath(p)...)
					e = tv.Foreach(func(pa generic.Path, nd generic.Value) bool {
						items = append(items, stepOfPath(pa, ct).fields()...)
						items = append(items, observe(buf, nd.Node)[1:]...)
						n++
						return true
					}, optsOf(ob))
				case 3:
					e = sub.ForeachKV(func(k generic.Node, nd generic.Node) bool {
						items = append(items, observe(raw, k)[1:]...)
						items = append(items, observe(raw, nd)[1:]...)
						n++
						return true
					}, optsOf(ob))
				case 4:
					tv := rootVal.GetByPath(toPath(p)...)
					e = tv.ForeachKV(func(k generic.Value, nd generic.Value) bool {
						items = append(items, observe(buf, k.Node)[1:]...)
						items = append(items, observe(buf, nd.Node)[1:]...)
						n++
						return true
					}, optsOf(ob))
				}
			})
			// typed iterations report spans relative to the ROOT buffer: the case carries the offset of the container
			base := 0
			if typed {
				o := observe(buf, sub)
				base = atoiField(o[2])
			}
			f := append([]string(nil), head...)
			f = append(f, fi(api), fi(ob), fi(base))
			switch {
			case !ok:
				f = append(f, "n3", "n0")
			case e != nil:
				f = append(f, "n2", "n0")
			default:
				f = append(f, "n0", fi(n))
				f = append(f, items...)
			}
			out.emit(104, f...)
		}

		// ---- 110: Children listing with its Path per child, under StoreChildrenById / StoreChildrenByHash / neither:
		// the storage slot differs, the set of children (path, type, span) must be the model's in every mode ----
		if r.chance(45) {
			for _, ob := range []int{0, 64, 128, 64 | 128} {
				if ob != 0 && !r.chance(60) {
					continue
				}
				var kids []generic.PathNode
				var cerr error
				ok, _ := noPanic(func() { cerr = sub.Children(&kids, false, optsOf(ob)) })
				f := append([]string(nil), head...)
				f = append(f, fi(ob))
				switch {
				case !ok:
					f = append(f, "n3", "n0")
				case cerr != nil:
					f = append(f, "n2", "n0")
				default:
					type ent struct {
						start int
						fs    []string
					}
					var es []ent
					for _, k := range kids {
						if k.Node.IsEmpty() {
							continue // an unused storage slot
						}
						o := observe(raw, k.Node)
						e := ent{start: atoiField(o[2])}
						e.fs = append(e.fs, stepOfPath(k.Path, ct).fields()...)
						e.fs = append(e.fs, o[1:]...)
						es = append(es, e)
					}
					sort.SliceStable(es, func(i, j int) bool { return es[i].start < es[j].start })
					f = append(f, "n0", fi(len(es)))
					for _, e := range es {
						f = append(f, e.fs...)
					}
				}
				out.emit(110, f...)
			}
		}

		// ---- 109: typed Foreach over a struct that carries fields its descriptor does NOT define (data of a newer IDL):
		// unknown fields before / between / after known ones are skipped (an error under DisallowUnknow) ----
		if cv.T.K == thrift.STRUCT && ct != nil && len(ct.Fields) >= 2 && len(cv.FIDs) >= 1 && r.chance(50) {
			g.nname++
			red := &Ty{K: thrift.STRUCT, Name: fmt.Sprintf("R%d", g.nname)}
			for _, f := range ct.Fields {
				if r.chance(60) {
					red.Fields = append(red.Fields, f)
				}
			}
			if len(red.Fields) == len(ct.Fields) {
				red.Fields = red.Fields[1:]
			}
			tg := &tgen{r: r, structs: append(append([]*Ty(nil), g.structs...), red)}
			rdesc, err := parseThrift(tg.idl(red), thrift.Options{})
			if err != nil {
				die("reduced IDL does not parse: %v", err)
			}
			ob := 0
			if r.chance(30) {
				ob |= 1
			}
			if r.chance(40) {
				ob |= 16
			}
			if r.chance(25) {
				ob |= 32
			}
			o := optsOf(ob)
			o.DisallowUnknow = ob&32 != 0
			tv := generic.NewValue(rdesc, raw)
			var items []string
			n := 0
			var e error
			ok, _ := noPanic(func() {
				e = tv.Foreach(func(pa generic.Path, nd generic.Value) bool {
					items = append(items, stepOfPath(pa, red).fields()...)
					items = append(items, observe(raw, nd.Node)[1:]...)
					n++
					return true
				}, o)
			})
			f := append([]string(nil), head...)
			f = append(f, fi(ob), fi(len(red.Fields)))
			for _, fd := range red.Fields {
				f = append(f, fi(int(fd.ID)))
			}
			switch {
			case !ok:
				f = append(f, "n3", "n0")
			case e != nil:
				f = append(f, "n2", "n0")
			default:
				f = append(f, "n0", fi(n))
				f = append(f, items...)
			}
			out.emit(109, f...)
		}

		// ---- 105: conversion to Go values ----
		if r.chance(30) {
			api := 1
			if cv.T.K != thrift.STRUCT && r.chance(50) {
				api = 2 // List / StrMap / IntMap / InterfaceMap by key kind
				if cv.T.K == thrift.MAP && r.chance(30) {
					api = 3 // InterfaceMap whatever the key kind
				}
			}
			ob := 0
			if r.chance(30) {
				ob |= 1
			}
			if r.chance(40) {
				ob |= 4
			}
			if r.chance(40) {
				ob |= 8
			}
			var x interface{}
			var e error
			ok, _ := noPanic(func() {
				o := optsOf(ob)
				switch {
				case api == 1:
					x, e = sub.Interface(o)
				case cv.T.K == thrift.LIST || cv.T.K == thrift.SET:
					x, e = sub.List(o)
				case api == 3:
					x, e = sub.InterfaceMap(o)
				case cv.T.Key.K == thrift.STRING:
					x, e = sub.StrMap(o)
				case cv.T.Key.K == thrift.I08 || cv.T.Key.K == thrift.I16 || cv.T.Key.K == thrift.I32 || cv.T.Key.K == thrift.I64:
					x, e = sub.IntMap(o)
				default:
					x, e = sub.InterfaceMap(o)
				}
			})
			f := append([]string(nil), head...)
			f = append(f, fi(api), fi(ob))
			switch {
			case !ok:
				f = append(f, "n3", fx(nil))
			case e != nil:
				f = append(f, "n2", fx(nil))
			default:
				f = append(f, "n0", fx(dumpGo(x, nil)))
			}
			out.emit(105, f...)
		}

		// ---- 106: lookup by NAME on the typed value vs by id on the untyped node ----
		if cv.T.K == thrift.STRUCT && ct != nil && declaredIn(root, p) && len(ct.Fields) > 0 && r.chance(50) {
			fd := ct.Fields[r.intn(len(ct.Fields))]
			name := fd.Name
			known := 1
			if r.chance(10) {
				name = "no_such_field"
				known = 0
			}
			var on, ov []string
			dty := 0
			ok1, _ := noPanic(func() { on = observe(raw, sub.Field(thrift.FieldID(fd.ID))) })
			if !ok1 {
				on = panicObs
			}
			ok2, _ := noPanic(func() {
				tv := rootVal.GetByPath(toPath(p)...) // nested typed value (depth = len(p))
				res := tv.FieldByName(name)
				ov = observe(buf, res.Node)
				if !res.IsError() && res.Desc != nil {
					dty = int(res.Desc.Type())
				}
			})
			if !ok2 {
				ov = panicObs
			}
			base := atoiField(observe(buf, sub)[2])
			f := append([]string(nil), head...)
			f = append(f, fi(int(fd.ID)), fi(known), fi(base))
			f = append(f, on...)
			f = append(f, ov...)
			f = append(f, fi(dty))
			out.emit(106, f...)
			// the same FieldByName call judged by the typed model (108, api 6)
			np := append(append([]Step(nil), p...), Step{Kind: 6, B: []byte(name), NameID: int64(fd.ID)})
			f8 := []string{fi(int(thrift.STRUCT)), fx(buf), fx(db), fi(6)}
			f8 = append(f8, pathFields(np)...)
			f8 = append(f8, ov...)
			out.emit(108, f8...)
		}
	}
}

func atoiField(s string) int {
	n := 0
	neg := false
	for i, c := range s[1:] {
		if i == 0 && c == '-' {
			neg = true
			continue
		}
		n = n*10 + int(c-'0')
	}
	if neg {
		return -n
	}
	return n
}

// values nested close to the skip depth limit, with a sibling field behind them
func genC01Deep(r *rng) {
	depth := 513 + r.intn(480)
	inner := &Ty{K: thrift.I32}
	iv := &Val{T: inner, I: 7}
	t, v := inner, iv
	for i := 0; i < depth; i++ {
		if r.chance(50) {
			nt := &Ty{K: thrift.LIST, Elem: t}
			v = &Val{T: nt, Elems: []*Val{v}}
			t = nt
		} else {
			nt := &Ty{K: thrift.STRUCT, Name: "D", Fields: []*Fld{{ID: 1, Name: "d", T: t}}}
			v = &Val{T: nt, FIDs: []int16{1}, Fields: []*Val{v}}
			t = nt
		}
	}
	root := &Ty{K: thrift.STRUCT, Name: "R", Fields: []*Fld{{ID: 1, Name: "deep", T: t}, {ID: 2, Name: "tail", T: &Ty{K: thrift.I32}}}}
	rv := &Val{T: root, FIDs: []int16{1, 2}, Fields: []*Val{v, {T: &Ty{K: thrift.I32}, I: -9}}}
	buf := rv.encode(nil)
	node := generic.NewNode(thrift.STRUCT, buf)
	emit := func(api int, p []Step, obs []string) {
		f := []string{fi(int(thrift.STRUCT)), fx(buf)}
		f = append(f, pathFields(p)...)
		f = append(f, fi(api), "n1")
		f = append(f, obs...)
		out.emit(101, f...)
	}
	// the sibling behind the deep value, the deep value itself, and a few levels into it
	var down []Step
	cur := v
	for i := 0; i < 3+r.intn(6) && cur != nil; i++ {
		if cur.T.K == thrift.LIST {
			down = append(down, Step{Kind: 2, N: 0})
			cur = cur.Elems[0]
		} else if cur.T.K == thrift.STRUCT {
			down = append(down, Step{Kind: 1, N: 1})
			cur = cur.Fields[0]
		}
	}
	for _, p := range [][]Step{{{Kind: 1, N: 2}}, {{Kind: 1, N: 1}}, append([]Step{{Kind: 1, N: 1}}, down...), {{Kind: 1, N: 3}}} {
		var obs []string
		if ok, _ := noPanic(func() { obs = observe(buf, node.GetByPath(toPath(p)...)) }); !ok {
			obs = panicObs
		}
		emit(1, p, obs)
		if len(p) == 1 {
			if ok, _ := noPanic(func() { obs = observe(buf, node.Field(thrift.FieldID(p[0].N))) }); !ok {
				obs = panicObs
			}
			emit(4, p, obs)
		}
	}
}

// maps keyed by neither string nor integer (what Interface() routes to InterfaceMap) holding STRING-bearing elements,
// converted with CastStringAsBinary: the option must reach the elements (and everything nested in them)
func genC01Cast(r *rng) {
	g := newTgen(r.fork())
	str := func() *Ty { return &Ty{K: thrift.STRING} }
	var elem *Ty
	switch r.intn(5) {
	case 0:
		elem = str()
	case 1:
		elem = &Ty{K: thrift.LIST, Elem: str()}
	case 2:
		g.nname++
		elem = &Ty{K: thrift.STRUCT, Name: "CS", Fields: []*Fld{{ID: 1, Name: "s", T: str()}, {ID: 2, Name: "n", T: &Ty{K: thrift.I32}}}}
	case 3:
		elem = &Ty{K: thrift.MAP, Key: str(), Elem: str()}
	default:
		elem = &Ty{K: thrift.MAP, Key: &Ty{K: thrift.DOUBLE}, Elem: str()}
	}
	var key *Ty
	switch r.intn(4) {
	case 0:
		key = &Ty{K: thrift.DOUBLE}
	case 1:
		key = &Ty{K: thrift.BOOL}
	case 2:
		key = &Ty{K: thrift.STRUCT, Name: "CK", Fields: []*Fld{{ID: 1, Name: "k", T: &Ty{K: thrift.I32}}, {ID: 2, Name: "t", T: str()}}}
	default:
		key = []*Ty{str(), {K: thrift.I32}, {K: thrift.I16}}[r.intn(3)] // string / int keyed: only the direct InterfaceMap call goes through it
	}
	mt := &Ty{K: thrift.MAP, Key: key, Elem: elem}
	var mv *Val
	for try := 0; try < 10; try++ {
		mv = g.genValue(mt, 1)
		if len(mv.Elems) > 0 && descOK(mv) {
			break
		}
	}
	permuteStructKeys(g, mv)
	// the map alone, and the map below a list / a struct
	tops := []*Val{mv, {T: &Ty{K: thrift.LIST, Elem: mt}, Elems: []*Val{mv}},
		{T: &Ty{K: thrift.STRUCT, Name: "CT", Fields: []*Fld{{ID: 7, Name: "m", T: mt}}}, FIDs: []int16{7}, Fields: []*Val{mv}}}
	for ti, top := range tops {
		raw := top.encode(nil)
		node := generic.NewNode(top.T.K, raw)
		for _, api := range []int{1, 3} {
			if api == 3 && ti != 0 {
				continue
			}
			for _, ob := range []int{4, 4 | 8, 0} {
				var x interface{}
				var e error
				ok, _ := noPanic(func() {
					if api == 1 {
						x, e = node.Interface(optsOf(ob))
					} else {
						x, e = node.InterfaceMap(optsOf(ob))
					}
				})
				f := []string{fi(int(top.T.K)), fx(raw), fi(api), fi(ob)}
				switch {
				case !ok:
					f = append(f, "n3", fx(nil))
				case e != nil:
					f = append(f, "n2", fx(nil))
				default:
					f = append(f, "n0", fx(dumpGo(x, nil)))
				}
				out.emit(105, f...)
			}
		}
	}
}

// maps keyed by structs get a second key holding the SAME fields in another wire order (a different encoding, the same
// Go map content): such keys are two entries of the value and two (pointer) keys of the Go map
func permuteStructKeys(g *tgen, v *Val) {
	for _, f := range v.Fields {
		permuteStructKeys(g, f)
	}
	for _, e := range v.Elems {
		permuteStructKeys(g, e)
	}
	if v.T.K != thrift.MAP || v.T.Key.K != thrift.STRUCT || !g.r.chance(60) {
		return
	}
	for _, k := range v.Keys {
		n := len(k.FIDs)
		if n < 2 {
			continue
		}
		c := &Val{T: k.T}
		for i := n - 1; i >= 0; i-- {
			c.FIDs = append(c.FIDs, k.FIDs[i])
			c.Fields = append(c.Fields, k.Fields[i])
		}
		v.Keys = append(v.Keys, c)
		v.Elems = append(v.Elems, g.genValue(v.T.Elem, 2))
		return
	}
}
