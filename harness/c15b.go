//go:build verif

// C15, check 1506 — identity of NESTED descriptors by pointer (recursion, mutual recursion, repeated occurrences).
// The payload is the one of 1501 (abstract schema, reference triage, descriptor graph dumped through the public
// accessors with a visited set keyed by *MessageDescriptor); coq/model/Check15b.v demands that the pointer graph
// be ISOMORPHIC to the graph of the modelled traversal: one pointer per (declaration, request/response side).
package main

import (
	"fmt"

	"github.com/cloudwego/dynamicgo/meta"
)

func init() {
	prev := generators["C15"]
	generators["C15"] = func(r *rng, n int) {
		if prev != nil {
			prev(r, n)
		}
		genC15Identity(r.fork(), n)
	}
}

// hand-written recursive shapes
func c15RecursiveSchemas() []*pSchema {
	var out []*pSchema
	sc := func(num int, name string, kind int) *pField {
		return &pField{num: num, name: name, json: jsonDefault(name), kind: kind}
	}
	rf := func(num int, name, ref string, label int) *pField {
		return &pField{num: num, name: name, json: jsonDefault(name), ref: ref, label: label}
	}
	mp := func(num int, name string, key int, ref string) *pField {
		return &pField{num: num, name: name, json: jsonDefault(name), ref: ref, label: 2, keykind: key}
	}
	top := func(f *pFile, name string, fields ...*pField) *p15Msg {
		m := &p15Msg{name: name, full: f.qual(name), file: f, fields: fields}
		f.msgs = append(f.msgs, m)
		return m
	}
	nest := func(p *p15Msg, name string, fields ...*pField) *p15Msg {
		m := &p15Msg{name: name, full: p.full + "." + name, file: p.file, fields: fields}
		p.nested = append(p.nested, m)
		return m
	}
	// R0: direct recursion through singular, repeated and map value; the same type used by request AND response
	{
		f := &pFile{path: "r0.proto", pkg: "rec"}
		top(f, "Tree", sc(1, "v", 5), rf(2, "left", "Tree", 0), rf(3, "right", ".rec.Tree", 0), rf(4, "kids", "Tree", 1), mp(5, "by_name", 9, "Tree"))
		top(f, "Req", rf(1, "a", "Tree", 0), rf(2, "b", "Tree", 0), rf(3, "cs", "rec.Tree", 1))
		f.svcs = []*pSvc{{name: "S", methods: []*pMethod{{name: "M", in: "Req", out: "Tree"}, {name: "N", in: "Tree", out: "Req", ss: true}}}}
		out = append(out, &pSchema{files: []*pFile{f}})
	}
	// R1: mutual recursion of three types, entered at different points by different methods
	{
		f := &pFile{path: "r1.proto", pkg: ""}
		top(f, "A", rf(1, "b", "B", 0), sc(2, "x", 9))
		top(f, "B", rf(1, "c", "C", 1), rf(2, "a", "A", 0))
		top(f, "C", mp(1, "as", 5, "A"), rf(2, "b", "B", 0), rf(3, "self", "C", 0))
		f.svcs = []*pSvc{
			{name: "S1", methods: []*pMethod{{name: "Ma", in: "A", out: "B"}, {name: "Mb", in: "B", out: "C", cs: true}}},
			{name: "S2", methods: []*pMethod{{name: "Mc", in: "C", out: "A"}}},
		}
		out = append(out, &pSchema{files: []*pFile{f}})
	}
	// R2: recursion through nested declarations that share simple names, and through an import
	{
		f := &pFile{path: "r2.proto", pkg: "pa", imports: []string{"r2b.proto"}}
		g := &pFile{path: "r2b.proto", pkg: "pb"}
		gn := top(g, "Node", rf(1, "next", "Node", 0), sc(2, "w", 8))
		nest(gn, "Node", rf(1, "up", ".pb.Node", 0), rf(2, "me", "Node", 1)) // pb.Node.Node: "Node" resolves to itself
		a := top(f, "Node", rf(1, "next", "Node", 0), rf(2, "other", "pb.Node", 0), rf(3, "inner", "pb.Node.Node", 0))
		nest(a, "Item", rf(1, "owner", "Node", 0), rf(2, "self", "Item", 0))
		a.fields = append(a.fields, rf(4, "items", "Item", 1), mp(5, "idx", 3, "Item"))
		top(f, "Req", rf(1, "n1", "Node", 0), rf(2, "n2", "Node", 0), rf(3, "p", "pb.Node", 0), rf(4, "i", "Node.Item", 0))
		f.svcs = []*pSvc{{name: "S", methods: []*pMethod{{name: "M", in: "Req", out: "Req"}, {name: "N", in: "pb.Node", out: "Node.Item"}}}}
		out = append(out, &pSchema{files: []*pFile{f, g}})
	}
	// R3: a diamond without recursion: one leaf type reached along four paths
	{
		f := &pFile{path: "r3.proto", pkg: "d"}
		top(f, "Leaf", sc(1, "v", 3))
		top(f, "L", rf(1, "x", "Leaf", 0), rf(2, "y", "Leaf", 1))
		top(f, "R", mp(1, "m", 9, "Leaf"), rf(2, "z", "Leaf", 0))
		top(f, "Top", rf(1, "l", "L", 0), rf(2, "r", "R", 0), rf(3, "leaf", "Leaf", 0))
		f.svcs = []*pSvc{{name: "S", methods: []*pMethod{{name: "M", in: "Top", out: "Top"}}}}
		out = append(out, &pSchema{files: []*pFile{f}})
	}
	return out
}

func genC15Identity(r *rng, n int) {
	schemas := c15RecursiveSchemas()
	for i := 0; i < n/3+4; i++ {
		prof := c15Profile{collide: r.chance(50)}
		schemas = append(schemas, genSchema(r.fork(), prof))
	}
	for _, s := range schemas {
		var sch []string
		s.emit(&sch)
		rfd, triage, ntri := referenceParse(s)
		tri2, ntri2 := referenceFields(s, rfd)
		for _, mode := range []meta.ParseServiceMode{meta.LastServiceOnly, meta.FirstServiceOnly, meta.CombineServices} {
			toks := append([]string{}, sch...)
			toks = append(toks, fi(int(mode)), fi(ntri))
			toks = append(toks, triage...)
			toks = append(toks, fi(ntri2))
			toks = append(toks, tri2...)
			impl, st := implDump(r.fork(), s, mode, 1, nil)
			toks = append(toks, impl...)
			out.emit(1506, toks...)
			_ = st
		}
	}
	_ = fmt.Sprint
}
