//go:build verif

package main

import (
	"context"
	"fmt"
	"strings"

	"github.com/cloudwego/dynamicgo/proto"
	pgeneric "github.com/cloudwego/dynamicgo/proto/generic"
	"github.com/jhump/protoreflect/desc"
	"github.com/jhump/protoreflect/desc/protoparse"
	"github.com/jhump/protoreflect/dynamic"
	rw "google.golang.org/protobuf/encoding/protowire"
)

// C11, Protobuf half: generic.Value.MarshalTo on descriptor pairs derived from one generated schema by deleting /
// adding fields at every depth (nested messages, repeated messages, message-valued maps, self-referential messages).
// The input is encoded by the reference implementation (jhump dynamic.Message over protobuf-go).

type pMsg struct {
	Name   string
	Fields []*pFld
	idx    int
}

type pFld struct {
	Num  int
	Name string
	Kind string // proto scalar type name, or "" for message
	Msg  *pMsg
	Rep  bool
	MapK string // map key type ("" = not a map)
	NoPack bool // repeated numeric scalar declared [packed = false]
	ent  int    // index of the synthesized entry message in the emitted table
}

var pScalarKinds = []string{"double", "float", "int64", "uint64", "int32", "fixed64", "fixed32", "bool", "string", "bytes", "uint32", "sfixed32", "sfixed64", "sint32", "sint64"}
var pKindNum = map[string]int{"double": 1, "float": 2, "int64": 3, "uint64": 4, "int32": 5, "fixed64": 6, "fixed32": 7, "bool": 8, "string": 9, "bytes": 12, "uint32": 13, "sfixed32": 15, "sfixed64": 16, "sint32": 17, "sint64": 18}
var pMapKeys = []string{"string", "int32", "int64", "uint32", "uint64", "sint32", "sint64", "fixed32", "fixed64", "sfixed32", "sfixed64", "bool"}
var pNumPool = []int{1, 2, 3, 4, 5, 6, 7, 8, 9, 10, 15, 16, 17, 127, 128, 2047, 2048, 16383, 16384} // FieldIDMap is a dense array: large numbers cost 8 bytes per id per message

type pgen struct {
	r     *rng
	msgs  []*pMsg
	nname int
}

func (g *pgen) newMsg() *pMsg {
	g.nname++
	m := &pMsg{Name: fmt.Sprintf("M%d", g.nname), idx: len(g.msgs)}
	g.msgs = append(g.msgs, m)
	return m
}

func (g *pgen) freshNum(used map[int]bool) int {
	for {
		n := pNumPool[g.r.intn(len(pNumPool))]
		if g.r.chance(25) {
			n = 1 + g.r.intn(18999)
		}
		if !used[n] {
			used[n] = true
			return n
		}
	}
}

// field names contain the message name: the map-entry messages protoc synthesizes (<Field>Entry) then have distinct
// simple names in every message (dynamicgo's proto descriptor cache is keyed by the simple message name, see C15)
func (g *pgen) genField(m *pMsg, num int, depth int) *pFld {
	r := g.r
	f := &pFld{Num: num, Name: fmt.Sprintf("f%sx%d", strings.ToLower(m.Name), num)}
	sc := func() string { return pScalarKinds[r.intn(len(pScalarKinds))] }
	sub := func() *pMsg {
		if depth < 3 && r.chance(70) {
			return g.genMsg(depth + 1)
		}
		if r.chance(50) {
			return m // self-reference
		}
		return g.genMsg(3)
	}
	switch k := r.intn(10); {
	case k < 4:
		f.Kind = sc()
	case k < 6:
		f.Msg = sub()
	case k == 6:
		f.Kind = sc()
		f.Rep = true
		f.NoPack = r.chance(30) && c11IsNum(f.Kind)
	case k == 7:
		f.Msg = sub()
		f.Rep = true
	case k == 8:
		f.MapK = pMapKeys[r.intn(len(pMapKeys))]
		f.Kind = sc()
	default:
		f.MapK = pMapKeys[r.intn(len(pMapKeys))]
		f.Msg = sub()
	}
	return f
}

func (g *pgen) genMsg(depth int) *pMsg {
	m := g.newMsg()
	n := g.r.intn(5)
	if depth == 0 {
		n = 2 + g.r.intn(5)
	}
	if depth >= 3 {
		n = g.r.intn(3)
	}
	used := map[int]bool{}
	for i := 0; i < n; i++ {
		m.Fields = append(m.Fields, g.genField(m, g.freshNum(used), depth))
	}
	return m
}

// structural variant: fields dropped, sub-messages varied (or shared), fields added
func (g *pgen) variant(m *pMsg, memo map[*pMsg]*pMsg, depth int) *pMsg {
	if v, ok := memo[m]; ok {
		return v
	}
	r := g.r
	if r.chance(25) {
		memo[m] = m
		return m
	}
	n := g.newMsg()
	memo[m] = n
	used := map[int]bool{}
	for _, f := range m.Fields {
		used[f.Num] = true
		if r.chance(25) {
			continue
		}
		nf := &pFld{Num: f.Num, Name: fmt.Sprintf("f%sx%d", strings.ToLower(n.Name), f.Num), Kind: f.Kind, Rep: f.Rep, MapK: f.MapK, NoPack: f.NoPack}
		if f.Msg != nil {
			nf.Msg = g.variant(f.Msg, memo, depth+1)
		}
		n.Fields = append(n.Fields, nf)
	}
	for k := r.intn(3); k > 0; k-- {
		n.Fields = append(n.Fields, g.genField(n, g.freshNum(used), 3))
	}
	return n
}

func (f *pFld) typeName() string {
	t := f.Kind
	if f.Msg != nil {
		t = f.Msg.Name
	}
	if f.MapK != "" {
		return "map<" + f.MapK + ", " + t + ">"
	}
	if f.Rep {
		return "repeated " + t
	}
	return t
}

func (g *pgen) protoText(roots ...*pMsg) string {
	var sb strings.Builder
	sb.WriteString("syntax = \"proto3\";\npackage pb.cut;\n")
	for _, m := range g.msgs {
		sb.WriteString("message " + m.Name + " {\n")
		for _, f := range m.Fields {
			opt := ""
			if f.NoPack {
				opt = " [packed = false]"
			}
			sb.WriteString(fmt.Sprintf("  %s %s = %d%s;\n", f.typeName(), f.Name, f.Num, opt))
		}
		sb.WriteString("}\n")
	}
	sb.WriteString("message Req {\n")
	for i, r := range roots {
		sb.WriteString(fmt.Sprintf("  %s r%d = %d;\n", r.Name, i, i+1))
	}
	sb.WriteString("}\nservice Svc { rpc M(Req) returns (Req); }\n")
	return sb.String()
}

// message table for the Gallina model: the generated messages followed by one entry message per map field
func (g *pgen) tableFields() []string {
	next := len(g.msgs)
	for _, m := range g.msgs {
		for _, f := range m.Fields {
			if f.MapK != "" {
				f.ent = next
				next++
			}
		}
	}
	out := []string{fi(next)}
	var entries [][]string
	for _, m := range g.msgs {
		out = append(out, fi(len(m.Fields)))
		for _, f := range m.Fields {
			kind, sub := 11, -1
			if f.Msg != nil {
				sub = f.Msg.idx
			} else {
				kind = pKindNum[f.Kind]
			}
			if f.MapK != "" {
				entries = append(entries, []string{fi(2), fi(1), fi(pKindNum[f.MapK]), fi(-1), fi(2), fi(kind), fi(sub)})
				kind, sub = 11, f.ent
			}
			out = append(out, fi(f.Num), fi(kind), fi(sub))
		}
	}
	for _, e := range entries {
		out = append(out, e...)
	}
	return out
}

func c11IsNum(kind string) bool { return kind != "string" && kind != "bytes" && kind != "" }

func c11Wire(kind string) rw.Type {
	switch kind {
	case "double", "fixed64", "sfixed64":
		return rw.Fixed64Type
	case "float", "fixed32", "sfixed32":
		return rw.Fixed32Type
	}
	return rw.VarintType
}

// re-encode repeated numeric scalar fields in the ALTERNATE legal wire form (a packed record as one record per element, a
// run of unpacked records as one packed record), at every nesting level; lengths of the enclosing messages are recomputed.
// Every parser must accept both forms whatever the declaration says.
func (g *pgen) altForm(m *pMsg, b []byte, pct int) ([]byte, bool) {
	var out []byte
	changed := false
	byNum := map[int]*pFld{}
	for _, f := range m.Fields {
		byNum[f.Num] = f
	}
	for len(b) > 0 {
		num, wt, n := rw.ConsumeTag(b)
		if n < 0 {
			return nil, false
		}
		vn := rw.ConsumeFieldValue(num, wt, b[n:])
		if vn < 0 {
			return nil, false
		}
		rec, val := b[:n+vn], b[n:n+vn]
		b = b[n+vn:]
		f := byNum[int(num)]
		switch {
		case f == nil:
			out = append(out, rec...)
		case f.Rep && f.Msg == nil && f.MapK == "" && c11IsNum(f.Kind) && wt == rw.BytesType:
			payload, _ := rw.ConsumeBytes(val)
			if len(payload) == 0 || !g.r.chance(pct) {
				out = append(out, rec...)
				continue
			}
			ewt := c11Wire(f.Kind)
			for p := payload; len(p) > 0; {
				en := rw.ConsumeFieldValue(num, ewt, p)
				if en < 0 {
					return nil, false
				}
				out = rw.AppendTag(out, num, ewt)
				out = append(out, p[:en]...)
				p = p[en:]
			}
			changed = true
		case f.Rep && f.Msg == nil && f.MapK == "" && c11IsNum(f.Kind) && wt == c11Wire(f.Kind):
			if !g.r.chance(pct) {
				out = append(out, rec...)
				continue
			}
			// gather the run of records of this field into one packed record
			packed := append([]byte(nil), val...)
			for len(b) > 0 {
				num2, wt2, n2 := rw.ConsumeTag(b)
				if n2 < 0 || num2 != num || wt2 != wt {
					break
				}
				vn2 := rw.ConsumeFieldValue(num2, wt2, b[n2:])
				if vn2 < 0 {
					return nil, false
				}
				packed = append(packed, b[n2:n2+vn2]...)
				b = b[n2+vn2:]
			}
			out = rw.AppendTag(out, num, rw.BytesType)
			out = rw.AppendBytes(out, packed)
			changed = true
		case f.Msg != nil && wt == rw.BytesType && f.MapK == "":
			payload, _ := rw.ConsumeBytes(val)
			np, ch := g.altForm(f.Msg, payload, pct)
			if np == nil && len(payload) > 0 {
				return nil, false
			}
			changed = changed || ch
			out = rw.AppendTag(out, num, wt)
			out = rw.AppendBytes(out, np)
		case f.Msg != nil && wt == rw.BytesType && f.MapK != "":
			payload, _ := rw.ConsumeBytes(val)
			var entry []byte
			for p := payload; len(p) > 0; {
				en, ewt, tn := rw.ConsumeTag(p)
				if tn < 0 {
					return nil, false
				}
				evn := rw.ConsumeFieldValue(en, ewt, p[tn:])
				if evn < 0 {
					return nil, false
				}
				if en == 2 && ewt == rw.BytesType {
					vp, _ := rw.ConsumeBytes(p[tn : tn+evn])
					nv, ch := g.altForm(f.Msg, vp, pct)
					if nv == nil && len(vp) > 0 {
						return nil, false
					}
					changed = changed || ch
					entry = rw.AppendTag(entry, en, ewt)
					entry = rw.AppendBytes(entry, nv)
				} else {
					entry = append(entry, p[:tn+evn]...)
				}
				p = p[tn+evn:]
			}
			out = rw.AppendTag(out, num, wt)
			out = rw.AppendBytes(out, entry)
		default:
			out = append(out, rec...)
		}
	}
	if out == nil {
		out = []byte{}
	}
	return out, changed
}

func (g *pgen) scalarValue(kind string) interface{} {
	r := g.r
	u := r.u64()
	switch kind {
	case "double":
		return float64(int64(u%2000)-1000) / 8
	case "float":
		return float32(int64(u%2000)-1000) / 8
	case "int64", "sfixed64", "sint64":
		return int64(u)
	case "uint64", "fixed64":
		return u
	case "int32", "sfixed32", "sint32":
		return int32(u)
	case "uint32", "fixed32":
		return uint32(u)
	case "bool":
		return u&1 == 1
	case "string":
		return strAlphabet[r.intn(len(strAlphabet)-1)] // valid UTF-8 only
	case "bytes":
		return r.bytes(r.intn(6))
	}
	return nil
}

func (g *pgen) genDyn(m *pMsg, mds map[string]*desc.MessageDescriptor, depth int) *dynamic.Message {
	r := g.r
	dm := dynamic.NewMessage(mds[m.Name])
	for _, f := range m.Fields {
		if r.chance(25) || (depth >= 4 && f.Msg != nil) {
			continue
		}
		one := func() interface{} {
			if f.Msg != nil {
				return g.genDyn(f.Msg, mds, depth+1)
			}
			return g.scalarValue(f.Kind)
		}
		switch {
		case f.MapK != "":
			mp := map[interface{}]interface{}{}
			for n := r.intn(3); n > 0; n-- {
				mp[g.scalarValue(f.MapK)] = one()
			}
			if len(mp) > 0 {
				dm.SetFieldByNumber(f.Num, mp)
			}
		case f.Rep:
			var l []interface{}
			for n := r.intn(4); n > 0; n-- {
				l = append(l, one())
			}
			if len(l) > 0 {
				dm.SetFieldByNumber(f.Num, l)
			}
		default:
			dm.SetFieldByNumber(f.Num, one())
		}
	}
	return dm
}

// sub messages whose length prefix changes width when they are cut: a source sub message of 100 / 200 / 20000 / 70000
// bytes (prefix 1 / 2 / 3 / 3 bytes) keeps only a tiny field in the target (prefix 1 byte), as a message field, a list
// element, a map value, at depth 1 and at depth 2 (where the enclosing sub message shrinks as well)
func genC11ProtoBig(r *rng) {
	g := &pgen{r: r.fork()}
	mkInner := func(withBig bool) *pMsg {
		m := g.newMsg()
		nm := strings.ToLower(m.Name)
		if withBig {
			m.Fields = append(m.Fields, &pFld{Num: 1, Name: "f" + nm + "x1", Kind: "bytes"})
		}
		m.Fields = append(m.Fields, &pFld{Num: 2, Name: "f" + nm + "x2", Kind: "int32"})
		m.Fields = append(m.Fields, &pFld{Num: 3, Name: "f" + nm + "x3", Msg: m})
		return m
	}
	mkRoot := func(in *pMsg) *pMsg {
		m := g.newMsg()
		nm := strings.ToLower(m.Name)
		m.Fields = []*pFld{
			{Num: 1, Name: "f" + nm + "x1", Msg: in},
			{Num: 2, Name: "f" + nm + "x2", Msg: in, Rep: true},
			{Num: 3, Name: "f" + nm + "x3", Msg: in, MapK: "string"},
			{Num: 4, Name: "f" + nm + "x4", Kind: "int32"},
		}
		return m
	}
	src, dst := mkInner(true), mkInner(false)
	from, to := mkRoot(src), mkRoot(dst)
	text := g.protoText(from, to)
	svc, err := proto.NewDescritorFromContent(context.Background(), "big.proto", text, map[string]string{})
	if err != nil {
		die("big proto does not parse (dynamicgo): %v\n%s", err, text)
	}
	req := svc.LookupMethodByName("M").Input()
	fd, td := req.Message().ByNumber(1).Type(), req.Message().ByNumber(2).Type()
	p := protoparse.Parser{Accessor: protoparse.FileContentsFromMap(map[string]string{"big.proto": text})}
	fds, err := p.ParseFiles("big.proto")
	if err != nil {
		die("big proto does not parse (reference): %v", err)
	}
	srcMD, fromMD := fds[0].FindMessage("pb.cut."+src.Name), fds[0].FindMessage("pb.cut."+from.Name)
	table := g.tableFields()
	var inner func(size int, depth int) *dynamic.Message
	inner = func(size int, depth int) *dynamic.Message {
		m := dynamic.NewMessage(srcMD)
		if depth <= 1 {
			m.SetFieldByNumber(1, r.bytes(size))
			m.SetFieldByNumber(2, int32(7))
			return m
		}
		m.SetFieldByNumber(2, int32(depth))
		m.SetFieldByNumber(3, inner(size, depth-1))
		return m
	}
	for _, size := range []int{100, 200, 20000, 70000} {
		for place := 0; place < 3; place++ {
			for depth := 1; depth <= 2; depth++ {
				dm := dynamic.NewMessage(fromMD)
				sz := size - r.intn(3)
				switch place {
				case 0:
					dm.SetFieldByNumber(1, inner(sz, depth))
				case 1:
					dm.SetFieldByNumber(2, []interface{}{inner(sz, depth), inner(5, 1)})
				default:
					dm.SetFieldByNumber(3, map[interface{}]interface{}{"k": inner(sz, depth)})
				}
				dm.SetFieldByNumber(4, int32(1))
				buf, err := dm.Marshal()
				if err != nil {
					die("reference marshal (big): %v", err)
				}
				bits := r.intn(2)
				opts := &pgeneric.Options{DisallowUnknown: false}
				v := pgeneric.NewRootValue(fd, buf)
				var outb []byte
				var e error
				ec := 0
				if ok, _ := noPanic(func() { outb, e = v.MarshalTo(td, opts) }); !ok {
					ec = 9
					outb = nil
				} else {
					ec = errClass(e)
				}
				_ = bits
				f := append([]string(nil), table...)
				f = append(f, fi(from.idx), fi(to.idx), fi(0), fx(buf), fi(ec), fx(outb))
				out.emit(1102, f...)
			}
		}
	}
}

func genC11Proto(r *rng, n int) {
	genC11ProtoBig(r.fork())
	nv := n / 6
	if nv < 3 {
		nv = 3
	}
	for vi := 0; vi < nv; vi++ {
		g := &pgen{r: r.fork()}
		vShape := g.genMsg(0)
		fShape := vShape
		if r.chance(60) {
			fShape = g.variant(vShape, map[*pMsg]*pMsg{}, 0)
		}
		tShape := g.variant(fShape, map[*pMsg]*pMsg{}, 0)
		if r.chance(10) {
			tShape = fShape
		}
		text := g.protoText(fShape, tShape)
		svc, err := proto.NewDescritorFromContent(context.Background(), "cut.proto", text, map[string]string{})
		if err != nil {
			die("generated proto does not parse (dynamicgo): %v\n%s", err, text)
		}
		req := svc.LookupMethodByName("M").Input()
		from := req.Message().ByNumber(1).Type()
		to := req.Message().ByNumber(2).Type()
		p := protoparse.Parser{Accessor: protoparse.FileContentsFromMap(map[string]string{"cut.proto": text})}
		fds, err := p.ParseFiles("cut.proto")
		if err != nil {
			die("generated proto does not parse (reference): %v\n%s", err, text)
		}
		mds := map[string]*desc.MessageDescriptor{}
		for _, m := range g.msgs {
			mds[m.Name] = fds[0].FindMessage("pb.cut." + m.Name)
			if mds[m.Name] == nil {
				die("message %s not found", m.Name)
			}
		}
		table := g.tableFields()
		for k := 0; k < 6; k++ {
			dm := g.genDyn(vShape, mds, 0)
			buf, err := dm.Marshal()
			if err != nil {
				die("reference marshal: %v", err)
			}
			if r.chance(40) { // the alternate wire form of repeated numeric scalars (legal input, whatever the declaration)
				if alt, ch := g.altForm(vShape, buf, 70); alt != nil && ch {
					buf = alt
				}
			}
			if r.chance(12) && len(buf) > 1 { // truncated input: cut anywhere (inside a tag, a value, a nested message)
				buf = buf[:1+r.intn(len(buf)-1)]
			}
			bits := r.intn(2)
			opts := &pgeneric.Options{DisallowUnknown: bits&1 != 0, UseNativeSkip: r.chance(20)}
			v := pgeneric.NewRootValue(from, buf)
			var outb []byte
			var e error
			ec := 0
			if ok, _ := noPanic(func() { outb, e = v.MarshalTo(to, opts) }); !ok {
				ec = 9
				outb = nil
			} else {
				ec = errClass(e)
			}
			f := append([]string(nil), table...)
			f = append(f, fi(fShape.idx), fi(tShape.idx), fi(bits), fx(buf), fi(ec), fx(outb))
			out.emit(1102, f...)
		}
	}
}
