//go:build verif

package main

import "github.com/cloudwego/dynamicgo/thrift/generic"

// Generated-definition check 591 (C05): thrift/generic seekIntHash against gen/Gen_domhash.v: tables of 1..40 slots with every kind of
// occupancy (empty, one free slot at each position, runs that wrap around the end, random), keys around multiples of N and random.
func init() {
	base := generators["C05"]
	generators["C05"] = func(r *rng, n int) {
		genSeekHash(g2cRng(r))
		base(r, n)
	}
}

func genSeekHash(r *rng) {
	emit := func(occ []bool, key uint64) {
		slot := generic.VerifSeekIntHash(occ, key)
		b := make([]byte, len(occ))
		for i, o := range occ {
			b[i] = byte(b2i(o))
		}
		out.emit(591, fx(b), fu(key), fi(slot))
	}
	for n := 1; n <= 40; n++ {
		var tables [][]bool
		tables = append(tables, make([]bool, n))
		for free := 0; free < n && free < 6; free++ {
			t := make([]bool, n)
			for i := range t {
				t[i] = i != (free*7)%n
			}
			tables = append(tables, t)
		}
		for k := 0; k < 4; k++ {
			t := make([]bool, n)
			for i := range t {
				t[i] = r.chance(60)
			}
			t[r.intn(n)] = false
			tables = append(tables, t)
		}
		for _, t := range tables {
			for _, key := range []uint64{0, 1, uint64(n - 1), uint64(n), uint64(n + 1), uint64(2*n - 1), 1<<63 - 1, 1 << 63, ^uint64(0), r.next(), r.next()} {
				emit(t, key)
			}
		}
	}
}
