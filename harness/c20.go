//go:build verif

package main

import (
	"context"
	"math"

	"github.com/cloudwego/dynamicgo/proto"
	"github.com/cloudwego/dynamicgo/proto/binary"
	dw "github.com/cloudwego/dynamicgo/proto/protowire"
	rw "google.golang.org/protobuf/encoding/protowire"
)

func init() { generators["C20"] = genC20 }

const scalarsProto = `
syntax = "proto3";
package pb.scal;
message Scalars {
  double f_double = 1; float f_float = 2; int64 f_int64 = 3; uint64 f_uint64 = 4; int32 f_int32 = 5;
  fixed64 f_fixed64 = 6; fixed32 f_fixed32 = 7; bool f_bool = 8; string f_string = 9; bytes f_bytes = 12;
  uint32 f_uint32 = 13; sfixed32 f_sfixed32 = 15; sfixed64 f_sfixed64 = 16; sint32 f_sint32 = 17; sint64 f_sint64 = 18;
}
message Req { Scalars s = 1; }
service Svc { rpc M(Req) returns (Req); }
`

func scalarDescs() map[proto.Type]*proto.TypeDescriptor {
	svc, err := proto.NewDescritorFromContent(context.Background(), "scalars.proto", scalarsProto, map[string]string{})
	if err != nil {
		die("scalars.proto: %v", err)
	}
	msg := svc.LookupMethodByName("M").Input().Message().ByNumber(1).Type().Message()
	m := map[proto.Type]*proto.TypeDescriptor{}
	for _, id := range []int32{1, 2, 3, 4, 5, 6, 7, 8, 13, 15, 16, 17, 18} {
		f := msg.ByNumber(proto.FieldNumber(id))
		m[f.Type().Type()] = f.Type()
	}
	return m
}

// Go value of the dynamic type WriteBaseTypeWithDesc asserts for kind t, built from the integer image v
// (the image is what the Coq model works with: ints as themselves, floats as IEEE bits, bool as 0/1).
func goValueFor(t proto.Type, raw uint64) (val interface{}, image int64, uimage uint64, unsigned bool, ref []byte) {
	switch t {
	case proto.BOOL:
		b := raw&1 == 1
		if b {
			return b, 1, 1, false, rw.AppendVarint(nil, 1)
		}
		return b, 0, 0, false, rw.AppendVarint(nil, 0)
	case proto.INT32:
		x := int32(raw)
		return x, int64(x), 0, false, rw.AppendVarint(nil, uint64(int64(x)))
	case proto.SINT32:
		x := int32(raw)
		return x, int64(x), 0, false, rw.AppendVarint(nil, rw.EncodeZigZag(int64(x)))
	case proto.UINT32:
		x := uint32(raw)
		return x, int64(x), 0, false, rw.AppendVarint(nil, uint64(x))
	case proto.INT64:
		x := int64(raw)
		return x, x, 0, false, rw.AppendVarint(nil, uint64(x))
	case proto.SINT64:
		x := int64(raw)
		return x, x, 0, false, rw.AppendVarint(nil, rw.EncodeZigZag(x))
	case proto.UINT64:
		return raw, 0, raw, true, rw.AppendVarint(nil, raw)
	case proto.SFIX32:
		x := int32(raw)
		return x, int64(x), 0, false, rw.AppendFixed32(nil, uint32(x))
	case proto.FIX32:
		x := int32(raw) // the writer asserts int32 for fixed32
		return x, int64(x), 0, false, rw.AppendFixed32(nil, uint32(x))
	case proto.FLOAT:
		x := math.Float32frombits(uint32(raw))
		return x, int64(uint32(raw)), 0, false, rw.AppendFixed32(nil, uint32(raw))
	case proto.SFIX64:
		x := int64(raw)
		return x, x, 0, false, rw.AppendFixed64(nil, uint64(x))
	case proto.FIX64:
		x := int64(raw) // the writer asserts int64 for fixed64
		return x, x, 0, false, rw.AppendFixed64(nil, uint64(x))
	case proto.DOUBLE:
		x := math.Float64frombits(raw)
		return x, 0, raw, true, rw.AppendFixed64(nil, raw)
	}
	return nil, 0, 0, false, nil
}

func imageOf(v interface{}) (string, bool) {
	switch x := v.(type) {
	case bool:
		return fb(x), true
	case int32:
		return fn(int64(x)), true
	case uint32:
		return fu(uint64(x)), true
	case int64:
		return fn(x), true
	case uint64:
		return fu(x), true
	case float32:
		return fu(uint64(math.Float32bits(x))), true
	case float64:
		return fu(math.Float64bits(x)), true
	case proto.EnumNumber:
		return fn(int64(x)), true
	}
	return "", false
}

func genC20(r *rng, n int) {
	descs := scalarDescs()
	kinds := []proto.Type{proto.BOOL, proto.INT32, proto.SINT32, proto.UINT32, proto.INT64, proto.SINT64, proto.UINT64,
		proto.SFIX32, proto.FIX32, proto.FLOAT, proto.SFIX64, proto.FIX64, proto.DOUBLE}
	bnd := boundaries64()
	value := func(i int) uint64 {
		if i < len(bnd) {
			return bnd[i]
		}
		return r.u64()
	}
	// 2001 / 2003: encoders on boundary-exhaustive + random values
	for i := 0; i < len(bnd)+n; i++ {
		v := value(i)
		out.emit(2001, fu(v), fx(dw.AppendVarint(nil, v)), fx(rw.AppendVarint(nil, v)))
		out.emit(2003, fu(v), fx(dw.AppendFixed64(nil, v)), fx(dw.AppendFixed32(nil, uint32(v))),
			fu(dw.EncodeZigZag(int64(v))), fn(dw.DecodeZigZag(v)), fi(dw.SizeVarint(v)))
	}
	// 2002 / 2005: decoders on all byte strings of length <= 2, then structured and random strings up to length 12
	emitDec := func(b []byte) {
		iv, in := dw.ConsumeVarint(b)
		rv, rn := rw.ConsumeVarint(b)
		out.emit(2002, fx(b), fu(iv), fi(in), fu(rv), fi(rn))
		bv, bn, ball := dw.ConsumeBytes(b)
		f32, n32 := dw.ConsumeFixed32(b)
		f64, n64 := dw.ConsumeFixed64(b)
		out.emit(2005, fx(b), fx(bv), fi(bn), fi(ball), fu(uint64(f32)), fi(n32), fu(f64), fi(n64))
	}
	emitDec(nil)
	for a := 0; a < 256; a++ {
		emitDec([]byte{byte(a)})
	}
	for a := 0; a < 256; a += 1 {
		for _, b := range []int{0, 1, 2, 127, 128, 129, 255} {
			emitDec([]byte{byte(a), byte(b)})
		}
	}
	for i := 0; i < n; i++ {
		var b []byte
		switch r.intn(4) {
		case 0: // valid varint + tail
			b = append(rw.AppendVarint(nil, value(r.intn(len(bnd)+50))), r.bytes(r.intn(3))...)
		case 1: // truncated valid varint
			b = rw.AppendVarint(nil, value(r.intn(len(bnd)+50)))
			b = b[:r.intn(len(b)+1)]
		case 2: // long continuation runs, 10th byte variants
			k := 8 + r.intn(4)
			b = make([]byte, k)
			for j := range b {
				b[j] = 0x80 | byte(r.next())
			}
			if r.bool() {
				b[k-1] = byte(r.intn(4))
			}
		default:
			b = r.bytes(r.intn(13))
		}
		emitDec(b)
		// length-delimited: varint length + payload (sometimes short)
		if r.chance(30) {
			l := r.intn(20)
			p := rw.AppendVarint(nil, uint64(l))
			p = append(p, r.bytes(r.intn(l+3))...)
			emitDec(p)
		}
	}
	// 2004: descriptor-driven scalar writer/reader for every kind
	for i := 0; i < len(bnd)+n/2; i++ {
		raw := value(i)
		for _, t := range kinds {
			val, img, uimg, uns, ref := goValueFor(t, raw)
			wp := binary.NewBinaryProtocolBuffer()
			werr := wp.WriteBaseTypeWithDesc(descs[t], val, true, false, true, false)
			written := append([]byte(nil), wp.Buf...)
			binary.FreeBinaryProtocol(wp)
			if werr != nil {
				out.emit(2004, fi(int(t)), fn(img), fs("write-error:"+werr.Error()), "n0", "n1", fx(ref))
				continue
			}
			rp := binary.NewBinaryProtol(written)
			got, rerr := rp.ReadBaseTypeWithDesc(descs[t], true, false, true, false)
			rp.Buf = nil
			binary.FreeBinaryProtocol(rp)
			gimg, ok := imageOf(got)
			if !ok {
				gimg = "n-999999"
			}
			e := 0
			if rerr != nil {
				e = 1
			}
			vimg := fn(img)
			if uns {
				vimg = fu(uimg)
			}
			out.emit(2004, fi(int(t)), vimg, fx(written), gimg, fi(e), fx(ref))
		}
	}
	genC20SpecLen(r, n)
}
