//go:build verif && race

package main

// built with -race (tools/props/C12_hook.py): scenarios with a fixed call budget use a smaller one
const c12race = true
