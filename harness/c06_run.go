//go:build verif

// C06 runtime explorer (child process of tools/props/C06_hook.py): runs every read-side entry point on
// malformed inputs placed flush against a PROT_NONE page, with a per-call watchdog, panic recovery and a
// runtime.MemStats.TotalAlloc delta per call. One line is written before and after every call so that a
// crash / hang / out-of-memory kill of the process is attributed to the exact input by the parent.
//
// Protocol (file given by -o, unbuffered):
//   J <njobs>                               once
//   S <idx>                                 before a call
//   R <idx> <ep> <class> <outcome> <us> <alloc> <len>     after a call; outcome: ok | err | panic | overread | alloc
//   D <idx> <ep> <class> <param> <hex> <flags> :: <detail>   description, written for every outcome other than ok/err
//   H <idx> ...                             hang detected by the watchdog (then exit 97)
//   X <idx> <ep> <class> <flags>            job skipped (scheduling only: expected-hang class over budget)
//   E                                       end of range reached
// Environment: C06_FROM, C06_TO (job index range), C06_ONLY (single job), C06_TIMEOUT_MS, C06_TIER, C06_XBUDGET (calls per entry point and child that may run inputs of a class expected to kill the child: xhang, xbig),
// C06_LIST=1 (list jobs without running).
package main

import (
	"encoding/hex"
	"fmt"
	"os"
	"runtime"
	"runtime/debug"
	"strconv"
	"strings"
	"sync/atomic"
	"syscall"
	"time"
)

func init() { generators["C06R"] = runC06 }

type guardBuf struct {
	mem   []byte
	size  int
	guard uintptr
}

func newGuard(maxLen int) *guardBuf {
	pg := syscall.Getpagesize()
	n := (maxLen + pg - 1) / pg * pg
	mem, err := syscall.Mmap(-1, 0, n+pg, syscall.PROT_READ|syscall.PROT_WRITE, syscall.MAP_ANON|syscall.MAP_PRIVATE)
	if err != nil {
		die("mmap: %v", err)
	}
	if err := syscall.Mprotect(mem[n:], syscall.PROT_NONE); err != nil {
		die("mprotect: %v", err)
	}
	g := &guardBuf{mem: mem[:n:n], size: n}
	g.guard = uintptr(ptrOf(mem)) + uintptr(n)
	return g
}

// copy of in that ends exactly at the inaccessible page; cap == len so that append reallocates
func (g *guardBuf) place(in []byte) []byte {
	if len(in) > g.size {
		return in
	}
	off := g.size - len(in)
	copy(g.mem[off:], in)
	return g.mem[off:g.size:g.size]
}

type c06job struct {
	ep    int
	in    c06input
	param int // entry point specific (type, path index, option bits)
	flags string
}

type faultAddr interface{ Addr() uintptr }

var (
	c06cur   int64 = -1 // index of the running job
	c06start int64      // unix nanos of its start
)

func envInt(k string, d int) int {
	if v := os.Getenv(k); v != "" {
		if n, err := strconv.Atoi(v); err == nil {
			return n
		}
	}
	return d
}

func runC06(r *rng, n int) {
	tier := os.Getenv("C06_TIER")
	if tier == "" {
		tier = "quick"
	}
	jobs, ctx := buildC06Jobs(r, tier)
	w := out.w
	put := func(s string) {
		w.WriteString(s)
		w.Flush()
	}
	if ad := os.Getenv("C06_ADHOC"); ad != "" {
		// "entry point|param|hex input|message index": one custom job appended to the list and selected (debugging / minimisation)
		f := strings.Split(ad, "|")
		b, _ := hex.DecodeString(f[2])
		pa, _ := strconv.Atoi(f[1])
		mi := 0
		if len(f) > 3 {
			mi, _ = strconv.Atoi(f[3])
		}
		jobs = append(jobs, c06job{ep: epIndex(f[0]), in: c06input{b, "adhoc", mi}, param: pa})
		os.Setenv("C06_ONLY", strconv.Itoa(len(jobs)-1))
		if os.Getenv("C06_STACK") != "" {
			j := jobs[len(jobs)-1]
			g := newGuard(1 << 16)
			e := c06eps[j.ep].run(ctx, j, g.place(j.in.b))
			fmt.Fprintf(os.Stderr, "adhoc returned err=%v\n", e)
			return
		}
	}
	put(fmt.Sprintf("J %d\n", len(jobs)))
	from, to := envInt("C06_FROM", 0), envInt("C06_TO", len(jobs))
	if only := envInt("C06_ONLY", -1); only >= 0 {
		from, to = only, only+1
	}
	if to > len(jobs) {
		to = len(jobs)
	}
	describe := func(tag string, i int, detail string) string {
		j := jobs[i]
		return fmt.Sprintf("%s %d %s %s %d %s %s :: %s\n", tag, i, c06eps[j.ep].name, j.in.class, j.param, "x"+hex.EncodeToString(j.in.b), j.flags, detail)
	}
	if os.Getenv("C06_STACK") != "" && from+1 == to {
		// debugging: run one job without recover so that the Go stack is printed
		j := jobs[from]
		g := newGuard(1 << 16)
		e := c06eps[j.ep].run(ctx, j, g.place(j.in.b))
		fmt.Fprintf(os.Stderr, "job %d returned err=%v\n", from, e)
		return
	}
	if os.Getenv("C06_LIST") != "" {
		for i := from; i < to; i++ {
			put(describe("D", i, ""))
		}
		return
	}
	timeout := time.Duration(envInt("C06_TIMEOUT_MS", 2000)) * time.Millisecond
	xhangBudget := envInt("C06_XBUDGET", 1)
	debug.SetPanicOnFault(true)
	debug.SetGCPercent(400)
	maxLen := 1 << 16
	for _, j := range jobs {
		if len(j.in.b) > maxLen {
			maxLen = len(j.in.b)
		}
	}
	g := newGuard(maxLen)
	// watchdog
	go func() {
		for {
			time.Sleep(20 * time.Millisecond)
			i := atomic.LoadInt64(&c06cur)
			if i < 0 {
				continue
			}
			if time.Duration(time.Now().UnixNano()-atomic.LoadInt64(&c06start)) > timeout {
				// single write syscall; the main goroutine may be spinning
				os.Stderr.WriteString(describe("H", int(i), "watchdog: call still running after "+timeout.String()))
				f, _ := os.OpenFile(os.Getenv("C06_HANGFILE"), os.O_CREATE|os.O_WRONLY|os.O_APPEND, 0644)
				if f != nil {
					f.WriteString(describe("H", int(i), "watchdog: call still running after "+timeout.String()))
					f.Close()
				}
				os.Exit(97)
			}
		}
	}()
	var ms runtime.MemStats
	runtime.ReadMemStats(&ms)
	prevAlloc := ms.TotalAlloc
	// inputs of a class that is expected to kill the process (xhang, xbig): only the first C06_XBUDGET of them per entry
	// point within the parent's ORIGINAL range [C06_LO, C06_TO) are run — decided by job index, independent of restarts
	expensive := func(j c06job) bool { return strings.Contains(j.flags, "xhang") || strings.Contains(j.flags, "xbig") }
	allowed := map[int]bool{}
	{
		seen := map[int]int{}
		for i := envInt("C06_LO", from); i < to && i < len(jobs); i++ {
			if i >= 0 && expensive(jobs[i]) {
				seen[jobs[i].ep]++
				if seen[jobs[i].ep] <= xhangBudget {
					allowed[i] = true
				}
			}
		}
	}
	for i := from; i < to; i++ {
		j := jobs[i]
		ep := c06eps[j.ep]
		if expensive(j) && !allowed[i] && envInt("C06_ONLY", -1) < 0 {
			put(fmt.Sprintf("X %d %s %s %s\n", i, ep.name, j.in.class, j.flags))
			continue
		}
		buf := g.place(j.in.b)
		put(fmt.Sprintf("S %d\n", i))
		runtime.ReadMemStats(&ms)
		prevAlloc = ms.TotalAlloc
		outcome, detail := "ok", ""
		t0 := time.Now()
		atomic.StoreInt64(&c06start, t0.UnixNano())
		atomic.StoreInt64(&c06cur, int64(i))
		func() {
			defer func() {
				if rec := recover(); rec != nil {
					outcome = "panic"
					detail = strings.ReplaceAll(fmt.Sprint(rec), "\n", " ")
					if fa, ok := rec.(faultAddr); ok {
						a := fa.Addr()
						detail = fmt.Sprintf("fault addr=guard%+d :: %s", int64(a)-int64(g.guard), detail)
						if a >= g.guard-64 && a < g.guard+uintptr(syscall.Getpagesize()) {
							outcome = "overread"
						}
					}
					if len(detail) > 300 {
						detail = detail[:300]
					}
				}
			}()
			if err := ep.run(ctx, j, buf); err != nil {
				outcome = "err"
			}
		}()
		atomic.StoreInt64(&c06cur, -1)
		dur := time.Since(t0)
		runtime.ReadMemStats(&ms)
		alloc := ms.TotalAlloc - prevAlloc
		if (outcome == "ok" || outcome == "err") && alloc > c06AllocBound(len(j.in.b)) {
			detail = fmt.Sprintf("TotalAlloc delta %d > %d (K*len+C), returned %s", alloc, c06AllocBound(len(j.in.b)), outcome)
			outcome = "alloc"
		}
		line := fmt.Sprintf("R %d %s %s %s %d %d %d\n", i, ep.name, j.in.class, outcome, dur.Microseconds(), alloc, len(j.in.b))
		if outcome != "ok" && outcome != "err" {
			line += describe("D", i, detail)
		}
		put(line)
	}
	put("E\n")
}

// allocation allowed for one call on an input of n bytes: K*n + C
const c06AllocK = 2048
const c06AllocC = 1 << 20

func c06AllocBound(n int) uint64 { return uint64(c06AllocK*n + c06AllocC) }
