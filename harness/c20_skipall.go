//go:build verif

package main

import (
	"context"

	"github.com/cloudwego/dynamicgo/proto"
	"github.com/cloudwego/dynamicgo/proto/binary"
	rw "google.golang.org/protobuf/encoding/protowire"
)

// 2011: the list-skipping entry points SkipAllElements(num, packed) and SkipAllElementsOf(desc) on packed payloads of
// every element kind (lengths around the multiples of the element width, truncated varint tails, declared lengths
// beyond the input), unpacked runs and map entries followed by other fields, truncated anywhere. The element wire type
// and packedness handed to the checker come from the table below (the abstract schema), not from the descriptor.
func init() {
	base := generators["C20"]
	generators["C20"] = func(r *rng, n int) {
		own := &rng{s: r.s ^ 0x5C1BA11}
		base(r, n)
		genC20SkipAll(own, n)
	}
}

const c20SkipIDL = `syntax = "proto3";
package sk;
message E { int32 x = 1; string y = 2; }
message L {
  repeated int32 a1 = 1; repeated sint64 a2 = 2; repeated bool a3 = 3; repeated fixed32 a4 = 4; repeated sfixed32 a5 = 5;
  repeated float a6 = 6; repeated fixed64 a7 = 7; repeated sfixed64 a8 = 8; repeated double a9 = 9; repeated uint64 a10 = 10;
  repeated string s = 11; repeated bytes b = 12; repeated E m = 13; map<string, int32> mp = 14; map<int64, E> mq = 15;
  repeated int32 u1 = 16 [packed = false]; repeated fixed32 u4 = 17 [packed = false]; repeated double u9 = 18 [packed = false];
  repeated sint32 big = 300000;
}
service S { rpc M(L) returns (L); }
`

type c20SkipField struct {
	num    int
	packed bool
	ewt    int // wire type of one element (maps: 2)
}

var c20SkipFields = []c20SkipField{
	{1, true, 0}, {2, true, 0}, {3, true, 0}, {4, true, 5}, {5, true, 5}, {6, true, 5}, {7, true, 1}, {8, true, 1}, {9, true, 1},
	{10, true, 0}, {11, false, 2}, {12, false, 2}, {13, false, 2}, {14, false, 2}, {15, false, 2}, {16, false, 0}, {17, false, 5},
	{18, false, 1}, {300000, true, 0},
}

func c20ElemBytes(r *rng, wt int) []byte {
	switch wt {
	case 0:
		return rw.AppendVarint(nil, r.u64())
	case 5:
		return r.bytes(4)
	case 1:
		return r.bytes(8)
	default:
		return rw.AppendBytes(nil, r.bytes(r.intn(5)))
	}
}

func genC20SkipAll(r *rng, n int) {
	var svc *proto.ServiceDescriptor
	var err error
	if ok, _ := noPanic(func() {
		svc, err = proto.NewDescritorFromContent(context.Background(), "sk.proto", c20SkipIDL, map[string]string{})
	}); !ok || err != nil {
		return
	}
	msg := svc.LookupMethodByName("M").Input().Message()
	emit := func(entry int, f c20SkipField, packedArg bool, b []byte) {
		if len(b) > 2048 {
			return
		}
		var e error
		size, rd := 0, 0
		ok, _ := noPanic(func() {
			p := binary.BinaryProtocol{Buf: append([]byte{}, b...)}
			if entry == 0 {
				size, e = p.SkipAllElements(proto.FieldNumber(f.num), packedArg)
			} else {
				size, e = p.SkipAllElementsOf(msg.ByNumber(proto.FieldNumber(f.num)).Type())
			}
			rd = p.Read
		})
		code := berr(e)
		if !ok {
			code = "n3"
		}
		ewt := f.ewt
		pk := f.packed
		if entry == 0 {
			ewt, pk = 0, packedArg
		}
		out.emit(2011, fi(entry), fi(f.num), fb(pk), fi(ewt), fx(b), code, fi(size), fi(rd))
	}
	both := func(f c20SkipField, b []byte) {
		emit(1, f, false, b)
		emit(0, f, f.packed, b)
	}
	tails := func(r *rng) []byte {
		switch r.intn(4) {
		case 0:
			return nil
		case 1: // another field
			return append(rw.AppendTag(nil, 21, rw.VarintType), 7)
		case 2:
			return append(rw.AppendTag(nil, 22, rw.BytesType), 2, 1, 2)
		default:
			return r.bytes(1 + r.intn(3))
		}
	}
	rounds := 2 + n/1500
	for round := 0; round < rounds; round++ {
		for _, f := range c20SkipFields {
			num := rw.Number(f.num)
			if f.packed {
				w := map[int]int{0: 1, 5: 4, 1: 8}[f.ewt]
				// payload lengths around the multiples of the element width
				for k := 0; k <= 4; k++ {
					for d := -1; d <= 1; d++ {
						l := k*w + d
						if l < 0 || (w == 1 && d != 0) {
							continue
						}
						var payload []byte
						if w == 1 {
							for i := 0; i < k; i++ {
								payload = append(payload, c20ElemBytes(r, 0)...)
							}
						} else {
							payload = r.bytes(l)
						}
						b := rw.AppendBytes(rw.AppendTag(nil, num, rw.BytesType), payload)
						both(f, append(b, tails(r)...))
					}
				}
				// a random longer payload of whole elements, then cut anywhere / length off by one
				var payload []byte
				for i, cnt := 0, 1+r.intn(40); i < cnt; i++ {
					payload = append(payload, c20ElemBytes(r, f.ewt)...)
				}
				b := rw.AppendBytes(rw.AppendTag(nil, num, rw.BytesType), payload)
				both(f, append(append([]byte{}, b...), tails(r)...))
				both(f, b[:r.intn(len(b))])
				for _, d := range []int{-1, 1, 2, 3, 5, 7} {
					l := len(payload) + d
					if l < 0 {
						continue
					}
					hb := rw.AppendVarint(rw.AppendTag(nil, num, rw.BytesType), uint64(l))
					both(f, append(append(hb, payload...), r.bytes(8)...))
				}
				if f.ewt == 0 {
					// truncated varint tail: the last element keeps its continuation bit
					p2 := append(append([]byte{}, payload...), 0x80|byte(r.next()))
					both(f, rw.AppendBytes(rw.AppendTag(nil, num, rw.BytesType), p2))
					both(f, append(rw.AppendBytes(rw.AppendTag(nil, num, rw.BytesType), p2), 0x01))
					// an element of eleven bytes
					p3 := append(append([]byte{}, payload...), 0xff, 0xff, 0xff, 0xff, 0xff, 0xff, 0xff, 0xff, 0xff, 0xff, 0x01)
					both(f, rw.AppendBytes(rw.AppendTag(nil, num, rw.BytesType), p3))
				}
				// declared lengths far beyond the input
				for _, l := range []uint64{1 << 31, 1<<63 - 1, 1 << 63, 1<<64 - 1} {
					both(f, append(rw.AppendVarint(rw.AppendTag(nil, num, rw.BytesType), l), r.bytes(r.intn(9))...))
				}
			} else {
				// an unpacked run (list elements / map entries), then another field, cut anywhere
				var b []byte
				cnt := r.intn(6)
				for i := 0; i < cnt; i++ {
					b = rw.AppendTag(b, num, rw.Type(f.ewt))
					b = append(b, c20ElemBytes(r, f.ewt)...)
				}
				full := append(append([]byte{}, b...), tails(r)...)
				both(f, full)
				if len(full) > 0 {
					both(f, full[:r.intn(len(full))])
					c := append([]byte{}, full...)
					c[r.intn(len(c))] = byte(r.next())
					both(f, c)
				}
				// records of the same number with another wire type in the run
				wt2 := []int{0, 1, 2, 5, 3, 4}[r.intn(6)]
				mixed := rw.AppendTag(append([]byte{}, b...), num, rw.Type(wt2))
				if wt2 <= 2 || wt2 == 5 {
					mixed = append(mixed, c20ElemBytes(r, wt2)...)
				}
				both(f, append(mixed, tails(r)...))
				emit(0, f, true, full) // SkipAllElements told "packed" on an unpacked run
			}
		}
	}
}
