//go:build verif

package main

import (
	"github.com/cloudwego/dynamicgo/thrift"
	"github.com/cloudwego/dynamicgo/thrift/generic"
)

// C04, algorithm level (check 403): histories of Node.SetByPath / Node.UnsetByPath whose every intermediate buffer is
// compared BYTE FOR BYTE with the byte-level model (coq/model/ThriftEditBytes.v: walk, three-slice splice, field header /
// key bytes of Path.ToRaw, in-place count patch) run on the previous buffer.
// case 403: type, bytes, nops, (kind 1 set / 2 unset, path, sub type, sub bytes, err 0 nil / 1 error / 3 panic, exist, bytes after,
// flags: bit0 Value API (descriptor attached), bit1 every field step of the path is declared in the IDL,
// bits 2-3 callback of a ReplaceByPath op (kind 5): 0 constant node, 1 identity, 2 error node)*
func init() {
	base := generators["C04"]
	generators["C04"] = func(r *rng, n int) {
		base(r, n)
		genC04Bytes(r.fork(), n)
	}
}

// a shape whose containers sit around a count byte boundary (255 / 256 elements), with one-byte elements to keep it small
func c04WideShape(r *rng) (*Ty, *Val) {
	i8 := &Ty{K: thrift.I08}
	mk := func(k thrift.Type, n int) (*Ty, *Val) {
		t := &Ty{K: k, Elem: i8}
		v := &Val{T: t}
		for i := 0; i < n; i++ {
			v.Elems = append(v.Elems, &Val{T: i8, I: int64(int8(i))})
		}
		return t, v
	}
	lt, lv := mk(thrift.LIST, 254+r.intn(3))
	st, sv := mk(thrift.SET, 255+r.intn(2))
	mt := &Ty{K: thrift.MAP, Key: &Ty{K: thrift.I16}, Elem: i8}
	mv := &Val{T: mt}
	for i, n := 0, 254+r.intn(3); i < n; i++ {
		mv.Keys = append(mv.Keys, &Val{T: mt.Key, I: int64(i - 100)})
		mv.Elems = append(mv.Elems, &Val{T: i8, I: int64(int8(i))})
	}
	bt := &Ty{K: thrift.MAP, Key: i8, Elem: &Ty{K: thrift.STRING}}
	bv := &Val{T: bt}
	for _, k := range []int64{-128, -56, -1, 0, 1, 127} {
		if r.chance(60) {
			bv.Keys = append(bv.Keys, &Val{T: i8, I: k})
			bv.Elems = append(bv.Elems, &Val{T: bt.Elem, S: []byte{byte(k)}})
		}
	}
	// keys whose raw bytes equal the raw bytes of a STRING key ("abcd" = 00000004 61626364, "" = 00000000): finding 408
	xt := &Ty{K: thrift.MAP, Key: &Ty{K: thrift.I64}, Elem: i8}
	xv := &Val{T: xt, Keys: []*Val{{T: xt.Key, I: 5}, {T: xt.Key, I: 0x0000000461626364}}, Elems: []*Val{{T: i8, I: 1}, {T: i8, I: 2}}}
	yt := &Ty{K: thrift.MAP, Key: &Ty{K: thrift.I32}, Elem: &Ty{K: thrift.STRING}}
	yv := &Val{T: yt, Keys: []*Val{{T: yt.Key, I: 0}, {T: yt.Key, I: 3}}, Elems: []*Val{{T: yt.Elem, S: []byte("z")}, {T: yt.Elem, S: []byte("y")}}}
	inner := &Ty{K: thrift.STRUCT, Name: "W2", Fields: []*Fld{{ID: 1, Name: "l", T: lt}, {ID: 32767, Name: "b", T: bt}}}
	root := &Ty{K: thrift.STRUCT, Name: "W1", Fields: []*Fld{
		{ID: 3, Name: "s", T: st}, {ID: 1, Name: "in", T: inner}, {ID: 2, Name: "m", T: mt}, {ID: 256, Name: "e", T: &Ty{K: thrift.LIST, Elem: &Ty{K: thrift.STRING}}},
		{ID: 7, Name: "x", T: xt}, {ID: 8, Name: "y", T: yt}}}
	val := &Val{T: root, FIDs: []int16{3, 1, 2, 256, 7, 8}, Fields: []*Val{
		sv, {T: inner, FIDs: []int16{32767, 1}, Fields: []*Val{bv, lv}}, mv, {T: root.Fields[3].T}, xv, yv}}
	return root, val
}

// an absent step for the byte-level classes: like tgen.absentStep, plus I08 keys addressed by their unsigned value,
// undeclared field ids and indexes further past the end
func (g *tgen) absentStepB(t *Ty, v *Val) (Step, *Ty, bool) {
	r := g.r
	switch t.K {
	case thrift.STRUCT:
		if r.chance(35) {
			for try := 0; try < 8; try++ {
				id := int64(1 + r.intn(32767))
				if r.chance(30) {
					id = int64(fieldIDPool[r.intn(len(fieldIDPool))])
				}
				if v.at([]Step{{Kind: 1, N: id}}) == nil {
					declared := false
					for _, f := range t.Fields {
						if int64(f.ID) == id {
							declared = true
						}
					}
					if !declared {
						return Step{Kind: 1, N: id}, &Ty{K: scalarKinds[r.intn(len(scalarKinds))]}, true
					}
				}
			}
		}
	case thrift.LIST, thrift.SET:
		if r.chance(30) {
			return Step{Kind: 2, N: int64(len(v.Elems) + 1 + r.intn(1000))}, t.Elem, true
		}
	case thrift.MAP:
		if t.Key.K == thrift.I08 && r.chance(50) {
			for try := 0; try < 8; try++ {
				k := int64(r.intn(256))
				if v.at([]Step{{Kind: 5, B: []byte{byte(k)}}}) == nil {
					return Step{Kind: 4, N: k}, t.Elem, true
				}
			}
		}
	}
	st, ok := g.absentStep(t, v)
	if !ok {
		return st, nil, false
	}
	var et *Ty
	switch t.K {
	case thrift.STRUCT:
		for _, f := range t.Fields {
			if int64(f.ID) == st.N {
				et = f.T
			}
		}
	default:
		et = t.Elem
	}
	return st, et, et != nil
}

func genC04Bytes(r *rng, n int) {
	nh := n / 10
	if nh < 4 {
		nh = 4
	}
	for hi := 0; hi < nh; hi++ {
		g := newTgen(r.fork())
		g.maxDepth = 3
		g.allowReq = true
		var root *Ty
		var val *Val
		wide := r.chance(12)
		if wide {
			root, val = c04WideShape(r)
		} else {
			root = g.genStruct(0)
			val = g.genValue(root, 0)
		}
		buf := val.encode(nil)
		node := generic.NewNode(thrift.STRUCT, append([]byte(nil), buf...))
		// Value variants (descriptor attached): the same algorithm behind a descriptor guard; id-addressed here
		typed := !wide && r.chance(35)
		var value generic.Value
		var desc *thrift.TypeDescriptor
		if typed {
			d, err := parseThrift(g.idl(root), thrift.Options{})
			if err != nil {
				die("generated IDL does not parse: %v", err)
			}
			desc = d
			value = generic.NewValue(desc, append([]byte(nil), buf...))
		}
		var paths [][]Step
		val.allPaths(nil, &paths, 80, r)
		nops := 1 + r.intn(12)
		var ops []string
		done := 0
		var last []Step
		for oi := 0; oi < nops; oi++ {
			base := paths[r.intn(len(paths))]
			if last != nil && r.chance(35) {
				// stay in the container the previous op worked on (repeated edits of one container / one element)
				base = last[:len(last)-r.intn(2)]
			}
			var p []Step
			var subT *Ty
			kind := 1
			inContract := true // the next op may stay at this path (only for paths made of steps that fit the shape)
			cls := r.intn(100)
			switch {
			case wide && r.chance(6): // a STRING key step on an integer-keyed map whose raw bytes equal an existing key's (finding 408)
				if r.bool() {
					p = []Step{{Kind: 1, N: 7}, {Kind: 3, B: []byte("abcd")}}
					subT = &Ty{K: thrift.I08}
				} else {
					p = []Step{{Kind: 1, N: 8}, {Kind: 3, B: []byte("")}}
					subT = &Ty{K: thrift.STRING}
				}
				if r.chance(70) {
					kind = 2
				}
				inContract = false
			case cls < 30 && len(base) > 0: // replace an existing element
				p = base
				subT = typeAt(root, p)
			case cls < 45 && len(base) > 0: // unset an existing element
				p = base
				subT = &Ty{K: thrift.I32}
				kind = 2
			case cls < 72: // insert an absent child into the container at base / unset it
				ct := typeAt(root, base)
				cv := val.at(base)
				if ct == nil || cv == nil {
					continue
				}
				st, et, ok := g.absentStepB(ct, cv)
				if !ok {
					continue
				}
				p = append(append([]Step(nil), base...), st)
				subT = et
				if r.chance(20) {
					kind = 2
				}
			case cls < 80: // absent-inner
				ct := typeAt(root, base)
				cv := val.at(base)
				if ct == nil || cv == nil {
					continue
				}
				st, _, ok := g.absentStepB(ct, cv)
				if !ok {
					continue
				}
				p = append(append([]Step(nil), base...), st, Step{Kind: 1 + r.intn(5), N: int64(r.intn(3)), B: []byte("k")})
				subT = &Ty{K: thrift.I32}
				inContract = false
				if r.chance(40) {
					kind = 2
				}
			case cls < 90: // wrong kind / out of range
				cv := val.at(base)
				if cv == nil {
					continue
				}
				bad := g.badStep(cv)
				pk := cv.T.K
				fits := (bad.Kind == 1 && pk == thrift.STRUCT) || (bad.Kind == 2 && (pk == thrift.LIST || pk == thrift.SET)) ||
					(bad.Kind >= 3 && pk == thrift.MAP)
				p = append(append([]Step(nil), base...), bad)
				subT = &Ty{K: thrift.I32}
				inContract = false
				// a step that fits the parent's kind is an insertion point for the (wrongly typed) I32: outside the API contract
				if r.chance(40) || fits {
					kind = 2
				}
			default: // existing element, node of another type: error, buffer unchanged
				if len(base) == 0 {
					continue
				}
				p = base
				subT = typeAt(root, p)
				if subT == nil {
					continue
				}
				// only while the element is still there: on an absent element this would be an INSERTION of a node whose type
				// the container does not declare (outside the API contract; the value would stop conforming to its descriptor)
				if node.GetByPath(toPath(p)...).IsError() || (typed && value.GetByPath(toPath(p)...).IsError()) {
					continue
				}
				switch subT.K {
				case thrift.I64:
					subT = &Ty{K: thrift.DOUBLE}
				case thrift.DOUBLE:
					subT = &Ty{K: thrift.I64}
				case thrift.BOOL:
					subT = &Ty{K: thrift.I08}
				case thrift.I08:
					subT = &Ty{K: thrift.BOOL}
				case thrift.LIST:
					subT = &Ty{K: thrift.SET, Elem: subT.Elem}
				case thrift.SET:
					subT = &Ty{K: thrift.LIST, Elem: subT.Elem}
				default:
					subT = &Ty{K: thrift.I16}
				}
			}
			if subT == nil || len(p) == 0 {
				continue
			}
			sub := g.genValue(subT, 2)
			sb := sub.encode(nil)
			gp := toPath(p)
			// ReplaceByPath instead of SetByPath, on present and absent targets alike: the callback returns a node built
			// without looking at its argument (mode 0), its argument (1), or an error node (2)
			mode := 0
			if kind == 1 && r.chance(25) {
				kind = 5
				mode = []int{0, 0, 0, 1, 2}[r.intn(5)]
			}
			cbf := func(n generic.Node) generic.Node {
				switch mode {
				case 1:
					return n
				case 2:
					return generic.NewNode(thrift.STRUCT, []byte{0}).Field(1) // a not-found error node
				}
				return generic.NewNode(subT.K, append([]byte(nil), sb...))
			}
			var exist bool
			var e error
			ok, _ := noPanic(func() {
				switch {
				case typed && kind == 5:
					exist, e = value.ReplaceByPath(cbf, gp...) // Node's method through the embedded node
				case kind == 5:
					exist, e = node.ReplaceByPath(cbf, gp...)
				case typed && kind == 1:
					exist, e = value.SetByPath(generic.Value{Node: generic.NewNode(subT.K, append([]byte(nil), sb...)), Desc: descFor(desc, p)}, gp...)
				case typed:
					e = value.UnsetByPath(gp...)
				case kind == 1:
					exist, e = node.SetByPath(generic.NewNode(subT.K, append([]byte(nil), sb...)), gp...)
				default:
					e = node.UnsetByPath(gp...)
				}
			})
			ei := 0
			if !ok {
				ei = 3
			} else if e != nil {
				ei = 1
			}
			res := node.Raw()
			flags := declBit(root, p)
			if typed {
				res = value.Raw()
				flags |= 1
			}
			flags |= mode << 2
			ops = append(ops, fi(kind))
			ops = append(ops, pathFields(p)...)
			ops = append(ops, fi(int(subT.K)), fx(sb), fi(ei), fb(exist), fx(res), fi(flags))
			done++
			if inContract {
				last = p
			}
			if !ok {
				break
			}
		}
		fields := []string{fi(int(thrift.STRUCT)), fx(buf), fi(done)}
		fields = append(fields, ops...)
		out.emit(403, fields...)
	}
}
