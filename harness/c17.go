//go:build verif

package main

// C17: HTTP mapping. Check 1701: request side (j2t native + portable); check 1702: response side (t2j).

import (
	"context"
	"encoding/json"
	"errors"
	"fmt"
	"os"
	stdh "net/http"
	"runtime/debug"
	"sort"
	"strings"

	"github.com/cloudwego/dynamicgo/conv"
	"github.com/cloudwego/dynamicgo/conv/j2t"
	"github.com/cloudwego/dynamicgo/conv/j2tportable"
	"github.com/cloudwego/dynamicgo/conv/t2j"
	"github.com/cloudwego/dynamicgo/http"
	"github.com/cloudwego/dynamicgo/meta"
	"github.com/cloudwego/dynamicgo/thrift"
)

func init() { generators["C17"] = genC17 }

var c17Debug = os.Getenv("VERIF_C17_DEBUG") != ""

// option bits shared with coq/model/Check17.v
const (
	oWR = 1 << iota
	oWD
	oWO
	oRHF
	oTB
	oNoB64
	oWHF
	oOmit
	oKitex
)

func c17Opts(bits int) conv.Options {
	return conv.Options{
		EnableHttpMapping:            true,
		WriteRequireField:            bits&oWR != 0,
		WriteDefaultField:            bits&oWD != 0,
		WriteOptionalField:           bits&oWO != 0,
		ReadHttpValueFallback:        bits&oRHF != 0,
		TracebackRequredOrRootFields: bits&oTB != 0,
		NoBase64Binary:               bits&oNoB64 != 0,
		WriteHttpValueFallback:       bits&oWHF != 0,
		OmitHttpMappingErrors:        bits&oOmit != 0,
		UseKitexHttpEncoding:         bits&oKitex != 0,
	}
}

// error class: 0 none, 1 the chain contains MissRequiredField, 2 the chain contains NotFound, 3 any other error, 4 panic
func c17ErrClass(err error) int {
	if err == nil {
		return 0
	}
	cls := 3
	for e := err; e != nil; e = errors.Unwrap(e) {
		if me, ok := e.(meta.Error); ok {
			switch me.Code.Behavior() {
			case meta.ErrMissRequiredField:
				return 1
			case meta.ErrNotFound:
				cls = 2
			}
		}
	}
	return cls
}

var c17LastFn *thrift.FunctionDescriptor

func c17Parse(idl string) (*thrift.TypeDescriptor, *thrift.TypeDescriptor, error) {
	svc, err := thrift.Options{}.NewDescritorFromContent(context.Background(), "a.thrift", idl, map[string]string{}, false)
	if err != nil {
		return nil, nil, err
	}
	fn := svc.Functions()["M"]
	if fn == nil {
		return nil, nil, fmt.Errorf("no function M")
	}
	c17LastFn = fn
	return fn.Request().Struct().FieldById(1).Type(), fn.Response().Struct().FieldById(0).Type(), nil
}

// check 1703: j2t.HTTPConv.Do = message header ++ BinaryConv output ++ footer, with HTTP mapping forced on
func c17Envelope(fn *thrift.FunctionDescriptor, pops []hPop, bodyKind int, jbody []byte, uriPath string, bits int, plain []byte, plainEc int) {
	// the request method must not matter: HTTPConv converts the body the request carries (GET / HEAD with a JSON body included)
	for vi, enable := range []bool{true, false, true, true} {
		req, err := buildRequest(pops, bodyKind, jbody, uriPath)
		if err != nil {
			return
		}
		if vi >= 2 {
			if bodyKind != 2 {
				break
			}
			req.Request.Method = []string{"GET", "HEAD"}[vi-2]
		}
		o := c17Opts(bits)
		o.EnableHttpMapping = enable
		ctx := context.WithValue(context.Background(), conv.CtxKeyConvOptions, c17Opts(bits))
		var outb []byte
		var cerr error
		ok, _ := noPanic(func() {
			hc := j2t.NewHTTPConv(meta.EncodingThriftBinary, fn)
			outb, cerr = hc.Do(ctx, req, o)
		})
		ec := c17ErrClass(cerr)
		if !ok {
			ec = 4
		}
		out.emit(1703, fb(enable), fi(bodyKind), fs(fn.Name()), fi(ec), fx(outb), fi(plainEc), fx(plain))
	}
}

func genC17(r *rng, n int) {
	// a fault inside the native code (finding 1715) must surface as a recoverable panic, not kill the harness
	debug.SetPanicOnFault(true)
	// main.go seeds the stream with seed*G and the stream advances by G: streams of consecutive seeds are shifts of each other.
	// Re-seed from the first output so that different seeds give unrelated cases.
	r = &rng{s: r.next()}
	// api.no_body_struct over a struct with three mapped fields, every subset of them populated (an earlier field with a value, a
	// later one without: the per-field scope of ok / val in apiNoBodyStruct.Request)
	c17Request(r.fork(), 2)
	nReq := n * 7 / 10
	for out.count < nReq {
		c17Request(r.fork(), 0)
	}
	// one struct with more http-mapped root fields than the native field cache holds
	c17Request(r.fork(), 1)
	for out.count < n {
		c17Response(r.fork())
	}
}

// ---- request side ------------------------------------------------------------------------------------

func c17Request(r *rng, special int) {
	big := special == 1
	g := &hgen{r: r, annPct: 65}
	var root *hTy
	if big {
		root = c17BigStruct(g)
	} else if special == 2 {
		root = c17NbsStruct(g)
	} else {
		root = g.annStruct(0, 2+r.intn(5))
	}
	idl := g.idl(root)
	desc, _, err := c17Parse(idl)
	if err != nil {
		die("C17: generated IDL does not parse: %v\n%s", err, idl)
	}
	var descF []string
	root.fields(&descF)
	keys := g.keyUniverse()
	nreq := 10
	if big {
		nreq = 2
	}
	if special == 2 {
		nreq = 16
	}
	for i := 0; i < nreq; i++ {
		bits := r.intn(64)
		if r.chance(15) {
			bits = []int{0, oRHF | oTB, oRHF | oTB | oWD, oWR | oWD | oWO, oRHF}[r.intn(5)]
		}
		bodyKind := []int{0, 1, 2, 2, 2}[r.intn(5)]
		g.goUnsafeEsc = r.chance(25)
		// every legal carrier of the same sources: constructor and (for form bodies) the content type / encoding of the body
		c17Carrier = hCarrier{ctor: []int{0, 0, 1, 2}[r.intn(4)], formCT: []int{0, 0, 1, 2, 3}[r.intn(5)]}
		if big {
			c17Carrier = hCarrier{}
		}
		density := []int{15, 40, 75}[r.intn(3)]
		var pops []hPop
		for _, s := range g.structs {
			for _, f := range s.Fields {
				if big && r.chance(90) {
					continue
				}
				fkeys := []string{f.Name}
				for _, a := range f.Anns {
					if a.Key != f.Name {
						fkeys = append(fkeys, a.Key)
					}
				}
				mask := r.intn(64)
				if special == 2 {
					// nested fields n1 n2 n3 listen to query / header / path: request i populates subset i of them (all three sources at once)
					mask = 0
					if len(f.Anns) == 1 && f.Anns[0].Kind != hkNoBodyStruct {
						bit := map[string]uint{"n1": 0, "n2": 1, "n3": 2}[f.Name]
						if i>>bit&1 == 1 {
							pops = append(pops, hPop{Kind: f.Anns[0].Kind, Key: f.Anns[0].Key, Val: g.scalarText(f.T, true)})
						}
					}
				}
				for bi, kind := range hkKeyed {
					if mask&(1<<bi) == 0 {
						continue
					}
					for _, k := range fkeys {
						if r.chance(density) || (len(f.Anns) > 0 && r.chance(40)) {
							val := g.httpText(f.T)
							if kind == hkCookie && strings.ContainsAny(val, "\"\\;") && r.chance(90) {
								continue // net/http drops these bytes from cookie values
							}
							pops = append(pops, hPop{Kind: kind, Key: k, Val: val})
						}
					}
				}
			}
		}
		if bodyKind == 1 {
			// form requests: the same key in the URL query and in the form body with DIFFERENT values, and keys only in the form
			for _, st := range g.structs {
				for _, f := range st.Fields {
					if big {
						continue
					}
					for _, a := range f.Anns {
						if (a.Kind == hkQuery || a.Kind == hkForm || a.Kind == hkBody) && r.chance(45) {
							pops = append(pops, hPop{Kind: hkForm, Key: a.Key, Val: g.httpText(f.T)})
							if r.chance(50) {
								pops = append(pops, hPop{Kind: hkQuery, Key: a.Key, Val: g.httpText(f.T)})
							}
						}
					}
				}
			}
		}
		var jbody []byte
		if bodyKind == 2 {
			jbody = []byte(g.jsonText(root, 0))
			if big && i == 0 {
				jbody = []byte("{}")
			}
		}
		uriPath := []string{"/", "/p/a", "/items/7"}[r.intn(3)]
		for impl := 0; impl < 2; impl++ {
			if impl == 1 && g.goUnsafeEsc {
				continue
			}
			req, intended, err := buildRequest2(pops, bodyKind, jbody, uriPath)
			if err != nil {
				die("C17: request: %v", err)
			}
			view := requestView(req, keys, intended)
			// body kind for the checker: 1 = form body whose values are also the body map, 3 = form body through another carrier
			bk := bodyKind
			if bodyKind == 1 && !c17Carrier.bodyMapIsForm() {
				bk = 3
			}
			view = append(view, fi(bk))
			view = append(view, intendedView(intended.q, intended.form, intended.hdr, intended.params, keys)...)
			ctx := context.WithValue(context.Background(), conv.CtxKeyHTTPRequest, http.RequestGetter(req))
			ctx = context.WithValue(ctx, conv.CtxKeyConvOptions, c17Opts(bits)) // read by api.no_body_struct
			var outb []byte
			var cerr error
			ok, msg := noPanic(func() {
				if c17Debug {
					defer func() {
						if r := recover(); r != nil {
							fmt.Fprintf(os.Stderr, "PANIC %v\n%s\n", r, debug.Stack())
							panic(r)
						}
					}()
				}
				if impl == 0 {
					cv := j2t.NewBinaryConv(c17Opts(bits))
					outb, cerr = cv.Do(ctx, desc, jbody)
				} else {
					cv := j2tportable.NewBinaryConv(c17Opts(bits))
					outb, cerr = cv.Do(ctx, desc, jbody)
				}
			})
			ec := c17ErrClass(cerr)
			if !ok {
				ec = 4
			}
			if c17Debug {
				fmt.Fprintf(os.Stderr, "---- case %d impl=%d bits=%b bodyKind=%d\n%s\nbody=%s\nreq=%v\nerr=%v panic=%s\nout=%x\n", out.count, impl, bits, bodyKind, idl, jbody, req, cerr, msg, outb)
			}
			fields := []string{fi(bits), fi(impl)}
			fields = append(fields, descF...)
			fields = append(fields, view...)
			fields = append(fields, fx(jbody), fi(ec), fx(outb))
			out.emit(1701, fields...)
			out.emit(1704, fields...) // the same case judged by the transcription of the code (HttpMapCoded.v)
			if impl == 0 && bodyKind != 1 && !big && i%4 == 0 {
				c17Envelope(c17LastFn, pops, bodyKind, jbody, uriPath, bits, outb, ec)
			}
		}
	}
}

// > 4096 root fields that are http-mapped and present in the body (field cache growth / re-entry)
func c17BigStruct(g *hgen) *hTy {
	g.nname++
	t := &hTy{K: thrift.STRUCT, Name: fmt.Sprintf("B%d", g.nname)}
	g.structs = append(g.structs, t)
	for i := 1; i <= 4200; i++ {
		f := &hFld{ID: int16(i), Name: fmt.Sprintf("b%d", i), Req: []int{0, 0, 1, 2}[g.r.intn(4)], T: &hTy{K: thrift.I32}}
		if g.r.chance(80) {
			f.Anns = []hAnn{{Kind: []int{hkQuery, hkHeader, hkBody}[g.r.intn(3)], Key: f.Name}}
		}
		t.Fields = append(t.Fields, f)
	}
	return t
}

// ---- response side -----------------------------------------------------------------------------------

type recResp struct {
	*http.HTTPResponse
	calls []string
	n     int
}

func (s *recResp) SetStatusCode(c int) error {
	s.calls = append(s.calls, fi(hkHTTPCode), fs(""), fs(fmt.Sprint(c)))
	s.n++
	return s.HTTPResponse.SetStatusCode(c)
}
func (s *recResp) SetHeader(k, v string) error {
	s.calls = append(s.calls, fi(hkHeader), fs(k), fs(v))
	s.n++
	return s.HTTPResponse.SetHeader(k, v)
}
func (s *recResp) SetCookie(k, v string) error {
	s.calls = append(s.calls, fi(hkCookie), fs(k), fs(v))
	s.n++
	return s.HTTPResponse.SetCookie(k, v)
}
func (s *recResp) SetRawBody(b []byte) error {
	s.calls = append(s.calls, fi(hkRawBody), fs(""), fx(b))
	s.n++
	return s.HTTPResponse.SetRawBody(b)
}

func c17Response(r *rng) {
	g := &hgen{r: r, annPct: 60, side: 1}
	root := g.annStruct(0, 2+r.intn(5))
	idl := g.idl(root)
	_, desc, err := c17Parse(idl)
	if err != nil {
		die("C17: generated IDL does not parse: %v\n%s", err, idl)
	}
	var descF []string
	root.fields(&descF)
	for i := 0; i < 8; i++ {
		bits := r.intn(8) | (r.intn(8) << 5) // WR WD WO | NoB64 WHF Omit
		if r.chance(20) {
			bits |= oKitex
		}
		v := g.value(root, 0)
		in := v.encode(nil)
		resp := &recResp{HTTPResponse: http.NewHTTPResponse()}
		ctx := context.WithValue(context.Background(), conv.CtxKeyHTTPResponse, http.ResponseSetter(resp))
		var outb []byte
		var cerr error
		ok, msg := noPanic(func() {
			if c17Debug {
				defer func() {
					if r := recover(); r != nil {
						fmt.Fprintf(os.Stderr, "PANIC %v\n%s\n", r, debug.Stack())
						panic(r)
					}
				}()
			}
			cv := t2j.NewBinaryConv(c17Opts(bits))
			outb, cerr = cv.Do(ctx, desc, in)
		})
		ec := c17ErrClass(cerr)
		if !ok {
			ec = 4
		}
		// top-level member names of the JSON body, and of every nested object member (one level), via encoding/json
		var names []string
		jsonOK := 1
		if ec == 0 {
			var top map[string]json.RawMessage
			if e := json.Unmarshal(outb, &top); e != nil {
				jsonOK = 0
			} else {
				var ks []string
				for k := range top {
					ks = append(ks, k)
				}
				sort.Strings(ks)
				for _, k := range ks {
					names = append(names, fs(k))
					var sub map[string]json.RawMessage
					if strings.HasPrefix(string(top[k]), "{") && json.Unmarshal(top[k], &sub) == nil {
						var sk []string
						for k2 := range sub {
							sk = append(sk, k2)
						}
						sort.Strings(sk)
						names = append(names, fi(len(sk)))
						for _, k2 := range sk {
							names = append(names, fs(k2))
						}
					} else {
						names = append(names, fi(-1))
					}
				}
			}
		}
		if c17Debug {
			fmt.Fprintf(os.Stderr, "---- case %d t2j bits=%b\n%s\nin=%x\nerr=%v panic=%s\nout=%s\ncalls=%v\n", out.count, bits, idl, in, cerr, msg, outb, resp.calls)
		}
		fields := []string{fi(bits)}
		fields = append(fields, descF...)
		fields = append(fields, fx(in), fi(ec), fi(jsonOK), fi(len(names)))
		_ = names
		fields = fields[:len(fields)-1]
		// members: count then (name, nsub (-1 = not an object), subnames...)
		cnt := 0
		for i := 0; i < len(names); {
			cnt++
			nsub := 0
			fmt.Sscanf(names[i+1], "n%d", &nsub)
			i += 2
			if nsub > 0 {
				i += nsub
			}
		}
		fields = append(fields, fi(cnt))
		fields = append(fields, names...)
		fields = append(fields, fi(resp.n))
		fields = append(fields, resp.calls...)
		fields = append(fields, fx(outb))
		out.emit(1702, fields...)
		// 1705: what the setters left in the http.Response (status, Set-Cookie lines, headers, raw body)
		fin := []string{fi(bits)}
		fin = append(fin, descF...)
		fin = append(fin, fx(in), fi(ec), fi(resp.Response.StatusCode))
		cks := (&stdh.Response{Header: resp.Response.Header}).Cookies()
		fin = append(fin, fi(len(cks)))
		for _, c := range cks {
			fin = append(fin, fs(c.Name), fs(c.Value))
		}
		var hk []string
		for _, k := range g.keyUniverse() {
			if v := resp.Response.Header.Get(k); v != "" {
				hk = append(hk, fs(k), fs(v))
			}
		}
		fin = append(fin, fi(len(hk)/2))
		fin = append(fin, hk...)
		fin = append(fin, fb(resp.Response.Body != nil))
		out.emit(1705, fin...)
	}
}

// root: one struct-typed field taken by api.no_body_struct from a struct with three mapped scalar fields + one plain field
func c17NbsStruct(g *hgen) *hTy {
	g.nname++
	inner := &hTy{K: thrift.STRUCT, Name: fmt.Sprintf("N%d", g.nname)}
	g.structs = append(g.structs, inner)
	kinds := []int{hkQuery, hkHeader, hkPath}
	tys := []*hTy{{K: thrift.STRING}, {K: thrift.I32}, {K: []thrift.Type{thrift.STRING, thrift.I64, thrift.BOOL}[g.r.intn(3)]}}
	for i := 0; i < 3; i++ {
		name := fmt.Sprintf("n%d", i+1)
		inner.Fields = append(inner.Fields, &hFld{ID: int16(i + 1), Name: name, Req: g.r.intn(3), T: tys[i], Anns: []hAnn{{Kind: kinds[i], Key: "k" + name}}})
	}
	inner.Fields = append(inner.Fields, &hFld{ID: 9, Name: "n9", Req: 2, T: &hTy{K: thrift.I32}})
	g.nname++
	root := &hTy{K: thrift.STRUCT, Name: fmt.Sprintf("S%d", g.nname)}
	g.structs = append(g.structs, root)
	root.Fields = append(root.Fields, &hFld{ID: 1, Name: "nb", Req: g.r.intn(3), T: inner, Anns: []hAnn{{Kind: hkNoBodyStruct, Key: "nb"}}})
	root.Fields = append(root.Fields, &hFld{ID: 2, Name: "pl", Req: 2, T: &hTy{K: thrift.I32}})
	return root
}
