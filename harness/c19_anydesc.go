//go:build verif

package main

import (
	"encoding/binary"
	"math"
	"sort"
	"strconv"
	"strings"

	"github.com/cloudwego/dynamicgo/thrift"
)

// 1925 / 1926: thrift.BinaryProtocol.WriteAnyWithDesc / ReadAnyWithDesc against their as-coded Gallina model
// (coq/model/ThriftAnyDesc.v, checker coq/model/Check19d.v).
//
//	1925  descriptor, options (1 cast, 2 disallowUnknown, 4 useFieldName), family, <Go value passed>, code (0 nil,1 error,3 panic), p.Buf
//	1926  descriptor, options (1 byteAsUint8, 2 disallowUnknown, 4 useFieldName), input, code (0 ok,1 error,3 panic,4 foreign Go type),
//	      [<Go value returned> when code = 0], bytes left
//
// Go values are emitted by walking the ACTUAL interface{} (prefix code, see gvEmit19); map entries are sorted for the
// determinism of the case file only: the checker recovers the iteration order the implementation used from its output.
func init() {
	base := generators["C19"]
	generators["C19"] = func(r *rng, n int) {
		own := &rng{s: mixSeed(r.s ^ 0xC19A11DE5C)}
		if base != nil {
			base(r, n)
		}
		genC19AnyDesc(own, n)
	}
}

// descriptor bytes: scalar [t]; string [11 bin]; list [15] e; set [14] e; map [13] k e; struct [12 n_hi n_lo] n x (id_hi id_lo len name desc)
func descBytes19(t *Ty, b []byte) []byte {
	switch t.K {
	case thrift.LIST, thrift.SET:
		return descBytes19(t.Elem, append(b, byte(t.K)))
	case thrift.MAP:
		b = descBytes19(t.Key, append(b, byte(t.K)))
		return descBytes19(t.Elem, b)
	case thrift.STRING:
		if t.Binary {
			return append(b, byte(t.K), 1)
		}
		return append(b, byte(t.K), 0)
	case thrift.STRUCT:
		b = append(b, byte(t.K), byte(len(t.Fields)>>8), byte(len(t.Fields)))
		for _, f := range t.Fields {
			b = append(b, byte(uint16(f.ID)>>8), byte(f.ID), byte(len(f.Name)))
			b = append(b, f.Name...)
			b = descBytes19(f.T, b)
		}
		return b
	}
	return append(b, byte(t.K))
}

// ---- Go value -> case fields
func gvEmit19(x interface{}) ([]string, bool) {
	var out []string
	ok := true
	var walk func(x interface{})
	emitI := func(tag string, ks []int64, get func(int64) interface{}) {
		out = append(out, "n9", tag, fi(len(ks)))
		sort.Slice(ks, func(i, j int) bool { return ks[i] < ks[j] })
		for _, k := range ks {
			out = append(out, fn(k))
			walk(get(k))
		}
	}
	walk = func(x interface{}) {
		switch v := x.(type) {
		case nil:
			out = append(out, "n0")
		case bool:
			out = append(out, "n1", fb(v))
		case int8:
			out = append(out, "n2", "n1", fn(int64(v)))
		case int16:
			out = append(out, "n2", "n2", fn(int64(v)))
		case int32:
			out = append(out, "n2", "n3", fn(int64(v)))
		case int64:
			out = append(out, "n2", "n4", fn(v))
		case int:
			out = append(out, "n2", "n5", fn(int64(v)))
		case uint8:
			out = append(out, "n2", "n6", fu(uint64(v)))
		case uint16:
			out = append(out, "n2", "n7", fu(uint64(v)))
		case uint32:
			out = append(out, "n2", "n8", fu(uint64(v)))
		case uint64:
			out = append(out, "n2", "n9", fu(v))
		case uint:
			out = append(out, "n2", "n10", fu(uint64(v)))
		case float32:
			out = append(out, "n3", fu(uint64(math.Float32bits(v))))
		case float64:
			out = append(out, "n4", fu(math.Float64bits(v)))
		case string:
			out = append(out, "n5", fs(v))
		case []byte:
			out = append(out, "n6", fx(v))
		case []interface{}:
			out = append(out, "n7", fi(len(v)))
			for _, e := range v {
				walk(e)
			}
		case map[string]interface{}:
			out = append(out, "n8", fi(len(v)))
			ks := make([]string, 0, len(v))
			for k := range v {
				ks = append(ks, k)
			}
			sort.Strings(ks)
			for _, k := range ks {
				out = append(out, fs(k))
				walk(v[k])
			}
		case map[int]interface{}:
			ks := make([]int64, 0, len(v))
			for k := range v {
				ks = append(ks, int64(k))
			}
			emitI("n5", ks, func(k int64) interface{} { return v[int(k)] })
		case map[int8]interface{}:
			ks := make([]int64, 0, len(v))
			for k := range v {
				ks = append(ks, int64(k))
			}
			emitI("n1", ks, func(k int64) interface{} { return v[int8(k)] })
		case map[int16]interface{}:
			ks := make([]int64, 0, len(v))
			for k := range v {
				ks = append(ks, int64(k))
			}
			emitI("n2", ks, func(k int64) interface{} { return v[int16(k)] })
		case map[int32]interface{}:
			ks := make([]int64, 0, len(v))
			for k := range v {
				ks = append(ks, int64(k))
			}
			emitI("n3", ks, func(k int64) interface{} { return v[int32(k)] })
		case map[int64]interface{}:
			ks := make([]int64, 0, len(v))
			for k := range v {
				ks = append(ks, k)
			}
			emitI("n4", ks, func(k int64) interface{} { return v[k] })
		case map[uint8]interface{}:
			ks := make([]int64, 0, len(v))
			for k := range v {
				ks = append(ks, int64(k))
			}
			emitI("n6", ks, func(k int64) interface{} { return v[uint8(k)] })
		case map[interface{}]interface{}:
			out = append(out, "n10", fi(len(v)))
			type ent struct {
				key, val string
			}
			es := make([]ent, 0, len(v))
			for k, e := range v {
				kf, kok := gvEmit19(k)
				vf, vok := gvEmit19(e)
				if !kok || !vok {
					ok = false
				}
				es = append(es, ent{strings.Join(kf, " "), strings.Join(vf, " ")})
			}
			sort.Slice(es, func(i, j int) bool {
				if es[i].key != es[j].key {
					return es[i].key < es[j].key
				}
				return es[i].val < es[j].val
			})
			for _, e := range es {
				out = append(out, strings.Fields(e.key)...)
				out = append(out, strings.Fields(e.val)...)
			}
		case map[thrift.FieldID]interface{}:
			out = append(out, "n11", fi(len(v)))
			ks := make([]int, 0, len(v))
			for k := range v {
				ks = append(ks, int(k))
			}
			sort.Ints(ks)
			for _, k := range ks {
				out = append(out, fn(int64(k)))
				walk(v[thrift.FieldID(k)])
			}
		case *map[string]interface{}:
			out = append(out, "n12")
			walk(*v)
		case *map[int]interface{}:
			out = append(out, "n12")
			walk(*v)
		case *map[int8]interface{}:
			out = append(out, "n12")
			walk(*v)
		case *map[int16]interface{}:
			out = append(out, "n12")
			walk(*v)
		case *map[int32]interface{}:
			out = append(out, "n12")
			walk(*v)
		case *map[int64]interface{}:
			out = append(out, "n12")
			walk(*v)
		case *map[interface{}]interface{}:
			out = append(out, "n12")
			walk(*v)
		case *map[thrift.FieldID]interface{}:
			out = append(out, "n12")
			walk(*v)
		case *[]interface{}:
			out = append(out, "n12")
			walk(*v)
		case *int32:
			out = append(out, "n12")
			walk(*v)
		default:
			ok = false
			out = append(out, "n0")
		}
	}
	walk(x)
	return out, ok
}

// ---- abstract value -> Go value, with optional deviations
type conv19 struct {
	r      *rng
	byName bool
	mode   int // 0 conforming, 1 deviant (cast=false), 2 other Go types (cast=true)
	budget int // deviations left
}

func (a *conv19) hit() bool {
	if a.mode == 0 || a.budget <= 0 || !a.r.chance(15) {
		return false
	}
	a.budget--
	return true
}

// a hashable form of a map[interface{}]interface{} key: containers by pointer
func ptrKey(kv interface{}) interface{} {
	switch x := kv.(type) {
	case map[string]interface{}:
		return &x
	case map[int]interface{}:
		return &x
	case map[int8]interface{}:
		return &x
	case map[int16]interface{}:
		return &x
	case map[int32]interface{}:
		return &x
	case map[int64]interface{}:
		return &x
	case map[uint8]interface{}:
		return nil
	case map[interface{}]interface{}:
		return &x
	case map[thrift.FieldID]interface{}:
		return &x
	case []interface{}:
		return &x
	case []byte:
		return string(x)
	}
	return kv
}

func (a *conv19) castScalar(v *Val) interface{} {
	r := a.r
	switch v.T.K {
	case thrift.BOOL:
		return []interface{}{int(r.intn(3)), int8(0), uint16(2), uint64(1) << 63, int64(-1), "", "x", []byte{}, []byte("0"), float64(0),
			float32(1), math.Float64frombits(0x8000000000000000), math.NaN(), nil, []interface{}{}, 0.5, -0.25, 1e-9, math.SmallestNonzeroFloat64,
			float32(0.5), float32(-1e-9), math.SmallestNonzeroFloat32, 1e300}[r.intn(23)]
	case thrift.I08, thrift.I16, thrift.I32, thrift.I64:
		n := v.I
		if r.chance(30) {
			n = int64(r.u64())
		}
		switch r.intn(16) {
		case 0:
			return int(n)
		case 1:
			return int8(n)
		case 2:
			return int16(n)
		case 3:
			return int32(n)
		case 4:
			return n
		case 5:
			return uint8(n)
		case 6:
			return uint16(n)
		case 7:
			return uint32(n)
		case 8:
			return uint64(n)
		case 9:
			return uint(n)
		case 10:
			return n&1 == 1
		case 11:
			return strconv.FormatInt(n, 10)
		case 12:
			return []byte(strconv.FormatInt(n, 10))
		case 13:
			return []string{"", "+", "-", "+5", "-0", "007", "1_0", "12x", " 1", "9223372036854775808", "-9223372036854775808",
				"-9223372036854775809", "18446744073709551616", "0x10", "1e3", "٣"}[r.intn(16)]
		case 14:
			return []interface{}{float64(n), 0.5, -0.25, 1e-9, -1.5, 1e19, math.NaN(), math.Inf(-1), float32(n), float32(0.75), float64(int32(n)) + 0.5}[r.intn(11)]
		default:
			return nil
		}
	case thrift.DOUBLE:
		return []interface{}{true, false, math.Float64frombits(v.D), int32(3), "1.5", float32(2), nil, int64(r.u64()), r.u64(), int8(r.u64()), float32(0.1), uint16(r.u64())}[r.intn(12)]
	case thrift.STRING:
		switch r.intn(8) {
		case 0:
			return int64(r.u64())
		case 1:
			return int8(r.u64())
		case 2:
			return r.u64()
		case 3:
			return r.bool()
		case 4:
			return uint16(r.u64())
		case 5:
			return float64(1.5) // outside the model
		case 6:
			return nil // outside the model
		default:
			return int(int32(r.u64()))
		}
	}
	return nil
}

func (a *conv19) wrongKind(v *Val) interface{} {
	r := a.r
	switch r.intn(12) {
	case 0:
		return nil
	case 1:
		return "str"
	case 2:
		return true
	case 3:
		if v.T.K == thrift.I64 {
			return int32(1)
		}
		return int64(1)
	case 4:
		return int(5)
	case 5:
		return float64(1.5)
	case 6:
		return []interface{}{int32(1)}
	case 7:
		return uint16(3)
	case 8:
		return map[string]interface{}{}
	case 9:
		return map[thrift.FieldID]interface{}{}
	case 10:
		return map[uint8]interface{}{1: int32(1)}
	default:
		return map[interface{}]interface{}{}
	}
}

func fitsAll(ks []*Val, lo, hi int64) bool {
	for _, k := range ks {
		if k.I < lo || k.I > hi {
			return false
		}
	}
	return true
}

func (a *conv19) val(v *Val) interface{} {
	r := a.r
	scalar := v.T.K != thrift.LIST && v.T.K != thrift.SET && v.T.K != thrift.MAP && v.T.K != thrift.STRUCT
	if a.hit() {
		if a.mode == 2 && scalar {
			return a.castScalar(v)
		}
		return a.wrongKind(v)
	}
	switch v.T.K {
	case thrift.BOOL:
		return v.I != 0
	case thrift.I08:
		if r.bool() {
			return byte(v.I)
		}
		return int8(v.I)
	case thrift.I16:
		return int16(v.I)
	case thrift.I32:
		return int32(v.I)
	case thrift.I64:
		return v.I
	case thrift.DOUBLE:
		return math.Float64frombits(v.D)
	case thrift.STRING:
		if r.chance(35) {
			return append([]byte{}, v.S...)
		}
		return string(v.S)
	case thrift.LIST, thrift.SET:
		out := make([]interface{}, 0, len(v.Elems))
		for _, e := range v.Elems {
			out = append(out, a.val(e))
		}
		return out
	case thrift.STRUCT:
		byS := map[string]interface{}{}
		byN := map[thrift.FieldID]interface{}{}
		for i, id := range v.FIDs {
			x := a.val(v.Fields[i])
			if a.byName {
				for _, f := range v.T.Fields {
					if f.ID == id {
						byS[f.Name] = x
					}
				}
			} else {
				byN[thrift.FieldID(id)] = x
			}
		}
		if a.mode == 1 && a.hit() {
			// a member the descriptor does not know
			if a.byName {
				byS["zz_unknown_member"] = int32(1)
			} else {
				byN[thrift.FieldID(40000+r.intn(1000))] = "u"
			}
		}
		if a.byName {
			return byS
		}
		return byN
	case thrift.MAP:
		switch v.T.Key.K {
		case thrift.STRING:
			out := map[string]interface{}{}
			for i, k := range v.Keys {
				out[string(k.S)] = a.val(v.Elems[i])
			}
			return out
		case thrift.I08, thrift.I16, thrift.I32, thrift.I64:
			kind := r.intn(6)
			if a.mode != 0 && r.chance(20) {
				// keys beyond the width of the key type: WriteInt truncates them
				out := map[int]interface{}{}
				for i, k := range v.Keys {
					out[int(k.I)+(r.intn(3)-1)*65536*256] = a.val(v.Elems[i])
				}
				return out
			}
			switch {
			case kind == 1 && fitsAll(v.Keys, -128, 127):
				out := map[int8]interface{}{}
				for i, k := range v.Keys {
					out[int8(k.I)] = a.val(v.Elems[i])
				}
				return out
			case kind == 2 && fitsAll(v.Keys, -32768, 32767):
				out := map[int16]interface{}{}
				for i, k := range v.Keys {
					out[int16(k.I)] = a.val(v.Elems[i])
				}
				return out
			case kind == 3 && fitsAll(v.Keys, math.MinInt32, math.MaxInt32):
				out := map[int32]interface{}{}
				for i, k := range v.Keys {
					out[int32(k.I)] = a.val(v.Elems[i])
				}
				return out
			case kind == 4:
				out := map[int64]interface{}{}
				for i, k := range v.Keys {
					out[k.I] = a.val(v.Elems[i])
				}
				return out
			case kind == 5 && a.mode == 1 && fitsAll(v.Keys, 0, 255):
				out := map[uint8]interface{}{}
				for i, k := range v.Keys {
					out[uint8(k.I)] = a.val(v.Elems[i])
				}
				return out
			}
			out := map[int]interface{}{}
			for i, k := range v.Keys {
				out[int(k.I)] = a.val(v.Elems[i])
			}
			return out
		default:
			out := map[interface{}]interface{}{}
			for i, k := range v.Keys {
				kv := ptrKey(a.val(k))
				if kv == nil && a.mode == 0 {
					continue
				}
				out[kv] = a.val(v.Elems[i])
			}
			return out
		}
	}
	return nil
}

// ---- encoder with deviations of the wire form: unknown fields, repeated fields, repeated map keys
type enc19 struct {
	r    *rng
	g    *tgen
	unk  bool // inject fields the descriptor does not declare
	dups bool // repeat a field / a map entry
}

var unkTypes = []*Ty{{K: thrift.BOOL}, {K: thrift.I08}, {K: thrift.I16}, {K: thrift.I32}, {K: thrift.I64}, {K: thrift.DOUBLE}, {K: thrift.STRING},
	{K: thrift.LIST, Elem: &Ty{K: thrift.I32}}, {K: thrift.MAP, Key: &Ty{K: thrift.STRING}, Elem: &Ty{K: thrift.LIST, Elem: &Ty{K: thrift.BOOL}}},
	{K: thrift.SET, Elem: &Ty{K: thrift.STRING}}, {K: thrift.STRUCT, Name: "U", Fields: []*Fld{{ID: 1, Name: "a", T: &Ty{K: thrift.I64}}, {ID: 2, Name: "b", T: &Ty{K: thrift.STRING}}}}}

func (e *enc19) unknown(t *Ty, b []byte) []byte {
	id := int16(0)
	for try := 0; try < 50; try++ {
		id = int16(e.r.u64())
		if e.r.chance(50) {
			id = int16(1 + e.r.intn(40))
		}
		found := false
		for _, f := range t.Fields {
			if f.ID == id {
				found = true
			}
		}
		if !found {
			break
		}
	}
	ut := unkTypes[e.r.intn(len(unkTypes))]
	uv := e.g.genValue(ut, 3)
	b = append(b, byte(ut.K))
	b = binary.BigEndian.AppendUint16(b, uint16(id))
	return uv.encode(b)
}

func (e *enc19) enc(v *Val, b []byte) []byte {
	switch v.T.K {
	case thrift.STRUCT:
		for i, id := range v.FIDs {
			if e.unk && e.r.chance(20) {
				b = e.unknown(v.T, b)
			}
			b = append(b, byte(v.Fields[i].T.K))
			b = binary.BigEndian.AppendUint16(b, uint16(id))
			b = e.enc(v.Fields[i], b)
			if e.dups && e.r.chance(15) {
				b = append(b, byte(v.Fields[i].T.K))
				b = binary.BigEndian.AppendUint16(b, uint16(id))
				b = e.g.genValue(v.Fields[i].T, 2).encode(b)
			}
		}
		if e.unk && e.r.chance(30) {
			b = e.unknown(v.T, b)
		}
		return append(b, 0)
	case thrift.LIST, thrift.SET:
		b = append(b, byte(v.T.Elem.K))
		b = binary.BigEndian.AppendUint32(b, uint32(len(v.Elems)))
		for _, x := range v.Elems {
			b = e.enc(x, b)
		}
		return b
	case thrift.MAP:
		dup := e.dups && len(v.Elems) > 0 && e.r.chance(30)
		n := len(v.Elems)
		if dup {
			n++
		}
		b = append(b, byte(v.T.Key.K), byte(v.T.Elem.K))
		b = binary.BigEndian.AppendUint32(b, uint32(n))
		for i, x := range v.Elems {
			b = e.enc(v.Keys[i], b)
			b = e.enc(x, b)
		}
		if dup {
			i := e.r.intn(len(v.Elems))
			b = v.Keys[i].encode(b)
			b = e.g.genValue(v.T.Elem, 2).encode(b)
		}
		return b
	}
	return v.encode(b)
}

func c19Write(desc *thrift.TypeDescriptor, gv interface{}, cast, disallow, byName bool) (string, []byte) {
	var b []byte
	var werr error
	okw, _ := noPanic(func() {
		p := thrift.NewBinaryProtocolBuffer()
		werr = p.WriteAnyWithDesc(desc, gv, cast, disallow, byName)
		b = append([]byte{}, p.Buf...)
		thrift.FreeBinaryProtocolBuffer(p)
	})
	if !okw {
		return "n3", nil
	}
	return berr(werr), b
}

func c19EmitRead(db []byte, desc *thrift.TypeDescriptor, in []byte, u8, disallow, byName bool) {
	if len(in) > 4096 {
		return
	}
	var g interface{}
	var rerr error
	left := 0
	okr, _ := noPanic(func() {
		p := thrift.NewBinaryProtocol(append([]byte{}, in...))
		g, rerr = p.ReadAnyWithDesc(desc, u8, true, disallow, byName)
		left = len(p.Buf) - p.Read
		p.Recycle()
	})
	o := 0
	if u8 {
		o |= 1
	}
	if disallow {
		o |= 2
	}
	if byName {
		o |= 4
	}
	fields := []string{fx(db), fi(o), fx(in)}
	switch {
	case !okr:
		fields = append(fields, "n3", "n0")
	case rerr != nil:
		fields = append(fields, "n1", "n0")
	default:
		gf, ok := gvEmit19(g)
		if !ok {
			fields = append(fields, "n4", "n0")
		} else {
			fields = append(fields, "n0")
			fields = append(fields, gf...)
			fields = append(fields, fi(left))
		}
	}
	out.emit(1926, fields...)
}

// the numeric sources of the cast mode (internal/primitive ToBool / ToInt64 / ToFloat64 / ToString): floats in (0,1),
// negative fractions, huge magnitudes, NaN / infinities / signed zeros, and every integer kind at its boundaries
func castSources(r *rng) []interface{} {
	f64 := []float64{0.5, -0.25, 1e-9, -1e-9, math.SmallestNonzeroFloat64, -math.SmallestNonzeroFloat64, 0.9999999999999999, -0.9999999999999999,
		1, -1, 1.5, -1.5, 2.5, 127.9, 128, -128.9, -129, 255.5, 256, 32767.5, 32768, -32768.9, 65535.9, 2147483647.5, 2147483648, -2147483648.5,
		4294967295.5, 4294967296, 9007199254740992, 9007199254740994, 9223372036854774784, 9223372036854775808, -9223372036854775808,
		-9223372036854777856, 18446744073709551616, 1e19, -1e19, 1e300, -1e300, math.MaxFloat64, math.Inf(1), math.Inf(-1), math.NaN(),
		0, math.Copysign(0, -1), math.Float64frombits(0x000fffffffffffff), math.Float64frombits(0x0010000000000000), math.Pi, -math.E}
	f32 := []float32{0.5, -0.25, 1e-9, math.SmallestNonzeroFloat32, -math.SmallestNonzeroFloat32, 0.99999994, 1, -1.5, 127.5, 300.25, 16777216,
		2147483648, -2147483648, 9223372036854775808, 1e19, math.MaxFloat32, float32(math.Inf(1)), float32(math.Inf(-1)), float32(math.NaN()),
		0, float32(math.Copysign(0, -1)), math.Float32frombits(0x007fffff), math.Float32frombits(0x00800000)}
	out := []interface{}{true, false}
	for _, f := range f64 {
		out = append(out, f)
	}
	for _, f := range f32 {
		out = append(out, f)
	}
	for i := 0; i < 6; i++ {
		out = append(out, math.Float64frombits(r.u64()), math.Float32frombits(uint32(r.u64())&0x7f7fffff|uint32(r.u64())&0x80000000))
	}
	out = append(out,
		int8(math.MinInt8), int8(-1), int8(0), int8(1), int8(math.MaxInt8),
		int16(math.MinInt16), int16(-129), int16(0), int16(128), int16(math.MaxInt16),
		int32(math.MinInt32), int32(-32769), int32(0), int32(32768), int32(math.MaxInt32),
		int64(math.MinInt64), int64(math.MinInt64+1), int64(-2147483649), int64(0), int64(2147483648), int64(9007199254740993), int64(-9007199254740993), int64(math.MaxInt64),
		int(math.MinInt64), int(-1), int(0), int(256), int(65536), int(math.MaxInt64),
		uint8(0), uint8(1), uint8(127), uint8(128), uint8(255),
		uint16(0), uint16(255), uint16(256), uint16(32768), uint16(math.MaxUint16),
		uint32(0), uint32(65536), uint32(2147483648), uint32(math.MaxUint32),
		uint64(0), uint64(1)<<32, uint64(1)<<53+1, uint64(1)<<63-1, uint64(1)<<63, uint64(1)<<63+1025, uint64(math.MaxUint64)-1024, uint64(math.MaxUint64),
		uint(0), uint(1)<<63, uint(math.MaxUint64),
		"", "0", "-1", "127", "128", "-129", "32768", "2147483648", "9223372036854775807", "9223372036854775808", "-9223372036854775808", "0.5", "1e3", "abc",
		[]byte{}, []byte("255"), []byte("-32769"), []byte("x"), nil)
	return out
}

func genC19CastSweep(r *rng) {
	root := &Ty{K: thrift.STRUCT, Name: "CS", Fields: []*Fld{
		{ID: 1, Name: "b", T: &Ty{K: thrift.BOOL}}, {ID: 2, Name: "y", T: &Ty{K: thrift.I08}}, {ID: 3, Name: "s", T: &Ty{K: thrift.I16}},
		{ID: 4, Name: "i", T: &Ty{K: thrift.I32}}, {ID: 5, Name: "l", T: &Ty{K: thrift.I64}}, {ID: 6, Name: "d", T: &Ty{K: thrift.DOUBLE}},
		{ID: 7, Name: "t", T: &Ty{K: thrift.STRING}},
		{ID: 8, Name: "lb", T: &Ty{K: thrift.LIST, Elem: &Ty{K: thrift.BOOL}}},
		{ID: 9, Name: "mb", T: &Ty{K: thrift.MAP, Key: &Ty{K: thrift.STRING}, Elem: &Ty{K: thrift.BOOL}}},
		{ID: 10, Name: "md", T: &Ty{K: thrift.MAP, Key: &Ty{K: thrift.I16}, Elem: &Ty{K: thrift.DOUBLE}}},
		{ID: 11, Name: "sl", T: &Ty{K: thrift.SET, Elem: &Ty{K: thrift.I64}}}}}
	g := newTgen(r.fork())
	g.structs = []*Ty{root}
	desc, err := parseThrift(g.idl(root), thrift.Options{})
	if err != nil {
		die("cast IDL: %v", err)
	}
	db := descBytes19(root, nil)
	for _, src := range castSources(r) {
		for _, f := range root.Fields {
			var x interface{} = src
			switch f.ID {
			case 8, 11:
				x = []interface{}{src}
			case 9:
				x = map[string]interface{}{"k": src}
			case 10:
				x = map[int]interface{}{7: src}
			}
			if f.ID > 7 && !r.chance(40) {
				continue
			}
			byName := r.chance(25)
			cast := !r.chance(8)
			var gv interface{}
			if byName {
				gv = map[string]interface{}{f.Name: x}
			} else {
				gv = map[thrift.FieldID]interface{}{thrift.FieldID(f.ID): x}
			}
			gf, ok := gvEmit19(gv)
			if !ok {
				continue
			}
			wc, b := c19Write(desc, gv, cast, false, byName)
			o := 0
			if cast {
				o |= 1
			}
			if byName {
				o |= 4
			}
			fields := []string{fx(db), fi(o), "n2"}
			fields = append(fields, gf...)
			fields = append(fields, wc, fx(b))
			out.emit(1925, fields...)
		}
	}
}

func genC19AnyDesc(r *rng, n int) {
	genC19CastSweep(r.fork())
	nschemas := 8 + n/150
	for si := 0; si < nschemas; si++ {
		g := newTgen(r.fork())
		g.maxDepth = 3
		g.structKeys = true
		g.keyKinds = []thrift.Type{thrift.STRING, thrift.I08, thrift.I16, thrift.I32, thrift.I64, thrift.DOUBLE, thrift.BOOL, thrift.STRING, thrift.I32}
		root := g.genStruct(0)
		if si%5 == 4 {
			setBinary(root, r.bool(), map[*Ty]bool{})
		}
		idl := g.idl(root)
		desc, err := parseThrift(idl, thrift.Options{})
		if err != nil {
			die("generated IDL does not parse: %v\n%s", err, idl)
		}
		db := descBytes19(root, nil)
		if len(db) > 2048 {
			continue
		}
		for k := 0; k < 3; k++ {
			v := g.genValue(root, 0)
			permuteStructKeys(g, v)
			refb := v.encode(nil)
			if len(refb) > 3000 {
				continue
			}
			rr := r.fork()
			byName := rr.chance(40)
			emitW := func(gv interface{}, cast, dis, byName bool, fam int) []byte {
				gf, ok := gvEmit19(gv)
				if !ok {
					return nil
				}
				wc, b := c19Write(desc, gv, cast, dis, byName)
				if len(b) > 8192 {
					return nil
				}
				o := 0
				if cast {
					o |= 1
				}
				if dis {
					o |= 2
				}
				if byName {
					o |= 4
				}
				fields := []string{fx(db), fi(o), fi(fam)}
				fields = append(fields, gf...)
				fields = append(fields, wc, fx(b))
				out.emit(1925, fields...)
				if wc == "n0" {
					return b
				}
				return nil
			}
			// 1925 conforming (cast on or off: no conversion is needed)
			a := &conv19{r: rr, byName: byName}
			wb := emitW(a.val(v), rr.chance(30), rr.bool(), byName, 0)
			// one member the descriptor does not declare at the root: error iff disallowUnknown, else left out
			for _, dis := range []bool{true, false} {
				gu := a.val(v)
				switch m := gu.(type) {
				case map[string]interface{}:
					m["zz_unknown_member"] = []interface{}{int32(1), "x"}[rr.intn(2)]
				case map[thrift.FieldID]interface{}:
					m[thrift.FieldID(40000+rr.intn(20000))] = []interface{}{int64(1), "u", nil}[rr.intn(3)]
				}
				emitW(gu, false, dis, byName, 1)
			}
			// the wrong struct presentation for the option
			if rr.chance(20) {
				emitW(a.val(v), false, false, !byName, 1)
			}
			// deviant values (cast=false) and other Go types (cast=true)
			for mode := 1; mode <= 2; mode++ {
				d := &conv19{r: rr, byName: byName, mode: mode, budget: 1 + rr.intn(2)}
				emitW(d.val(v), mode == 2, rr.bool(), byName, mode)
			}
			// 1926: reference encoding, both struct presentations, both byte presentations
			c19EmitRead(db, desc, refb, rr.bool(), rr.bool(), byName)
			c19EmitRead(db, desc, refb, rr.bool(), rr.bool(), !byName)
			// the writer's own output
			if wb != nil {
				c19EmitRead(db, desc, wb, rr.bool(), rr.bool(), byName)
			}
			// unknown fields, repeated fields and map keys
			e := &enc19{r: rr, g: g, unk: true}
			withU := e.enc(v, nil)
			c19EmitRead(db, desc, withU, rr.bool(), false, byName)
			c19EmitRead(db, desc, withU, rr.bool(), true, byName)
			e2 := &enc19{r: rr, g: g, unk: rr.chance(30), dups: true}
			c19EmitRead(db, desc, e2.enc(v, nil), rr.bool(), false, rr.bool())
			// trailing bytes, truncation, corruption
			c19EmitRead(db, desc, append(append([]byte{}, refb...), rr.bytes(1+rr.intn(4))...), rr.bool(), false, byName)
			if len(refb) > 0 {
				c19EmitRead(db, desc, refb[:rr.intn(len(refb))], rr.bool(), false, byName)
				for c := 0; c < 2; c++ {
					cb := append([]byte{}, refb...)
					i := rr.intn(len(cb))
					if rr.chance(50) {
						cb[i] = byte(rr.next())
					} else {
						cb[i] ^= 1 << uint(rr.intn(8))
					}
					c19EmitRead(db, desc, cb, rr.bool(), rr.bool(), byName)
				}
			}
		}
	}
}
