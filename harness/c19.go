//go:build verif

package main

import (
	"math"
	"reflect"

	"github.com/cloudwego/dynamicgo/thrift"
)

func init() { generators["C19"] = genC19 }

func berr(e error) string {
	if e != nil {
		return "n1"
	}
	return "n0"
}

// Go value in ReadAny's normal form for an abstract value
func (v *Val) goAny() interface{} {
	switch v.T.K {
	case thrift.BOOL:
		return v.I != 0
	case thrift.I08:
		return int8(v.I)
	case thrift.I16:
		return int16(v.I)
	case thrift.I32:
		return int32(v.I)
	case thrift.I64:
		return v.I
	case thrift.DOUBLE:
		return math.Float64frombits(v.D)
	case thrift.STRING:
		return string(v.S)
	case thrift.LIST, thrift.SET:
		out := make([]interface{}, 0, len(v.Elems))
		for _, e := range v.Elems {
			out = append(out, e.goAny())
		}
		return out
	case thrift.STRUCT:
		out := map[thrift.FieldID]interface{}{}
		for i, id := range v.FIDs {
			out[thrift.FieldID(id)] = v.Fields[i].goAny()
		}
		return out
	case thrift.MAP:
		switch v.T.Key.K {
		case thrift.STRING:
			out := map[string]interface{}{}
			for i, k := range v.Keys {
				out[string(k.S)] = v.Elems[i].goAny()
			}
			return out
		case thrift.I64:
			out := map[int]interface{}{}
			for i, k := range v.Keys {
				out[int(k.I)] = v.Elems[i].goAny()
			}
			return out
		default:
			out := map[interface{}]interface{}{}
			for i, k := range v.Keys {
				out[k.goAny()] = v.Elems[i].goAny()
			}
			return out
		}
	}
	return nil
}

// all containers non-empty, struct with at least one field, no NaN keys (NaN != NaN as a Go map key)
func anyOK(v *Val, top bool) bool {
	switch v.T.K {
	case thrift.BOOL:
		return v.I == 0 || v.I == 1
	case thrift.LIST, thrift.SET:
		if len(v.Elems) == 0 {
			return false
		}
	case thrift.MAP:
		if len(v.Elems) == 0 {
			return false
		}
		for _, k := range v.Keys {
			if k.T.K == thrift.DOUBLE {
				f := math.Float64frombits(k.D)
				if f != f || k.D == 0x8000000000000000 { // NaN != NaN, and -0 == +0 as Go map keys
					return false
				}
			}
			if !anyOK(k, false) {
				return false
			}
		}
	case thrift.STRUCT:
		if len(v.Fields) == 0 && !top {
			// an empty struct is fine for WriteAny (map[FieldID]interface{}{}), keep it
		}
		for _, f := range v.Fields {
			if !anyOK(f, false) {
				return false
			}
		}
	}
	for _, e := range v.Elems {
		if !anyOK(e, false) {
			return false
		}
	}
	return true
}

func genC19(r *rng, n int) {
	bnd := boundaries64()
	// 1901 scalars: exhaustive bool/byte, i16 boundaries + sample, boundary + random for the rest
	emitScalar := func(t thrift.Type, raw uint64) {
		p := thrift.NewBinaryProtocolBuffer()
		var img int64
		var uimg uint64
		uns := false
		switch t {
		case thrift.BOOL:
			b := raw&1 == 1
			p.WriteBool(b)
			img = int64(raw & 1)
		case thrift.I08:
			p.WriteByte(byte(raw))
			img = int64(int8(raw))
		case thrift.I16:
			p.WriteI16(int16(raw))
			img = int64(int16(raw))
		case thrift.I32:
			p.WriteI32(int32(raw))
			img = int64(int32(raw))
		case thrift.I64:
			p.WriteI64(int64(raw))
			img = int64(raw)
		case thrift.DOUBLE:
			p.WriteDouble(math.Float64frombits(raw))
			uimg, uns = raw, true
		}
		w := append([]byte(nil), p.Buf...)
		thrift.FreeBinaryProtocolBuffer(p)
		rp := thrift.NewBinaryProtocol(w)
		var rb string
		var e error
		switch t {
		case thrift.BOOL:
			var b bool
			b, e = rp.ReadBool()
			rb = fb(b)
		case thrift.I08:
			var b byte
			b, e = rp.ReadByte()
			rb = fn(int64(int8(b)))
		case thrift.I16:
			var x int16
			x, e = rp.ReadI16()
			rb = fn(int64(x))
		case thrift.I32:
			var x int32
			x, e = rp.ReadI32()
			rb = fn(int64(x))
		case thrift.I64:
			var x int64
			x, e = rp.ReadI64()
			rb = fn(x)
		case thrift.DOUBLE:
			var x float64
			x, e = rp.ReadDouble()
			rb = fu(math.Float64bits(x))
		}
		vimg := fn(img)
		if uns {
			vimg = fu(uimg)
		}
		out.emit(1901, fi(int(t)), vimg, fx(w), rb, berr(e))
	}
	for b := 0; b < 2; b++ {
		emitScalar(thrift.BOOL, uint64(b))
	}
	for b := 0; b < 256; b++ {
		emitScalar(thrift.I08, uint64(b))
	}
	for x := 0; x < 65536; x += 257 {
		emitScalar(thrift.I16, uint64(x))
	}
	for i := 0; i < len(bnd)+n/4; i++ {
		raw := r.u64()
		if i < len(bnd) {
			raw = bnd[i]
		}
		for _, t := range []thrift.Type{thrift.I16, thrift.I32, thrift.I64, thrift.DOUBLE} {
			emitScalar(t, raw)
		}
	}
	// 1902 strings / binaries
	for i := 0; i < 40+n/20; i++ {
		l := r.intn(40)
		if i%10 == 0 {
			l = []int{0, 1, 255, 256, 4095, 4096, 4097, 70000}[r.intn(8)]
		}
		s := r.bytes(l)
		p := thrift.NewBinaryProtocolBuffer()
		p.WriteString(string(s))
		w1 := append([]byte(nil), p.Buf...)
		p.Buf = p.Buf[:0]
		p.WriteBinary(s)
		w2 := append([]byte(nil), p.Buf...)
		thrift.FreeBinaryProtocolBuffer(p)
		rp := thrift.NewBinaryProtocol(w1)
		r1, e1 := rp.ReadString(true)
		rp2 := thrift.NewBinaryProtocol(w2)
		r2, e2 := rp2.ReadBinary(true)
		e := e1
		if e == nil {
			e = e2
		}
		out.emit(1902, fx(s), fx(w1), fx(w2), fs(r1), fx(r2), berr(e))
	}
	// 1903 skip on generated values (+ tail), truncations and corrupted type bytes
	emitSkip := func(t thrift.Type, b []byte) {
		p := thrift.BinaryProtocol{Buf: b}
		var e1, e2 error
		n1, n2 := 0, 0
		if ok, _ := noPanic(func() { e1 = p.SkipGo(t, thrift.MaxSkipDepth); n1 = p.Read }); !ok {
			e1, n1 = errPanic, -1
		}
		p2 := thrift.BinaryProtocol{Buf: b}
		if ok, _ := noPanic(func() { e2 = p2.SkipNative(t, thrift.MaxSkipDepth); n2 = p2.Read }); !ok {
			e2, n2 = errPanic, -1
		}
		if e1 != nil {
			n1 = 0
		}
		if e2 != nil {
			n2 = 0
		}
		out.emit(1903, fi(int(t)), fx(b), berr(e1), fi(n1), berr(e2), fi(n2), fi(thrift.TypeSize(t)))
	}
	for i := 0; i < n/12+10; i++ {
		g := newTgen(r.fork())
		g.structKeys = true
		root := g.genType(0)
		v := g.genValue(root, 0)
		b := v.encode(nil)
		tail := r.bytes(r.intn(4))
		emitSkip(root.K, append(append([]byte(nil), b...), tail...))
		if len(b) > 1 && r.chance(50) {
			emitSkip(root.K, b[:r.intn(len(b))]) // truncated
		}
		if len(b) > 0 && r.chance(30) { // one byte substituted
			c := append([]byte(nil), b...)
			c[r.intn(len(c))] = byte(r.next())
			emitSkip(root.K, c)
		}
	}
	for t := 0; t < 20; t++ { // every small type code on a short buffer
		emitSkip(thrift.Type(t), []byte{0, 0, 0, 1, 0, 0, 0, 0, 0})
	}
	// 1904 envelope
	for i := 0; i < 60+n/20; i++ {
		name := r.bytes(r.intn(20))
		if i%7 == 0 {
			name = nil
		}
		ty := thrift.TMessageType(1 + r.intn(4))
		if r.chance(10) {
			ty = thrift.TMessageType(r.intn(256))
		}
		seq := int32(r.u64())
		id := int16(r.u64())
		if r.chance(50) {
			id = int16(r.intn(3))
		}
		g := newTgen(r.fork())
		root := g.genStruct(1)
		body := g.genValue(root, 1).encode(nil)
		w, _ := thrift.WrapBinaryBody(body, string(name), ty, thrift.FieldID(id), seq)
		h, f, _ := thrift.GetBinaryMessageHeaderAndFooter(string(name), ty, thrift.FieldID(id), seq)
		un, ut, us, ui, ub, ue := thrift.UnwrapBinaryMessage(w)
		out.emit(1904, fx(name), fi(int(ty)), fn(int64(seq)), fn(int64(id)), fx(body), fx(w), fx(h), fx(f),
			berr(ue), fs(un), fi(int(ut)), fn(int64(us)), fn(int64(int16(ui))), fx(ub))
		// 1905: unwrap on truncated / corrupted envelopes
		var c []byte
		if r.bool() && len(w) > 0 {
			c = append([]byte(nil), w[:r.intn(len(w))]...)
		} else {
			c = append([]byte(nil), w...)
			c[r.intn(len(c))] = byte(r.next())
		}
		var un2 string
		var ut2 thrift.TMessageType
		var us2 int32
		var ui2 thrift.FieldID
		var ub2 []byte
		var ue2 error
		if ok, _ := noPanic(func() { un2, ut2, us2, ui2, ub2, ue2 = thrift.UnwrapBinaryMessage(c) }); !ok {
			out.emit(1905, fx(c), "n3", fx(nil), "n0", "n0", "n0", fx(nil))
		} else if ue2 != nil {
			out.emit(1905, fx(c), "n1", fx(nil), "n0", "n0", "n0", fx(nil))
		} else {
			out.emit(1905, fx(c), "n0", fs(un2), fi(int(ut2)), fn(int64(us2)), fn(int64(int16(ui2))), fx(ub2))
		}
	}
	// 1906 WriteAny / ReadAny
	for i := 0; i < n/10+10; i++ {
		g := newTgen(r.fork())
		g.maxDepth = 3
		g.keyKinds = []thrift.Type{thrift.STRING, thrift.I64, thrift.DOUBLE, thrift.STRING, thrift.I64}
		root := g.genType(0)
		var v *Val
		for try := 0; try < 20; try++ {
			v = g.genValue(root, 0)
			if anyOK(v, true) {
				break
			}
			v = nil
		}
		if v == nil {
			continue
		}
		exp := v.encode(nil)
		gv := v.goAny()
		p := thrift.NewBinaryProtocolBuffer()
		var werr, rerr, w2err error
		var gv2 interface{}
		var b1, b2 []byte
		asSet := false
		if hasSet(root) {
			thrift.FreeBinaryProtocolBuffer(p)
			continue // WriteAny tags every nested Go slice as LIST (GoType2ThriftType); sets are not expressible without a descriptor
		}
		ok, _ := noPanic(func() {
			_, werr = p.WriteAny(gv, asSet)
			b1 = append([]byte(nil), p.Buf...)
			if werr == nil {
				rp := thrift.NewBinaryProtocol(b1)
				gv2, rerr = rp.ReadAny(root.K, false, true)
				if rerr == nil {
					p.Buf = p.Buf[:0]
					_, w2err = p.WriteAny(gv2, asSet)
					b2 = append([]byte(nil), p.Buf...)
				}
			}
		})
		thrift.FreeBinaryProtocolBuffer(p)
		if !ok {
			out.emit(1906, fi(int(root.K)), fx(exp), "n3", fx(nil), "n0", fx(nil), "n0")
			continue
		}
		if rerr == nil && w2err != nil {
			rerr = w2err
		}
		same := rerr == nil && reflect.DeepEqual(normAny(gv), normAny(gv2))
		out.emit(1906, fi(int(root.K)), fx(exp), berr(werr), fx(b1), berr(rerr), fx(b2), fb(same))
	}
}

type panicErr struct{}

func (panicErr) Error() string { return "panic" }

var errPanic error = panicErr{}

func hasSet(t *Ty) bool {
	if t == nil {
		return false
	}
	if t.K == thrift.SET {
		return true
	}
	for _, f := range t.Fields {
		if hasSet(f.T) {
			return true
		}
	}
	return hasSet(t.Key) || hasSet(t.Elem)
}

// normal form for comparing Go values read back: NaN-safe doubles as bits, int -> int64
func normAny(v interface{}) interface{} {
	switch x := v.(type) {
	case float64:
		return math.Float64bits(x)
	case int:
		return int64(x)
	case []interface{}:
		out := make([]interface{}, len(x))
		for i, e := range x {
			out[i] = normAny(e)
		}
		return out
	case map[string]interface{}:
		out := map[string]interface{}{}
		for k, e := range x {
			out[k] = normAny(e)
		}
		return out
	case map[int]interface{}:
		out := map[int64]interface{}{}
		for k, e := range x {
			out[int64(k)] = normAny(e)
		}
		return out
	case map[thrift.FieldID]interface{}:
		out := map[thrift.FieldID]interface{}{}
		for k, e := range x {
			out[k] = normAny(e)
		}
		return out
	case map[interface{}]interface{}:
		out := map[interface{}]interface{}{}
		for k, e := range x {
			out[normAny(k)] = normAny(e)
		}
		return out
	}
	return v
}
