//go:build verif

package main

import "github.com/cloudwego/dynamicgo/thrift"

// Generated-definition checks for gen/Gen_thriftreq.v (go2coq abstract-environment mode):
//   1692  thrift/idl.go convertRequireness                       (C16)
//   1693  thrift/utils.go HandleRequires, decision for a marked bit (C16)
//   1193  thrift/utils.go CheckRequires, decision for a marked bit  (C11)
// The REAL functions are run on small exhaustive sweeps (all requiredness values incl. invalid ones x all option settings x boundary
// field ids); the Gallina checker compares with the generated definitions and with the models' decision functions.
func init() {
	base16 := generators["C16"]
	generators["C16"] = func(r *rng, n int) {
		g := g2cRng(r)
		genConvertRequireness(g)
		genMarkedDecisions(g, 1693)
		genWriteEmpty(g, 1694)
		base16(r, n)
	}
	base11 := generators["C11"]
	generators["C11"] = func(r *rng, n int) {
		g := g2cRng(r)
		genMarkedDecisions(g, 1193)
		genWriteEmpty(g, 1194)
		base11(r, n)
	}
}

var g16ids = []int{0, 1, 2, 62, 63, 64, 65, 127, 128, 255, 256, 257, 1023, 4000, 32767}

func b2i(b bool) int {
	if b {
		return 1
	}
	return 0
}

func genConvertRequireness(r *rng) {
	for rq := -1; rq <= 4; rq++ { // parser.FieldType: 0 default, 1 required, 2 optional; others invalid (panic)
		for m := 0; m < 16; m++ {
			reqBase, respBase, setOpt, before := m&1 != 0, m&2 != 0, m&4 != 0, m&8 != 0
			for _, id := range []int{0, 1, 63, 64, 255, 256, 4000, r.intn(32768)} {
				old := r.intn(3)
				required, after, panicked := thrift.VerifConvertRequireness(rq, uint16(id), reqBase, respBase, setOpt, before, uint8(old))
				out.emit(1692, fi(rq), fi(id), fi(b2i(reqBase)), fi(b2i(respBase)), fi(b2i(setOpt)), fi(b2i(before)), fi(old),
					fi(required), fi(b2i(after)), fi(b2i(panicked)))
			}
		}
	}
}

func genMarkedDecisions(r *rng, id int) {
	ids := append([]int{}, g16ids...)
	for k := 0; k < 4; k++ {
		ids = append(ids, r.intn(32768))
	}
	for _, fid := range ids {
		for req := 0; req < 3; req++ { // thrift.Requireness: 0 optional, 1 default, 2 required
			if id == 1693 {
				for m := 0; m < 16; m++ {
					hasDef, wr, wd, wo := m&1 != 0, m&2 != 0, m&4 != 0, m&8 != 0
					errd, handled, goReq, defNil, calls := thrift.VerifHandleRequires(uint16(fid), uint8(req), hasDef, wr, wd, wo)
					out.emit(1693, fi(fid), fi(req), fi(b2i(hasDef)), fi(b2i(wr)), fi(b2i(wd)), fi(b2i(wo)),
						fi(b2i(errd)), fi(handled), fi(goReq), fi(b2i(defNil)), fi(calls))
				}
			} else {
				for m := 0; m < 4; m++ {
					noField, wd := m&1 != 0, m&2 != 0
					errd, handled, goReq, calls := thrift.VerifCheckRequires(uint16(fid), uint8(req), noField, wd)
					out.emit(1193, fi(fid), fi(req), fi(b2i(noField)), fi(b2i(wd)), fi(b2i(errd)), fi(handled), fi(goReq), fi(calls))
				}
			}
		}
	}
}

// 1694 (C16) / 1194 (C11): BinaryProtocol.WriteEmpty, the zero value written for an absent field, on every type byte 0..20 (+ a few
// others) with key / element types over the valid type codes: bytes written and error, against gen/Gen_thriftempty.v
func genWriteEmpty(r *rng, id int) {
	codes := []int{2, 3, 4, 6, 8, 10, 11, 12, 13, 14, 15}
	for typ := 0; typ <= 24; typ++ {
		for _, k := range codes {
			e := codes[r.intn(len(codes))]
			outb, errd := thrift.VerifWriteEmpty(uint8(typ), uint8(k), uint8(e))
			out.emit(id, fi(typ), fi(k), fi(e), fx(outb), fi(b2i(errd)))
		}
	}
	for _, typ := range []int{127, 128, 255} {
		outb, errd := thrift.VerifWriteEmpty(uint8(typ), 8, 11)
		out.emit(id, fi(typ), fi(8), fi(11), fx(outb), fi(b2i(errd)))
	}
}
