//go:build verif

// C12 — shared descriptors / converter instances / input buffers are safe for concurrent use; results are not aliased.
//
// Runtime exploration (the tie between coq/model/Pool.v and the code). One process, many ROUNDS; a round =
// (G goroutines, GOMAXPROCS P, an operation MIX chosen by the PRNG, seeded runtime.Gosched points). Every operation is a
// closure over SHARED descriptors / converter instances / input byte slices. Before any goroutine is started every
// operation is run alone (twice) in the main goroutine: that result is the sequential oracle ("same result as when run
// alone"). In a round each call's result is compared with the oracle; returned buffers are HELD (the slice itself plus a
// private copy) and re-validated after the following round(s), i.e. after >= 1000 further calls that recycle the
// sync.Pools, with failing calls (inputs truncated / corrupted at every position) interleaved; after every round all
// shared inputs are byte-compared with their pristine copies and all descriptors are deep-dumped again.
// The same binary built with -race (tools/props/C12_hook.py) turns data races into reports on stderr + exit code 66;
// the "C12-ROUND" lines on stderr attribute a report to the (seed, round, mix).
//
// Case lines (judged by coq/model/Check12.v):
//
//	1201 kind G P calls equal inputs_ok descs_ok retained_ok     one per (round, op kind)
//	1202 input_before input_after later_output view_before view_after   thrift  NewBinaryProtocol(buf)+Recycle scenario
//	1203 input_before input_after later_output                           proto   NewBinaryProtol(buf)+Recycle scenario
//	1204 kind calls leaked_ok                                             error exits do not poison the pools (sequential)
package main

import (
	"bytes"
	"context"
	"encoding/base64"
	"fmt"
	"io/ioutil"
	stdhttp "net/http"
	"os"
	"runtime"
	"sort"
	"strings"
	"sync"
	"sync/atomic"
	"syscall"
	"time"

	"github.com/cloudwego/dynamicgo/conv"
	"github.com/cloudwego/dynamicgo/conv/j2p"
	"github.com/cloudwego/dynamicgo/conv/j2t"
	"github.com/cloudwego/dynamicgo/conv/p2j"
	"github.com/cloudwego/dynamicgo/conv/t2j"
	dhttp "github.com/cloudwego/dynamicgo/http"
	"github.com/cloudwego/dynamicgo/internal/native/types"
	"github.com/cloudwego/dynamicgo/meta"
	"github.com/cloudwego/dynamicgo/proto"
	pbinary "github.com/cloudwego/dynamicgo/proto/binary"
	pgeneric "github.com/cloudwego/dynamicgo/proto/generic"
	"github.com/cloudwego/dynamicgo/thrift"
	"github.com/cloudwego/dynamicgo/thrift/generic"
)

func init() { generators["C12"] = genC12 }

// ---------------------------------------------------------------------------------------------- fixtures

const c12ThriftIDL = `namespace go c12

struct Inner {
    13: binary Bin,
    19: map<string, Inner> MSI,
    1: bool B,
    2: byte Y,
    3: i16 I16,
    4: i32 I32,
    5: i64 I64,
    6: double D,
    7: string S (api.query = "inner_s", api.header = "inner_s"),
    8: list<i32> L,
    9: map<string, string> M,
    10: set<i32> St,
    12: map<i32, string> MI,
    18: list<Inner> LI,
}

struct InnerR {
    1: bool B,
    2: byte Y,
    3: i16 I16,
    4: i32 I32,
    5: i64 I64,
    6: double D,
    7: string S,
    8: list<i32> L,
    9: map<string, string> M,
    10: set<i32> St,
    12: map<i32, string> MI,
    13: binary Bin,
    18: list<InnerR> LI,
    19: map<string, InnerR> MSI,
}

struct Req {
    300: required i64 Big,
    4000: double Subfix,
    1: optional string Msg (go.tag = "json:\"msg\""),
    2: optional double Cookie (api.cookie = "cookie"),
    3: required string Path (api.path = "path"),
    4: optional list<string> Query (api.query = "query"),
    5: optional bool Header (api.header = "heeader"),
    6: i64 Code (api.js_conv = ""),
    7: Inner Inner,
    9: i32 Def = 42,
    10: optional string OptDef = "dflt",
}

struct Resp {
    1: string Msg (api.key = "msg"),
    2: optional double Cookie (api.cookie = "cookie"),
    3: required i32 Status (api.http_code = "status"),
    4: optional bool Header (api.header = "heeader"),
    6: i64 Code (api.js_conv = ""),
    7: InnerR Inner,
    9: i32 Def = 42,
    4000: double Subfix,
}

struct Small {
    1: optional string Msg,
    7: Inner Inner,
    300: required i64 Big,
}

service Svc {
    Resp M(1: Req req)
    Small S(1: Small req)
}
`

const c12ProtoIDL = `syntax = "proto3";
package c12;

message Inner {
  bool b = 1;
  int32 i32 = 2;
  int64 i64 = 3;
  uint32 u32 = 4;
  sint64 s64 = 5;
  double d = 6;
  string s = 7;
  bytes bin = 8;
  repeated int32 li = 9;
  repeated string ls = 10;
  map<string, string> mss = 11;
  map<int32, string> mis = 12;
  repeated Inner lin = 13;
  map<string, Inner> msin = 14;
}

message Req {
  string msg = 1;
  int64 code = 2;
  Inner inner = 3;
  repeated Inner items = 4;
  double subfix = 500;
}

message Nest {
  string a = 1;
  Nest n = 2;
  repeated string ls = 3;
  map<string, string> m = 4;
}

message Small {
  string msg = 1;
  Inner inner = 3;
}

service Svc {
  rpc M(Req) returns (Req);
  rpc F(Nest) returns (Nest);
  rpc S(Small) returns (Small);
}
`

// shared, read-only byte inputs: every slice registered here is compared with its pristine copy after every round
type c12inputs struct {
	live [][]byte
	copy [][]byte
	name []string
}

const c12spare = 24

// shared inputs live in anonymous mappings that are made READ-ONLY once the fixtures are built: a write into a caller's
// input - even a transient one, even by the native (assembly) routines the race detector cannot see - is a fault
type c12arena struct {
	chunks [][]byte
	off    int
}

const c12chunk = 16 << 20

func (a *c12arena) alloc(n int) []byte {
	if n > c12chunk {
		return make([]byte, n)
	}
	if len(a.chunks) == 0 || a.off+n > c12chunk {
		m, err := syscall.Mmap(-1, 0, c12chunk, syscall.PROT_READ|syscall.PROT_WRITE, syscall.MAP_ANON|syscall.MAP_PRIVATE)
		if err != nil {
			return make([]byte, n) // no mapping available: fall back to the heap (still byte-compared after every round)
		}
		a.chunks = append(a.chunks, m)
		a.off = 0
	}
	m := a.chunks[len(a.chunks)-1]
	b := m[a.off : a.off+n : a.off+n]
	a.off += (n + 15) &^ 15
	return b
}

func (a *c12arena) protect() int {
	n := 0
	for _, m := range a.chunks {
		if syscall.Mprotect(m, syscall.PROT_READ) == nil {
			n++
		}
	}
	return n
}

var c12mem c12arena

func (in *c12inputs) add(name string, b []byte) []byte {
	// the shared slice has spare capacity filled with a sentinel: an append into the caller's input is seen as well
	full := c12mem.alloc(len(b) + c12spare)
	copy(full, b)
	for i := len(b); i < len(full); i++ {
		full[i] = 0xA5
	}
	in.live = append(in.live, full)
	in.copy = append(in.copy, append([]byte(nil), full...))
	in.name = append(in.name, name)
	return full[:len(b)]
}

func (in *c12inputs) changed() []string {
	var bad []string
	for i := range in.live {
		if !bytes.Equal(in.live[i], in.copy[i]) {
			bad = append(bad, in.name[i])
		}
	}
	return bad
}

// result of one call, in a canonical form
type c12out struct {
	data []byte   // canonical serialisation of everything the call returned
	err  bool     // returned a non-nil error / error node
	pan  bool     // panicked
	keep [][]byte // the slices actually handed to the caller (retention: must stay intact)
	msg  string   // diagnostics only (never compared)
	// the operation itself saw its result change when it overwrote its own (private) source buffer afterwards
	alias bool
}

func (a *c12out) same(b *c12out) bool {
	return a.err == b.err && a.pan == b.pan && bytes.Equal(a.data, b.data)
}

type c12op struct {
	kind int
	name string
	fail bool // input is a truncated / corrupted variant
	run  func() c12out
}

var c12kindNames = map[int]string{
	1: "j2t.Do", 2: "j2t.DoInto", 3: "t2j.Do", 4: "t2j.DoInto", 5: "j2t.HTTPConv.Do", 6: "t2j.HTTPConv.Do",
	7: "j2p.Do", 8: "j2p.DoInto", 9: "p2j.Do", 10: "p2j.DoInto",
	11: "thrift.GetByPath", 12: "thrift.PathNode.Load+Marshal", 13: "thrift.MarshalTo", 14: "thrift.descriptor-lookups",
	15: "proto.GetByPath", 16: "proto.PathNode.Load+Marshal", 17: "proto.MarshalTo", 18: "proto.descriptor-lookups",
	19: "thrift.BinaryProtocol(pooled).WriteAnyWithDesc", 20: "thrift.ReadAnyWithDesc", 21: "thrift.Skip",
	22: "j2t.Do(http-mapped, ctx request)", 27: "thrift.DescriptorToPathNode (+Marshal, Fields() order)", 23: "j2t.Do(http-mapped, ONE request object shared by all goroutines)",
	24: "thrift.NewNode* constructors (result = the node's own buffer)", 25: "j2t.HTTPConv.Do small bodies", 26: "t2j.HTTPConv.Do small bodies",
}

func c12msg(err error) string {
	if err == nil {
		return ""
	}
	m := err.Error()
	if len(m) > 300 {
		m = m[:300]
	}
	return strings.ReplaceAll(m, "\n", " ")
}

func c12call(f func() c12out) (o c12out) {
	ok, msg := noPanic(func() { o = f() })
	if !ok {
		o = c12out{pan: true, data: []byte("panic"), msg: msg}
	}
	return
}

// ---------------------------------------------------------------------------------------------- descriptor dumps

func c12dumpThrift(sb *strings.Builder, d *thrift.TypeDescriptor, seen map[*thrift.StructDescriptor]int) {
	if d == nil {
		sb.WriteString("<nil>")
		return
	}
	fmt.Fprintf(sb, "T(%d,%q,bin=%v", d.Type(), d.Name(), d.IsBinary())
	if d.Key() != nil {
		sb.WriteString(",key=")
		c12dumpThrift(sb, d.Key(), seen)
	}
	if d.Elem() != nil {
		sb.WriteString(",elem=")
		c12dumpThrift(sb, d.Elem(), seen)
	}
	if st := d.Struct(); st != nil {
		if n, ok := seen[st]; ok {
			fmt.Fprintf(sb, ",struct=#%d", n)
		} else {
			seen[st] = len(seen)
			fmt.Fprintf(sb, ",struct=%q len=%d requires=%v hm=[", st.Name(), st.Len(), []uint64(st.Requires()))
			for _, f := range st.HttpMappingFields() {
				fmt.Fprintf(sb, "%d,", f.ID())
			}
			sb.WriteString("] fields={")
			fs := append([]*thrift.FieldDescriptor(nil), st.Fields()...)
			sb.WriteString("order=[") // the order in which Fields() lists them is part of the descriptor
			for _, f := range fs {
				if f != nil {
					fmt.Fprintf(sb, "%d,", f.ID())
				}
			}
			sb.WriteString("] ")
			sort.Slice(fs, func(i, j int) bool { return fs[i].ID() < fs[j].ID() })
			for _, f := range fs {
				if f == nil {
					continue
				}
				byID := st.FieldById(f.ID())
				byName := st.FieldByKey(f.Alias())
				fmt.Fprintf(sb, "F(%d,%q,%q,req=%d,vm=%d,base=%v/%v,nhm=%d,idmap=%v,namemap=%v", f.ID(), f.Name(), f.Alias(), f.Required(),
					f.ValueMappingType(), f.IsRequestBase(), f.IsResponseBase(), len(f.HTTPMappings()), byID == f, byName == f)
				if dv := f.DefaultValue(); dv != nil {
					fmt.Fprintf(sb, ",def=(%v|%q|%x)", dv.GoValue(), dv.JSONValue(), dv.ThriftBinary())
				}
				sb.WriteString(",type=")
				c12dumpThrift(sb, f.Type(), seen)
				sb.WriteString(")")
			}
			sb.WriteString("}")
		}
	}
	sb.WriteString(")")
}

func c12dumpThriftDesc(d *thrift.TypeDescriptor) []byte {
	var sb strings.Builder
	c12dumpThrift(&sb, d, map[*thrift.StructDescriptor]int{})
	return []byte(sb.String())
}

func c12dumpProto(sb *strings.Builder, d *proto.TypeDescriptor, seen map[*proto.MessageDescriptor]int) {
	if d == nil {
		sb.WriteString("<nil>")
		return
	}
	wire := -1
	noPanic(func() { wire = int(d.WireType()) }) // LIST/MAP have no wire type (panics by design)
	fmt.Fprintf(sb, "P(%d,%q,base=%d,packed=%v,wire=%d", d.Type(), d.Name(), d.BaseId(), d.IsPacked(), wire)
	if d.Key() != nil {
		sb.WriteString(",key=")
		c12dumpProto(sb, d.Key(), seen)
	}
	if d.Elem() != nil {
		sb.WriteString(",elem=")
		c12dumpProto(sb, d.Elem(), seen)
	}
	if m := d.Message(); m != nil {
		if n, ok := seen[m]; ok {
			fmt.Fprintf(sb, ",msg=#%d", n)
		} else {
			seen[m] = len(seen)
			fmt.Fprintf(sb, ",msg=%q n=%d fields={", m.Name(), m.FieldsCount())
			for id := 1; id <= 600; id++ {
				f := m.ByNumber(proto.FieldNumber(id))
				if f == nil {
					continue
				}
				fmt.Fprintf(sb, "F(%d,%q,%q,kind=%d,map=%v,list=%v,byname=%v,byjson=%v,type=", f.Number(), f.Name(), f.JSONName(), f.Kind(), f.IsMap(), f.IsList(),
					m.ByName(f.Name()) == f, m.ByJSONName(f.JSONName()) == f)
				c12dumpProto(sb, f.Type(), seen)
				sb.WriteString(")")
			}
			sb.WriteString("}")
		}
	}
	sb.WriteString(")")
}

func c12dumpProtoDesc(d *proto.TypeDescriptor) []byte {
	var sb strings.Builder
	c12dumpProto(&sb, d, map[*proto.MessageDescriptor]int{})
	return []byte(sb.String())
}

// ---------------------------------------------------------------------------------------------- the world

type c12world struct {
	in       c12inputs
	ops      []c12op
	oracle   []c12out
	dumps    []func() []byte // descriptor dumps
	dump0    [][]byte
	unstable int      // ops whose two alone-runs differed (dropped)
	refresh  []func() // run by the main goroutine before every round (fresh shared request objects)
}

// descriptor dumps are taken when the descriptor is registered, i.e. before any operation has seen it
func (w *c12world) addDump(fs ...func() []byte) {
	for _, f := range fs {
		w.dumps = append(w.dumps, f)
		w.dump0 = append(w.dump0, f())
	}
}

func (w *c12world) addOp(kind int, name string, fail bool, run func() c12out) {
	w.ops = append(w.ops, c12op{kind: kind, name: name, fail: fail, run: run})
}

func (w *c12world) descsChanged() []int {
	var bad []int
	for i, f := range w.dumps {
		if !bytes.Equal(f(), w.dump0[i]) {
			bad = append(bad, i)
		}
	}
	return bad
}

// failing variants of an input: truncation at every position (capped), one substituted byte
func c12variants(r *rng, b []byte, cap int) [][]byte {
	var out [][]byte
	pos := make([]int, 0, len(b))
	for p := 0; p < len(b); p++ {
		pos = append(pos, p)
	}
	if len(pos) > cap {
		for i := len(pos) - 1; i > 0; i-- {
			j := r.intn(i + 1)
			pos[i], pos[j] = pos[j], pos[i]
		}
		pos = pos[:cap]
		sort.Ints(pos)
	}
	for _, p := range pos {
		out = append(out, append([]byte(nil), b[:p]...))
	}
	for k := 0; k < cap/4 && len(b) > 0; k++ {
		c := append([]byte(nil), b...)
		c[r.intn(len(c))] ^= byte(1 + r.intn(255))
		out = append(out, c)
	}
	return out
}

func c12jsonString(r *rng) string {
	alpha := []string{"a", "hello", "", "x y", "é中文", "q\\\"uote", "line\\n", "long-long-long-long-long-long-long-long-string", "\\u0041", "/slash"}
	return alpha[r.intn(len(alpha))]
}

func c12innerJSON(r *rng, depth int, thriftNames bool) string {
	var sb strings.Builder
	n := func(t, p string) string {
		if thriftNames {
			return t
		}
		return p
	}
	// j2p mishandles empty JSON containers (C09's business): protobuf documents only get non-empty ones
	cnt := func(k int) int {
		c := r.intn(k)
		if !thriftNames && c == 0 {
			c = 1
		}
		return c
	}
	sb.WriteString("{")
	fmt.Fprintf(&sb, `"%s":%v`, n("B", "b"), r.bool())
	if thriftNames {
		fmt.Fprintf(&sb, `,"Y":%d,"I16":%d`, int8(r.next()), int16(r.next()))
	}
	fmt.Fprintf(&sb, `,"%s":%d,"%s":%d`, n("I32", "i32"), int32(r.next()), n("I64", "i64"), int64(r.next())>>uint(r.intn(40)))
	if !thriftNames {
		fmt.Fprintf(&sb, `,"u32":%d,"s64":%d`, uint32(r.next()), -int64(r.next()>>uint(1+r.intn(50))))
	}
	fl := []string{"0", "1.5", "-2.25", "1e10", "3.141592653589793", "-0.001"}
	fmt.Fprintf(&sb, `,"%s":%s,"%s":"%s"`, n("D", "d"), fl[r.intn(len(fl))], n("S", "s"), c12jsonString(r))
	b64 := []string{"", "AQID", "aGVsbG8gd29ybGQ=", "/w=="}
	fmt.Fprintf(&sb, `,"%s":"%s"`, n("Bin", "bin"), b64[r.intn(len(b64))])
	sb.WriteString(`,"` + n("L", "li") + `":[`)
	for i, k := 0, cnt(6); i < k; i++ {
		if i > 0 {
			sb.WriteString(",")
		}
		fmt.Fprintf(&sb, "%d", int32(r.next())>>uint(r.intn(30)))
	}
	sb.WriteString("]")
	if !thriftNames {
		sb.WriteString(`,"ls":[`)
		for i, k := 0, cnt(4); i < k; i++ {
			if i > 0 {
				sb.WriteString(",")
			}
			fmt.Fprintf(&sb, `"%s"`, c12jsonString(r))
		}
		sb.WriteString("]")
	} else {
		sb.WriteString(`,"St":[1,2,3]`)
	}
	sb.WriteString(`,"` + n("M", "mss") + `":{`)
	for i, k := 0, cnt(4); i < k; i++ {
		if i > 0 {
			sb.WriteString(",")
		}
		fmt.Fprintf(&sb, `"k%d":"%s"`, i, c12jsonString(r))
	}
	sb.WriteString("}")
	sb.WriteString(`,"` + n("MI", "mis") + `":{`)
	for i, k := 0, cnt(3); i < k; i++ {
		if i > 0 {
			sb.WriteString(",")
		}
		fmt.Fprintf(&sb, `"%d":"%s"`, i*7-3, c12jsonString(r))
	}
	sb.WriteString("}")
	if depth > 0 {
		sb.WriteString(`,"` + n("LI", "lin") + `":[`)
		for i, k := 0, cnt(3); i < k; i++ {
			if i > 0 {
				sb.WriteString(",")
			}
			sb.WriteString(c12innerJSON(r, depth-1, thriftNames))
		}
		sb.WriteString("]")
		sb.WriteString(`,"` + n("MSI", "msin") + `":{`)
		for i, k := 0, cnt(3); i < k; i++ {
			if i > 0 {
				sb.WriteString(",")
			}
			fmt.Fprintf(&sb, `"in%d":%s`, i, c12innerJSON(r, depth-1, thriftNames))
		}
		sb.WriteString("}")
	}
	sb.WriteString("}")
	return sb.String()
}

func c12thriftReqJSON(r *rng) string {
	var sb strings.Builder
	sb.WriteString("{")
	if r.chance(70) {
		fmt.Fprintf(&sb, `"msg":"%s",`, c12jsonString(r))
	}
	fmt.Fprintf(&sb, `"Path":"%s","Code":%d,"Inner":%s,"Big":%d,"Subfix":1.5`, c12jsonString(r), int64(r.next())>>uint(r.intn(50)), c12innerJSON(r, 2, true), int64(r.next()))
	if r.chance(50) {
		fmt.Fprintf(&sb, `,"Def":%d`, r.intn(1000))
	}
	if r.chance(30) {
		sb.WriteString(`,"unknown_field":{"a":[1,2,{"b":null}]}`)
	}
	sb.WriteString("}")
	return sb.String()
}

func c12protoReqJSON(r *rng) string {
	var sb strings.Builder
	fmt.Fprintf(&sb, `{"msg":"%s","code":%d,"inner":%s,"items":[`, c12jsonString(r), int64(r.next())>>uint(r.intn(50)), c12innerJSON(r, 2, false))
	for i, k := 0, 1+r.intn(2); i < k; i++ {
		if i > 0 {
			sb.WriteString(",")
		}
		sb.WriteString(c12innerJSON(r, 1, false))
	}
	sb.WriteString(`],"subfix":2.5}`)
	return sb.String()
}

func c12nestJSON(r *rng, depth int) string {
	s := fmt.Sprintf(`{"a":"%s","ls":["x","%s"],"m":{"k":"%s"}`, c12jsonString(r), c12jsonString(r), c12jsonString(r))
	if depth > 0 {
		s += `,"n":` + c12nestJSON(r, depth-1)
	}
	return s + "}"
}

func c12cat(parts ...[]byte) []byte {
	var out []byte
	for _, p := range parts {
		out = append(out, fmt.Sprintf("[%d]", len(p))...)
		out = append(out, p...)
	}
	return out
}

func c12dumpAny(v interface{}) []byte { return []byte(fmt.Sprintf("%#v", v)) }

func c12buildWorld(r *rng) *c12world {
	w := &c12world{}
	ctx := context.Background()

	// ---------------- thrift
	svc, err := thrift.Options{}.NewDescritorFromContent(ctx, "c12.thrift", c12ThriftIDL, map[string]string{}, false)
	if err != nil {
		die("C12: thrift idl: %v", err)
	}
	fnM := svc.Functions()["M"]
	reqDesc := fnM.Request().Struct().FieldById(1).Type()
	respDesc := fnM.Response().Struct().FieldById(0).Type()
	smallDesc := svc.Functions()["S"].Request().Struct().FieldById(1).Type()
	w.addDump(func() []byte { return c12dumpThriftDesc(reqDesc) }, func() []byte { return c12dumpThriftDesc(respDesc) },
		func() []byte { return c12dumpThriftDesc(smallDesc) },
		func() []byte { return c12dumpThriftDesc(fnM.Request()) }, func() []byte { return c12dumpThriftDesc(fnM.Response()) })

	// shared converter instances (one per option set), used by all goroutines
	optSets := []conv.Options{
		{},
		{WriteDefaultField: true, WriteRequireField: true},
		{EnableValueMapping: true, WriteOptionalField: true, Int642String: true, String2Int64: true},
		{DisallowUnknownField: true, NoBase64Binary: true},
	}
	var j2tcvs []*j2t.BinaryConv
	var t2jcvs []*t2j.BinaryConv
	for _, o := range optSets {
		a := j2t.NewBinaryConv(o)
		b := t2j.NewBinaryConv(o)
		j2tcvs = append(j2tcvs, &a)
		t2jcvs = append(t2jcvs, &b)
	}

	nDocs := 6
	for d := 0; d < nDocs; d++ {
		d := d
		js := w.in.add(fmt.Sprintf("thrift-json-%d", d), []byte(c12thriftReqJSON(r)))
		for ci := range j2tcvs {
			cv := j2tcvs[ci]
			if ci == 3 && bytes.Contains(js, []byte("unknown_field")) {
				// keep: it is a failing call for the DisallowUnknownField converter (error raised mid-input)
			}
			w.addOp(1, fmt.Sprintf("j2t.Do doc%d opt%d", d, ci), false, func() c12out {
				out, err := cv.Do(ctx, reqDesc, js)
				return c12out{data: out, err: err != nil, keep: [][]byte{out}, msg: c12msg(err)}
			})
			w.addOp(2, fmt.Sprintf("j2t.DoInto doc%d opt%d", d, ci), false, func() c12out {
				buf := make([]byte, 0, 16)
				err := cv.DoInto(ctx, reqDesc, js, &buf)
				if err != nil {
					return c12out{err: true, msg: c12msg(err)}
				}
				return c12out{data: buf, keep: [][]byte{buf}}
			})
		}
		// the thrift bytes of this document (computed alone) become a shared input for the thrift-side operations
		tb0, err := j2tcvs[0].Do(ctx, reqDesc, js)
		if err != nil {
			die("C12: fixture j2t failed: %v on %s", err, js)
		}
		tb := w.in.add(fmt.Sprintf("thrift-bin-%d", d), tb0)
		c12cutDocs.thrift = append(c12cutDocs.thrift, tb0)
		for ci := range t2jcvs {
			cv := t2jcvs[ci]
			w.addOp(3, fmt.Sprintf("t2j.Do doc%d opt%d", d, ci), false, func() c12out {
				out, err := cv.Do(ctx, reqDesc, tb)
				return c12out{data: out, err: err != nil, keep: [][]byte{out}}
			})
			w.addOp(4, fmt.Sprintf("t2j.DoInto doc%d opt%d", d, ci), false, func() c12out {
				buf := make([]byte, 0, 16)
				err := cv.DoInto(ctx, reqDesc, tb, &buf)
				if err != nil {
					return c12out{err: true}
				}
				return c12out{data: buf, keep: [][]byte{buf}}
			})
		}
		// failing calls: truncated / corrupted at every position (capped)
		for vi, v := range c12variants(r.fork(), js, 120) {
			vb := w.in.add(fmt.Sprintf("thrift-json-%d-bad%d", d, vi), v)
			cv := j2tcvs[vi%len(j2tcvs)]
			w.addOp(1, fmt.Sprintf("j2t.Do doc%d bad%d", d, vi), true, func() c12out {
				out, err := cv.Do(ctx, reqDesc, vb)
				return c12out{data: out, err: err != nil, keep: [][]byte{out}, msg: c12msg(err)}
			})
		}
		for vi, v := range c12variants(r.fork(), tb0, 120) {
			vb := w.in.add(fmt.Sprintf("thrift-bin-%d-bad%d", d, vi), v)
			cv := t2jcvs[vi%len(t2jcvs)]
			w.addOp(3, fmt.Sprintf("t2j.Do doc%d bad%d", d, vi), true, func() c12out {
				out, err := cv.Do(ctx, reqDesc, vb)
				return c12out{data: out, err: err != nil, keep: [][]byte{out}, msg: c12msg(err)}
			})
			if vi%3 == 0 {
				w.addOp(13, fmt.Sprintf("thrift.MarshalTo doc%d bad%d", d, vi), true, func() c12out {
					out, err := generic.NewValue(reqDesc, vb).MarshalTo(smallDesc, &generic.Options{})
					return c12out{data: out, err: err != nil, keep: [][]byte{out}}
				})
				w.addOp(12, fmt.Sprintf("thrift.PathNode doc%d bad%d", d, vi), true, func() c12out {
					pn := generic.PathNode{Node: generic.NewNode(thrift.STRUCT, vb)}
					if err := pn.Load(true, &generic.Options{}); err != nil {
						return c12out{err: true}
					}
					out, err := pn.Marshal(&generic.Options{})
					return c12out{data: out, err: err != nil, keep: [][]byte{out}}
				})
			}
		}

		// generic reads on the shared thrift bytes
		gopts := &generic.Options{}
		paths := [][]generic.Path{
			{generic.NewPathFieldId(3)},
			{generic.NewPathFieldId(7), generic.NewPathFieldId(7)},
			{generic.NewPathFieldId(7), generic.NewPathFieldId(8), generic.NewPathIndex(0)},
			{generic.NewPathFieldId(7), generic.NewPathFieldId(9), generic.NewPathStrKey("k0")},
			{generic.NewPathFieldId(7), generic.NewPathFieldId(18), generic.NewPathIndex(0), generic.NewPathFieldId(5)},
			{generic.NewPathFieldName("Inner"), generic.NewPathFieldName("MSI"), generic.NewPathStrKey("in0")},
			{generic.NewPathFieldId(300)},
			{generic.NewPathFieldId(299)},
			{generic.NewPathFieldId(4000)},
			{},
		}
		for pi, p := range paths {
			p := p
			w.addOp(11, fmt.Sprintf("thrift.GetByPath doc%d path%d", d, pi), false, func() c12out {
				v := generic.NewValue(reqDesc, tb).GetByPath(p...)
				if v.IsError() {
					return c12out{err: true}
				}
				raw := v.Raw()
				iv, err := v.Interface(gopts)
				return c12out{data: c12cat(raw, c12dumpAny(iv)), err: err != nil} // raw is a documented zero-copy view of the input
			})
		}
		w.addOp(12, fmt.Sprintf("thrift.PathNode doc%d", d), false, func() c12out {
			pn := generic.NewPathNode()
			pn.Node = generic.NewNode(thrift.STRUCT, tb)
			if err := pn.Load(true, gopts); err != nil {
				generic.FreePathNode(pn)
				return c12out{err: true}
			}
			out, err := pn.Marshal(gopts)
			generic.FreePathNode(pn)
			return c12out{data: out, err: err != nil, keep: [][]byte{out}}
		})
		// a DOM tree loaded ONCE and shared read-only by all goroutines
		sharedPN := &generic.PathNode{Node: generic.NewNode(thrift.STRUCT, tb)}
		if err := sharedPN.Load(true, gopts); err == nil {
			w.addOp(12, fmt.Sprintf("thrift.PathNode(shared).Marshal doc%d", d), false, func() c12out {
				out, err := sharedPN.Marshal(gopts)
				var sb []byte
				for i := range sharedPN.Next {
					sb = append(sb, sharedPN.Next[i].Node.Raw()...)
				}
				return c12out{data: c12cat(out, sb), err: err != nil, keep: [][]byte{out}}
			})
		}
		w.addOp(13, fmt.Sprintf("thrift.MarshalTo doc%d", d), false, func() c12out {
			out, err := generic.NewValue(reqDesc, tb).MarshalTo(smallDesc, gopts)
			return c12out{data: out, err: err != nil, keep: [][]byte{out}}
		})
		w.addOp(13, fmt.Sprintf("thrift.MarshalTo(default) doc%d", d), false, func() c12out {
			out, err := generic.NewValue(reqDesc, tb).MarshalTo(respDesc, &generic.Options{WriteDefault: true, NotCheckRequireNess: false})
			return c12out{data: out, err: err != nil, keep: [][]byte{out}}
		})
		for target := 0; target < 3; target++ {
			target := target
			w.addOp(13, fmt.Sprintf("thrift.MarshalTo(source reused) doc%d target%d", d, target), false, func() c12out {
				res, cp, ok := c12thriftCut(tb, target)
				if !ok {
					return c12out{err: true}
				}
				return c12out{data: cp, alias: !bytes.Equal(res, cp), keep: [][]byte{res}}
			})
		}
		w.addOp(20, fmt.Sprintf("thrift.ReadAnyWithDesc doc%d", d), false, func() c12out {
			p := thrift.BinaryProtocol{Buf: tb}
			v, err := p.ReadAnyWithDesc(reqDesc, false, d%2 == 0, false, true)
			return c12out{data: c12dumpAny(v), err: err != nil}
		})
		w.addOp(19, fmt.Sprintf("thrift.pooled-write doc%d", d), false, func() c12out {
			rp := thrift.BinaryProtocol{Buf: tb}
			v, err := rp.ReadAnyWithDesc(reqDesc, false, true, false, true)
			if err != nil {
				return c12out{err: true}
			}
			p := thrift.NewBinaryProtocolBuffer()
			err = p.WriteAnyWithDesc(reqDesc, v, true, false, true)
			out := append([]byte(nil), p.RawBuf()...)
			thrift.FreeBinaryProtocolBuffer(p)
			// map iteration order of Go maps is random: compare the length and the re-read value instead of the bytes
			rp2 := thrift.BinaryProtocol{Buf: out}
			v2, err2 := rp2.ReadAnyWithDesc(reqDesc, false, true, false, true)
			return c12out{data: c12cat(c12dumpAny(v2), []byte(fmt.Sprint(len(out)))), err: err != nil || err2 != nil, keep: [][]byte{}}
		})
		w.addOp(21, fmt.Sprintf("thrift.Skip doc%d", d), false, func() c12out {
			p := thrift.BinaryProtocol{Buf: tb}
			e1 := p.SkipNative(thrift.STRUCT, 512)
			n1 := p.Read
			p.Read = 0
			e2 := p.SkipGo(thrift.STRUCT, 512)
			return c12out{data: []byte(fmt.Sprint(n1, p.Read)), err: e1 != nil || e2 != nil}
		})

		// HTTP variants: the request / response objects are per call (they are the caller's own mutable objects),
		// body bytes, descriptors and the converter are shared
		hj := j2t.NewHTTPConv(meta.EncodingThriftBinary, fnM)
		hopts := conv.Options{EnableValueMapping: true, EnableHttpMapping: true, WriteRequireField: d%2 == 0, ReadHttpValueFallback: d%3 == 0}
		body := string(js)
		w.addOp(5, fmt.Sprintf("j2t.HTTPConv.Do doc%d", d), false, func() c12out {
			sr, err := stdhttp.NewRequest("POST", "http://localhost:8080/p?query=1,2,3&inner_s=qq", strings.NewReader(body))
			if err != nil {
				return c12out{err: true, data: []byte("newrequest")}
			}
			sr.Header.Set("Content-Type", "application/json")
			sr.Header.Set("heeader", "true")
			sr.AddCookie(&stdhttp.Cookie{Name: "cookie", Value: "-1.5"})
			req, err := dhttp.NewHTTPRequestFromStdReq(sr, dhttp.Param{Key: "path", Value: "from-path"})
			if err != nil {
				return c12out{err: true, data: []byte("wrap")}
			}
			out, err := hj.Do(ctx, req, hopts)
			return c12out{data: out, err: err != nil, keep: [][]byte{out}}
		})
	}

	// j2t HTTP with an EMPTY body: the pooled-bitmap path of j2t (conv/j2t/impl.go:48-78), ok and failing variants
	{
		hj := j2t.NewHTTPConv(meta.EncodingThriftBinary, fnM)
		for k := 0; k < 4; k++ {
			k := k
			hopts := conv.Options{EnableValueMapping: true, EnableHttpMapping: true, WriteRequireField: k%2 == 0, ReadHttpValueFallback: k >= 2, WriteDefaultField: k == 3}
			url := "http://localhost:8080/p?query=a,b&inner_s=qq&Big=77&Code=5"
			if k == 1 {
				url = "http://localhost:8080/p" // required values missing: error exit that leaks the bitmap
			}
			w.addOp(5, fmt.Sprintf("j2t.HTTPConv.Do empty-body %d", k), k == 1, func() c12out {
				sr, err := stdhttp.NewRequest("POST", url, strings.NewReader("")) // a nil Body makes HTTPRequest.GetBody panic (not C12's business)
				if err != nil {
					return c12out{err: true, data: []byte("newrequest")}
				}
				sr.Header.Set("heeader", "true")
				sr.AddCookie(&stdhttp.Cookie{Name: "cookie", Value: "2.5"})
				var params []dhttp.Param
				if k != 1 {
					params = append(params, dhttp.Param{Key: "path", Value: "from-path"})
				}
				req, err := dhttp.NewHTTPRequestFromStdReq(sr, params...)
				if err != nil {
					return c12out{err: true, data: []byte("wrap")}
				}
				out, err := hj.Do(ctx, req, hopts)
				return c12out{data: out, err: err != nil, keep: [][]byte{out}}
			})
		}
	}

	// http-mapped j2t through BinaryConv.Do with the request in the context (gateway style): EnableHttpMapping with
	// ReadHttpValueFallback on/off and TracebackRequredOrRootFields on/off, several DESCRIPTORS sharing the pooled native
	// state machine, valid requests and requests that FAIL on a required field that is absent from the JSON body and from
	// the http request (the failing call leaves unmatched field ids in J2TStateMachine.FieldCache: whatever is left in the
	// pooled object must not reach the next conversion)
	{
		const gwIDL = `namespace go c12gw
struct GReq {
    1: required string A,
    2: optional string B,
}
struct GOther {
    1: string X,
    2: optional string Y,
}
struct GInner {
    1: required string P,
    2: i32 Q,
}
struct GNest {
    1: GInner In,
    2: required i64 R,
    3: optional string S (api.query = "s"),
    4: string T (api.header = "t"),
}
service GSvc {
    string Call(1: GReq req)
    string Call2(1: GOther req)
    string Call3(1: GNest req)
}
`
		gsvc, err := thrift.Options{}.NewDescritorFromContent(ctx, "c12gw.thrift", gwIDL, map[string]string{}, false)
		if err != nil {
			die("C12: gateway idl: %v", err)
		}
		gReq := gsvc.Functions()["Call"].Request().Struct().FieldById(1).Type()
		gOther := gsvc.Functions()["Call2"].Request().Struct().FieldById(1).Type()
		gNest := gsvc.Functions()["Call3"].Request().Struct().FieldById(1).Type()
		w.addDump(func() []byte { return c12dumpThriftDesc(gReq) }, func() []byte { return c12dumpThriftDesc(gOther) }, func() []byte { return c12dumpThriftDesc(gNest) })
		gwOpts := []conv.Options{
			{EnableHttpMapping: true, ReadHttpValueFallback: true, TracebackRequredOrRootFields: true},
			{EnableHttpMapping: true, WriteDefaultField: true},
			{EnableHttpMapping: true, ReadHttpValueFallback: true},
			{EnableHttpMapping: true, TracebackRequredOrRootFields: true, WriteOptionalField: true},
			{EnableHttpMapping: true, ReadHttpValueFallback: true, TracebackRequredOrRootFields: true, WriteRequireField: true, WriteDefaultField: true},
		}
		var gwcvs []*j2t.BinaryConv
		for _, o := range gwOpts {
			c := j2t.NewBinaryConv(o)
			gwcvs = append(gwcvs, &c)
		}
		type gdoc struct {
			desc *thrift.TypeDescriptor
			js   string
			url  string
			fail bool // required field absent from the body AND from the request
		}
		gdocs := []gdoc{
			{gReq, `{"A":"a","B":"b"}`, "http://localhost/gw", false},
			{gReq, `{"A":"a2"}`, "http://localhost/gw?B=fromquery", false},
			{gReq, `{"B":"b"}`, "http://localhost/gw?A=fromquery", false}, // required A comes from the request
			{gReq, `{"B":"b"}`, "http://localhost/gw", true},
			{gReq, `{}`, "http://localhost/gw", true},
			{gReq, `{"B":"b","zzz":1}`, "http://localhost/gw?C=1", true},
			{gOther, `{"X":"x","Y":"y"}`, "http://localhost/gw", false},
			{gOther, `{"Y":"y"}`, "http://localhost/gw", false},
			{gOther, `{}`, "http://localhost/gw?X=qx", false},
			{gNest, `{"In":{"P":"p","Q":5},"R":7,"T":"t"}`, "http://localhost/gw?s=qs", false},
			{gNest, `{"In":{"P":"p"},"R":7}`, "http://localhost/gw", false},
			{gNest, `{"In":{"Q":5},"R":7}`, "http://localhost/gw", true},           // inner required P absent everywhere
			{gNest, `{"In":{"P":"p","Q":5},"T":"t"}`, "http://localhost/gw", true}, // outer required R absent everywhere
			{gNest, `{"In":{"Q":1}}`, "http://localhost/gw?P=qp&R=9", false},
		}
		for di, gd := range gdocs {
			gd := gd
			js := w.in.add(fmt.Sprintf("gw-json-%d", di), []byte(gd.js))
			for ci := range gwcvs {
				cv := gwcvs[ci]
				w.addOp(22, fmt.Sprintf("j2t.Do(http-mapped) doc%d opt%d", di, ci), gd.fail, func() c12out {
					req, err := dhttp.NewHTTPRequestFromUrl("GET", gd.url, nil)
					if err != nil {
						return c12out{err: true, data: []byte("newrequest")}
					}
					req.Request.Header.Set("t", "ht")
					hctx := context.WithValue(ctx, conv.CtxKeyHTTPRequest, req)
					out, err := cv.Do(hctx, gd.desc, js)
					return c12out{data: out, err: err != nil, keep: [][]byte{out}, msg: c12msg(err)}
				})
			}
		}
		// ONE *HTTPRequest per url shared by all goroutines of a round (a request object is an input like any other: the
		// getters used by the http mapping must not write to it). A new object is made before every round, so that its
		// first use happens concurrently.
		urls := []string{"http://localhost/gw?A=fromquery&B=qb&s=qs&P=qp&R=9", "http://localhost/gw?X=qx&s=other"}
		shared := make([]*dhttp.HTTPRequest, len(urls))
		mkShared := func() {
			for i, u := range urls {
				req, err := dhttp.NewHTTPRequestFromUrl("GET", u, nil, dhttp.Param{Key: "path", Value: "pp"})
				if err != nil {
					die("C12: shared request: %v", err)
				}
				req.Request.Header.Set("t", "ht")
				req.Request.AddCookie(&stdhttp.Cookie{Name: "cookie", Value: "1.5"})
				shared[i] = req
			}
		}
		mkShared()
		w.refresh = append(w.refresh, mkShared)
		for di, gd := range gdocs {
			gd := gd
			js := w.in.add(fmt.Sprintf("gw-shared-json-%d", di), []byte(gd.js))
			for ui := range urls {
				ui := ui
				cv := gwcvs[(di+ui)%len(gwcvs)]
				w.addOp(23, fmt.Sprintf("j2t.Do(http-mapped, shared request %d) doc%d", ui, di), false, func() c12out {
					hctx := context.WithValue(ctx, conv.CtxKeyHTTPRequest, shared[ui])
					out, err := cv.Do(hctx, gd.desc, js)
					return c12out{data: out, err: err != nil, keep: [][]byte{out}, msg: c12msg(err)}
				})
			}
		}
	}

	// large base64 payloads (765, 768, 1500, 6000 raw bytes: around and above 1024 characters of text) in binary fields:
	// decoders must not work in place on the caller's JSON text
	for _, n := range []int{765, 768, 1500, 6000} {
		n := n
		raw := r.bytes(n)
		b64 := base64.StdEncoding.EncodeToString(raw)
		js := w.in.add(fmt.Sprintf("thrift-json-b64-%d", n), []byte(fmt.Sprintf(`{"Path":"p","Inner":{"Bin":"%s","S":"after","LI":[{"Bin":"%s"}]},"Big":1}`, b64, b64)))
		for ci := range j2tcvs[:2] {
			cv := j2tcvs[ci]
			w.addOp(1, fmt.Sprintf("j2t.Do b64-%d opt%d", n, ci), false, func() c12out {
				out, err := cv.Do(ctx, reqDesc, js)
				return c12out{data: out, err: err != nil, keep: [][]byte{out}, msg: c12msg(err)}
			})
		}
	}

	// values built by the NewNode* constructors: the node's bytes ARE the result (no copy-out), so the buffer behind them
	// must never reach a pool. Values of 1..40 fixed-width elements, encodings below and above the constructors' initial
	// buffers (64 bytes for NewNodeAny, 64 per element for lists/structs, 128 per map pair), growth during fixed-size writes
	// (i64, i32, double, length prefix, field id) and during appends (string payload)
	{
		gopts := &generic.Options{}
		i64s := func(k, base int) []interface{} {
			vs := make([]interface{}, 0, k)
			for i := 0; i < k; i++ {
				vs = append(vs, int64(base*1000+i))
			}
			return vs
		}
		i32s := func(k, base int) []interface{} {
			vs := make([]interface{}, 0, k)
			for i := 0; i < k; i++ {
				vs = append(vs, int32(base*100+i))
			}
			return vs
		}
		node := func(name string, mk func() generic.Node, ordered bool) {
			w.addOp(24, name, false, func() c12out {
				n := mk()
				raw := n.Raw()
				if !ordered {
					// Go map iteration order: only the length is a function of the input; the bytes are still kept
					return c12out{data: []byte(fmt.Sprint(n.Type(), len(raw))), keep: [][]byte{raw}}
				}
				return c12out{data: append([]byte(nil), raw...), keep: [][]byte{raw}}
			})
		}
		for _, k := range []int{1, 2, 6, 7, 8, 9, 15, 16, 17, 33, 40} {
			k := k
			node(fmt.Sprintf("NewNodeAny(list of %d i64)", k), func() generic.Node { return generic.NewNodeAny(i64s(k, k), gopts) }, true)
			node(fmt.Sprintf("NewNodeAny(list of %d i32)", k), func() generic.Node { return generic.NewNodeAny(i32s(k, k), gopts) }, true)
			node(fmt.Sprintf("NewNodeList(list of %d lists of 9 i64)", k), func() generic.Node {
				vs := make([]interface{}, 0, k)
				for i := 0; i < k; i++ {
					vs = append(vs, i64s(9, i))
				}
				return generic.NewNodeList(vs)
			}, true)
			node(fmt.Sprintf("NewNodeSet(%d doubles)", k), func() generic.Node {
				vs := make([]interface{}, 0, k)
				for i := 0; i < k; i++ {
					vs = append(vs, float64(i)+0.5)
				}
				return generic.NewNodeSet(vs)
			}, true)
			node(fmt.Sprintf("NewNodeMap(1 pair, value list of %d i64)", k), func() generic.Node {
				return generic.NewNodeMap(map[interface{}]interface{}{"key": i64s(k*3, k)}, gopts)
			}, true)
			node(fmt.Sprintf("NewNodeStruct(1 field, list of %d i64)", k), func() generic.Node {
				return generic.NewNodeStruct(map[thrift.FieldID]interface{}{3: i64s(k*2, k)}, gopts)
			}, true)
			node(fmt.Sprintf("NewNodeAny(struct, %d fields)", k), func() generic.Node {
				m := map[thrift.FieldID]interface{}{}
				for i := 0; i < k; i++ {
					m[thrift.FieldID(i+1)] = int64(i)
				}
				m[100] = fmt.Sprintf("%060d", k)
				m[101] = i64s(k, k)
				return generic.NewNodeAny(m, gopts)
			}, false)
		}
		node("NewNodeList(2 strings of 100)", func() generic.Node {
			return generic.NewNodeList([]interface{}{fmt.Sprintf("%0100d", 1), fmt.Sprintf("%0100d", 2)})
		}, true)
		node("NewNodeAny(string of 300)", func() generic.Node { return generic.NewNodeAny(strings.Repeat("s", 300), gopts) }, true)
		node("NewNodeString/Binary/Int64", func() generic.Node {
			a, b, c := generic.NewNodeString(strings.Repeat("q", 90)), generic.NewNodeBinary(bytes.Repeat([]byte{7}, 90)), generic.NewNodeInt64(-5)
			return generic.NewNodeList([]interface{}{string(a.Raw()), string(b.Raw()), string(c.Raw())})
		}, true)
	}

	// HTTP converters with SMALL bodies (encoded struct of 1..~40 bytes): several converters (method names of different
	// length), several requests per converter; the message returned for one request must stay what it was
	{
		const smIDL = `namespace go c12sm
struct Tiny {
    1: optional string Msg,
    2: optional i32 Code (api.query = "code"),
}
struct TinyResp {
    1: optional string Msg,
    2: optional i32 Code (api.http_code = "code"),
}
service SmSvc {
    TinyResp Echo(1: Tiny req)
    TinyResp EchoLongerName13(1: Tiny req)
    TinyResp E(1: Tiny req)
}
`
		ssvc, err := thrift.Options{}.NewDescritorFromContent(ctx, "c12sm.thrift", smIDL, map[string]string{}, false)
		if err != nil {
			die("C12: small idl: %v", err)
		}
		bodies := []string{`{}`, `{"Msg":""}`, `{"Msg":"a"}`, `{"Msg":"bb"}`, `{"Msg":"abcd"}`, `{"Msg":"12345678"}`, `{"Msg":"0123456789ab"}`, `{"Msg":"0123456789abcdef"}`,
			`{"Msg":"0123456789abcdefghijklmn"}`, `{"Msg":"0123456789abcdefghijklmnopqrstuv"}`, `{"Code":7}`, `{"Msg":"x","Code":7}`}
		for _, fname := range []string{"Echo", "EchoLongerName13", "E"} {
			fn := ssvc.Functions()[fname]
			hj := j2t.NewHTTPConv(meta.EncodingThriftBinary, fn)
			ht := t2j.NewHTTPConv(meta.EncodingThriftBinary, fn)
			tinyResp := fn.Response().Struct().FieldById(0).Type()
			for bi, body := range bodies {
				body := body
				url := "http://localhost/sm"
				if bi%3 == 2 {
					url = "http://localhost/sm?code=9"
				}
				w.addOp(25, fmt.Sprintf("j2t.HTTPConv(%s).Do small body %d", fname, bi), false, func() c12out {
					req, err := dhttp.NewHTTPRequestFromUrl("POST", url, strings.NewReader(body))
					if err != nil {
						return c12out{err: true, data: []byte("newrequest")}
					}
					out, err := hj.Do(ctx, req, conv.Options{})
					return c12out{data: append([]byte(nil), out...), err: err != nil, keep: [][]byte{out}, msg: c12msg(err)}
				})
				rb, err := j2tcvs[0].Do(ctx, tinyResp, []byte(body))
				if err != nil {
					continue
				}
				msg, err := thrift.WrapBinaryBody(rb, fname, thrift.REPLY, 0, int32(bi))
				if err != nil {
					continue
				}
				mb := w.in.add(fmt.Sprintf("small-reply-%s-%d", fname, bi), msg)
				w.addOp(26, fmt.Sprintf("t2j.HTTPConv(%s).Do small body %d", fname, bi), false, func() c12out {
					resp := dhttp.NewHTTPResponse()
					resp.StatusCode = 200
					if err := ht.Do(ctx, resp, mb, conv.Options{}); err != nil {
						return c12out{err: true, msg: c12msg(err)}
					}
					var rbody []byte
					if resp.Response.Body != nil {
						rbody, _ = ioutil.ReadAll(resp.Response.Body)
					}
					return c12out{data: c12cat(rbody, []byte(fmt.Sprint(resp.StatusCode))), keep: [][]byte{rbody}}
				})
				w.addOp(26, fmt.Sprintf("t2j.HTTPConv(%s).DoInto small body %d", fname, bi), false, func() c12out {
					resp := dhttp.NewHTTPResponse()
					buf := make([]byte, 0, 8)
					if err := ht.DoInto(ctx, resp, mb, &buf, conv.Options{}); err != nil {
						return c12out{err: true, msg: c12msg(err)}
					}
					return c12out{data: append([]byte(nil), buf...), keep: [][]byte{buf}}
				})
			}
		}
	}

	// t2j HTTP: a REPLY message around a Resp struct (built alone with j2t on the Resp descriptor)
	ht := t2j.NewHTTPConv(meta.EncodingThriftBinary, fnM)
	for d := 0; d < 3; d++ {
		rj := fmt.Sprintf(`{"Msg":"%s","Cookie":2.5,"Status":%d,"Header":true,"Code":%d,"Inner":%s,"Subfix":0.5}`, c12jsonString(r), 200+d, r.intn(100000), c12innerJSON(r, 1, true))
		rb, err := j2tcvs[0].Do(ctx, respDesc, []byte(rj))
		if err != nil {
			die("C12: fixture resp: %v", err)
		}
		msg, err := thrift.WrapBinaryBody(rb, "M", thrift.REPLY, 0, int32(d))
		if err != nil {
			die("C12: wrap: %v", err)
		}
		mb := w.in.add(fmt.Sprintf("thrift-reply-%d", d), msg)
		hopts := conv.Options{EnableValueMapping: true, WriteHttpValueFallback: d == 1}
		w.addOp(6, fmt.Sprintf("t2j.HTTPConv.Do doc%d", d), false, func() c12out {
			resp := dhttp.NewHTTPResponse()
			resp.StatusCode = 200
			err := ht.Do(ctx, resp, mb, hopts)
			if err != nil {
				return c12out{err: true, msg: err.Error()}
			}
			var body []byte
			if resp.Response.Body != nil {
				body, _ = ioutil.ReadAll(resp.Response.Body)
			}
			var hs []string
			for k, v := range resp.Header {
				hs = append(hs, k+"="+strings.Join(v, ","))
			}
			sort.Strings(hs)
			return c12out{data: c12cat(body, []byte(strings.Join(hs, ";")), []byte(fmt.Sprint(resp.StatusCode))), keep: [][]byte{body}}
		})
		for vi, v := range c12variants(r.fork(), msg, 40) {
			vb := w.in.add(fmt.Sprintf("thrift-reply-%d-bad%d", d, vi), v)
			w.addOp(6, fmt.Sprintf("t2j.HTTPConv.Do doc%d bad%d", d, vi), true, func() c12out {
				resp := dhttp.NewHTTPResponse()
				err := ht.Do(ctx, resp, vb, hopts)
				return c12out{err: err != nil}
			})
		}
	}

	// read-only APIs that CONSUME a descriptor: DescriptorToPathNode (+ Marshal of the tree), Fields() order, Fields()[0]
	{
		dopts := &generic.Options{DescriptorToPathNodeArraySize: 1, DescriptorToPathNodeMapSize: 1, DescriptorToPathNodeMaxDepth: 4,
			DescriptorToPathNodeWriteOptional: true, DescriptorToPathNodeWriteDefualt: true}
		for di, td := range []*thrift.TypeDescriptor{reqDesc, respDesc, smallDesc, fnM.Request(), reqDesc.Struct().FieldById(7).Type()} {
			td := td
			w.addOp(27, fmt.Sprintf("thrift.DescriptorToPathNode desc%d", di), false, func() c12out {
				var root generic.PathNode
				if err := generic.DescriptorToPathNode(td, &root, dopts); err != nil {
					return c12out{err: true, msg: c12msg(err)}
				}
				out, err := root.Marshal(dopts)
				var sb strings.Builder
				for _, f := range td.Struct().Fields() {
					fmt.Fprintf(&sb, "%d,", f.ID())
				}
				fmt.Fprintf(&sb, "first=%d", td.Struct().Fields()[0].ID())
				return c12out{data: c12cat(out, []byte(sb.String())), err: err != nil, keep: [][]byte{out}}
			})
		}
	}

	// cutting with the SOURCE buffer reused by the caller afterwards: the call works on a private, writable copy of the value,
	// takes a private copy of the result, fills the source with a pattern and looks at the result again. Targets: a
	// cutting one, the source descriptor itself and a structurally equal descriptor from a second parse (full cover).
	{
		svc2, err := thrift.Options{}.NewDescritorFromContent(ctx, "c12.thrift", c12ThriftIDL, map[string]string{}, false)
		if err != nil {
			die("C12: second parse: %v", err)
		}
		reqDesc2 := svc2.Functions()["M"].Request().Struct().FieldById(1).Type()
		w.addDump(func() []byte { return c12dumpThriftDesc(reqDesc2) })
		c12thriftCut = func(doc []byte, target int) ([]byte, []byte, bool) {
			to := []*thrift.TypeDescriptor{smallDesc, reqDesc, reqDesc2}[target]
			src := append([]byte(nil), doc...)
			res, err := generic.NewValue(reqDesc, src).MarshalTo(to, &generic.Options{})
			if err != nil {
				return nil, nil, false
			}
			cp := append([]byte(nil), res...)
			for i := range src {
				src[i] = 0x5A
			}
			return res, cp, true
		}
	}

	// descriptor lookups (IDL lookups): FieldById / FieldByKey over all ids and names incl. absent ones
	w.addOp(14, "thrift.lookups", false, func() c12out {
		var sb strings.Builder
		for _, td := range []*thrift.TypeDescriptor{reqDesc, respDesc, reqDesc.Struct().FieldById(7).Type()} {
			st := td.Struct()
			for _, id := range []int{0, 1, 2, 3, 4, 5, 6, 7, 8, 9, 10, 13, 18, 19, 20, 255, 300, 301, 4000, 32767} {
				if f := st.FieldById(thrift.FieldID(id)); f != nil {
					fmt.Fprintf(&sb, "%d=%s/%d;", id, f.Name(), f.Type().Type())
				}
			}
			for _, k := range []string{"msg", "Msg", "Path", "Inner", "B", "MSI", "Big", "Subfix", "nope", ""} {
				if f := st.FieldByKey(k); f != nil {
					fmt.Fprintf(&sb, "%s=%d;", k, f.ID())
				}
			}
			fmt.Fprintf(&sb, "req=%v;", []uint64(st.Requires()))
			for _, f := range st.Fields() {
				fmt.Fprintf(&sb, "o%d,", f.ID())
			}
		}
		fn, err := svc.LookupFunctionByMethod("M")
		fmt.Fprintf(&sb, "fn=%v,%v", fn != nil, err)
		return c12out{data: []byte(sb.String())}
	})

	// a random IDL + random values (generic reads, t2j, cutting to itself) for shape variety
	for k := 0; k < 3; k++ {
		g := newTgen(r.fork())
		g.allowReq = false
		root := g.genStruct(0)
		td, err := parseThrift(g.idl(root), thrift.Options{})
		if err != nil {
			continue
		}
		w.addDump(func() []byte { return c12dumpThriftDesc(td) })
		for d := 0; d < 3; d++ {
			val := g.genValue(root, 0)
			tb := w.in.add(fmt.Sprintf("rand-thrift-%d-%d", k, d), val.encode(nil))
			var ps [][]Step
			val.allPaths(nil, &ps, 12, g.r)
			for pi, p := range ps {
				gp := toPath(p)
				w.addOp(11, fmt.Sprintf("thrift.GetByPath rand%d.%d path%d", k, d, pi), false, func() c12out {
					v := generic.NewValue(td, tb).GetByPath(gp...)
					if v.IsError() {
						return c12out{err: true}
					}
					return c12out{data: v.Raw()}
				})
			}
			cv := t2jcvs[d%len(t2jcvs)]
			w.addOp(3, fmt.Sprintf("t2j.Do rand%d.%d", k, d), false, func() c12out {
				out, err := cv.Do(ctx, td, tb)
				return c12out{data: out, err: err != nil, keep: [][]byte{out}}
			})
			w.addOp(12, fmt.Sprintf("thrift.PathNode rand%d.%d", k, d), false, func() c12out {
				pn := generic.PathNode{Node: generic.NewNode(thrift.STRUCT, tb)}
				if err := pn.Load(true, &generic.Options{}); err != nil {
					return c12out{err: true}
				}
				out, err := pn.Marshal(&generic.Options{})
				return c12out{data: out, err: err != nil, keep: [][]byte{out}}
			})
		}
	}

	// ---------------- protobuf
	psvc, err := proto.NewDescritorFromContent(ctx, "c12.proto", c12ProtoIDL, map[string]string{})
	if err != nil {
		die("C12: proto idl: %v", err)
	}
	pReq := psvc.LookupMethodByName("M").Input()
	pNest := psvc.LookupMethodByName("F").Input()
	pSmall := psvc.LookupMethodByName("S").Input()
	w.addDump(func() []byte { return c12dumpProtoDesc(pReq) }, func() []byte { return c12dumpProtoDesc(pNest) }, func() []byte { return c12dumpProtoDesc(pSmall) })
	psvc2, err := proto.NewDescritorFromContent(ctx, "c12.proto", c12ProtoIDL, map[string]string{})
	if err != nil {
		die("C12: proto second parse: %v", err)
	}
	pReq2 := psvc2.LookupMethodByName("M").Input()
	w.addDump(func() []byte { return c12dumpProtoDesc(pReq2) })
	c12protoCut = func(desc *proto.TypeDescriptor, doc []byte, target int) ([]byte, []byte, bool) {
		to := []*proto.TypeDescriptor{pSmall, pReq, pReq2}[target]
		if desc == nil {
			desc = pReq
		}
		src := append([]byte(nil), doc...)
		res, err := pgeneric.NewRootValue(desc, src).MarshalTo(to, &pgeneric.Options{})
		if err != nil {
			return nil, nil, false
		}
		cp := append([]byte(nil), res...)
		for i := range src {
			src[i] = 0x5A
		}
		return res, cp, true
	}
	j2pcv := j2p.NewBinaryConv(conv.Options{})
	p2jcv := p2j.NewBinaryConv(conv.Options{})
	j2pcvp, p2jcvp := &j2pcv, &p2jcv
	popts := &pgeneric.Options{}
	type pdoc struct {
		desc  *proto.TypeDescriptor
		js    string
		trunc bool
	}
	var pdocs []pdoc
	for d := 0; d < 5; d++ {
		pdocs = append(pdocs, pdoc{pReq, c12protoReqJSON(r), false})
	}
	for d := 0; d < 3; d++ {
		pdocs = append(pdocs, pdoc{pNest, c12nestJSON(r, 3), true})
	}
	for _, n := range []int{765, 768, 1500, 6000} {
		b64 := base64.StdEncoding.EncodeToString(r.bytes(n))
		pdocs = append(pdocs, pdoc{pReq, fmt.Sprintf(`{"msg":"b64-%d","code":1,"inner":{"bin":"%s","s":"after","lin":[{"bin":"%s","s":"x"}],"msin":{"k":{"bin":"%s"}}},"subfix":1.5}`, n, b64, b64, b64), false})
	}
	for d, pd := range pdocs {
		desc := pd.desc
		js := w.in.add(fmt.Sprintf("proto-json-%d", d), []byte(pd.js))
		w.addOp(7, fmt.Sprintf("j2p.Do doc%d", d), false, func() c12out {
			out, err := j2pcvp.Do(ctx, desc, js)
			return c12out{data: out, err: err != nil, keep: [][]byte{out}}
		})
		w.addOp(8, fmt.Sprintf("j2p.DoInto doc%d", d), false, func() c12out {
			buf := make([]byte, 0, 16)
			err := j2pcvp.DoInto(ctx, desc, js, &buf)
			if err != nil {
				return c12out{err: true}
			}
			return c12out{data: buf, keep: [][]byte{buf}}
		})
		pb0, err := j2pcv.Do(ctx, desc, js)
		if err != nil {
			die("C12: fixture j2p failed: %v on %s", err, pd.js)
		}
		pb := w.in.add(fmt.Sprintf("proto-bin-%d", d), pb0)
		w.addOp(9, fmt.Sprintf("p2j.Do doc%d", d), false, func() c12out {
			out, err := p2jcvp.Do(ctx, desc, pb)
			return c12out{data: out, err: err != nil, keep: [][]byte{out}}
		})
		w.addOp(10, fmt.Sprintf("p2j.DoInto doc%d", d), false, func() c12out {
			buf := make([]byte, 0, 16)
			err := p2jcvp.DoInto(ctx, desc, pb, &buf)
			if err != nil {
				return c12out{err: true}
			}
			return c12out{data: buf, keep: [][]byte{buf}}
		})
		w.addOp(16, fmt.Sprintf("proto.PathNode doc%d", d), false, func() c12out {
			v := pgeneric.NewRootValue(desc, pb)
			pn := pgeneric.PathNode{Node: v.Node}
			if err := pn.Load(true, popts, desc); err != nil {
				return c12out{err: true}
			}
			out, err := pn.Marshal(popts)
			return c12out{data: out, err: err != nil, keep: [][]byte{out}}
		})
		{
			v := pgeneric.NewRootValue(desc, pb)
			sharedPN := &pgeneric.PathNode{Node: v.Node}
			if err := sharedPN.Load(true, popts, desc); err == nil {
				w.addOp(16, fmt.Sprintf("proto.PathNode(shared).Marshal doc%d", d), false, func() c12out {
					out, err := sharedPN.Marshal(popts)
					return c12out{data: out, err: err != nil, keep: [][]byte{out}}
				})
			}
		}
		w.addOp(15, fmt.Sprintf("proto.Interface doc%d", d), false, func() c12out {
			v := pgeneric.NewRootValue(desc, pb)
			iv, err := v.Interface(&pgeneric.Options{MapStructById: true})
			return c12out{data: c12dumpAny(iv), err: err != nil}
		})
		if desc == pReq {
			c12cutDocs.proto = append(c12cutDocs.proto, pb0)
			for target := 0; target < 3; target++ {
				target := target
				w.addOp(17, fmt.Sprintf("proto.MarshalTo(source reused) doc%d target%d", d, target), false, func() c12out {
					res, cp, ok := c12protoCut(desc, pb, target)
					if !ok {
						return c12out{err: true}
					}
					return c12out{data: cp, alias: !bytes.Equal(res, cp), keep: [][]byte{res}}
				})
			}
			w.addOp(17, fmt.Sprintf("proto.MarshalTo doc%d", d), false, func() c12out {
				out, err := pgeneric.NewRootValue(desc, pb).MarshalTo(pSmall, popts)
				return c12out{data: out, err: err != nil, keep: [][]byte{out}}
			})
			ppaths := [][]pgeneric.Path{
				{pgeneric.NewPathFieldId(1)},
				{pgeneric.NewPathFieldId(3), pgeneric.NewPathFieldId(7)},
				{pgeneric.NewPathFieldName("inner"), pgeneric.NewPathFieldName("li"), pgeneric.NewPathIndex(0)},
				{pgeneric.NewPathFieldId(3), pgeneric.NewPathFieldId(11), pgeneric.NewPathStrKey("k0")},
				{pgeneric.NewPathFieldId(500)},
			}
			for pi, p := range ppaths {
				p := p
				w.addOp(15, fmt.Sprintf("proto.GetByPath doc%d path%d", d, pi), false, func() c12out {
					v := pgeneric.NewRootValue(desc, pb).GetByPath(p...)
					if v.IsError() {
						return c12out{err: true}
					}
					return c12out{data: v.Raw()}
				})
			}
		}
		// failing calls; p2j is only fed truncations of the message without packed lists (p2j does not terminate on a
		// truncated packed list, DESIGN §7 #9, which belongs to C06/C08)
		for vi, v := range c12variants(r.fork(), js, 80) {
			vb := w.in.add(fmt.Sprintf("proto-json-%d-bad%d", d, vi), v)
			w.addOp(7, fmt.Sprintf("j2p.Do doc%d bad%d", d, vi), true, func() c12out {
				out, err := j2pcvp.Do(ctx, desc, vb)
				return c12out{data: out, err: err != nil, keep: [][]byte{out}}
			})
		}
		if pd.trunc {
			for vi, v := range c12variants(r.fork(), pb0, 80) {
				if vi >= len(pb0) {
					break // truncations only (byte substitutions can fabricate packed lists / huge lengths)
				}
				vb := w.in.add(fmt.Sprintf("proto-bin-%d-bad%d", d, vi), v)
				w.addOp(9, fmt.Sprintf("p2j.Do doc%d bad%d", d, vi), true, func() c12out {
					out, err := p2jcvp.Do(ctx, desc, vb)
					return c12out{data: out, err: err != nil, keep: [][]byte{out}}
				})
			}
		}
	}
	w.addOp(18, "proto.lookups", false, func() c12out {
		var sb strings.Builder
		for _, td := range []*proto.TypeDescriptor{pReq, pNest, pSmall} {
			m := td.Message()
			for id := 0; id < 20; id++ {
				if f := m.ByNumber(proto.FieldNumber(id)); f != nil {
					fmt.Fprintf(&sb, "%d=%s/%d;", id, f.Name(), f.Type().Type())
				}
			}
			for _, k := range []string{"msg", "code", "inner", "items", "subfix", "a", "n", "ls", "m", "nope"} {
				if f := m.ByName(k); f != nil {
					fmt.Fprintf(&sb, "%s=%d;", k, f.Number())
				}
				if f := m.ByJSONName(k); f != nil {
					fmt.Fprintf(&sb, "j%s=%d;", k, f.Number())
				}
			}
		}
		return c12out{data: []byte(sb.String())}
	})

	// sequential oracle: every op alone, twice; ops that are not a function of their inputs even alone are dropped (counted)
	var ops []c12op
	for _, op := range w.ops {
		a := c12call(op.run)
		b := c12call(op.run)
		if !a.same(&b) {
			w.unstable++
			fmt.Fprintf(os.Stderr, "C12-UNSTABLE-ALONE op=%q (two sequential runs differ; not used)\n", op.name)
			continue
		}
		a.data = append([]byte(nil), a.data...)
		a.keep = nil
		ops = append(ops, op)
		w.oracle = append(w.oracle, a)
	}
	w.ops = ops
	if os.Getenv("C12_LIST") != "" {
		for i, op := range w.ops {
			fmt.Fprintf(os.Stderr, "C12-OP %d kind=%d fail=%v err=%v panic=%v len=%d %s %s\n", i, op.kind, op.fail, w.oracle[i].err, w.oracle[i].pan, len(w.oracle[i].data), op.name, w.oracle[i].msg)
		}
	}
	return w
}

// ---------------------------------------------------------------------------------------------- rounds

type c12held struct {
	live []byte
	copy []byte
	op   int
}

type c12kindStat struct {
	calls, mismatch, retainedBad int
}

func c12report(format string, a ...interface{}) {
	if atomic.AddInt32(&c12reports, 1) <= 40 {
		fmt.Fprintf(os.Stderr, format+"\n", a...)
	}
}

var c12reports int32

// set while the world is built (needs the descriptors); used by the per-document operations and by scenario 1209
var c12thriftCut = func(doc []byte, target int) ([]byte, []byte, bool) { return nil, nil, false }
var c12protoCut = func(desc *proto.TypeDescriptor, doc []byte, target int) ([]byte, []byte, bool) {
	return nil, nil, false
}
var c12cutDocs struct{ thrift, proto [][]byte }

func (w *c12world) round(r *rng, idx int, seed uint64, G, P, perG int, mix []int, carried []c12held) (map[int]*c12kindStat, []c12held) {
	kinds := map[int]bool{}
	for _, i := range mix {
		kinds[w.ops[i].kind] = true
	}
	var ks []int
	for k := range kinds {
		ks = append(ks, k)
	}
	sort.Ints(ks)
	fmt.Fprintf(os.Stderr, "C12-ROUND %d seed=%d G=%d P=%d calls=%d mix_kinds=%v mix_ops=%d\n", idx, seed, G, P, G*perG, ks, len(mix))
	runtime.GOMAXPROCS(P)
	for _, f := range w.refresh {
		f()
	}
	stats := make([]map[int]*c12kindStat, G)
	helds := make([][]c12held, G)
	var wg sync.WaitGroup
	start := make(chan struct{})
	for g := 0; g < G; g++ {
		gr := r.fork()
		st := map[int]*c12kindStat{}
		stats[g] = st
		wg.Add(1)
		go func(g int) {
			defer wg.Done()
			<-start
			var held []c12held
			for c := 0; c < perG; c++ {
				oi := mix[gr.intn(len(mix))]
				op := &w.ops[oi]
				res := c12call(op.run)
				s := st[op.kind]
				if s == nil {
					s = &c12kindStat{}
					st[op.kind] = s
				}
				s.calls++
				if res.alias {
					s.retainedBad++
					c12report("C12-MISMATCH what=alias round=%d op=%q (the result changed when the caller overwrote the source buffer)", idx, op.name)
				}
				if !res.same(&w.oracle[oi]) {
					s.mismatch++
					c12report("C12-MISMATCH what=result round=%d op=%q err=%v/%v panic=%v/%v len=%d/%d msg=%q", idx, op.name, res.err, w.oracle[oi].err, res.pan, w.oracle[oi].pan, len(res.data), len(w.oracle[oi].data), res.msg)
				}
				if len(held) < 48 || gr.chance(10) {
					for _, k := range res.keep {
						if len(k) > 0 {
							h := c12held{live: k, copy: append([]byte(nil), k...), op: oi}
							if len(held) < 96 {
								held = append(held, h)
							} else {
								held[gr.intn(len(held))] = h
							}
						}
					}
				}
				if gr.chance(30) {
					runtime.Gosched()
				}
			}
			helds[g] = held
		}(g)
	}
	close(start)
	wg.Wait()
	total := map[int]*c12kindStat{}
	for _, st := range stats {
		for k, s := range st {
			t := total[k]
			if t == nil {
				t = &c12kindStat{}
				total[k] = t
			}
			t.calls += s.calls
			t.mismatch += s.mismatch
			t.retainedBad += s.retainedBad
		}
	}
	// retention: results handed out in the PREVIOUS round are re-validated now (>= one full round of calls later)
	for _, h := range carried {
		if !bytes.Equal(h.live, h.copy) {
			k := w.ops[h.op].kind
			t := total[k]
			if t == nil {
				t = &c12kindStat{}
				total[k] = t
			}
			t.retainedBad++
			c12report("C12-MISMATCH what=retained round=%d op=%q (result of an earlier call changed after later calls)", idx, w.ops[h.op].name)
		}
	}
	var next []c12held
	for _, hs := range helds {
		next = append(next, hs...)
	}
	return total, next
}

// the documented pairing NewBinaryProtocol(buf) ... Recycle(): what happens to the caller's buffer afterwards
func c12recycleThrift(w *c12world, r *rng) {
	ctx := context.Background()
	svc, err := thrift.Options{}.NewDescritorFromContent(ctx, "c12.thrift", c12ThriftIDL, map[string]string{}, false)
	if err != nil {
		return
	}
	smallDesc := svc.Functions()["S"].Request().Struct().FieldById(1).Type()
	cv := j2t.NewBinaryConv(conv.Options{})
	for k := 0; k < 6; k++ {
		js := fmt.Sprintf(`{"Msg":"%s-%d","Inner":%s,"Big":%d}`, c12jsonString(r), k, c12innerJSON(r, 1, true), r.intn(1000))
		in0, err := cv.Do(ctx, smallDesc, []byte(js))
		if err != nil {
			continue
		}
		input := append(make([]byte, 0, len(in0)+64+r.intn(64)), in0...) // room for the whole later output (Check12.quirk_recycled_input)
		before := append([]byte(nil), input...)
		runtime.GC() // start from drained pools: the next Get after our Put returns our object (same P, no preemption point that migrates)
		p := thrift.NewBinaryProtocol(input)
		p.ReadFieldBegin()
		view, _ := p.ReadString(false) // documented zero-copy view of the caller's input
		viewBefore := string(append([]byte(nil), view...))
		p.Recycle()
		// a later, unrelated call by the same or any other goroutine
		other := append([]byte(nil), in0...)
		pn := generic.PathNode{Node: generic.NewNode(thrift.STRUCT, other)}
		var later []byte
		if err := pn.Load(true, &generic.Options{}); err == nil {
			if len(pn.Next) > 0 {
				pn.Next[0].Node = generic.NewNodeString(strings.Repeat("Z", 3+r.intn(20)))
			}
			later, _ = pn.Marshal(&generic.Options{})
		}
		out.emit(1202, fx(before), fx(input), fx(later), fs(viewBefore), fs(view))
	}
}

func c12recycleProto(w *c12world, r *rng) {
	ctx := context.Background()
	psvc, err := proto.NewDescritorFromContent(ctx, "c12.proto", c12ProtoIDL, map[string]string{})
	if err != nil {
		return
	}
	desc := psvc.LookupMethodByName("F").Input()
	cv := j2p.NewBinaryConv(conv.Options{})
	for k := 0; k < 6; k++ {
		in0, err := cv.Do(ctx, desc, []byte(c12nestJSON(r, 2)))
		if err != nil {
			continue
		}
		input := append(make([]byte, 0, len(in0)+64+r.intn(64)), in0...)
		before := append([]byte(nil), input...)
		runtime.GC()
		p := pbinary.NewBinaryProtol(input)
		p.ConsumeTag()
		p.Recycle()
		other := append([]byte(nil), in0...)
		v := pgeneric.NewRootValue(desc, other)
		pn := pgeneric.PathNode{Node: v.Node}
		var later []byte
		if err := pn.Load(true, &pgeneric.Options{}, desc); err == nil {
			if len(pn.Next) > 0 {
				pn.Next[0].Node = pgeneric.NewNodeString(strings.Repeat("Z", 3+r.intn(20)))
			}
			later, _ = pn.Marshal(&pgeneric.Options{})
		}
		out.emit(1203, fx(before), fx(input), fx(later))
	}
}

// j2t after pool MISSES (finding 1203). A fresh J2TStateMachine has a 4096-byte ReqsCache; a struct whose Requires() bitmap
// fills it (max field id >= 32704) plus one nested struct makes the native code ask for more (ERR_OOM_BM), GrowReqCache
// (internal/native/types/types.go:382-387) replaces the array, but the enclosing struct's state keeps a RAW pointer into
// the old one (J2TExtra, native/thrift.c:239), which the garbage collector may hand to somebody else. In steady state the
// pooled state machines have grown caches and nothing happens; after a pool miss (GC emptied the pool, or the race-mode
// sync.Pool dropped the Put) it does. The scenario takes the pooled object away before a quarter of the calls, like the
// race-mode pool does, under allocation pressure; the control runs the same with max field id 4000 (no growth).
func c12poolMiss(r *rng) {
	ctx := context.Background()
	mk := func(maxid int) (*thrift.TypeDescriptor, error) {
		idl := fmt.Sprintf(`namespace go c12
struct Inner { 1: bool B, 4: i32 I32, 7: string S, 8: list<i32> L, 9: map<string,string> M, 13: binary Bin, 18: list<Inner> LI, 19: map<string, Inner> MSI }
struct Req { 1: optional string Msg, 3: required string Path, 6: i64 Code, 7: Inner Inner, 9: i32 Def = 42, 300: required i64 Big, %d: double Subfix }
service Svc { Req M(1: Req req) }
`, maxid)
		svc, err := thrift.Options{}.NewDescritorFromContent(ctx, "c12pm.thrift", idl, map[string]string{}, false)
		if err != nil {
			return nil, err
		}
		return svc.Functions()["M"].Request().Struct().FieldById(1).Type(), nil
	}
	inner := `{"B":true,"I32":5,"S":"long-long-long-long-long-long-long-long-string","L":[1,2,3,4,5],"M":{"k0":"a","k1":"b"},"Bin":"aGVsbG8gd29ybGQ=","LI":[{"S":"x","L":[1]},{"S":"y"}],"MSI":{"in0":{"S":"z","L":[9,9,9]}}}`
	js := []byte(`{"Msg":"hello","Path":"p","Code":12345,"Inner":` + inner[:len(inner)-1] + `,"LI":[` + inner + `,` + inner + `]},"Big":5,"Subfix":1.5}`)
	cvs := []j2t.BinaryConv{j2t.NewBinaryConv(conv.Options{}), j2t.NewBinaryConv(conv.Options{DisallowUnknownField: true, NoBase64Binary: true}),
		j2t.NewBinaryConv(conv.Options{WriteDefaultField: true, WriteRequireField: true})}
	perG := 6000
	if c12race {
		perG = 300
	}
	run := func(maxid int) (calls, errs, wrong int64, ok bool) {
		desc, err := mk(maxid)
		if err != nil {
			return 0, 0, 0, false
		}
		var wants [][]byte
		for i := range cvs {
			w, err := cvs[i].Do(ctx, desc, js)
			if err != nil {
				return 0, 0, 0, false
			}
			wants = append(wants, w)
		}
		runtime.GOMAXPROCS(16)
		stop := make(chan struct{})
		var wg, wg2 sync.WaitGroup
		for g := 0; g < 32; g++ {
			wg.Add(1)
			go func() {
				defer wg.Done()
				for n := 1; n <= perG; n++ {
					if n%4 == 0 {
						_ = types.NewJ2TStateMachine() // pool miss for the next call
						_ = conv.NewBytes()
					}
					i := n % len(cvs)
					out, err := cvs[i].Do(ctx, desc, js)
					atomic.AddInt64(&calls, 1)
					if err != nil {
						if atomic.AddInt64(&errs, 1) <= 2 {
							c12report("C12-POOLMISS maxid=%d spurious error: %s", maxid, c12msg(err))
						}
					} else if !bytes.Equal(out, wants[i]) {
						if atomic.AddInt64(&wrong, 1) <= 2 {
							c12report("C12-POOLMISS maxid=%d wrong output: %d bytes, alone %d bytes", maxid, len(out), len(wants[i]))
						}
					}
					if n%7 == 0 {
						runtime.Gosched()
					}
				}
			}()
		}
		for g := 0; g < 4; g++ {
			wg2.Add(1)
			go func() {
				defer wg2.Done()
				for {
					select {
					case <-stop:
						return
					default:
					}
					for k := 0; k < 16; k++ {
						b := make([]byte, 4096)
						for i := range b {
							b[i] = 0xff
						}
					}
					runtime.Gosched()
				}
			}()
		}
		wg.Wait()
		close(stop)
		wg2.Wait()
		return calls, errs, wrong, true
	}
	c1, e1, w1, ok1 := run(32767)
	c2, e2, w2, ok2 := run(4000)
	if ok1 && ok2 {
		out.emit(1205, fi(32767), fn(c1), fn(e1), fn(w1), fi(4000), fn(c2), fn(e2), fn(w2))
	}
}

// one HTTPRequest wrapper REUSED for a second request (the embedded *http.Request swapped, or its URL changed): the second
// conversion must see the second request, i.e. give what a fresh wrapper around the second request gives
func c12requestReuse() {
	ctx := context.Background()
	const idl = `namespace go c12ru
struct Q {
    1: required string A (api.query = "a"),
    2: optional string B (api.query = "b"),
    3: optional string H (api.header = "h"),
    4: optional string C (api.cookie = "c"),
}
service S { string M(1: Q req) }
`
	svc, err := thrift.Options{}.NewDescritorFromContent(ctx, "c12ru.thrift", idl, map[string]string{}, false)
	if err != nil {
		return
	}
	desc := svc.Functions()["M"].Request().Struct().FieldById(1).Type()
	cv := j2t.NewBinaryConv(conv.Options{EnableHttpMapping: true, ReadHttpValueFallback: true})
	mk := func(u, h, c string) *dhttp.HTTPRequest {
		req, err := dhttp.NewHTTPRequestFromUrl("GET", u, nil)
		if err != nil {
			die("C12: reuse request: %v", err)
		}
		req.Request.Header.Set("h", h)
		req.Request.AddCookie(&stdhttp.Cookie{Name: "c", Value: c})
		return req
	}
	do := func(req *dhttp.HTTPRequest) []byte {
		var res []byte
		noPanic(func() {
			o, err := cv.Do(context.WithValue(ctx, conv.CtxKeyHTTPRequest, req), desc, []byte(`{}`))
			if err != nil {
				res = []byte("error")
			} else {
				res = append([]byte("ok:"), o...)
			}
		})
		return res
	}
	u1, u2 := "http://localhost/x?a=first&b=one", "http://localhost/x?a=second&b=two"
	// variant 1: the embedded *http.Request is replaced
	w1 := mk(u1, "h1", "c1")
	first := do(w1)
	w1.Request = mk(u2, "h2", "c2").Request
	out.emit(1207, fi(1), fx(do(w1)), fx(do(mk(u2, "h2", "c2"))), fx(first))
	// variant 2: the URL of the embedded request is changed in place
	w2 := mk(u1, "h1", "c1")
	first = do(w2)
	w2.Request.URL.RawQuery = "a=second&b=two"
	w2.Request.Header.Set("h", "h2")
	out.emit(1207, fi(2), fx(do(w2)), fx(do(mk(u2, "h2", "c1"))), fx(first))
}

// sequential retention: every operation that hands a buffer to its caller is called, the result is kept (the slice itself
// and a private copy taken right after the call), a handful of OTHER pool users run (PathNode.Marshal, MarshalTo, t2j, j2t,
// the HTTP converters, the same converter with another request), then the kept result is read again
func (w *c12world) retainSeq(r *rng) {
	byKind := map[int][]int{}
	for i, op := range w.ops {
		if !op.fail && !w.oracle[i].err && !w.oracle[i].pan {
			byKind[op.kind] = append(byKind[op.kind], i)
		}
	}
	var users []int // the operations run in between
	for _, k := range []int{12, 13, 3, 1, 5, 25, 26, 24, 16, 17, 7} {
		users = append(users, byKind[k]...)
	}
	if len(users) == 0 {
		return
	}
	var ks []int
	for k := range byKind {
		ks = append(ks, k)
	}
	sort.Ints(ks)
	runtime.GOMAXPROCS(1)
	for _, k := range ks {
		ops := byKind[k]
		calls, good, any := 0, 1, false
		n := len(ops)
		if n > 120 {
			n = 120
		}
		for j := 0; j < n; j++ {
			i := ops[j]
			if len(byKind[k]) > 120 {
				i = ops[r.intn(len(ops))]
			}
			res := c12call(w.ops[i].run)
			calls++
			var kept, copies [][]byte
			for _, b := range res.keep {
				if len(b) > 0 {
					kept = append(kept, b)
					copies = append(copies, append([]byte(nil), b...))
				}
			}
			if len(kept) == 0 {
				continue
			}
			any = true
			// first the same kind again (same converter, another request), then other pool users
			for m := 0; m < 2; m++ {
				c12call(w.ops[ops[r.intn(len(ops))]].run)
			}
			for m := 0; m < 6; m++ {
				c12call(w.ops[users[r.intn(len(users))]].run)
			}
			calls += 8
			for x := range kept {
				if !bytes.Equal(kept[x], copies[x]) {
					good = 0
					c12report("C12-MISMATCH what=retained phase=sequential op=%q (the result changed after 8 later calls)", w.ops[i].name)
				}
			}
		}
		if any {
			out.emit(1208, fi(k), fi(calls), fi(good))
		}
	}
}

// error exits: after K failing calls of one kind in a row, successful calls still give the oracle result
func (w *c12world) errorExits(r *rng) {
	byKind := map[int][]int{}
	okByKind := map[int][]int{}
	for i, op := range w.ops {
		if op.fail {
			byKind[op.kind] = append(byKind[op.kind], i)
		} else {
			okByKind[op.kind] = append(okByKind[op.kind], i)
		}
	}
	var ks []int
	for k := range byKind {
		ks = append(ks, k)
	}
	sort.Ints(ks)
	runtime.GOMAXPROCS(1)
	for _, k := range ks {
		good := 1
		calls := 0
		for rep := 0; rep < 3; rep++ {
			for _, i := range byKind[k] {
				res := c12call(w.ops[i].run)
				calls++
				if !res.same(&w.oracle[i]) {
					good = 0
					c12report("C12-MISMATCH what=error-exit op=%q", w.ops[i].name)
				}
				if r.chance(50) && len(okByKind[k]) > 0 {
					j := okByKind[k][r.intn(len(okByKind[k]))]
					res := c12call(w.ops[j].run)
					calls++
					if !res.same(&w.oracle[j]) {
						good = 0
						c12report("C12-MISMATCH what=after-error-exit op=%q after %q", w.ops[j].name, w.ops[i].name)
					}
				}
			}
		}
		out.emit(1204, fi(k), fi(calls), fi(good))
	}
}

func genC12(r *rng, n int) {
	seed := r.s
	tw := time.Now()
	w := c12buildWorld(r.fork())
	fmt.Fprintf(os.Stderr, "C12-STAGE world+oracle %.1fs\n", time.Since(tw).Seconds())
	// the sequential phase (fixtures + every operation alone, twice) must have left inputs and descriptors alone and
	// every operation must have returned the same thing twice
	seqInputsChanged := false
	{
		badIn := w.in.changed()
		badDesc := w.descsChanged()
		seqInputsChanged = len(badIn) > 0
		for i, b := range badIn {
			if i < 6 {
				c12report("C12-MISMATCH what=input phase=sequential input=%q (input bytes changed by a call run alone)", b)
			}
		}
		out.emit(1206, fi(len(badIn)), fi(w.unstable), fi(len(badDesc)))
		out.w.Flush() // a later fault on a read-only input must not lose this line
		if len(badIn) > 0 {
			for i := range w.in.live {
				copy(w.in.live[i], w.in.copy[i])
			}
		}
	}
	c12requestReuse()
	// MarshalTo: the result seen after the caller overwrote the source value, and its private copy taken before that
	for target := 0; target < 3; target++ {
		for _, d := range c12cutDocs.thrift {
			if res, cp, ok := c12thriftCut(d, target); ok {
				out.emit(1209, fi(1), fi(target), fx(res), fx(cp))
			}
		}
		for _, d := range c12cutDocs.proto {
			if res, cp, ok := c12protoCut(nil, d, target); ok {
				out.emit(1209, fi(2), fi(target), fx(res), fx(cp))
			}
		}
	}
	prot := 0
	// (when a call run alone already wrote into its input the rounds go on with writable inputs: they then report through
	// the before/after comparison instead of stopping at the first fault)
	if os.Getenv("C12_NO_MPROTECT") == "" && !seqInputsChanged {
		prot = c12mem.protect()
	}
	fmt.Fprintf(os.Stderr, "C12-WORLD ops=%d inputs=%d descriptor_dumps=%d unstable_alone=%d readonly_input_chunks=%d/%d\n", len(w.ops), len(w.in.live), len(w.dumps), w.unstable, prot, len(c12mem.chunks))
	t0 := time.Now()
	stage := func(name string) {
		fmt.Fprintf(os.Stderr, "C12-STAGE %s %.1fs\n", name, time.Since(t0).Seconds())
		t0 = time.Now()
	}
	c12recycleThrift(w, r.fork())
	c12recycleProto(w, r.fork())
	stage("recycle-scenarios")
	w.errorExits(r.fork())
	stage("error-exit-sweep")
	w.retainSeq(r.fork())
	stage("sequential-retention")
	c12poolMiss(r.fork())
	stage("pool-miss-scenario")

	Gs := []int{1, 4, 8, 16, 32, 64}
	Ps := []int{1, 2, 16}
	// replay / focus knob: C12_FOCUS="G,P,kind,kind,..." makes every round use that G, P and only those operation kinds
	var focus []int
	for _, t := range strings.Split(os.Getenv("C12_FOCUS"), ",") {
		v := 0
		if _, err := fmt.Sscanf(strings.TrimSpace(t), "%d", &v); err == nil {
			focus = append(focus, v)
		}
	}
	var carried []c12held
	for round := 0; round < n; round++ {
		G := Gs[round%len(Gs)]
		P := Ps[(round/len(Gs)+round)%len(Ps)]
		if round >= len(Gs)*len(Ps) {
			G = Gs[r.intn(len(Gs))]
			P = Ps[r.intn(len(Ps))]
		}
		// operation mix: every third round everything, otherwise a PRNG-chosen subset of kinds (+ their failing variants)
		var mix []int
		if len(focus) >= 2 {
			G, P = focus[0], focus[1]
			for i, op := range w.ops {
				for _, k := range focus[2:] {
					if op.kind == k {
						mix = append(mix, i)
					}
				}
			}
		}
		if len(mix) > 0 {
			// focused round
		} else if round%6 == 4 {
			// gateway rounds: only the http-mapped j2t operations (ctx request + HTTPConv), failing and valid requests of
			// several descriptors interleaved on every goroutine, so that a pooled state machine left behind by a failing
			// conversion is picked up by a valid one
			for i, op := range w.ops {
				if op.kind == 22 || op.kind == 23 || op.kind == 5 || op.kind == 25 {
					mix = append(mix, i)
				}
			}
		} else if round%6 == 1 {
			// retention rounds: the operations whose result is a buffer of their own (node constructors, HTTP converters with
			// small bodies) make up half of the calls, the other half are pool users of every kind
			var focus, back []int
			for i, op := range w.ops {
				switch op.kind {
				case 24, 25, 26:
					focus = append(focus, i)
				case 12, 13, 3, 1, 5, 6, 16, 17, 7:
					if !op.fail {
						back = append(back, i)
					}
				}
			}
			mix = append(mix, back...)
			for len(focus) > 0 && len(mix) < 2*len(back) {
				mix = append(mix, focus...)
			}
		} else if round%3 == 0 {
			for i := range w.ops {
				mix = append(mix, i)
			}
		} else {
			sel := map[int]bool{}
			for len(sel) < 3+r.intn(5) {
				sel[1+r.intn(27)] = true
			}
			for i, op := range w.ops {
				if sel[op.kind] {
					mix = append(mix, i)
				}
			}
			if len(mix) == 0 {
				for i := range w.ops {
					mix = append(mix, i)
				}
			}
		}
		perG := 1400/G + 1
		if G == 1 {
			perG = 1500
		}
		stats, next := w.round(r.fork(), round, seed, G, P, perG, mix, carried)
		carried = next
		badIn := w.in.changed()
		badDesc := w.descsChanged()
		for _, b := range badIn {
			c12report("C12-MISMATCH what=input round=%d input=%q (shared input bytes changed)", round, b)
		}
		for _, b := range badDesc {
			c12report("C12-MISMATCH what=descriptor round=%d dump=%d (descriptor dump changed)", round, b)
		}
		var ks []int
		for k := range stats {
			ks = append(ks, k)
		}
		sort.Ints(ks)
		for _, k := range ks {
			s := stats[k]
			out.emit(1201, fi(k), fi(G), fi(P), fi(s.calls), fb(s.mismatch == 0), fb(len(badIn) == 0), fb(len(badDesc) == 0), fb(s.retainedBad == 0))
		}
		if len(badIn) > 0 && prot == 0 {
			// restore so that the following rounds are judged on their own
			for i := range w.in.live {
				copy(w.in.live[i], w.in.copy[i])
			}
		}
	}
	// final retention pass for the results of the last round: churn the pools once more, sequentially
	if n > 0 {
		all := make([]int, len(w.ops))
		for i := range all {
			all[i] = i
		}
		stats, _ := w.round(r.fork(), n, seed, 1, 1, 1200, all, carried)
		var ks []int
		for k := range stats {
			ks = append(ks, k)
		}
		sort.Ints(ks)
		badIn := w.in.changed()
		badDesc := w.descsChanged()
		for _, k := range ks {
			s := stats[k]
			out.emit(1201, fi(k), fi(1), fi(1), fi(s.calls), fb(s.mismatch == 0), fb(len(badIn) == 0), fb(len(badDesc) == 0), fb(s.retainedBad == 0))
		}
	}
	runtime.GOMAXPROCS(runtime.NumCPU())
}
