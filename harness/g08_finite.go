//go:build verif

package main

import (
	"context"
	"encoding/binary"

	"github.com/cloudwego/dynamicgo/conv"
	"github.com/cloudwego/dynamicgo/conv/p2j"
	"github.com/cloudwego/dynamicgo/conv/t2j"
	"github.com/cloudwego/dynamicgo/thrift"
)

// Generated-definition checks 893 (C08) / 392 (C03) / 1392 (C13): the finite test in front of EncodeFloat64.
// which = 0: conv/p2j checkFinite on the bit pattern; which = 1: conv/t2j BinaryConv.Do on struct{1: double d} holding the bit pattern
// (error <=> the inline test of doRecurse fired). Bit patterns: every exponent boundary, both signs, quiet / signalling NaN payloads, random.
func init() {
	for _, p := range []struct {
		prop string
		id   int
	}{{"C08", 893}, {"C03", 392}, {"C13", 1392}} {
		base, id := generators[p.prop], p.id
		generators[p.prop] = func(r *rng, n int) {
			genFinite(g2cRng(r), id)
			base(r, n)
		}
	}
}

func genFinite(r *rng, id int) {
	desc, err := parseThrift("struct S { 1: double d }\nservice Svc { S M(1: S req) }\n", thrift.Options{})
	if err != nil {
		die("g08_finite: %v", err)
	}
	cv := t2j.NewBinaryConv(conv.Options{})
	var pats []uint64
	for _, sign := range []uint64{0, 1 << 63} {
		for _, e := range []uint64{0, 1, 1022, 1023, 1024, 2045, 2046, 2047} {
			for _, f := range []uint64{0, 1, 1 << 51, 1<<51 | 1, 1<<52 - 1, r.next() & (1<<52 - 1)} {
				pats = append(pats, sign|e<<52|f)
			}
		}
	}
	for k := 0; k < 200; k++ {
		pats = append(pats, r.next())
	}
	for _, b := range pats {
		out.emit(id, fi(0), fu(b), fi(b2i(p2j.VerifCheckFinite(b))))
		in := []byte{byte(thrift.DOUBLE), 0, 1, 0, 0, 0, 0, 0, 0, 0, 0, 0}
		binary.BigEndian.PutUint64(in[3:], b)
		_, e := cv.Do(context.Background(), desc, in)
		out.emit(id, fi(1), fu(b), fi(b2i(e != nil)))
	}
}
