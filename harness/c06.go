//go:build verif

// C06 correspondence cases: entry points that have an explicit-cursor model in coq/model/Robust.v are run
// in-process on malformed inputs and must agree with the model on ok/err and on the consumed length
// (judged by coq/model/Check06.v):
//   601 thrift SkipGo            type bytes err consumed
//   602 thrift SkipNative        type bytes err consumed
//   603 thrift UnwrapBinaryMessage  bytes err body
//   604 protowire Consume*       bytes v n  f32 n32  f64 n64  payload nb all   tagnum tagtyp tagn tagerr
//   605 proto/binary Skip        wiretype bytes outcome(0 ok,1 err,2 panic) consumed
//   606 thrift ReadAny           type bytes err consumed
//   607 conv/p2j on a message without declared fields (tag/skip loop)   bytes outcome
// The remaining entry points (no model) are explored by the child-process runner (c06_run.go).
package main

import (
	"context"
	"strings"

	"github.com/cloudwego/dynamicgo/conv"
	"github.com/cloudwego/dynamicgo/conv/p2j"
	"github.com/cloudwego/dynamicgo/proto"
	pbinary "github.com/cloudwego/dynamicgo/proto/binary"
	"github.com/cloudwego/dynamicgo/proto/protowire"
	"github.com/cloudwego/dynamicgo/thrift"
)

func init() { generators["C06"] = genC06 }

func genC06(r *rng, n int) {
	loadProtoDescs()
	nT := n / 150
	if nT < 6 {
		nT = 6
	}
	c := buildC06Ctx(r, nT, nT)
	rr := r.fork()
	emitSkip := func(t thrift.Type, b []byte) {
		p := thrift.BinaryProtocol{Buf: b}
		var e error
		if ok, _ := noPanic(func() { e = p.SkipGo(t, thrift.MaxSkipDepth) }); !ok {
			out.emit(601, fi(int(t)), fx(b), fi(2), fi(p.Read))
		} else {
			out.emit(601, fi(int(t)), fx(b), berr(e), fi(p.Read))
		}
		if len(b) > 0 {
			p2 := thrift.BinaryProtocol{Buf: b}
			if ok, _ := noPanic(func() { e = p2.SkipNative(t, thrift.MaxSkipDepth) }); !ok {
				out.emit(602, fi(int(t)), fx(b), fi(2), fi(p2.Read))
			} else {
				out.emit(602, fi(int(t)), fx(b), berr(e), fi(p2.Read))
			}
		}
	}
	emitReadAny := func(t thrift.Type, b []byte) {
		if strings.Contains(c06Flags("", b, t), "xbig") {
			return // would exhaust memory in this process; explored in a child process by the hook
		}
		p := thrift.BinaryProtocol{Buf: b}
		var e error
		if ok, _ := noPanic(func() { _, e = p.ReadAny(t, false, false) }); !ok {
			out.emit(606, fi(int(t)), fx(b), fi(2), fi(p.Read))
		} else {
			out.emit(606, fi(int(t)), fx(b), berr(e), fi(p.Read))
		}
	}
	emitUnwrap := func(b []byte) {
		var body []byte
		var e error
		if ok, _ := noPanic(func() { _, _, _, _, body, e = thrift.UnwrapBinaryMessage(b) }); !ok {
			out.emit(603, fx(b), fi(2), fx(nil))
			return
		}
		out.emit(603, fx(b), berr(e), fx(body))
	}
	for mi, m := range c.tmsgs {
		for _, in := range thriftVariants(rr, mi, m, 60, 2) {
			emitSkip(thrift.STRUCT, in.b)
			emitReadAny(thrift.STRUCT, in.b)
		}
		for _, sub := range subValues(m.val, 4) {
			var ps []bpos
			sm := &tmsg{root: sub.T, val: sub}
			sm.buf = sub.encodePos(nil, &ps)
			sm.pos = ps
			if len(sm.buf) > 200 {
				continue
			}
			for _, in := range thriftVariants(rr, mi, sm, 30, 2) {
				emitSkip(sub.T.K, in.b)
				emitReadAny(sub.T.K, in.b)
			}
		}
		if w, err := thrift.WrapBinaryBody(m.buf, "method", thrift.REPLY, 0, int32(mi)-3); err == nil {
			emitUnwrap(w)
			for k := 0; k <= len(w) && k < 30; k++ {
				emitUnwrap(w[:k])
			}
			for k := 0; k < 10; k++ {
				cp := cloneBytes(w)
				cp[rr.intn(minInt(len(cp), 22))] = byte(rr.next())
				emitUnwrap(cp)
			}
			for _, cv := range countSubst {
				cp := cloneBytes(w)
				cp[4], cp[5], cp[6], cp[7] = byte(cv>>24), byte(cv>>16), byte(cv>>8), byte(cv)
				emitUnwrap(cp)
			}
		}
	}
	// nesting at the limit +- 1
	for kind := 0; kind < 4; kind++ {
		for _, d := range []int{1022, 1023, 1024} {
			t, b := thriftNest(kind, d)
			emitSkip(t, b)
			emitReadAny(t, b)
		}
	}
	// every declared type on short random inputs
	for k := 0; k < n/40; k++ {
		b := rr.bytes(rr.intn(24))
		if rr.chance(50) && len(b) > 6 {
			b[0] = byte(thriftAllTypes[rr.intn(len(thriftAllTypes))])
			b[1] = byte(thriftAllTypes[rr.intn(len(thriftAllTypes))])
			b[2], b[3] = 0, 0
		}
		t := thrift.Type(rr.intn(20))
		if rr.chance(70) {
			t = thriftAllTypes[rr.intn(len(thriftAllTypes))]
		}
		emitSkip(t, b)
		emitReadAny(t, b)
		emitUnwrap(b)
	}
	// ---- protobuf wire
	emitWire := func(b []byte) {
		v, n := protowire.ConsumeVarint(b)
		f32, n32 := protowire.ConsumeFixed32(b)
		f64, n64 := protowire.ConsumeFixed64(b)
		pl, nb, all := protowire.ConsumeBytes(b)
		p := pbinary.BinaryProtocol{Buf: b}
		num, typ, tn, terr := p.ConsumeTag()
		out.emit(604, fx(b), fu(v), fi(n), fu(uint64(f32)), fi(n32), fu(f64), fi(n64), fx(pl), fi(nb), fi(all), fn(int64(num)), fn(int64(typ)), fi(tn), berr(terr), fi(p.Read))
	}
	emitPSkip := func(wt int, b []byte) {
		p := pbinary.BinaryProtocol{Buf: b}
		var e error
		if ok, _ := noPanic(func() { e = p.Skip(proto.WireType(wt), false) }); !ok {
			out.emit(605, fi(wt), fx(b), fi(2), fi(p.Read))
		} else {
			out.emit(605, fi(wt), fx(b), berr(e), fi(p.Read))
		}
	}
	cv := p2j.NewBinaryConv(conv.Options{})
	emitP2JEmpty := func(b []byte) {
		var e error
		if ok, _ := noPanic(func() { _, e = cv.Do(context.Background(), c06ProtoDescs.empty, b) }); !ok {
			out.emit(607, fx(b), fi(2))
		} else {
			out.emit(607, fx(b), berr(e))
		}
	}
	for mi, m := range c.pmsgs {
		for _, in := range protoVariants(rr, mi, m, 40, 2) {
			emitP2JEmpty(in.b)
			if rr.chance(30) {
				emitWire(in.b)
				emitPSkip(rr.intn(8), in.b)
			}
		}
		for _, p := range m.pos {
			if rr.chance(40) {
				tail := m.buf[p.off:]
				emitWire(tail)
				emitPSkip(rr.intn(8), tail)
				emitPSkip(2, tail)
				if len(tail) > 1 {
					k := 1 + rr.intn(len(tail)-1)
					emitWire(tail[:k])
					emitPSkip(2, tail[:k])
				}
			}
		}
	}
	for _, v := range boundaries64() {
		b := appendVarint(nil, v)
		emitWire(b)
		emitWire(b[:len(b)-1])
		b = append(b, rr.bytes(rr.intn(6))...)
		emitWire(b)
		for wt := 0; wt < 8; wt++ {
			emitPSkip(wt, b)
		}
	}
	for k := 0; k < n/20; k++ {
		b := rr.bytes(rr.intn(20))
		if rr.chance(30) {
			for i := range b {
				b[i] |= 0x80
			}
		}
		emitWire(b)
		emitPSkip(rr.intn(8), b)
		emitP2JEmpty(b)
	}
}
