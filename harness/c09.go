//go:build verif

// C09 — conv/j2p (JSON -> Protobuf).  One case (check 901) per document:
//
//	<schema case fields> n<disallow> x<document> n<status 0 ok|1 error|2 panic> x<output>
//	n<ref 0 same message|1 rejected by protobuf-go|2 different message|3 n/a> n<class>
//
// Documents are printed BY THIS HARNESS from a random message (protogen) and then re-spelled (whitespace, escapes,
// number spellings, member order, JSON-name vs field-name addressing), decorated with null / default / empty /
// unknown members, or damaged (wrong JSON kind at one position) for the error half.  The output of the converter is
// decoded with protobuf-go (dynamic.Message) and compared with the message the document was printed from; the
// Gallina checker repeats the judgement with the proved parser / decoder and the denotation pdenote.
package main

import (
	"context"
	"encoding/base64"
	"fmt"
	"math"
	"math/big"
	"os"
	"strconv"
	"unicode/utf8"

	"github.com/cloudwego/dynamicgo/conv"
	"github.com/cloudwego/dynamicgo/conv/j2p"
)

func init() { generators["C09"] = genC09 }

// ---- JSON tree ------------------------------------------------------------------------------------
const (
	jNull = iota
	jBool
	jNum
	jStr
	jArr
	jObj
)

type jnode struct {
	kind  int
	b     bool
	lex   string
	s     []byte
	elems []*jnode
	keys  [][]byte
	vals  []*jnode
}

func jnum(lex string) *jnode  { return &jnode{kind: jNum, lex: lex} }
func jstr(s []byte) *jnode    { return &jnode{kind: jStr, s: s} }
func jbool(b bool) *jnode     { return &jnode{kind: jBool, b: b} }
func jnull() *jnode           { return &jnode{kind: jNull} }
func jarr(e ...*jnode) *jnode { return &jnode{kind: jArr, elems: e} }
func jobj() *jnode            { return &jnode{kind: jObj} }
func (o *jnode) add(k string, v *jnode) *jnode {
	o.keys = append(o.keys, []byte(k))
	o.vals = append(o.vals, v)
	return o
}
func (o *jnode) insert(r *rng, k []byte, v *jnode) {
	i := r.intn(len(o.keys) + 1)
	o.keys = append(o.keys, nil)
	o.vals = append(o.vals, nil)
	copy(o.keys[i+1:], o.keys[i:])
	copy(o.vals[i+1:], o.vals[i:])
	o.keys[i], o.vals[i] = k, v
}

type jprinter struct {
	r       *rng
	respell bool
	out     []byte
}

func (p *jprinter) ws() {
	if !p.respell || !p.r.chance(25) {
		return
	}
	for n := 1 + p.r.intn(3); n > 0; n-- {
		p.out = append(p.out, " \t\n\r"[p.r.intn(4)])
	}
}

func (p *jprinter) str(s []byte) {
	p.out = append(p.out, '"')
	for i := 0; i < len(s); {
		c, sz := utf8.DecodeRune(s[i:])
		raw := s[i : i+sz]
		i += sz
		if c == utf8.RuneError && sz == 1 {
			p.out = append(p.out, raw...) // invalid UTF-8 passes through (only in damaged documents)
			continue
		}
		esc := p.respell && p.r.chance(12)
		switch {
		case c == '"' || c == '\\':
			if esc {
				p.out = append(p.out, fmt.Sprintf("\\u%04x", c)...)
			} else {
				p.out = append(p.out, '\\', byte(c))
			}
		case c < 0x20:
			short := map[rune]byte{'\n': 'n', '\t': 't', '\r': 'r', '\b': 'b', '\f': 'f'}
			if sc, ok := short[c]; ok && !esc {
				p.out = append(p.out, '\\', sc)
			} else if p.r.bool() {
				p.out = append(p.out, fmt.Sprintf("\\u%04x", c)...)
			} else {
				p.out = append(p.out, fmt.Sprintf("\\u%04X", c)...)
			}
		case c == '/' && esc:
			p.out = append(p.out, '\\', '/')
		case esc && c < 0x10000:
			p.out = append(p.out, fmt.Sprintf("\\u%04x", c)...)
		case esc:
			c2 := c - 0x10000
			p.out = append(p.out, fmt.Sprintf("\\u%04x\\u%04X", 0xd800+(c2>>10), 0xdc00+(c2&0x3ff))...)
		default:
			p.out = append(p.out, raw...)
		}
	}
	p.out = append(p.out, '"')
}

func (p *jprinter) val(n *jnode) {
	p.ws()
	switch n.kind {
	case jNull:
		p.out = append(p.out, "null"...)
	case jBool:
		if n.b {
			p.out = append(p.out, "true"...)
		} else {
			p.out = append(p.out, "false"...)
		}
	case jNum:
		p.out = append(p.out, n.lex...)
	case jStr:
		p.str(n.s)
	case jArr:
		p.out = append(p.out, '[')
		for i, e := range n.elems {
			if i > 0 {
				p.out = append(p.out, ',')
			}
			p.val(e)
		}
		p.ws()
		p.out = append(p.out, ']')
	case jObj:
		p.out = append(p.out, '{')
		for i := range n.keys {
			if i > 0 {
				p.out = append(p.out, ',')
			}
			p.ws()
			p.str(n.keys[i])
			p.ws()
			p.out = append(p.out, ':')
			p.val(n.vals[i])
		}
		p.ws()
		p.out = append(p.out, '}')
	}
	p.ws()
}

func jprint(r *rng, n *jnode, respell bool) []byte {
	p := &jprinter{r: r, respell: respell}
	p.val(n)
	return p.out
}

// ---- message -> JSON ------------------------------------------------------------------------------
type c09gen struct {
	r *rng
	c *pgCompiled
	// spelling switches
	jsonNames int  // percent of members addressed by JSON name
	altFloat  bool // alternative float spellings
}

func (g *c09gen) fieldKey(f *pgField) []byte {
	if g.r.chance(g.jsonNames) {
		return []byte(f.JSONName)
	}
	return []byte(f.Name)
}

func c09FloatLex(r *rng, kind int, bits uint64, alt bool) string {
	var f float64
	bs := 64
	if kind == pgKFloat {
		f = float64(math.Float32frombits(uint32(bits)))
		bs = 32
	} else {
		f = math.Float64frombits(bits)
	}
	if !alt {
		return strconv.FormatFloat(f, 'g', -1, bs)
	}
	switch r.intn(5) {
	case 0:
		return strconv.FormatFloat(f, 'e', -1, bs)
	case 1:
		if math.Abs(f) < 1e15 && math.Abs(f) > 1e-7 || f == 0 {
			return strconv.FormatFloat(f, 'f', -1, bs)
		}
		return strconv.FormatFloat(f, 'E', -1, bs)
	case 2:
		return strconv.FormatFloat(f, 'g', 17, 64) // exact enough for both widths (the float32 value is a float64)
	case 3:
		if f == math.Trunc(f) && math.Abs(f) < 9e18 {
			return strconv.FormatFloat(f, 'f', 0, 64) // integer spelling: delivered through OnInt64
		}
		return strconv.FormatFloat(f, 'g', -1, bs)
	}
	return strconv.FormatFloat(f, 'g', -1, bs)
}

func (g *c09gen) scalar(kind int, v *pgVal) *jnode {
	switch {
	case kind == pgKBool:
		return jbool(v.I.Sign() != 0)
	case kind == pgKString:
		return jstr(v.B)
	case kind == pgKBytes:
		return jstr([]byte(base64.StdEncoding.EncodeToString(v.B)))
	case kind == pgKFloat || kind == pgKDouble:
		return jnum(c09FloatLex(g.r, kind, v.I.Uint64(), g.altFloat))
	}
	return jnum(v.I.String())
}

func (g *c09gen) elem(f *pgField, v *pgVal) *jnode {
	if f.Kind == pgKMessage {
		return g.message(v, f.MsgName)
	}
	return g.scalar(f.Kind, v)
}

func (g *c09gen) message(v *pgVal, msgName string) *jnode {
	o := jobj()
	for _, fv := range v.Fields {
		f := fv.F
		var x *jnode
		switch f.Label {
		case pgSingular:
			x = g.elem(f, fv.V)
		case pgRepeated:
			x = jarr()
			for _, e := range fv.V.Elems {
				x.elems = append(x.elems, g.elem(f, e))
			}
		case pgMap:
			x = jobj()
			for _, kv := range fv.V.Entries {
				var k []byte
				switch {
				case f.KeyKind == pgKString:
					k = kv.K.B
				case f.KeyKind == pgKBool:
					k = []byte(strconv.FormatBool(kv.K.I.Sign() != 0))
				default:
					k = []byte(kv.K.I.String())
				}
				x.keys = append(x.keys, k)
				x.vals = append(x.vals, g.elem(f, kv.V))
			}
		}
		o.keys = append(o.keys, g.fieldKey(f))
		o.vals = append(o.vals, x)
	}
	return o
}

// ---- cleaning: remove what the converter does not support at all (map key kinds other than int32/int64/uint32/uint64/
// bool/string) and the float values outside the property (-0), so that a good share of the documents is inside the
// property's domain end to end; returns nil when the value itself has to go
func c09Clean(r *rng, f *pgField, v *pgVal, kind int) *pgVal {
	switch v.Tag {
	case 1:
		out := &pgVal{Tag: 1, Kind: pgKMessage}
		for _, fv := range v.Fields {
			ff := fv.F
			var nv *pgVal
			switch ff.Label {
			case pgSingular:
				nv = c09Clean(r, ff, fv.V, ff.Kind)
			case pgRepeated:
				nv = &pgVal{Tag: 4, Kind: fv.V.Kind, Packed: fv.V.Packed}
				for _, e := range fv.V.Elems {
					ne := c09Clean(r, ff, e, ff.Kind)
					if ne == nil {
						nv = nil
						break
					}
					nv.Elems = append(nv.Elems, ne)
				}
			case pgMap:
				switch ff.KeyKind {
				case 5, 3, 13, 4, 8, 9:
				default:
					continue
				}
				nv = &pgVal{Tag: 5, Kind: fv.V.Kind, KeyKind: fv.V.KeyKind}
				seen := map[string]bool{}
				for _, kv := range fv.V.Entries {
					k := kv.K
					id := string(k.B)
					if k.Tag == 2 {
						id = k.I.String()
					}
					if seen[id] {
						continue
					}
					seen[id] = true
					ne := c09Clean(r, ff, kv.V, ff.Kind)
					if ne == nil {
						nv = nil
						break
					}
					nv.Entries = append(nv.Entries, pgKV{K: k, V: ne})
				}
				if nv != nil {
					pgSortEntries(nv.Entries)
				}
			}
			if nv != nil {
				out.Fields = append(out.Fields, pgFV{F: ff, V: nv})
			}
		}
		return out
	case 2:
		return c09FixFloat(kind, v, true)
	}
	return v
}

// JSON has no spelling for NaN / Inf: replace them (and, when asked, -0) by finite non-zero values
func c09FixFloat(kind int, v *pgVal, noNegZero bool) *pgVal {
	if v.Tag != 2 {
		return v
	}
	// exact decimal -> binary conversion in the extracted checker costs ~|exponent|^2: keep most exponents moderate
	// (the extremes stay in: every 5th value is left alone)
	if kind == pgKFloat {
		b := uint32(v.I.Uint64())
		e := int((b>>23)&0xff) - 127
		if e != 128 && (e > 60 || e < -20) && b%12 != 0 {
			ne := uint32(127 + ((e%24)+24)%24 - 6)
			v = pgNum(kind, big.NewInt(int64((b&^(uint32(0xff)<<23))|(ne<<23))))
		}
	}
	if kind == pgKDouble {
		b := v.I.Uint64()
		e := int((b>>52)&0x7ff) - 1023
		if e != 1024 && (e > 80 || e < -20) && b%12 != 0 {
			ne := uint64(1023 + ((e%32)+32)%32 - 8)
			v = pgNum(kind, new(big.Int).SetUint64((b&^(uint64(0x7ff)<<52))|(ne<<52)))
		}
	}
	if kind == pgKFloat {
		b := uint32(v.I.Uint64())
		if b&0x7f800000 == 0x7f800000 {
			return pgNum(kind, big.NewInt(int64(0x3fc00000|(b&0x80000000))))
		}
		if noNegZero && b == 0x80000000 {
			return pgNum(kind, big.NewInt(0x3fc00000))
		}
	}
	if kind == pgKDouble {
		b := v.I.Uint64()
		if b&0x7ff0000000000000 == 0x7ff0000000000000 {
			return pgNum(kind, new(big.Int).SetUint64(0x3ff8000000000000|(b&0x8000000000000000)))
		}
		if noNegZero && b == 0x8000000000000000 {
			return pgNum(kind, new(big.Int).SetUint64(0x3ff8000000000000))
		}
	}
	return v
}

// replaces non-finite floats everywhere (in place on a copy)
func c09Finite(v *pgVal, kind int) *pgVal {
	switch v.Tag {
	case 1:
		out := &pgVal{Tag: 1, Kind: pgKMessage}
		for _, fv := range v.Fields {
			out.Fields = append(out.Fields, pgFV{F: fv.F, V: c09Finite(fv.V, fv.F.Kind)})
		}
		return out
	case 2:
		return c09FixFloat(kind, v, false)
	case 4:
		out := &pgVal{Tag: 4, Kind: v.Kind, Packed: v.Packed}
		for _, e := range v.Elems {
			out.Elems = append(out.Elems, c09Finite(e, kind))
		}
		return out
	case 5:
		out := &pgVal{Tag: 5, Kind: v.Kind, KeyKind: v.KeyKind}
		for _, kv := range v.Entries {
			out.Entries = append(out.Entries, pgKV{K: kv.K, V: c09Finite(kv.V, kind)})
		}
		return out
	}
	return v
}

// ---- decorations ------------------------------------------------------------------------------------
func c09Unknown(r *rng, depth int) *jnode {
	switch x := r.intn(9); {
	case x == 0:
		return jnum(strconv.Itoa(r.intn(1000) - 500))
	case x == 1:
		return jstr([]byte("unk\"\\\n"))
	case x == 2:
		return jbool(r.bool())
	case x == 3:
		return jnull()
	case x == 4:
		return jnum("1.5e3")
	case x < 7 && depth < 3:
		o := jobj()
		for n := r.intn(4); n > 0; n-- {
			o.add(fmt.Sprintf("u%d", r.intn(9)), c09Unknown(r, depth+1))
		}
		return o
	case depth < 3:
		a := jarr()
		for n := r.intn(4); n > 0; n-- {
			a.elems = append(a.elems, c09Unknown(r, depth+1))
		}
		return a
	}
	return jnum("0")
}

type c09deco struct {
	nulls, defaults, empties, unknowns int // percent per opportunity
	shuffle                            bool
}

// walks the JSON tree along the schema; returns the number of unknown members inserted
func (g *c09gen) decorate(o *jnode, msgName string, d c09deco) int {
	r := g.r
	m := g.c.S.msg(msgName)
	unk := 0
	present := map[string]bool{}
	for i, k := range o.keys {
		present[string(k)] = true
		var f *pgField
		for _, ff := range m.Fields {
			if ff.Name == string(k) || ff.JSONName == string(k) {
				f = ff
			}
		}
		if f == nil || f.Kind != pgKMessage {
			continue
		}
		v := o.vals[i]
		switch {
		case f.Label == pgSingular && v.kind == jObj:
			unk += g.decorate(v, f.MsgName, d)
		case f.Label == pgRepeated && v.kind == jArr:
			for _, e := range v.elems {
				if e.kind == jObj {
					unk += g.decorate(e, f.MsgName, d)
				}
			}
		case f.Label == pgMap && v.kind == jObj:
			for _, e := range v.vals {
				if e.kind == jObj {
					unk += g.decorate(e, f.MsgName, d)
				}
			}
		}
	}
	for _, f := range m.Fields {
		if present[f.Name] || present[f.JSONName] {
			continue
		}
		switch {
		case r.chance(d.nulls):
			o.insert(r, g.fieldKey(f), jnull())
		case r.chance(d.defaults) && f.Label == pgSingular && f.Kind != pgKMessage && f.Kind != pgKEnum:
			var x *jnode
			switch {
			case f.Kind == pgKBool:
				x = jbool(false)
			case pgIsBytesKind(f.Kind):
				x = jstr(nil)
			default:
				x = jnum("0")
			}
			o.insert(r, g.fieldKey(f), x)
		case r.chance(d.empties) && f.Label == pgRepeated:
			o.insert(r, g.fieldKey(f), jarr())
		case r.chance(d.empties) && f.Label == pgMap:
			o.insert(r, g.fieldKey(f), jobj())
		}
	}
	for n := 0; n < 3; n++ {
		if r.chance(d.unknowns) {
			o.insert(r, []byte(fmt.Sprintf("unk_%d", r.intn(100))), c09Unknown(r, 0))
			unk++
		}
	}
	if d.shuffle {
		for i := len(o.keys) - 1; i > 0; i-- {
			j := r.intn(i + 1)
			o.keys[i], o.keys[j] = o.keys[j], o.keys[i]
			o.vals[i], o.vals[j] = o.vals[j], o.vals[i]
		}
	}
	return unk
}

// ---- damage: one known member gets a value of the wrong JSON kind ---------------------------------------
func (g *c09gen) damage(o *jnode, msgName string) bool {
	r := g.r
	m := g.c.S.msg(msgName)
	if len(o.keys) == 0 {
		return false
	}
	i := r.intn(len(o.keys))
	var f *pgField
	for _, ff := range m.Fields {
		if ff.Name == string(o.keys[i]) || ff.JSONName == string(o.keys[i]) {
			f = ff
		}
	}
	if f == nil {
		return false
	}
	v := o.vals[i]
	// descend sometimes
	if f.Kind == pgKMessage && r.chance(50) {
		switch {
		case f.Label == pgSingular && v.kind == jObj:
			if g.damage(v, f.MsgName) {
				return true
			}
		case f.Label == pgRepeated && v.kind == jArr && len(v.elems) > 0:
			if e := v.elems[r.intn(len(v.elems))]; e.kind == jObj && g.damage(e, f.MsgName) {
				return true
			}
		case f.Label == pgMap && v.kind == jObj && len(v.vals) > 0:
			if e := v.vals[r.intn(len(v.vals))]; e.kind == jObj && g.damage(e, f.MsgName) {
				return true
			}
		}
	}
	wrong := func(kind int) *jnode {
		// a JSON value whose kind contradicts a singular value of that proto kind
		var c []*jnode
		num, str, boo := jnum("7"), jstr([]byte("x")), jbool(true)
		obj, arr := jobj().add("q", jnum("1")), jarr(jnum("1"))
		eobj, earr := jobj(), jarr()
		switch {
		case kind == pgKMessage:
			c = []*jnode{num, str, boo, arr, earr}
		case kind == pgKBool:
			c = []*jnode{num, str, obj, arr, eobj, earr}
		case pgIsBytesKind(kind):
			c = []*jnode{num, boo, obj, arr, eobj, earr}
		default:
			c = []*jnode{str, boo, obj, arr, eobj, earr}
		}
		return c[r.intn(len(c))]
	}
	switch f.Label {
	case pgSingular:
		o.vals[i] = wrong(f.Kind)
	case pgRepeated:
		if v.kind == jArr && len(v.elems) > 0 && r.chance(50) {
			v.elems[r.intn(len(v.elems))] = wrong(f.Kind) // wrong element
		} else {
			c := []*jnode{jnum("7"), jstr([]byte("x")), jbool(false), jobj().add("q", jnum("1")), jobj()}
			o.vals[i] = c[r.intn(len(c))] // not an array
		}
	case pgMap:
		if v.kind == jObj && len(v.vals) > 0 && r.chance(50) {
			v.vals[r.intn(len(v.vals))] = wrong(f.Kind)
		} else {
			c := []*jnode{jnum("7"), jstr([]byte("x")), jbool(false), jarr(jnum("1")), jarr()}
			o.vals[i] = c[r.intn(len(c))]
		}
	}
	return true
}

// ---- running one document ---------------------------------------------------------------------------
type c09stats struct {
	n, ok, err, panics, refSame, refRej, refDiff int
	byClass                                       map[int]int
	maxDoc, maxOut                                int
}

var c09st = c09stats{byClass: map[int]int{}}

func c09Run(c *pgCompiled, schemaFields []string, doc []byte, disallow bool, exp *pgVal, class int) {
	c09RunConv(nil, c, schemaFields, doc, disallow, exp, class)
}

// cv == nil: a fresh BinaryConv (the pooled visitors are shared by all converters either way)
func c09RunConv(cv *j2p.BinaryConv, c *pgCompiled, schemaFields []string, doc []byte, disallow bool, exp *pgVal, class int) {
	var outb []byte
	var err error
	ok, _ := noPanic(func() {
		if cv == nil {
			x := j2p.NewBinaryConv(conv.Options{DisallowUnknownField: disallow})
			cv = &x
		}
		outb, err = cv.Do(context.Background(), c.Dyn, doc)
	})
	status := 0
	switch {
	case !ok:
		status, outb = 2, nil
		c09st.panics++
	case err != nil:
		status, outb = 1, nil
		c09st.err++
	default:
		c09st.ok++
	}
	ref := 3
	if status == 0 && exp != nil {
		got, derr := c.dumpRef(outb, c.S.Root)
		switch {
		case derr != nil:
			ref = 1
			c09st.refRej++
		case pgValEqual(exp, got):
			ref = 0
			c09st.refSame++
		default:
			ref = 2
			c09st.refDiff++
		}
	}
	c09st.n++
	c09st.byClass[class]++
	if len(doc) > c09st.maxDoc {
		c09st.maxDoc = len(doc)
	}
	if len(outb) > c09st.maxOut {
		c09st.maxOut = len(outb)
	}
	fields := append(append([]string{}, schemaFields...), fb(disallow), fx(doc), fi(status), fx(outb), fi(ref), fi(class))
	out.emit(901, fields...)
}

// History on one goroutine: one to three conversions that FAIL at different points (document cut off after an unknown
// key, inside a skipped value, inside a known nested message, wrong JSON kind, unknown member under the disallow
// option), then a valid document, judged as usual.  The visitor (stack, sp, inskip, globalFieldDesc) comes from a
// sync.Pool, so whatever a failed conversion leaves behind is what the next one starts from.
func c09History(r *rng, c *pgCompiled, sf []string, g *c09gen, v *pgVal, class int) {
	root := c.S.Root
	exp := c09Canon(c, v)
	valid := jprint(r, g.message(v, root), r.bool())
	// the valid document without its closing brace, ready for one more member
	end := len(valid) - 1
	for end > 0 && valid[end] != '}' {
		end--
	}
	prefix := append([]byte{}, valid[:end]...)
	empty := true
	for _, b := range prefix[1:] {
		if b != ' ' && b != '\t' && b != '\n' && b != '\r' {
			empty = false
		}
	}
	if !empty {
		prefix = append(prefix, ',')
	}
	var shared *j2p.BinaryConv
	if r.bool() {
		x := j2p.NewBinaryConv(conv.Options{})
		shared = &x
	}
	for n := 1 + r.intn(3); n > 0; n-- {
		var bad []byte
		dis := false
		switch r.intn(8) {
		case 0:
			bad = append(append([]byte{}, prefix...), `"nosuch_key":`...)
		case 1:
			bad = append(append([]byte{}, prefix...), `"nosuch_key":tru}`...)
		case 2:
			bad = append(append([]byte{}, prefix...), `"nosuch_key":{"a":[1,{"b":`...)
		case 3:
			bad = append(append([]byte{}, prefix...), `"nosuch_key":"abc`...)
		case 4:
			bad = []byte(`{"nosuch_key":`)
		case 5: // cut anywhere (inside known nested messages, lists, map pairs, strings, numbers)
			if len(valid) > 2 {
				bad = append([]byte{}, valid[:1+r.intn(len(valid)-2)]...)
			} else {
				bad = []byte(`{`)
			}
		case 6: // wrong JSON kind somewhere
			t := g.message(v, root)
			if !g.damage(t, root) {
				t = jarr(jnum("1"))
			}
			bad = jprint(r, t, false)
		default: // unknown member under the disallow option, after some known members
			bad = append(append([]byte{}, prefix...), `"nosuch_key":1}`...)
			dis = true
		}
		cv := shared
		if dis {
			cv = nil
		}
		c09RunConv(cv, c, sf, bad, dis, nil, 42)
	}
	c09RunConv(shared, c, sf, valid, false, exp, class)
}

// canonical form of an expectation: what the reference reports (drops default-valued singular scalars, keeps the rest)
func c09Canon(c *pgCompiled, v *pgVal) *pgVal {
	b, err := c.encodeRef(v, c.S.Root)
	if err != nil {
		return nil
	}
	got, err := c.dumpRef(b, c.S.Root)
	if err != nil {
		return nil
	}
	return got
}

// ---- fixed sweep schema -----------------------------------------------------------------------------
func c09SweepSchema() *pgSchema {
	fld := func(num int32, name string, label, kind, kk int, msg string) *pgField {
		return &pgField{Num: num, Name: name, Label: label, Kind: kind, KeyKind: kk, MsgName: msg}
	}
	n := &pgMsg{Name: "N", Fields: []*pgField{
		fld(1, "s_pad", pgSingular, pgKString, 0, ""),
		fld(2, "n_next", pgSingular, pgKMessage, 0, "N"),
		fld(3, "l_ints", pgRepeated, 5, 0, ""),
		fld(4, "b_bytes", pgSingular, pgKBytes, 0, ""),
		fld(5, "m_map", pgMap, pgKMessage, pgKString, "N"),
		fld(6, "ln_list", pgRepeated, pgKMessage, 0, "N"),
		fld(7, "a_int", pgSingular, 5, 0, ""),
		fld(8, "ls_strs", pgRepeated, pgKString, 0, ""),
		fld(16, "k_keys", pgSingular, pgKMessage, 0, "K"),
		fld(2047, "z_sint", pgSingular, 18, 0, ""),
		fld(2048, "ld_dbl", pgRepeated, pgKDouble, 0, ""),
	}}
	k := &pgMsg{Name: "K", Fields: []*pgField{
		fld(1, "k_i32", pgMap, 5, 5, ""),
		fld(2, "k_i64", pgMap, 5, 3, ""),
		fld(3, "k_u32", pgMap, 5, 13, ""),
		fld(4, "k_u64", pgMap, 5, 4, ""),
		fld(5, "k_str", pgMap, pgKString, pgKString, ""),
		fld(6, "k_bool", pgMap, 5, pgKBool, ""),
		fld(7, "k_s32", pgMap, 5, 17, ""),
		fld(8, "u_64", pgSingular, 4, 0, ""),
		fld(9, "f_64", pgSingular, 6, 0, ""),
		fld(10, "u_32", pgSingular, 13, 0, ""),
		fld(11, "i_32", pgSingular, 5, 0, ""),
		fld(12, "f_flt", pgSingular, pgKFloat, 0, ""),
		fld(13, "km_msg", pgMap, pgKMessage, 3, "N"),
		fld(16, "k_s64", pgMap, 5, 18, ""),
		fld(17, "k_f32", pgMap, 5, 7, ""),
		fld(18, "k_f64", pgMap, pgKString, 6, ""),
		fld(19, "k_sf32", pgMap, 5, 15, ""),
		fld(20, "k_sf64", pgMap, pgKMessage, 16, "N"),
		{Num: 14, Name: "e_enum", Label: pgSingular, Kind: pgKEnum, EnumName: "E0"},
		{Num: 15, Name: "le_enum", Label: pgRepeated, Kind: pgKEnum, EnumName: "E0"},
	}}
	return &pgSchema{Pkg: "pg.sweep", Msgs: []*pgMsg{n, k}, Enums: []*pgEnum{{Name: "E0", Values: []int32{0, 1, 2, -1}}}, Root: "N",
		Opts: pgOpts{MaxDepth: 1000}.withDefaults()}
}

func c09Field(c *pgCompiled, msg, name string) *pgField {
	for _, f := range c.S.msg(msg).Fields {
		if f.Name == name {
			return f
		}
	}
	panic("c09: no field " + name)
}

func c09Msg(fvs ...pgFV) *pgVal {
	v := &pgVal{Tag: 1, Kind: pgKMessage}
	v.Fields = append(v.Fields, fvs...)
	// canonical: ascending by number
	for i := 1; i < len(v.Fields); i++ {
		for j := i; j > 0 && v.Fields[j].F.Num < v.Fields[j-1].F.Num; j-- {
			v.Fields[j], v.Fields[j-1] = v.Fields[j-1], v.Fields[j]
		}
	}
	return v
}

// wraps inner into `levels` enclosing N messages through field n_next / ln_list / m_map (via: 0,1,2; 3 = mixed)
func c09Nest(r *rng, c *pgCompiled, inner *pgVal, levels, via int, extra bool) *pgVal {
	fn, fl, fm, fa := c09Field(c, "N", "n_next"), c09Field(c, "N", "ln_list"), c09Field(c, "N", "m_map"), c09Field(c, "N", "a_int")
	v := inner
	for i := 0; i < levels; i++ {
		w := via
		if via == 3 {
			w = r.intn(3)
		}
		var fv pgFV
		switch w {
		case 0:
			fv = pgFV{F: fn, V: v}
		case 1:
			fv = pgFV{F: fl, V: &pgVal{Tag: 4, Kind: pgKMessage, Elems: []*pgVal{v}}}
		default:
			fv = pgFV{F: fm, V: &pgVal{Tag: 5, Kind: pgKMessage, KeyKind: pgKString, Entries: []pgKV{{K: pgStr(pgKString, []byte("k")), V: v}}}}
		}
		if extra && r.chance(40) {
			v = c09Msg(fv, pgFV{F: fa, V: pgNum(5, big.NewInt(int64(1+r.intn(100))))})
		} else {
			v = c09Msg(fv)
		}
	}
	return v
}

func c09Pad(n int) []byte {
	b := make([]byte, n)
	for i := range b {
		b[i] = byte('a' + i%26)
	}
	return b
}

func genC09(r *rng, n int) {
	defer func() {
		fmt.Fprintf(os.Stderr, "C09: docs=%d ok=%d err=%d panic=%d ref(same=%d rejected=%d different=%d) maxdoc=%d maxout=%d classes=%v\n",
			c09st.n, c09st.ok, c09st.err, c09st.panics, c09st.refSame, c09st.refRej, c09st.refDiff, c09st.maxDoc, c09st.maxOut, c09st.byClass)
	}()
	// ---------------- part 1: fixed sweep schema
	sw, err := compileProtoSchema(c09SweepSchema())
	if err != nil {
		die("C09: sweep schema: %v", err)
	}
	swf := sw.S.caseFields()
	g := &c09gen{r: r, c: sw, jsonNames: 50}
	emitVal := func(v *pgVal, class int, respell bool) {
		exp := c09Canon(sw, v)
		doc := jprint(r, g.message(v, "N"), respell)
		c09Run(sw, swf, doc, r.chance(30), exp, class)
	}
	fs_, fb_, fa_, fli, flsS, fz := c09Field(sw, "N", "s_pad"), c09Field(sw, "N", "b_bytes"), c09Field(sw, "N", "a_int"), c09Field(sw, "N", "l_ints"), c09Field(sw, "N", "ls_strs"), c09Field(sw, "N", "z_sint")
	fld := c09Field(sw, "N", "ld_dbl")
	// (a) length-prefix boundaries at depths 1..6: the innermost payload has size T, every level adds 2..5 bytes
	targets := []int{120, 122, 124, 125, 126, 127, 128, 129, 130, 16370, 16374, 16378, 16380, 16381, 16382, 16383, 16384, 16385, 16386}
	budgetA := n / 8
	for i := 0; i < budgetA; i++ {
		T := targets[r.intn(9)]
		if r.chance(7) {
			T = targets[9+r.intn(len(targets)-9)]
		}
		depth := 1 + r.intn(6)
		padLen := T - 2
		if T >= 130 {
			padLen = T - 3
		}
		var inner *pgVal
		switch r.intn(4) {
		case 0:
			inner = c09Msg(pgFV{F: fs_, V: pgStr(pgKString, c09Pad(padLen))})
		case 1:
			inner = c09Msg(pgFV{F: fb_, V: pgStr(pgKBytes, r.bytes(padLen))})
		case 2: // packed list: 1-byte varints, or (large targets: fewer events) doubles topped up with varints
			l := &pgVal{Tag: 4, Kind: 5, Packed: true}
			if T < 1000 {
				for j := 0; j < padLen; j++ {
					l.Elems = append(l.Elems, pgNum(5, big.NewInt(int64(1+r.intn(127)))))
				}
				inner = c09Msg(pgFV{F: fli, V: l})
			} else {
				// ld_dbl (tag 2 bytes + len 2..3 bytes) carries 8*k bytes, l_ints (tag 1 + len 1) the remainder
				k := (T - 5 - 2) / 8
				rest := T - (2 + 2 + 8*k) - 2
				if 8*k >= 16384 {
					rest--
				}
				d := &pgVal{Tag: 4, Kind: pgKDouble, Packed: true}
				for j := 0; j < k; j++ {
					d.Elems = append(d.Elems, pgNum(pgKDouble, new(big.Int).SetUint64(math.Float64bits(float64(j)*0.5+1))))
				}
				for j := 0; j < rest; j++ {
					l.Elems = append(l.Elems, pgNum(5, big.NewInt(int64(1+r.intn(127)))))
				}
				inner = c09Msg(pgFV{F: fld, V: d})
				if rest > 0 {
					inner = c09Msg(pgFV{F: fld, V: d}, pgFV{F: fli, V: l})
				}
			}
		default: // repeated strings + a scalar
			l := &pgVal{Tag: 4, Kind: pgKString}
			rest := T - 2
			for rest > 0 {
				k := 1 + r.intn(40)
				if k+2 > rest {
					k = rest - 2
					if k < 0 {
						break
					}
				}
				l.Elems = append(l.Elems, pgStr(pgKString, c09Pad(k)))
				rest -= k + 2
			}
			inner = c09Msg(pgFV{F: flsS, V: l}, pgFV{F: fa_, V: pgNum(5, big.NewInt(1))})
		}
		emitVal(c09Nest(r, sw, inner, depth, 3, true), 3, r.bool())
	}
	// (b) nesting near the stack limit (256 frames: root + 255): through messages (1 frame per level), lists of
	// messages (2) and map values (3)
	// frames = 1 (root) + levels * {1,2,3}; the 256th push fails with the max-depth ERROR (never a panic): exact
	// boundaries 255/256 levels, 127/128 lists, 85/86 maps, the half-way marks (a 128-frame stack would show there)
	// and random depths of 100..300 frames through each kind and through a mixture
	deep := [][2]int{{0, 254}, {0, 255}, {0, 256}, {0, 257}, {1, 126}, {1, 127}, {1, 128}, {1, 129}, {2, 84}, {2, 85}, {2, 86},
		{0, 126}, {0, 127}, {0, 128}, {1, 63}, {1, 64}, {2, 42}, {2, 43},
		{0, 100 + r.intn(200)}, {1, 50 + r.intn(100)}, {2, 33 + r.intn(67)}, {3, 50 + r.intn(80)}, {3, 100 + r.intn(60)}}
	for _, d := range deep {
		inner := c09Msg(pgFV{F: fa_, V: pgNum(5, big.NewInt(5))})
		emitVal(c09Nest(r, sw, inner, d[1], d[0], false), 4, false)
	}
	// (b') histories on the pooled visitor
	for i := 0; i < n/20; i++ {
		inner := c09Msg(pgFV{F: fa_, V: pgNum(5, big.NewInt(int64(1+r.intn(300))))}, pgFV{F: fs_, V: pgStr(pgKString, c09Pad(1+r.intn(5)))})
		c09History(r, sw, swf, g, c09Nest(r, sw, inner, r.intn(5), 3, true), 40)
	}
	// (c) map key kinds and unsigned boundaries
	{
		K := func(name string) *pgField { return c09Field(sw, "K", name) }
		fk := c09Field(sw, "N", "k_keys")
		big2 := func(e uint, d int64) *big.Int {
			return new(big.Int).Add(new(big.Int).Lsh(big.NewInt(1), e), big.NewInt(d))
		}
		keysets := map[string][]*big.Int{
			"k_i32": {big.NewInt(0), big.NewInt(-1), big.NewInt(math.MaxInt32), big.NewInt(math.MinInt32), big.NewInt(127), big.NewInt(128)},
			"k_i64": {big.NewInt(0), big.NewInt(-1), big.NewInt(math.MaxInt64), big.NewInt(math.MinInt64), big2(31, 0), big2(32, 0)},
			"k_u32": {big.NewInt(0), big.NewInt(1), big2(31, -1), big2(31, 0), big2(32, -1), big.NewInt(3000000000)},
			"k_u64": {big.NewInt(0), big2(31, 0), big2(32, 0), big2(63, -1), big2(63, 0), big2(64, -1)},
			"k_s32": {big.NewInt(0), big.NewInt(-3)},
		}
		for rep := 0; rep < 6; rep++ {
			for _, name := range []string{"k_i32", "k_i64", "k_u32", "k_u64", "k_s32", "k_bool", "k_str", "km_msg"} {
				f := K(name)
				mv := &pgVal{Tag: 5, Kind: f.Kind, KeyKind: f.KeyKind}
				switch name {
				case "k_bool":
					mv.Entries = append(mv.Entries, pgKV{K: pgNum(pgKBool, big.NewInt(1)), V: pgNum(5, big.NewInt(1))})
					if r.bool() {
						mv.Entries = append(mv.Entries, pgKV{K: pgNum(pgKBool, big.NewInt(0)), V: pgNum(5, big.NewInt(2))})
					}
				case "k_str":
					for _, s := range []string{"", "k", "a\"b\\c/\n", "é中\U0001F600"} {
						if r.chance(70) {
							mv.Entries = append(mv.Entries, pgKV{K: pgStr(pgKString, []byte(s)), V: pgStr(pgKString, []byte(s+"v"))})
						}
					}
				case "km_msg":
					mv.Entries = append(mv.Entries, pgKV{K: pgNum(3, big.NewInt(int64(rep)-2)), V: c09Msg(pgFV{F: fa_, V: pgNum(5, big.NewInt(9))})})
				default:
					ks := keysets[name]
					if rep == 0 { // all safe keys together
						for _, k := range ks[:2] {
							mv.Entries = append(mv.Entries, pgKV{K: pgNum(f.KeyKind, k), V: pgNum(5, big.NewInt(int64(1+r.intn(9))))})
						}
					} else {
						mv.Entries = append(mv.Entries, pgKV{K: pgNum(f.KeyKind, ks[rep%len(ks)]), V: pgNum(5, big.NewInt(int64(1+r.intn(9))))})
					}
				}
				if len(mv.Entries) == 0 {
					continue
				}
				pgSortEntries(mv.Entries)
				emitVal(c09Msg(pgFV{F: fk, V: c09Msg(pgFV{F: f, V: mv})}), 5, r.bool())
			}
		}
		// unsigned / signed scalar boundaries
		for _, sc := range []struct {
			name string
			v    *big.Int
		}{{"u_64", big2(63, -1)}, {"u_64", big2(63, 0)}, {"u_64", big2(64, -1)}, {"u_64", big.NewInt(1)}, {"f_64", big2(63, 0)}, {"f_64", big2(64, -1)}, {"f_64", big2(62, 0)},
			{"u_32", big2(32, -1)}, {"u_32", big2(31, 0)}, {"i_32", big.NewInt(math.MinInt32)}, {"i_32", big.NewInt(math.MaxInt32)}, {"i_32", big.NewInt(-1)}} {
			f := K(sc.name)
			emitVal(c09Msg(pgFV{F: fk, V: c09Msg(pgFV{F: f, V: pgNum(f.Kind, sc.v)})}), 5, false)
		}
		emitVal(c09Msg(pgFV{F: fz, V: pgNum(18, big.NewInt(math.MinInt64))}), 5, false)
		emitVal(c09Msg(pgFV{F: fz, V: pgNum(18, big.NewInt(-3))}), 5, false)
		// hand-written documents, one class per documented quirk / error class (Properties_C09.v C09_quirk_*, C09_fixed_*):
		// the checker demands the specified outcome where the property speaks and the model's outcome everywhere else
		hand := map[int][]string{
			90: { // integers outside the kind's range or not plain integers: wrapped / truncated / rejected
				`{"k_keys":{"i_32":4294967297}}`, `{"k_keys":{"u_32":-1}}`, `{"k_keys":{"i_32":1.5}}`, `{"k_keys":{"i_32":2.229e+2}}`, `{"k_keys":{"u_32":1e2}}`,
				`{"k_keys":{"u_64":1e2}}`, `{"k_keys":{"u_64":18446744073709551616}}`, `{"k_keys":{"u_64":-1}}`, `{"k_keys":{"i_32":-2147483649}}`, `{"z_sint":9223372036854775808}`,
				`{"l_ints":[1,2147483648,3]}`, `{"k_keys":{"f_64":1.0}}`},
			91: { // null as list element / map value / everywhere
				`{"l_ints":[1,null,2]}`, `{"l_ints":[null]}`, `{"ls_strs":["a",null]}`, `{"ln_list":[{"a_int":1},null]}`, `{"ln_list":[null]}`,
				`{"k_keys":{"k_i32":{"1":null}}}`, `{"m_map":{"k":null}}`, `{"m_map":{"k":null,"j":{"a_int":1}}}`, `{"a_int":null,"n_next":null,"l_ints":null,"m_map":null}`},
			92: { // duplicate members: every occurrence is emitted (last wins / merge / concatenate in the decoder)
				`{"a_int":1,"a_int":2}`, `{"a_int":1,"aInt":2}`, `{"n_next":{"a_int":1},"n_next":{"s_pad":"x"}}`, `{"l_ints":[1],"l_ints":[2]}`,
				`{"m_map":{"k":{"a_int":1},"k":{"a_int":2}}}`, `{"ls_strs":["a"],"lsStrs":["b"]}`, `{"k_keys":{"k_i32":{"1":1,"1":2}}}`},
			93: { // enum by number / name, base64 variants
				`{"k_keys":{"e_enum":1}}`, `{"k_keys":{"e_enum":-1}}`, `{"k_keys":{"e_enum":7}}`, `{"k_keys":{"e_enum":"E0_V1"}}`, `{"k_keys":{"le_enum":[0,1,2]}}`,
				`{"k_keys":{"e_enum":2147483648}}`, `{"k_keys":{"e_enum":true}}`,
				`{"b_bytes":"AQI"}`, `{"b_bytes":"AQI="}`, `{"b_bytes":"!!!!"}`, `{"b_bytes":"-_-_"}`, `{"b_bytes":"+/+/"}`, `{"b_bytes":"AQ\nID"}`, `{"b_bytes":"AQID "}`, `{"b_bytes":""}`},
			94: { // map key spellings
				`{"k_keys":{"k_u32":{"abc":1}}}`, `{"k_keys":{"k_i32":{"2147483648":1}}}`, `{"k_keys":{"k_i32":{"+5":1,"007":2}}}`, `{"k_keys":{"k_u32":{"+5":1}}}`,
				`{"k_keys":{"k_bool":{"TRUE":1}}}`, `{"k_keys":{"k_bool":{"yes":1}}}`, `{"k_keys":{"k_bool":{"1":1,"f":2}}}`, `{"k_keys":{"k_i64":{"":1}}}`,
				`{"k_keys":{"k_u64":{"18446744073709551616":1}}}`, `{"k_keys":{"k_u32":{"-1":1}}}`, `{"k_keys":{"k_i32":{"1.0":1}}}`, `{"k_keys":{"k_s32":{"1":1}}}`},
			95: { // string-spelled numbers and other JSON kinds contradicting the field, at member / element / map value level
				`{"a_int":"1"}`, `{"k_keys":{"f_flt":"1.5"}}`, `{"k_keys":{"u_64":"5"}}`, `{"l_ints":["1"]}`, `{"k_keys":{"k_i32":{"1":"2"}}}`, `{"s_pad":5}`, `{"ls_strs":[1]}`,
				`{"l_ints":[[1]]}`, `{"ln_list":[[{"a_int":1}]]}`, `{"l_ints":[{}]}`, `{"ln_list":[1]}`, `{"m_map":{"k":[1]}}`, `{"m_map":{"k":1}}`, `{"n_next":[]}`, `{"a_int":{}}`, `{"a_int":[]}`,
				`{"l_ints":{}}`, `{"m_map":[]}`, `{"n_next":{"n_next":{"a_int":true}}}`, `[1,2]`, `1`, `"x"`, `null`, `true`, `[]`},
			96: { // float spellings: double rounding, overflow, sign of zero, subnormals
				`{"k_keys":{"f_flt":1.00000005960464477539062500001}}`, `{"k_keys":{"f_flt":16777217}}`, `{"k_keys":{"f_flt":1e39}}`, `{"k_keys":{"f_flt":-0}}`,
				`{"ld_dbl":[-0.0,1e400,-0,5e-324,2.5e-324]}`, `{"ld_dbl":[9223372036854775807,9223372036854775808,1E2,1.0e+2]}`},
			97: { // not exactly one JSON document
				`{"a_int":1} trailing`, `{"a_int":1}{"a_int":2}`, ``, `{"a_int":1`, `{"a_int":}`},
			98: { // small valid documents: empty containers everywhere
				`{}`, ` { } `, `{"s_pad":"😀é"}`, `{"n_next":{},"a_int":1}`, `{"l_ints":[],"a_int":1}`, `{"ls_strs":[],"m_map":{},"ln_list":[],"a_int":1}`,
				`{"ln_list":[{},{}],"m_map":{"a":{},"b":{}}}`, `{"k_keys":{"le_enum":[],"k_i32":{}},"a_int":1}`},
		}
		// member names per key kind: legal boundaries, accepted non-canonical spellings, names that are no literal of the key
		// kind (must be an error), and the key kinds the converter does not support (every name is an error)
		keyNames := map[string][]string{
			"k_i32":  {"0", "-1", "2147483647", "-2147483648", "2147483648", "-2147483649", "4294967296", "abc", "1.5", "", "1e2", " 1", "1 ", "+5", "007", "-0", "0x10", "1_000", "９"},
			"k_i64":  {"0", "9223372036854775807", "-9223372036854775808", "9223372036854775808", "-9223372036854775809", "99999999999999999999999", "abc", "1.5", "", "+5", "007"},
			"k_u32":  {"0", "4294967295", "4294967296", "-1", "-0", "+5", "abc", "1.5", "", "007", "1e2"},
			"k_u64":  {"0", "18446744073709551615", "18446744073709551616", "-1", "+5", "abc", "1.0", "", "007"},
			"k_bool": {"true", "false", "TRUE", "True", "t", "1", "0", "F", "maybe", "yes", "", "tRUE", "2"},
			"k_str":  {"", "k", "1", "true"},
			"k_s32":  {"0", "1", "-3", "abc"},
			"k_s64":  {"0", "-3"},
			"k_f32":  {"0", "7"},
			"k_f64":  {"0", "x"},
			"k_sf32": {"0", "-7"},
			"k_sf64": {"0", "1"},
		}
		keyClass := map[string]int{"k_i32": 105, "k_i64": 103, "k_u32": 113, "k_u64": 104, "k_bool": 108, "k_str": 109,
			"k_s32": 117, "k_s64": 118, "k_f32": 107, "k_f64": 106, "k_sf32": 115, "k_sf64": 116}
		for _, f := range []string{"k_i32", "k_i64", "k_u32", "k_u64", "k_bool", "k_str", "k_s32", "k_s64", "k_f32", "k_f64", "k_sf32", "k_sf64"} {
			val := "1"
			if f == "k_str" || f == "k_f64" {
				val = `"v"`
			}
			if f == "k_sf64" {
				val = `{"a_int":1}`
			}
			for _, kn := range keyNames[f] {
				q := strconv.Quote(kn)
				c09Run(sw, swf, []byte(`{"k_keys":{"`+f+`":{`+q+`:`+val+`}}}`), false, nil, keyClass[f])
				// after a good pair and before another member: the error must not depend on the position
				if f != "k_str" {
					c09Run(sw, swf, []byte(`{"a_int":1,"k_keys":{"`+f+`":{"1":`+val+`,`+q+`:`+val+`}},"s_pad":"x"}`), false, nil, keyClass[f])
				}
			}
		}
		for cl := 90; cl <= 98; cl++ {
			for _, d := range hand[cl] {
				c09Run(sw, swf, []byte(d), false, nil, cl)
				if cl == 95 || cl == 98 {
					c09Run(sw, swf, []byte(d), true, nil, cl)
				}
			}
		}
	}
	// (d) null / empty / unknown / damaged members on the sweep schema (small documents, all positions)
	for i := 0; i < n/8; i++ {
		inner := c09Msg(pgFV{F: fa_, V: pgNum(5, big.NewInt(int64(1+r.intn(300))))}, pgFV{F: fs_, V: pgStr(pgKString, c09Pad(r.intn(5)))})
		if r.chance(30) {
			inner.Fields = append(inner.Fields, pgFV{F: fld, V: &pgVal{Tag: 4, Kind: pgKDouble, Packed: true, Elems: []*pgVal{pgNum(pgKDouble, new(big.Int).SetUint64(math.Float64bits(float64(r.intn(100)) / 8)))}}})
		}
		v := c09Nest(r, sw, inner, r.intn(4), 3, true)
		exp := c09Canon(sw, v)
		tree := g.message(v, "N")
		class := 8
		dis := r.chance(40)
		switch r.intn(4) {
		case 0:
			g.decorate(tree, "N", c09deco{nulls: 25})
		case 1:
			g.decorate(tree, "N", c09deco{empties: 40, defaults: 20})
		case 2:
			class = 7
			if g.decorate(tree, "N", c09deco{unknowns: 35, shuffle: true}) > 0 && dis {
				exp = nil
			}
		default:
			class = 6
			if g.damage(tree, "N") {
				exp = nil
			}
		}
		c09Run(sw, swf, jprint(r, tree, r.bool()), dis, exp, class)
	}

	// ---------------- part 2: random schemas
	for c09st.n < n {
		s := genProtoSchema(r, pgOpts{MaxMsgs: 4, MaxFields: 7, MaxDepth: 4})
		c, err := compileProtoSchema(s)
		if err != nil {
			continue
		}
		sf := s.caseFields()
		gg := &c09gen{r: r, c: c}
		for k := 0; k < 24 && c09st.n < n; k++ {
			raw := c09Finite(genProtoValue(r, c, s.Root, 0), pgKMessage)
			gg.jsonNames = []int{0, 50, 100}[r.intn(3)]
			gg.altFloat = r.chance(40)
			v := raw
			class := 2
			clean := r.chance(65)
			if clean {
				v = c09Clean(r, nil, raw, pgKMessage)
				class = 1
			}
			if clean && r.chance(8) {
				c09History(r, c, sf, gg, v, 41)
				continue
			}
			exp := c09Canon(c, v)
			tree := gg.message(v, s.Root)
			dis := r.chance(30)
			switch x := r.intn(10); {
			case x < 4: // plain / re-spelled
			case x < 6:
				d := c09deco{unknowns: 25, shuffle: true, defaults: 15, nulls: 15, empties: 15}
				if gg.decorate(tree, s.Root, d) > 0 && dis {
					exp = nil
				}
				class += 10
			case x < 7:
				gg.decorate(tree, s.Root, c09deco{shuffle: true})
				class += 20
			case x < 8:
				if gg.damage(tree, s.Root) {
					exp = nil
					class = 6
				}
			default:
				gg.decorate(tree, s.Root, c09deco{defaults: 30, shuffle: r.bool()})
				class += 30
			}
			c09Run(c, sf, jprint(r, tree, r.chance(60)), dis, exp, class)
		}
	}
}
