//go:build verif

// Self test of the shared proto generator (protogen.go):  harness -prop PGSELF -seed S -n N
// For N schemas: compile with dynamicgo and with the reference parser, compare the dynamicgo descriptors with the
// schema, generate 3 values, encode with the reference, decode with the reference and require the canonical dump to
// equal the generated tree. Emits no cases; prints statistics (and a digest of everything produced) on stderr.
package main

import (
	"crypto/sha256"
	"encoding/hex"
	"fmt"
	"math"
	"os"
	"sort"
	"strings"

	"github.com/cloudwego/dynamicgo/proto"
	"github.com/jhump/protoreflect/dynamic"
)

func init() { generators["PGSELF"] = genPGSelf }

// dynamicgo descriptor of one message against the schema
func pgCheckDynMsg(c *pgCompiled, m *pgMsg, t *proto.TypeDescriptor) []string {
	var errs []string
	bad := func(f string, a ...interface{}) { errs = append(errs, m.Name+": "+fmt.Sprintf(f, a...)) }
	if t.Type() != proto.MESSAGE {
		bad("type %v", t.Type())
	}
	if t.Name() != m.Name {
		bad("type name %q", t.Name())
	}
	md := t.Message()
	for _, f := range m.Fields {
		fd := md.ByNumber(proto.FieldNumber(f.Num))
		if fd == nil {
			bad("field %d (%s) missing", f.Num, f.Name)
			continue
		}
		if fd.Number() != proto.FieldNumber(f.Num) || fd.Name() != f.Name || fd.JSONName() != f.JSONName {
			bad("field %d: number %d name %q json %q, expected %q %q", f.Num, fd.Number(), fd.Name(), fd.JSONName(), f.Name, f.JSONName)
		}
		if md.ByName(f.Name) != fd || md.ByJSONName(f.JSONName) != fd {
			bad("field %d: ByName/ByJSONName resolve to a different descriptor", f.Num)
		}
		ft := fd.Type()
		et := ft // element / value type
		switch f.Label {
		case pgSingular:
			if ft.Type() != proto.Type(f.Kind) {
				bad("field %d: type %v expected kind %d", f.Num, ft.Type(), f.Kind)
			}
			if int(fd.Kind()) != f.Kind {
				bad("field %d: kind %d expected %d", f.Num, fd.Kind(), f.Kind)
			}
		case pgRepeated:
			if ft.Type() != proto.LIST || ft.Elem() == nil || ft.Elem().Type() != proto.Type(f.Kind) {
				bad("field %d: not LIST of kind %d", f.Num, f.Kind)
				continue
			}
			if ft.BaseId() != proto.FieldNumber(f.Num) {
				bad("field %d: list baseId %d", f.Num, ft.BaseId())
			}
			if ft.IsPacked() != pgIsNumKind(f.Kind) {
				bad("field %d: IsPacked %v", f.Num, ft.IsPacked())
			}
			if int(fd.Kind()) != f.Kind {
				bad("field %d: kind %d expected %d", f.Num, fd.Kind(), f.Kind)
			}
			et = ft.Elem()
		case pgMap:
			if ft.Type() != proto.MAP || ft.Key() == nil || ft.Elem() == nil || ft.Key().Type() != proto.Type(f.KeyKind) || ft.Elem().Type() != proto.Type(f.Kind) {
				bad("field %d: not MAP<%d,%d>", f.Num, f.KeyKind, f.Kind)
				continue
			}
			if ft.BaseId() != proto.FieldNumber(f.Num) {
				bad("field %d: map baseId %d", f.Num, ft.BaseId())
			}
			if int(fd.Kind()) != pgKMessage {
				bad("field %d: map kind %d", f.Num, fd.Kind())
			}
			et = ft.Elem()
			// the entry message: 1 = key, 2 = value
			em := ft.Message()
			if em == nil || em.ByNumber(1) == nil || em.ByNumber(2) == nil {
				bad("field %d: map entry descriptor incomplete", f.Num)
			} else {
				if em.ByNumber(1).Type().Type() != proto.Type(f.KeyKind) || em.ByNumber(1).Name() != "key" {
					bad("field %d: entry key %v %q", f.Num, em.ByNumber(1).Type().Type(), em.ByNumber(1).Name())
				}
				if em.ByNumber(2).Type().Type() != proto.Type(f.Kind) || em.ByNumber(2).Name() != "value" {
					bad("field %d: entry value %v %q", f.Num, em.ByNumber(2).Type().Type(), em.ByNumber(2).Name())
				}
			}
		}
		if f.Kind == pgKMessage {
			want := c.DynMsgs[f.MsgName]
			if et.Message() == nil || et.Name() != f.MsgName {
				bad("field %d: message type %q expected %q", f.Num, et.Name(), f.MsgName)
			} else if want != nil && want != et {
				bad("field %d: message type %s is not the memoised descriptor", f.Num, f.MsgName)
			}
		}
	}
	// no extra numbers: probe around every declared number and a few fixed ones
	probe := []int32{1, 2, 3, 15, 16, 17, 2047, 2048, 2049, 5001, pgBigNumber - 1, pgBigNumber, pgBigNumber + 1}
	for _, f := range m.Fields {
		probe = append(probe, f.Num-1, f.Num+1)
	}
	for _, n := range probe {
		if n >= 1 && m.byNum(n) == nil && md.ByNumber(proto.FieldNumber(n)) != nil {
			bad("undeclared number %d resolves to %q", n, md.ByNumber(proto.FieldNumber(n)).Name())
		}
	}
	return errs
}

// behaviours of the reference the generator's canonical form depends on (fixed schema, no randomness)
func pgProbeReference() []string {
	var facts []string
	s := &pgSchema{Pkg: "pg.probe", Root: "M0", Enums: []*pgEnum{{Name: "E0", Values: []int32{0, 5}}}}
	mk := func(num int32, name string, label, kind, key int) *pgField {
		f := &pgField{Num: num, Name: name, Label: label, Kind: kind, KeyKind: key}
		if kind == pgKMessage {
			f.MsgName = "M0"
		}
		if kind == pgKEnum {
			f.EnumName = "E0"
		}
		return f
	}
	s.Msgs = []*pgMsg{{Name: "M0", Fields: []*pgField{mk(1, "f", 0, pgKFloat, 0), mk(2, "d", 0, pgKDouble, 0), mk(3, "e", 0, pgKEnum, 0),
		mk(4, "m", 0, pgKMessage, 0), mk(5, "rf", 1, pgKFloat, 0), mk(6, "ms", 3, pgKString, 17), mk(7, "mm", 3, pgKMessage, 8)}}}
	c, err := compileProtoSchema(s)
	if err != nil {
		die("probe schema: %v\n%s", err, s.protoText())
	}
	M := s.Msgs[0]
	enc := func(v *pgVal) []byte {
		b, err := c.encodeRef(v, "M0")
		if err != nil {
			die("probe encode: %v", err)
		}
		return b
	}
	msgOf := func(fvs ...pgFV) *pgVal { return &pgVal{Tag: 1, Kind: pgKMessage, Fields: fvs} }
	u := func(kind int, bits uint64) *pgVal { return pgNum(kind, pgImage(kind, bits)) }
	// float32 NaNs
	fl := func(bits uint32) string {
		return hex.EncodeToString(enc(msgOf(pgFV{M.Fields[0], u(pgKFloat, uint64(bits))})))
	}
	facts = append(facts, "float sNaN 7f800001 -> "+fl(0x7f800001), "float qNaN ffc12345 -> "+fl(0xffc12345), "float -0 singular -> '"+fl(0x80000000)+"'")
	db := func(bits uint64) string {
		return hex.EncodeToString(enc(msgOf(pgFV{M.Fields[1], u(pgKDouble, bits)})))
	}
	facts = append(facts, "double sNaN 7ff0000000000001 -> "+db(0x7ff0000000000001), "double -0 singular -> '"+db(0x8000000000000000)+"'")
	lst := &pgVal{Tag: 4, Kind: pgKFloat, Packed: true, Elems: []*pgVal{u(pgKFloat, 0x80000000), u(pgKFloat, 0), u(pgKFloat, 0x7f800001)}}
	facts = append(facts, "repeated float [-0 0 sNaN] -> "+hex.EncodeToString(enc(msgOf(pgFV{M.Fields[4], lst}))))
	facts = append(facts, "undeclared enum 77 -> "+hex.EncodeToString(enc(msgOf(pgFV{M.Fields[2], pgNum(pgKEnum, pgImage(pgKEnum, 77))}))))
	facts = append(facts, "undeclared enum -3 -> "+hex.EncodeToString(enc(msgOf(pgFV{M.Fields[2], pgNum(pgKEnum, pgImage(pgKEnum, uint64(math.MaxUint64-2)))}))))
	facts = append(facts, "present empty sub-message -> "+hex.EncodeToString(enc(msgOf(pgFV{M.Fields[3], msgOf()}))))
	mp := &pgVal{Tag: 5, Kind: pgKString, KeyKind: 17, Entries: []pgKV{{u(17, uint64(math.MaxUint64)), pgStr(9, []byte("a"))}, {u(17, 0), pgStr(9, nil)}, {u(17, 2), pgStr(9, []byte("b"))}}}
	pgSortEntries(mp.Entries)
	facts = append(facts, "map<sint32,string>{-1:a 0:'' 2:b} -> "+hex.EncodeToString(enc(msgOf(pgFV{M.Fields[5], mp}))))
	mm := &pgVal{Tag: 5, Kind: pgKMessage, KeyKind: pgKBool, Entries: []pgKV{{u(pgKBool, 0), msgOf()}, {u(pgKBool, 1), msgOf(pgFV{M.Fields[2], pgNum(pgKEnum, pgImage(pgKEnum, 5))})}}}
	facts = append(facts, "map<bool,M0>{false:{} true:{e:5}} -> "+hex.EncodeToString(enc(msgOf(pgFV{M.Fields[6], mm}))))
	// a map entry without value, as another encoder may write it
	dm := dynamic.NewMessage(c.RefMsgs["M0"])
	if err := dm.Unmarshal([]byte{0x3a, 0x02, 0x08, 0x01}); err != nil {
		facts = append(facts, "map entry without value: "+err.Error())
	} else if d, err := c.fromDynamic(dm, "M0"); err != nil {
		facts = append(facts, "map entry without value: dump error "+err.Error())
	} else {
		facts = append(facts, "map<bool,M0> entry without value dumps as "+d.String())
	}
	d, err := c.dumpRef([]byte{0x0d, 0, 0, 0, 0x80, 0x18, 0x00, 0x22, 0x00}, "M0")
	facts = append(facts, fmt.Sprintf("decode {f:-0 e:0 m:{}} dumps as %v (err %v)", d, err))
	return facts
}

func genPGSelf(r *rng, n int) {
	digest := sha256.New()
	for _, f := range pgProbeReference() {
		fmt.Fprintln(os.Stderr, "pgself: reference:", f)
		digest.Write([]byte(f))
	}
	kindHist := map[string]int{} // "<label>/<kind>" -> fields
	keyHist := map[int]int{}
	valTags := map[int]int{}
	var schemas, recursive, emptyMsgs, values, totalBytes, maxBytes, bigSchemas, sameNum, unreachable, outOfOrder int
	var presentEmpty, undeclaredEnum, nanVals, longPacked, longStrings, zeroKeys int
	var maxNum int32
	var dynMsgs, fieldsCountOff, msgNameOff, negPanics int // observations about dynamicgo descriptors (not failures)
	var dynIssues []string
	opts := []pgOpts{{}, {BigNumbers: true}, {MaxMsgs: 8, MaxFields: 12, MaxDepth: 3, BigNumbers: true}, {MaxMsgs: 2, MaxFields: 4, MaxDepth: 6}}
	for it := 0; it < n; it++ {
		o := opts[0]
		if it%4 == 3 {
			o = opts[1+(it/4)%3]
		}
		s := genProtoSchema(r.fork(), o)
		c, err := compileProtoSchema(s)
		if err != nil {
			die("PGSELF: schema %d does not compile: %v\n%s", it, err, s.protoText())
		}
		schemas++
		digest.Write([]byte(c.Text))
		digest.Write([]byte(strings.Join(s.caseFields(), " ")))
		if s.recursive() {
			recursive++
		}
		names := map[string]bool{}
		hasBig := 0
		for _, m := range s.Msgs {
			if len(m.Fields) == 0 {
				emptyMsgs++
			}
			if c.DynMsgs[m.Name] == nil {
				unreachable++
			}
			nums := map[int32]bool{}
			asc := true
			for i, f := range m.Fields {
				if names[f.Name] || names[f.JSONName] || f.JSONName == "" {
					die("PGSELF: duplicate/empty field name %q / %q\n%s", f.Name, f.JSONName, c.Text)
				}
				names[f.Name], names[f.JSONName] = true, true
				if nums[f.Num] || f.Num < 1 || f.Num > pgBigNumber || (f.Num >= 19000 && f.Num <= 19999) {
					die("PGSELF: bad field number %d in %s\n%s", f.Num, m.Name, c.Text)
				}
				nums[f.Num] = true
				if f.Num == pgBigNumber {
					hasBig++
				}
				if f.Num > maxNum {
					maxNum = f.Num
				}
				if i > 0 && m.Fields[i-1].Num > f.Num {
					asc = false
				}
				kindHist[fmt.Sprintf("%d/%02d", f.Label, f.Kind)]++
				if f.Label == pgMap {
					keyHist[f.KeyKind]++
				}
				if f.Kind == pgKMessage && f.MsgName != m.Name {
					if cf := s.msg(f.MsgName).byNum(f.Num); cf != nil && (cf.Label != pgSingular || pgWireType(cf.Kind) == 2) {
						sameNum++
					}
				}
			}
			if !asc {
				outOfOrder++
			}
		}
		if hasBig > 1 || (hasBig > 0 && !o.BigNumbers) {
			die("PGSELF: 2^20 used %d times\n%s", hasBig, c.Text)
		}
		if hasBig > 0 {
			bigSchemas++
		}
		// dynamicgo descriptors against the schema (every reachable message)
		for _, m := range s.Msgs {
			if t := c.DynMsgs[m.Name]; t != nil {
				dynMsgs++
				if t.Message().FieldsCount() != len(m.Fields) {
					fieldsCountOff++
				}
				if t.Message().Name() != m.Name {
					msgNameOff++
				}
				if ok, _ := noPanic(func() { t.Message().ByNumber(-1) }); !ok {
					negPanics++
				}
				for _, e := range pgCheckDynMsg(c, m, t) {
					if len(dynIssues) < 20 {
						dynIssues = append(dynIssues, fmt.Sprintf("schema %d: %s", it, e))
					}
				}
			}
		}
		if len(dynIssues) > 0 {
			die("PGSELF: dynamicgo descriptor disagrees with the schema:\n  %s\n%s", strings.Join(dynIssues, "\n  "), c.Text)
		}
		for k := 0; k < 3; k++ {
			v := genProtoValue(r.fork(), c, s.Root, 0)
			b, err := c.encodeRef(v, s.Root)
			if err != nil {
				die("PGSELF: schema %d value %d: reference encoder: %v\n%s\nvalue %s", it, k, err, c.Text, v)
			}
			d, err := c.dumpRef(b, s.Root)
			if err != nil {
				die("PGSELF: schema %d value %d: reference decoder: %v\n%s\nvalue %s\nbytes %x", it, k, err, c.Text, v, b)
			}
			if !pgValEqual(d, v) {
				die("PGSELF: schema %d value %d: dump differs from the generated value at %s\n%s\ngenerated %.3000s\ndumped    %.3000s\nbytes %.2000x", it, k, pgValDiff(v, d), c.Text, v.String(), d.String(), b)
			}
			if strings.Join(d.caseFields(), " ") != strings.Join(v.caseFields(), " ") {
				die("PGSELF: schema %d value %d: caseFields differ although pgValEqual", it, k)
			}
			// second reference round trip: the encoding of the dump is the same bytes
			b2, err := c.encodeRef(d, s.Root)
			if err != nil || string(b2) != string(b) {
				die("PGSELF: schema %d value %d: re-encoding the dump gives different bytes (%v)\n%x\n%x", it, k, err, b, b2)
			}
			values++
			totalBytes += len(b)
			if len(b) > maxBytes {
				maxBytes = len(b)
			}
			digest.Write(b)
			digest.Write([]byte(strings.Join(v.caseFields(), " ")))
			var walk func(v *pgVal, f *pgField)
			walk = func(v *pgVal, f *pgField) {
				valTags[v.Tag]++
				switch v.Tag {
				case 1:
					if f != nil && f.Label == pgSingular && len(v.Fields) == 0 {
						presentEmpty++
					}
					for _, fv := range v.Fields {
						walk(fv.V, fv.F)
					}
				case 2:
					switch v.Kind {
					case pgKEnum:
						decl := false
						for _, x := range s.enum(f.EnumName).Values {
							decl = decl || int64(x) == v.I.Int64()
						}
						if !decl {
							undeclaredEnum++
						}
					case pgKFloat:
						if x := math.Float32frombits(uint32(v.I.Uint64())); x != x {
							nanVals++
						}
					case pgKDouble:
						if x := math.Float64frombits(v.I.Uint64()); x != x {
							nanVals++
						}
					}
				case 3:
					if len(v.B) > 127 {
						longStrings++
					}
				case 4:
					if v.Packed && len(v.Elems) >= 128 {
						longPacked++
					}
					for _, e := range v.Elems {
						walk(e, f)
					}
				case 5:
					for _, kv := range v.Entries {
						if (kv.K.Tag == 2 && kv.K.I.Sign() == 0) || (kv.K.Tag == 3 && len(kv.K.B) == 0) {
							zeroKeys++
						}
						walk(kv.V, f)
					}
				}
			}
			walk(v, nil)
		}
	}
	pr := func(f string, a ...interface{}) { fmt.Fprintf(os.Stderr, "pgself: "+f+"\n", a...) }
	pr("schemas %d recursive %d with-2^20 %d max-field-number %d empty-messages %d unreachable-messages %d messages-declared-out-of-order %d parent/child-same-number %d",
		schemas, recursive, bigSchemas, maxNum, emptyMsgs, unreachable, outOfOrder, sameNum)
	var keys []string
	for k := range kindHist {
		keys = append(keys, k)
	}
	sort.Strings(keys)
	for _, lab := range []int{pgSingular, pgRepeated, pgMap} {
		var p []string
		for _, k := range pgAllKinds {
			p = append(p, fmt.Sprintf("%s:%d", pgKindNames[k], kindHist[fmt.Sprintf("%d/%02d", lab, k)]))
		}
		pr("fields label %d  %s", lab, strings.Join(p, " "))
	}
	var p []string
	for _, k := range pgMapKeyKinds {
		p = append(p, fmt.Sprintf("%s:%d", pgKindNames[k], keyHist[k]))
	}
	pr("map key kinds  %s", strings.Join(p, " "))
	avg := 0
	if values > 0 {
		avg = totalBytes / values
	}
	pr("values %d avg-encoded-size %d max-encoded-size %d nodes: message %d scalar %d string/bytes %d list %d map %d", values, avg, maxBytes,
		valTags[1], valTags[2], valTags[3], valTags[4], valTags[5])
	pr("present-empty-submessages %d undeclared-enum-numbers %d NaNs %d packed-lists>=128 %d strings>127 %d zero/empty-map-keys %d",
		presentEmpty, undeclaredEnum, nanVals, longPacked, longStrings, zeroKeys)
	pr("dynamicgo observations: %d message descriptors; FieldsCount() != declared fields in %d; MessageDescriptor.Name() != message name in %d; ByNumber(-1) panics in %d",
		dynMsgs, fieldsCountOff, msgNameOff, negPanics)
	pr("digest %s", hex.EncodeToString(digest.Sum(nil)))
}
