//go:build verif

package main

import (
	"math"

	"github.com/cloudwego/dynamicgo/thrift"
)

// 1927 / 1928: thrift.BinaryProtocol.WriteAny / ReadAny (no descriptor) against their as-coded Gallina model
// (coq/model/ThriftAnyFree.v, checker coq/model/Check19e.v). Go values travel in the prefix code of gvEmit19.
//
//	1927  sliceAsSet, <Go value passed>, code (0 nil,1 error,3 panic), returned Type, p.Buf
//	1928  type, options (1 strAsBinary, 2 byteAsInt8), input, code (0 ok,1 error,3 panic,4 foreign Go type),
//	      [<Go value returned> when code = 0], bytes left
func init() {
	base := generators["C19"]
	generators["C19"] = func(r *rng, n int) {
		own := &rng{s: mixSeed(r.s ^ 0xC19F4EE)}
		if base != nil {
			base(r, n)
		}
		genC19AnyFree(own, n)
	}
}

type free19 struct {
	r      *rng
	dev    bool
	budget int
}

func (a *free19) hit() bool {
	if !a.dev || a.budget <= 0 || !a.r.chance(12) {
		return false
	}
	a.budget--
	return true
}

func (a *free19) val(v *Val) interface{} {
	r := a.r
	if a.hit() {
		return []interface{}{nil, uint16(3), uint32(1), uint64(5), uint(7), float32(1.5), float32(0.1), int(-3), []interface{}{}, map[string]interface{}{},
			map[int]interface{}{}, map[interface{}]interface{}{}, map[thrift.FieldID]interface{}{}, []interface{}{int32(1), "x"}, []interface{}{nil},
			map[string]interface{}{"a": int32(1), "b": "s"}, map[uint8]interface{}{200: true}, map[int8]interface{}{-1: int64(2)},
			[]interface{}{float32(2)}, map[thrift.FieldID]interface{}{7: nil}, map[thrift.FieldID]interface{}{8: uint16(1)},
			map[interface{}]interface{}{"k": int32(1)}, map[interface{}]interface{}{int16(-2): "v", int16(5): "w"}, map[interface{}]interface{}{nil: true}}[r.intn(24)]
	}
	switch v.T.K {
	case thrift.BOOL:
		return v.I != 0
	case thrift.I08:
		if r.bool() {
			return byte(v.I)
		}
		return int8(v.I)
	case thrift.I16:
		return int16(v.I)
	case thrift.I32:
		return int32(v.I)
	case thrift.I64:
		if r.chance(30) {
			return int(v.I)
		}
		return v.I
	case thrift.DOUBLE:
		return math.Float64frombits(v.D)
	case thrift.STRING:
		if r.chance(35) {
			return append([]byte{}, v.S...)
		}
		return string(v.S)
	case thrift.LIST, thrift.SET:
		out := make([]interface{}, 0, len(v.Elems))
		for _, e := range v.Elems {
			out = append(out, a.val(e))
		}
		return out
	case thrift.STRUCT:
		out := map[thrift.FieldID]interface{}{}
		for i, id := range v.FIDs {
			out[thrift.FieldID(id)] = a.val(v.Fields[i])
		}
		return out
	case thrift.MAP:
		switch v.T.Key.K {
		case thrift.STRING:
			out := map[string]interface{}{}
			for i, k := range v.Keys {
				out[string(k.S)] = a.val(v.Elems[i])
			}
			return out
		case thrift.I08:
			if r.bool() {
				out := map[byte]interface{}{}
				for i, k := range v.Keys {
					out[byte(k.I)] = a.val(v.Elems[i])
				}
				return out
			}
			out := map[int8]interface{}{}
			for i, k := range v.Keys {
				out[int8(k.I)] = a.val(v.Elems[i])
			}
			return out
		case thrift.I16:
			out := map[int16]interface{}{}
			for i, k := range v.Keys {
				out[int16(k.I)] = a.val(v.Elems[i])
			}
			return out
		case thrift.I32:
			out := map[int32]interface{}{}
			for i, k := range v.Keys {
				out[int32(k.I)] = a.val(v.Elems[i])
			}
			return out
		case thrift.I64:
			if r.bool() {
				out := map[int]interface{}{}
				for i, k := range v.Keys {
					out[int(k.I)] = a.val(v.Elems[i])
				}
				return out
			}
			out := map[int64]interface{}{}
			for i, k := range v.Keys {
				out[k.I] = a.val(v.Elems[i])
			}
			return out
		default:
			out := map[interface{}]interface{}{}
			for i, k := range v.Keys {
				out[ptrKey(a.val(k))] = a.val(v.Elems[i])
			}
			return out
		}
	}
	return nil
}

func c19EmitReadFree(t thrift.Type, in []byte, strbin, i8 bool) {
	if len(in) > 4096 {
		return
	}
	var g interface{}
	var rerr error
	left := 0
	okr, _ := noPanic(func() {
		p := thrift.NewBinaryProtocol(append([]byte{}, in...))
		g, rerr = p.ReadAny(t, strbin, i8)
		left = len(p.Buf) - p.Read
		p.Recycle()
	})
	o := 0
	if strbin {
		o |= 1
	}
	if i8 {
		o |= 2
	}
	fields := []string{fi(int(t)), fi(o), fx(in)}
	switch {
	case !okr:
		fields = append(fields, "n3", "n0")
	case rerr != nil:
		fields = append(fields, "n1", "n0")
	default:
		gf, ok := gvEmit19(g)
		if !ok {
			fields = append(fields, "n4", "n0")
		} else {
			fields = append(fields, "n0")
			fields = append(fields, gf...)
			fields = append(fields, fi(left))
		}
	}
	out.emit(1928, fields...)
}

// fixed shapes through which the options of ReadAny must reach every nested string / byte
func genC19FreeOptionShapes(r *rng) {
	str := &Ty{K: thrift.STRING}
	byt := &Ty{K: thrift.I08}
	shapes := []*Ty{
		{K: thrift.MAP, Key: str, Elem: str},
		{K: thrift.MAP, Key: str, Elem: byt},
		{K: thrift.MAP, Key: str, Elem: &Ty{K: thrift.LIST, Elem: str}},
		{K: thrift.MAP, Key: &Ty{K: thrift.I32}, Elem: str},
		{K: thrift.MAP, Key: &Ty{K: thrift.I08}, Elem: byt},
		{K: thrift.MAP, Key: &Ty{K: thrift.DOUBLE}, Elem: str},
		{K: thrift.MAP, Key: &Ty{K: thrift.BOOL}, Elem: &Ty{K: thrift.SET, Elem: byt}},
		{K: thrift.MAP, Key: &Ty{K: thrift.LIST, Elem: str}, Elem: byt},
		{K: thrift.LIST, Elem: &Ty{K: thrift.MAP, Key: str, Elem: str}},
		{K: thrift.SET, Elem: str},
		{K: thrift.LIST, Elem: &Ty{K: thrift.LIST, Elem: byt}},
		{K: thrift.STRUCT, Name: "O", Fields: []*Fld{{ID: 1, Name: "a", T: &Ty{K: thrift.MAP, Key: str, Elem: str}}, {ID: 2, Name: "b", T: byt}, {ID: 3, Name: "c", T: str}}},
	}
	g := newTgen(r.fork())
	for _, t := range shapes {
		for k := 0; k < 2; k++ {
			v := g.genValue(t, 0)
			b := v.encode(nil)
			for o := 0; o < 4; o++ {
				c19EmitReadFree(t.K, b, o&1 != 0, o&2 != 0)
			}
		}
	}
}

func genC19AnyFree(r *rng, n int) {
	genC19FreeOptionShapes(r.fork())
	rounds := 40 + n/15
	for i := 0; i < rounds; i++ {
		g := newTgen(r.fork())
		g.maxDepth = 3
		g.structKeys = true
		g.keyKinds = []thrift.Type{thrift.STRING, thrift.I08, thrift.I16, thrift.I32, thrift.I64, thrift.DOUBLE, thrift.BOOL, thrift.STRING, thrift.I64}
		var root *Ty
		if r.chance(60) {
			root = g.genStruct(0)
		} else {
			root = g.genType(1)
		}
		v := g.genValue(root, 0)
		refb := v.encode(nil)
		if len(refb) > 3000 {
			continue
		}
		rr := r.fork()
		for mode := 0; mode < 2; mode++ {
			a := &free19{r: rr, dev: mode == 1, budget: 1 + rr.intn(2)}
			gv := a.val(v)
			gf, ok := gvEmit19(gv)
			if !ok {
				continue
			}
			sas := rr.chance(30)
			var werr error
			var b []byte
			var rt thrift.Type
			okw, _ := noPanic(func() {
				p := thrift.NewBinaryProtocolBuffer()
				rt, werr = p.WriteAny(gv, sas)
				b = append([]byte{}, p.Buf...)
				thrift.FreeBinaryProtocolBuffer(p)
			})
			code := berr(werr)
			if !okw {
				code, b, rt = "n3", nil, 0
			}
			if len(b) > 8192 {
				continue
			}
			fields := []string{fb(sas)}
			fields = append(fields, gf...)
			fields = append(fields, code, fi(int(rt)), fx(b))
			out.emit(1927, fields...)
			if okw && werr == nil {
				c19EmitReadFree(rt, b, rr.bool(), rr.bool())
			}
		}
		// 1928: reference encoding, trailing bytes, truncation, corruption, a wrong top-level type
		c19EmitReadFree(root.K, refb, rr.bool(), rr.bool())
		c19EmitReadFree(root.K, append(append([]byte{}, refb...), rr.bytes(1+rr.intn(3))...), rr.bool(), rr.bool())
		if len(refb) > 0 {
			c19EmitReadFree(root.K, refb[:rr.intn(len(refb))], rr.bool(), rr.bool())
			cb := append([]byte{}, refb...)
			j := rr.intn(len(cb))
			if rr.chance(50) {
				cb[j] = byte(rr.next())
			} else {
				cb[j] ^= 1 << uint(rr.intn(8))
			}
			c19EmitReadFree(root.K, cb, rr.bool(), rr.bool())
		}
		if rr.chance(20) {
			c19EmitReadFree([]thrift.Type{thrift.STOP, 1, thrift.STRUCT, thrift.MAP, thrift.LIST, 16, 17, 5, 99}[rr.intn(9)], refb, false, false)
		}
		// a struct with a repeated field id, a map with a repeated key
		e2 := &enc19{r: rr, g: g, dups: true}
		c19EmitReadFree(root.K, e2.enc(v, nil), rr.bool(), rr.bool())
	}
}
