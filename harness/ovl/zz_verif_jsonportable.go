//ovl:internal/jsonportable/zz_verif.go
//go:build verif

// Verification-only accessors to the portable text encoders (internal/json/api_compat.go compiled as package jsonportable).
package jsonportable

func VerifI64toa(buf *[]byte, v int64)   { i64toa(buf, v) }
func VerifF64toa(buf *[]byte, v float64) { f64toa(buf, v) }
