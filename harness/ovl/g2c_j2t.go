//ovl:conv/j2t/zz_verif_g2c.go
//go:build verif

package j2t

import "github.com/cloudwego/dynamicgo/conv"

// VerifToFlags exposes the unexported option -> native flag word function to the harness (generated-definition check 291 / 1691).
func VerifToFlags(o conv.Options) uint64 { return toFlags(o) }

// VerifFlags is the flag word a converter hands to the native code.
func (self *BinaryConv) VerifFlags() uint64 { return self.flags }
