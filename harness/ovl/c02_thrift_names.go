//ovl:thrift/zz_verif_c02.go
//go:build verif

package thrift

import "github.com/cloudwego/dynamicgo/internal/caching"

// VerifNameTrie exposes the key trie of a struct descriptor (nil: hash map); read-only use by the C02 harness.
func (s *StructDescriptor) VerifNameTrie() *caching.TrieTree { return s.names.VerifTrie() }
