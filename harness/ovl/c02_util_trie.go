//ovl:internal/util/zz_verif_c02.go
//go:build verif

package util

import "github.com/cloudwego/dynamicgo/internal/caching"

// VerifTrie exposes the trie a FieldNameMap was built into (nil when it chose the hash map); read-only use by the C02 harness.
func (ft *FieldNameMap) VerifTrie() *caching.TrieTree { return ft.trie }
