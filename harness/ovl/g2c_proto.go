//ovl:proto/zz_verif_g2c.go
//go:build verif

package proto

// Accessors for the generated-definition checks 1591 / 791 / 2091 (harness/g15_kinds.go): build a TypeDescriptor from the three
// atoms the generated definitions read (typ, elem.typ, unpacked), and read those atoms off a real descriptor.
func VerifTypeDescriptor(typ, elemTyp uint8, unpacked bool) *TypeDescriptor {
	return &TypeDescriptor{typ: Type(typ), unpacked: unpacked, elem: &TypeDescriptor{typ: Type(elemTyp)}}
}

// VerifAtoms: typ, elem.typ (-1 when there is no element descriptor), unpacked of a real descriptor.
func (t *TypeDescriptor) VerifAtoms() (typ int, elemTyp int, unpacked bool) {
	elemTyp = -1
	if t.elem != nil {
		elemTyp = int(t.elem.typ)
	}
	return int(t.typ), elemTyp, t.unpacked
}
