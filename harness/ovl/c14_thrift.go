//ovl:thrift/zz_verif_c14.go
//go:build verif

package thrift

// VerifNamesKind tells which lookup structure backs FieldByKey of this struct (see util.FieldNameMap.VerifKind).
func (s StructDescriptor) VerifNamesKind() (kind int, pos int) { return s.names.VerifKind() }
