//ovl:thrift/generic/zz_verif_g2c.go
//go:build verif

package generic

import "unsafe"

// VerifSeekIntHash runs the unexported probing loop on a table of len(occupied) slots whose occupied slots hold an integer-key path
// (generated-definition check 591).
func VerifSeekIntHash(occupied []bool, key uint64) int {
	nodes := make([]PathNode, len(occupied))
	for i, o := range occupied {
		if o {
			nodes[i].Path = NewPathIntKey(i)
		}
	}
	return seekIntHash(unsafe.Pointer(&nodes[0]), key, len(nodes))
}
