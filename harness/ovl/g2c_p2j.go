//ovl:conv/p2j/zz_verif_g2c.go
//go:build verif

package p2j

import "math"

// VerifCheckFinite runs the unexported finite test on a float64 given by its IEEE bits (generated-definition check 893 / 1392).
func VerifCheckFinite(bits uint64) bool { return checkFinite(math.Float64frombits(bits)) != nil }
