//ovl:thrift/zz_verif_g2c.go
//go:build verif

package thrift

import (
	"unsafe"

	"github.com/cloudwego/thriftgo/parser"
)

// Accessors for the generated-definition checks 1692 / 1693 / 1193 (harness/g16_req.go). Read-only use of unexported pieces.

// VerifConvertRequireness runs convertRequireness on a fresh field of a fresh struct whose bitmap bit for id is preset to `before`;
// returns the field's requiredness afterwards, the bitmap bit afterwards, and whether the call panicked.
func VerifConvertRequireness(r int, id uint16, reqBase, respBase, setOptional, before bool, oldRequired uint8) (required int, after bool, panicked bool) {
	st := &StructDescriptor{}
	f := &FieldDescriptor{id: FieldID(id), isRequestBase: reqBase, isResponseBase: respBase, required: Requireness(oldRequired)}
	if before {
		st.requires.Set(FieldID(id), RequiredRequireness)
	} else {
		st.requires.Set(FieldID(id), OptionalRequireness)
	}
	defer func() {
		if e := recover(); e != nil {
			required, after, panicked = int(f.required), st.requires.IsSet(FieldID(id)), true
		}
	}()
	convertRequireness(parser.FieldType(r), st, f, Options{SetOptionalBitmap: setOptional})
	return int(f.required), st.requires.IsSet(FieldID(id)), false
}

func verifOneField(id uint16, req uint8, hasDefault, noField bool) (*StructDescriptor, *RequiresBitmap) {
	st := &StructDescriptor{name: "S"}
	if !noField {
		f := &FieldDescriptor{id: FieldID(id), required: Requireness(req), name: "f", alias: "f", typ: &TypeDescriptor{typ: I32, name: "i32"}}
		if hasDefault {
			f.defaultValue = &DefaultValue{goValue: int32(7), jsonValue: "7", thriftBinary: "\x00\x00\x00\x07"}
		}
		st.ids.Set(int32(id), unsafe.Pointer(f))
	}
	bm := &RequiresBitmap{}
	// words up to the one of id, all clear, then exactly bit id
	bm.Set(FieldID(id), RequiredRequireness)
	return st, bm
}

// VerifHandleRequires: a struct with ONE field (id, requiredness req, with or without a default value) and a bitmap in which exactly bit
// id is marked, through RequiresBitmap.HandleRequires. Returns: an error came back, the id the handler was called with (-1: not called),
// the field's Required() and DefaultValue()==nil as the function sees them, and the number of handler calls.
func VerifHandleRequires(id uint16, req uint8, hasDefault, wr, wd, wo bool) (errd bool, handled int, goReq int, defNil bool, calls int) {
	st, bm := verifOneField(id, req, hasDefault, false)
	handled = -1
	err := bm.HandleRequires(st, wr, wd, wo, func(f *FieldDescriptor) error { handled = int(f.ID()); calls++; return nil })
	f := st.FieldById(FieldID(id))
	return err != nil, handled, int(f.Required()), f.DefaultValue() == nil, calls
}

// VerifCheckRequires: the same through RequiresBitmap.CheckRequires; noField = the marked bit has no field in the descriptor.
func VerifCheckRequires(id uint16, req uint8, noField, wd bool) (errd bool, handled int, goReq int, calls int) {
	st, bm := verifOneField(id, req, false, noField)
	handled = -1
	err := bm.CheckRequires(st, wd, func(f *FieldDescriptor) error { handled = int(f.ID()); calls++; return nil })
	goReq = -1
	if f := st.FieldById(FieldID(id)); f != nil {
		goReq = int(f.Required())
	}
	return err != nil, handled, goReq, calls
}

// VerifWriteEmpty runs BinaryProtocol.WriteEmpty on a descriptor built from the three atoms the generated definition reads
// (Type(), Key().Type(), Elem().Type()); returns the bytes written and whether an error came back.
func VerifWriteEmpty(typ, key, elem uint8) (out []byte, errd bool) {
	d := &TypeDescriptor{typ: Type(typ), key: &TypeDescriptor{typ: Type(key)}, elem: &TypeDescriptor{typ: Type(elem)}}
	p := NewBinaryProtocolBuffer()
	err := p.WriteEmpty(d)
	out = append([]byte{}, p.Buf...)
	FreeBinaryProtocolBuffer(p)
	return out, err != nil
}

// VerifSkipPrim runs one of the unexported skipping primitives of BinaryProtocol on (buf, rd):
// kind 0 skipn(n), 1 skipstr(), 2 next_nopanic(n). Returns: error came back, p.Read afterwards, bytes returned (kind 2).
func VerifSkipPrim(kind int, buf []byte, rd, n int) (errd bool, after int, ret []byte) {
	p := &BinaryProtocol{Buf: buf, Read: rd}
	var err error
	switch kind {
	case 0:
		err = p.skipn(n)
	case 1:
		err = p.skipstr()
	default:
		ret, err = p.next_nopanic(n)
	}
	return err != nil, p.Read, ret
}
