//ovl:internal/util/zz_verif_c14.go
//go:build verif

package util

// VerifKind tells which structure FieldNameMap.Build chose: 0 none, 1 trie (pos = its single position), 2 hash.
func (ft FieldNameMap) VerifKind() (kind int, pos int) {
	if ft.trie != nil {
		pos = -1
		if len(ft.trie.Positions) > 0 {
			pos = ft.trie.Positions[0]
		}
		return 1, pos
	}
	if ft.hash != nil {
		return 2, -1
	}
	return 0, -1
}
