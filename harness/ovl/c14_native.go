//ovl:internal/native/avx2/zz_verif_c14.go
//go:build verif

package avx2

import (
	"sync"
	"unsafe"

	"github.com/bytedance/sonic/loader"
	"github.com/cloudwego/dynamicgo/internal/caching"
)

var verifOnce sync.Once

// the dispatcher of internal/native does not bind hm_get / trie_get; bind them to a second copy of the native text
func verifLoad() {
	verifOnce.Do(func() {
		loader.WrapGoC(Text__native_entry__, Funcs, []loader.GoC{{"_hm_get", nil, &__hm_get}, {"_trie_get", nil, &__trie_get}}, "avx2verif", "avx2/native.c")
	})
}

// VerifHmGet / VerifTrieGet expose the native twins of caching.HashMap.Get / caching.TrieTree.Get (native/map.c) to the C14 harness.
func VerifHmGet(hm *caching.HashMap, k *string) unsafe.Pointer {
	verifLoad()
	return hm_get(hm, k)
}

func VerifTrieGet(t *caching.TrieTree, k *string) unsafe.Pointer {
	verifLoad()
	return trie_get(t, k)
}
