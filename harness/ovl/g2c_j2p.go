//ovl:conv/j2p/zz_verif_g2c.go
//go:build verif

package j2p

import (
	"github.com/cloudwego/dynamicgo/proto"
	"github.com/cloudwego/dynamicgo/proto/binary"
)

// VerifEncodeMapKey runs the unexported encodeMapKey on a fresh visitor whose protocol buffer already holds `prefix`
// (generated-definition check 991). Returns the buffer afterwards and whether an error came back.
func VerifEncodeMapKey(prefix []byte, key string, t uint8) ([]byte, bool) {
	p := binary.NewBinaryProtocolBuffer()
	p.Buf = append(p.Buf[:0], prefix...)
	v := &visitorUserNode{p: p}
	err := v.encodeMapKey(key, proto.Type(t))
	out := append([]byte{}, p.Buf...)
	p.Recycle()
	return out, err != nil
}
