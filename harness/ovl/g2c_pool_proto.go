//ovl:proto/binary/zz_verif_g2c_pool.go
//go:build verif

package binary

// VerifState reads the fields of a protocol object that decide what a later user of the pooled object sees (check 1291).
func (p *BinaryProtocol) VerifState() (lenBuf, capBuf, read int, borrowed bool) {
	return len(p.Buf), cap(p.Buf), p.Read, p.borrowed
}
