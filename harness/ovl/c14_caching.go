//ovl:internal/caching/zz_verif_c14.go
//go:build verif

package caching

// VerifAscii2Int exposes the unexported trie bucket function to the C14 harness.
func VerifAscii2Int(c byte) uint8 { return ascii2Int(c) }
