//ovl:internal/native/zz_verif_flavour.go
//go:build verif

// Verification-only accessor (compiled through `go build -overlay`, never written into the repository):
// re-binds the five native stubs (__j2t_fsm_exec, __tb_skip, __Quote, __I64toa, __F64toa) to one SIMD flavour
// by calling the package's own unexported binders.
package native

import (
	"unsafe"

	"github.com/klauspost/cpuid/v2"
)

var verifFlavour = "init"

type verifBinding struct {
	quote  func(s unsafe.Pointer, nb int, dp unsafe.Pointer, dn unsafe.Pointer, flags uint64) int
	i64toa func(out unsafe.Pointer, val int64) (ret int)
	f64toa func(out unsafe.Pointer, val float64) (ret int)
	j2t    func(fsm unsafe.Pointer, buf unsafe.Pointer, src unsafe.Pointer, flag uint64) (ret uint64)
	skip   func(st unsafe.Pointer, s unsafe.Pointer, n int, t uint8) (ret int)
}

// each flavour is loaded (loader.WrapGoC) at most once; later switches only re-assign the five stub variables
var verifBound = map[string]verifBinding{}

// VerifUse re-binds the native stubs to the flavour "avx2" | "avx" | "sse". It returns false (and binds nothing)
// when the name is unknown or the CPU lacks the instruction set.
func VerifUse(name string) bool {
	if !VerifHas(name) {
		return false
	}
	if b, ok := verifBound[name]; ok {
		__Quote, __I64toa, __F64toa, __j2t_fsm_exec, __tb_skip = b.quote, b.i64toa, b.f64toa, b.j2t, b.skip
		verifFlavour = name
		return true
	}
	switch name {
	case "avx2":
		useAVX2()
	case "avx":
		useAVX()
	case "sse":
		useSSE()
	default:
		return false
	}
	verifBound[name] = verifBinding{__Quote, __I64toa, __F64toa, __j2t_fsm_exec, __tb_skip}
	verifFlavour = name
	return true
}

// VerifHas reports whether the CPU can execute the flavour (CPUID, independent of SONIC_MODE).
func VerifHas(name string) bool {
	switch name {
	case "avx2":
		return cpuid.CPU.Has(cpuid.AVX2)
	case "avx":
		return cpuid.CPU.Has(cpuid.AVX)
	case "sse":
		return cpuid.CPU.Has(cpuid.SSE)
	}
	return false
}

// VerifFlavour names the flavour bound last by VerifUse ("init" = the package's own choice at init).
func VerifFlavour() string { return verifFlavour }

// VerifStubAddrs returns the entry addresses the five stubs are bound to right now (evidence that a re-bind took effect).
func VerifStubAddrs() [5]uintptr {
	return [5]uintptr{fnAddr(unsafe.Pointer(&__j2t_fsm_exec)), fnAddr(unsafe.Pointer(&__tb_skip)), fnAddr(unsafe.Pointer(&__Quote)),
		fnAddr(unsafe.Pointer(&__I64toa)), fnAddr(unsafe.Pointer(&__F64toa))}
}

// a func variable holds a pointer to a funcval whose first word is the entry pc
func fnAddr(fv unsafe.Pointer) uintptr {
	p := *(*unsafe.Pointer)(fv)
	if p == nil {
		return 0
	}
	return *(*uintptr)(p)
}
