//go:build verif

package main

import (
	"github.com/cloudwego/dynamicgo/proto"
	pbinary "github.com/cloudwego/dynamicgo/proto/binary"
	"github.com/cloudwego/dynamicgo/thrift"
)

// Generated-definition checks, skipping primitives:
//   192 (C01) / 693 (C06)                         thrift skipn / skipstr / next_nopanic  (gen/Gen_thrift.v)
//   692 (C06) / 792 (C07) / 892 (C08) / 1092 (C10)  proto/binary Skip by wire type       (gen/Gen_protoskip.v)
func init() {
	for _, p := range []struct {
		prop string
		id   int
	}{{"C01", 192}, {"C06", 693}} {
		base, id := generators[p.prop], p.id
		fastID := map[int]int{192: 193, 693: 694}[id]
		generators[p.prop] = func(r *rng, n int) {
			g := g2cRng(r)
			genThriftSkipPrims(g, id)
			genSkipFast(g, fastID)
			base(r, n)
		}
	}
	for _, p := range []struct {
		prop string
		id   int
	}{{"C06", 692}, {"C07", 792}, {"C08", 892}, {"C10", 1092}} {
		base, id := generators[p.prop], p.id
		generators[p.prop] = func(r *rng, n int) {
			genProtoSkip(g2cRng(r), id)
			base(r, n)
		}
	}
}

func genThriftSkipPrims(r *rng, id int) {
	emit := func(kind int, buf []byte, rd, n int) {
		errd, after, ret := thrift.VerifSkipPrim(kind, append([]byte{}, buf...), rd, n)
		out.emit(id, fi(kind), fx(buf), fi(rd), fi(n), fi(b2i(errd)), fi(after), fx(ret))
	}
	for l := 0; l <= 10; l++ {
		buf := r.bytes(l)
		for rd := 0; rd <= l; rd++ {
			for _, n := range []int{0, 1, 2, 4, 8, l - rd, l - rd + 1, l - rd - 1, 1 << 20, 1 << 40} {
				if n < 0 {
					continue
				}
				emit(0, buf, rd, n)
				emit(2, buf, rd, n)
			}
		}
	}
	// skipstr: prefix bytes, a 4-byte length relative to what follows, a payload
	for rep := 0; rep < 400; rep++ {
		pre := r.intn(4)
		pay := r.intn(9)
		var ln uint32
		switch r.intn(8) {
		case 0:
			ln = uint32(pay)
		case 1:
			ln = uint32(pay + 1)
		case 2:
			ln = uint32(r.intn(pay + 1))
		case 3:
			ln = 0x7fffffff
		case 4:
			ln = 0x80000000
		case 5:
			ln = 0xffffffff
		case 6:
			ln = 0
		default:
			ln = uint32(r.next())
		}
		buf := append(r.bytes(pre), byte(ln>>24), byte(ln>>16), byte(ln>>8), byte(ln))
		buf = append(buf, r.bytes(pay)...)
		if r.chance(20) && len(buf) > 0 {
			buf = buf[:r.intn(len(buf))]
		}
		rd := pre
		if rd > len(buf) {
			rd = len(buf)
		}
		emit(1, buf, rd, 0)
	}
}

func pbVarint(v uint64) []byte {
	var b []byte
	for v >= 0x80 {
		b = append(b, byte(v)|0x80)
		v >>= 7
	}
	return append(b, byte(v))
}

func genProtoSkip(r *rng, id int) {
	emit := func(buf []byte, rd int, wt int) {
		p := pbinary.NewBinaryProtol(append([]byte{}, buf...))
		p.Read = rd
		var err error
		ok, _ := noPanic(func() { err = p.Skip(proto.WireType(wt), false) })
		out.emit(id, fx(buf), fi(rd), fi(wt), fi(b2i(err != nil)), fi(p.Read), fi(b2i(!ok)))
		p.Recycle()
	}
	var bufs [][]byte
	for _, v := range boundaries64() {
		bufs = append(bufs, pbVarint(v))
	}
	for l := 0; l <= 12; l++ {
		b := make([]byte, l)
		for i := range b {
			b[i] = 0x80 | byte(r.next())
		}
		bufs = append(bufs, b) // continuation bits only: truncated / overlong
		if l > 0 {
			c := append([]byte{}, b...)
			c[l-1] &= 0x7f
			bufs = append(bufs, c)
			d := append([]byte{}, c...)
			d[l-1] = 1
			bufs = append(bufs, d)
		}
	}
	for k := 0; k < 150; k++ { // length-delimited: declared length around the bytes that follow
		pay := r.intn(10)
		var ln uint64
		switch r.intn(7) {
		case 0:
			ln = uint64(pay)
		case 1:
			ln = uint64(pay + 1)
		case 2:
			ln = uint64(r.intn(pay + 1))
		case 3:
			ln = 1<<63 - uint64(r.intn(3))
		case 4:
			ln = ^uint64(0) - uint64(r.intn(12))
		case 5:
			ln = 1 << 63
		default:
			ln = r.next()
		}
		bufs = append(bufs, append(pbVarint(ln), r.bytes(pay)...))
	}
	for k := 0; k < 100; k++ {
		bufs = append(bufs, r.bytes(r.intn(14)))
	}
	for _, b := range bufs {
		for wt := 0; wt <= 7; wt++ {
			emit(b, 0, wt)
			if len(b) > 0 {
				pre := r.bytes(1 + r.intn(3))
				emit(append(pre, b...), len(pre), wt)
			}
		}
		emit(b, len(b), r.intn(8))
	}
}

// 193 (C01) / 694 (C06): SkipGo on a LIST / SET / MAP header with fixed-size element types and a payload of given length: the count x
// width product must be exact (counts up to 2^31-1 with short payloads; a product computed in int32 would wrap and "succeed")
func genSkipFast(r *rng, id int) {
	fixed := []thrift.Type{thrift.BOOL, thrift.BYTE, thrift.I16, thrift.I32, thrift.I64, thrift.DOUBLE}
	counts := []int64{0, 1, 2, 3, 255, 65536, 1 << 28, 1 << 29, 1<<29 + 1, 1 << 30, 1<<30 + 3, 1<<31 - 1, 268435457, 536870913, int64(r.intn(1 << 31))}
	for _, kt := range fixed {
		for _, sz := range counts {
			for _, pay := range []int{0, 1, 7, 8, 16, 24, 40} {
				// list
				buf := []byte{byte(kt), byte(sz >> 24), byte(sz >> 16), byte(sz >> 8), byte(sz)}
				buf = append(buf, r.bytes(pay)...)
				p := thrift.NewBinaryProtocol(buf)
				err := p.SkipGo(thrift.LIST, 8)
				out.emit(id, fi(0), fi(int(kt)), fi(0), fn(sz), fi(pay), fi(b2i(err != nil)), fi(p.Read))
				// map
				vt := fixed[r.intn(len(fixed))]
				mbuf := []byte{byte(kt), byte(vt), byte(sz >> 24), byte(sz >> 16), byte(sz >> 8), byte(sz)}
				mbuf = append(mbuf, r.bytes(pay)...)
				q := thrift.NewBinaryProtocol(mbuf)
				err = q.SkipGo(thrift.MAP, 8)
				out.emit(id, fi(1), fi(int(kt)), fi(int(vt)), fn(sz), fi(pay), fi(b2i(err != nil)), fi(q.Read))
			}
		}
	}
}
