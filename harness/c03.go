//go:build verif

package main

// C03 — Thrift -> JSON (conv/t2j).  Case 301: one conversion (descriptor shape, options, thrift bytes, what the
// implementation returned).  Cases 302/303: the number / text base models against the Go reference libraries.

import (
	"os"
	"context"
	"encoding/base64"
	"encoding/binary"
	"fmt"
	"math"
	"sort"
	"strconv"
	"strings"
	"unicode/utf8"

	"github.com/cloudwego/dynamicgo/conv"
	"github.com/cloudwego/dynamicgo/conv/t2j"
	djson "github.com/cloudwego/dynamicgo/internal/json"
	"github.com/cloudwego/dynamicgo/meta"
	"github.com/cloudwego/dynamicgo/thrift"
	"github.com/cloudwego/dynamicgo/thrift/base"
)

func init() { generators["C03"] = genC03 }

var debug03 = os.Getenv("C03_DEBUG") != ""

const (
	o3Int642String = 1 << iota
	o3ByteAsUint8
	o3NoBase64Binary
	o3DisallowUnknown
	o3UseNativeSkip
	o3ValueMapping
	o3ThriftBase
	o3ConvertException
	o3BaseInCtx // a *base.BaseResp is passed in the context
	o3WriteDefault
	o3WriteRequire
)

// per-field extras that thriftgen's Fld does not carry
type fx03 struct {
	alias    string
	jsconv   bool
	respBase bool
}

type gen03 struct {
	*tgen
	extra map[*Fld]*fx03
	base  *Ty // the base.BaseResp shape (when used)
}

var aliasPool = []string{"k", "with space", "Ünï", "a.b", "x-y", "0", "Key", "中文", "a_b_c", "q?"}

// pieces of special aliases; a backslash is only ever written doubled (thriftgo keeps "\\" as two backslashes and turns \" into ")
var aliasSpecial = []string{"\"", "\\\\", "\t", "\n", "\x01", "\u00e9", "\u2028", "\U0001F600", "a", "k", " "}

// map<string,V> -> map<binary,V> for some maps (keys are written as raw text either way)
func (g *gen03) binaryKeys(t *Ty) {
	switch t.K {
	case thrift.MAP:
		if t.Key.K == thrift.STRING && !t.Key.Binary && g.r.chance(35) {
			t.Key = &Ty{K: thrift.STRING, Binary: true}
		}
		g.binaryKeys(t.Elem)
	case thrift.LIST, thrift.SET:
		g.binaryKeys(t.Elem)
	}
}

// the aliases as the parsed descriptor reports them (the case carries what the descriptor declares, not what the
// IDL printer meant to write)
func (g *gen03) aliasesFromDesc(t *Ty, d *thrift.TypeDescriptor) {
	if d == nil {
		return
	}
	switch t.K {
	case thrift.STRUCT:
		if t == g.base || d.Struct() == nil {
			return
		}
		for _, f := range t.Fields {
			fd := d.Struct().FieldById(thrift.FieldID(f.ID))
			if fd == nil {
				die("C03: field %d of %s missing in the descriptor", f.ID, t.Name)
			}
			g.extra[f].alias = fd.Alias()
			g.extra[f].respBase = fd.IsResponseBase() // only a field of the root struct is the response base
			g.aliasesFromDesc(f.T, fd.Type())
		}
	case thrift.MAP:
		g.aliasesFromDesc(t.Key, d.Key())
		g.aliasesFromDesc(t.Elem, d.Elem())
	case thrift.LIST, thrift.SET:
		g.aliasesFromDesc(t.Elem, d.Elem())
	}
}

func (g *gen03) decorate(root *Ty) {
	for _, s := range g.structs {
		for _, f := range s.Fields {
			e := &fx03{alias: f.Name}
			if g.r.chance(35) {
				e.alias = fmt.Sprintf("%s%d", aliasPool[g.r.intn(len(aliasPool))], f.ID)
				if g.r.chance(45) {
					// api.key may be ANY string literal: aliases over an escape-relevant alphabet
					e.alias = ""
					for k := 1 + g.r.intn(3); k > 0; k-- {
						e.alias += aliasSpecial[g.r.intn(len(aliasSpecial))]
					}
					e.alias += fmt.Sprintf("%d", f.ID)
				}
			}
			g.binaryKeys(f.T)
			k := f.T.K
			okjs := k == thrift.I08 || k == thrift.I16 || k == thrift.I32 || k == thrift.I64 || k == thrift.DOUBLE || (k == thrift.STRING && !f.T.Binary)
			if k == thrift.LIST {
				ek := f.T.Elem.K
				okjs = ek == thrift.I08 || ek == thrift.I16 || ek == thrift.I32 || ek == thrift.I64 || ek == thrift.DOUBLE
			}
			if (okjs && g.r.chance(30)) || g.r.chance(2) {
				e.jsconv = true
			}
			g.extra[f] = e
		}
	}
}

// declare a share of the types through typedefs: scalars, binary, string, containers, structs, element / key / value types,
// chains of typedefs.  The descriptor the model sees is the resolved type.
func (g *gen03) typedefs() {
	n := 0
	var visit func(t *Ty)
	seen := map[*Ty]bool{}
	visit = func(t *Ty) {
		if t == nil || seen[t] || t == g.base {
			return
		}
		seen[t] = true
		for _, f := range t.Fields {
			visit(f.T)
		}
		visit(t.Key)
		visit(t.Elem)
		if g.r.chance(40) || (t.K == thrift.STRING && t.Binary && g.r.chance(50)) {
			for k := 1 + g.r.intn(3)/2; k > 0; k-- {
				n++
				t.TD = append(t.TD, fmt.Sprintf("Td%d", n))
			}
		}
	}
	for _, s := range g.structs {
		visit(s)
	}
}

// which root fields the PARSED descriptor treats as the response base (the IDL parser recognises base.BaseResp only in the
// struct it meets at recursion depth 0: a request struct reached through a typedef is one level down and keeps its base
// field as an ordinary member — the descriptor shape of the case says what the descriptor says)
func (g *gen03) baseFromDesc(t *Ty, d *thrift.TypeDescriptor) {
	if t.K != thrift.STRUCT {
		return
	}
	for _, f := range t.Fields {
		if fd := d.Struct().FieldById(thrift.FieldID(f.ID)); fd != nil {
			g.extra[f].respBase = fd.IsResponseBase()
		}
	}
}

func (g *gen03) idl03(root *Ty, useBase bool) (string, map[string]string) {
	var sb strings.Builder
	sb.WriteString("namespace go verif\n")
	if useBase {
		sb.WriteString("include \"base.thrift\"\n")
	}
	sb.WriteString(typedefDecls(append(append([]*Ty(nil), g.structs...), root)))
	for i := len(g.structs) - 1; i >= 0; i-- {
		s := g.structs[i]
		if s == g.base {
			continue
		}
		sb.WriteString("struct " + s.Name + " {\n")
		for _, f := range s.Fields {
			req := ""
			if f.Req == 1 {
				req = "required "
			} else if f.Req == 2 {
				req = "optional "
			}
			e := g.extra[f]
			var ann []string
			if e.alias != f.Name {
				ann = append(ann, "api.key=\""+strings.ReplaceAll(e.alias, "\"", "\\\"")+"\"")
			}
			if e.jsconv {
				ann = append(ann, `api.js_conv=""`)
			}
			as := ""
			if len(ann) > 0 {
				as = " (" + strings.Join(ann, ", ") + ")"
			}
			tn := f.T.idlName()
			if f.T == g.base {
				tn = "base.BaseResp"
			}
			sb.WriteString(fmt.Sprintf("  %d: %s%s %s%s\n", f.ID, req, tn, f.Name, as))
		}
		sb.WriteString("}\n")
	}
	sb.WriteString("service Svc { void M(1: " + root.idlName() + " req) }\n")
	inc := map[string]string{"a.thrift": sb.String()}
	if useBase {
		inc["base.thrift"] = "namespace go base\nstruct BaseResp {\n 1: string StatusMessage = \"\",\n 2: i32 StatusCode = 0,\n 3: optional map<string, string> Extra,\n}\n"
	}
	return sb.String(), inc
}

func parse03(idl string, inc map[string]string, opts thrift.Options) (*thrift.TypeDescriptor, error) {
	svc, err := opts.NewDescritorFromContent(context.Background(), "a.thrift", idl, inc, true)
	if err != nil {
		return nil, err
	}
	fn := svc.Functions()["M"]
	if fn == nil {
		return nil, fmt.Errorf("no function M")
	}
	return fn.Request().Struct().FieldById(1).Type(), nil
}

// descriptor shape as case fields (prefix order), see coq/model/Check03.v parse_desc
func (g *gen03) descFields(t *Ty, out *[]string) {
	*out = append(*out, fi(int(t.K)))
	switch t.K {
	case thrift.STRING:
		*out = append(*out, fb(t.Binary))
	case thrift.STRUCT:
		*out = append(*out, fi(len(t.Fields)))
		for _, f := range t.Fields {
			e := g.extra[f]
			flags := 0
			if e.jsconv {
				flags |= 1
			}
			if e.respBase {
				flags |= 2
			}
			req := f.Req
			if e.respBase {
				req = 2 // the parser makes the base field optional
			}
			*out = append(*out, fi(int(f.ID)), fs(e.alias), fi(req), fi(flags))
			g.descFields(f.T, out)
		}
	case thrift.MAP:
		g.descFields(t.Key, out)
		g.descFields(t.Elem, out)
	case thrift.LIST, thrift.SET:
		g.descFields(t.Elem, out)
	}
}

// ---- value classes -------------------------------------------------------------------------------

var f64Classes = []uint64{
	0, 0x8000000000000000, 1, 2, 0x000fffffffffffff, 0x0010000000000000, 0x0010000000000001, 0x7fefffffffffffff, 0xffefffffffffffff,
	0x3ff0000000000000, 0xbff0000000000000, 0x3ff0000000000001, 0x3fefffffffffffff,
	0x4340000000000000, 0x433fffffffffffff, 0x4340000000000001, // 2^53, 2^53-1, 2^53+2
	0x3fb999999999999a, 0x3fd3333333333333, 0x44b52d02c7e14af6, 0x4415af1d78b58c40, 0x444b1ae4d6e2ef50, // 0.1 0.3 1e23 1e20 1e21
	0x3eb0c6f7a0b5ed8d, 0x3e7ad7f29abcaf48, // 1e-6 1e-7
	0x7ff0000000000000, 0xfff0000000000000, 0x7ff8000000000000, 0x7ff0000000000001, 0xfff8000000000000, 0x7fffffffffffffff,
	0x43e0000000000000, 0xc3e0000000000000, 0x43dfffffffffffff, 0x43e0000000000001, // +-2^63 (= float64(MaxInt64)) and neighbours
	0x43e07ad8f556c6c0, 0xc3e07ad8f556c6c0, 0x43e158e460913d00, 0x43e158e460913cff, // +-9.5e18, 1e19 and its predecessor
}

// integral doubles around the limits of the integer types: 2^k and 2^k +- ulp for k = 50..70, 10^k and its neighbours for
// k = 15..22, either sign (a formatter that routes integral values through an integer conversion breaks in [2^63, 1e19))
func integralF64(r *rng) uint64 {
	var b uint64
	if r.bool() {
		k := 50 + r.intn(21)
		b = uint64(1023+k) << 52
	} else {
		b = math.Float64bits(math.Pow10(15 + r.intn(8)))
	}
	switch r.intn(4) {
	case 0:
		b--
	case 1:
		b++
	case 2:
		b += uint64(r.intn(1 << 12)) // a few more integral values of the same binade (k >= 52) / near it
	}
	return b | uint64(r.intn(2))<<63
}

func (g *gen03) genF64() uint64 {
	r := g.r
	switch r.intn(12) {
	case 10, 11:
		return integralF64(r)
	case 0, 1:
		return f64Classes[r.intn(len(f64Classes))]
	case 2:
		return math.Float64bits(math.Pow10(r.intn(632) - 323))
	case 3:
		return r.next() // any bit pattern (NaN with probability 2^-11)
	case 4:
		return r.next() & 0x800fffffffffffff // subnormals
	case 5:
		return math.Float64bits(float64(int64(r.u64()))) // integers
	case 6:
		// short decimals
		f, _ := strconv.ParseFloat(fmt.Sprintf("%d.%d", r.intn(1000)-500, r.intn(1000)), 64)
		return math.Float64bits(f)
	case 7:
		// near a power of two (halfway-rich neighbourhood)
		e := uint64(r.intn(2046) + 1)
		m := uint64(0)
		if r.bool() {
			m = 0x000fffffffffffff - uint64(r.intn(3))
		} else {
			m = uint64(r.intn(3))
		}
		return e<<52 | m | uint64(r.intn(2))<<63
	default:
		fl := []uint64{0, 0x3ff0000000000000, 0xbff0000000000000, 0x4059000000000000, 0x400921fb54442d18, 0xc00921fb54442d18}
		return fl[r.intn(len(fl))]
	}
}

func (g *gen03) genInt03(k thrift.Type) int64 {
	r := g.r
	var v int64
	switch r.intn(5) {
	case 0:
		v = int64(r.u64())
	case 1:
		p := int64(1)
		for i := r.intn(19); i > 0; i-- {
			p *= 10
		}
		v = p + int64(r.intn(3)) - 1
		if r.bool() {
			v = -v
		}
	case 2:
		bits := []uint{7, 8, 15, 16, 31, 32, 63}
		b := bits[r.intn(len(bits))]
		v = int64(uint64(1)<<b) + int64(r.intn(3)) - 1
		if r.bool() {
			v = -v
		}
	default:
		v = int64(r.intn(201)) - 100
	}
	switch k {
	case thrift.BOOL:
		if r.chance(90) {
			return int64(r.intn(2))
		}
		return int64(r.intn(256)) // non-canonical bool byte
	case thrift.I08:
		return int64(int8(v))
	case thrift.I16:
		return int64(int16(v))
	case thrift.I32:
		return int64(int32(v))
	}
	return v
}

var strPieces = []string{
	"\x00", "\x01", "\x07", "\x08", "\t", "\n", "\x0b", "\x0c", "\r", "\x1b", "\x1f", "\"", "\\", "/", "\x7f", " ",
	"\u0080", "\u07ff", "\u0800", "\u2028", "\u2029", "\uffff", "\U0001F600", "\U0010FFFF", "\u00e9", "\u4e2d",
	"a", "b", "Z", "0", "<", ">", "&", "'", "\\u0041", "\\n", "\"\"",
}
var badUTF8 = []string{"\x80", "\xc0\x80", "\xff", "\xe2\x82", "\xed\xa0\x80", "\xf4\x90\x80\x80", "\xc3", "\xf0\x9f\x98"}

func (g *gen03) strLen() int {
	r := g.r
	switch r.intn(20) {
	case 0:
		return 15 + r.intn(3)
	case 1:
		return 31 + r.intn(3)
	case 2:
		return 63 + r.intn(3)
	case 3:
		if r.chance(25) {
			return 4095 + r.intn(3)
		}
		return 127 + r.intn(3)
	case 4:
		return 0
	default:
		return r.intn(41)
	}
}

func (g *gen03) genStr03(allowBad bool) []byte {
	r := g.r
	n := g.strLen()
	var b []byte
	plain := r.chance(40)
	dense := !plain && r.chance(12) // only bytes that need an escape: 2x..6x expansion, forces the quote loop to grow the buffer
	if dense && n < 16 && r.chance(50) {
		n = 64 + r.intn(200)
	}
	for len(b) < n {
		switch {
		case dense:
			b = append(b, "\x00\x01\x1f\"\\\n\t\x08\x0c"[r.intn(9)])
		case plain && r.chance(85):
			b = append(b, byte('a'+r.intn(26)))
		case allowBad && r.chance(3):
			b = append(b, badUTF8[r.intn(len(badUTF8))]...)
		default:
			b = append(b, strPieces[r.intn(len(strPieces))]...)
		}
	}
	if len(b) > n && n >= 15 && utf8.Valid(b) {
		// keep the requested length exactly when it matters (block sizes): pad / cut at a rune boundary
		for len(b) > n {
			_, sz := utf8.DecodeLastRune(b)
			b = b[:len(b)-sz]
		}
		for len(b) < n {
			b = append(b, 'x')
		}
	}
	return b
}

func (g *gen03) genValue03(t *Ty, depth int, o *opt03) *Val {
	r := g.r
	v := &Val{T: t}
	switch t.K {
	case thrift.BOOL, thrift.I08, thrift.I16, thrift.I32, thrift.I64:
		v.I = g.genInt03(t.K)
	case thrift.DOUBLE:
		v.D = g.genF64()
		if o.nonFinite && r.chance(35) {
			nf := []uint64{0x7ff0000000000000, 0xfff0000000000000, 0x7ff8000000000000, 0x7ff0000000000001, 0xfff8000000000000, 0x7fffffffffffffff, 0x7ff4000000000000 | r.next()>>13}
			v.D = nf[r.intn(len(nf))]
		}
		if !o.nonFinite {
			for math.IsNaN(math.Float64frombits(v.D)) || math.IsInf(math.Float64frombits(v.D), 0) {
				v.D = g.genF64()
			}
		}
	case thrift.STRING:
		if t.Binary {
			n := r.intn(10)
			if r.chance(10) {
				n = 46 + r.intn(6)
			} else if r.chance(1) {
				n = bigBinaryLens[r.intn(7)] // up to 12289: crosses the 4096 / 8192 / 12288 block boundaries
			}
			v.S = r.bytes(n)
			if r.chance(40) { // text-like binary (valid UTF-8, escape-relevant)
				for i := range v.S {
					v.S[i] = "abcXYZ019 \"\\/\n\t=+"[r.intn(17)]
				}
				if n == 0 {
					v.S = []byte("key")
				}
			}
		} else {
			v.S = g.genStr03(o.badUTF8)
		}
	case thrift.STRUCT:
		perm := make([]int, len(t.Fields))
		for i := range perm {
			perm[i] = i
		}
		for i := len(perm) - 1; i > 0; i-- {
			j := r.intn(i + 1)
			perm[i], perm[j] = perm[j], perm[i]
		}
		used := map[int16]bool{}
		for _, f := range t.Fields {
			used[f.ID] = true
		}
		for _, i := range perm {
			f := t.Fields[i]
			if (f.Req != 1 && r.chance(20)) || (f.Req == 1 && o.dropRequired && r.chance(30)) {
				continue
			}
			if o.unknown && r.chance(20) {
				g.addUnknown(v, used, depth, o)
			}
			v.FIDs = append(v.FIDs, f.ID)
			v.Fields = append(v.Fields, g.genValue03(f.T, depth+1, o))
		}
		if o.unknown && r.chance(25) {
			g.addUnknown(v, used, depth, o)
		}
	case thrift.LIST, thrift.SET:
		n := r.intn(4)
		if r.chance(15) {
			n = 0
		} else if r.chance(4) {
			n = 17 + r.intn(20)
		}
		for i := 0; i < n; i++ {
			v.Elems = append(v.Elems, g.genValue03(t.Elem, depth+1, o))
		}
	case thrift.MAP:
		n := r.intn(4)
		if r.chance(15) {
			n = 0
		}
		seen := map[string]bool{}
		for i := 0; i < n; i++ {
			k := g.genValue03(t.Key, depth+1, o)
			kb := string(k.encode(nil))
			if seen[kb] {
				continue
			}
			seen[kb] = true
			v.Keys = append(v.Keys, k)
			v.Elems = append(v.Elems, g.genValue03(t.Elem, depth+1, o))
		}
	}
	return v
}

// an unknown field: id not declared, any type shape
func (g *gen03) addUnknown(v *Val, used map[int16]bool, depth int, o *opt03) {
	var id int16
	for {
		id = int16(1 + g.r.intn(32767))
		if g.r.chance(50) {
			id = int16(1 + g.r.intn(300))
		}
		if !used[id] {
			break
		}
	}
	used[id] = true
	sub := &tgen{r: g.r, maxDepth: 2, maxFields: 3, keyKinds: g.keyKinds}
	ut := sub.genType(0)
	v.FIDs = append(v.FIDs, id)
	v.Fields = append(v.Fields, sub.genValue(ut, depth+1))
}

const dirtyChars = "\"\\,:{}[]0123456789"

type opt03 struct {
	nonFinite    bool
	badUTF8      bool
	unknown      bool
	dropRequired bool
}

func errClass03(e error) int {
	if e == nil {
		return 0
	}
	if _, ok := e.(meta.Error); ok {
		return 1
	}
	return 2
}

func genC03(r *rng, n int) {
	nBase := n / 10
	genC03Base(r.fork(), nBase)
	nConv := n - nBase
	nConv -= genC03BigBinary(r.fork(), n)
	r = r.fork()
	for made := 0; made < nConv; {
		g := &gen03{tgen: newTgen(r.fork()), extra: map[*Fld]*fx03{}}
		g.maxDepth = 3
		g.allowReq = true
		if g.r.chance(15) {
			g.keyKinds = append(g.keyKinds, thrift.BOOL, thrift.DOUBLE)
		}
		root := g.genStruct(0)
		// thrift base: one extra root field of type base.BaseResp
		useBase := g.r.chance(25)
		var baseFld *Fld
		if useBase {
			g.base = &Ty{K: thrift.STRUCT, Name: "BaseResp", Fields: []*Fld{
				{ID: 1, Name: "StatusMessage", T: &Ty{K: thrift.STRING}},
				{ID: 2, Name: "StatusCode", T: &Ty{K: thrift.I32}},
				{ID: 3, Name: "Extra", T: &Ty{K: thrift.MAP, Key: &Ty{K: thrift.STRING}, Elem: &Ty{K: thrift.STRING}}, Req: 2}}}
			g.structs = append(g.structs, g.base)
			id := int16(255)
			for _, f := range root.Fields {
				if f.ID == id {
					id = 254
				}
			}
			baseFld = &Fld{ID: id, Name: "BaseResp", T: g.base}
			root.Fields = append(root.Fields, baseFld)
		}
		// a success field with id 0 (ConvertException treats every other id as an exception)
		if g.r.chance(30) && len(root.Fields) > 0 && root.Fields[0] != baseFld {
			root.Fields[0].ID = 0
		}
		g.decorate(root)
		if g.r.chance(30) {
			g.typedefs()
		}
		if useBase {
			g.extra[baseFld].respBase = true
			g.extra[baseFld].jsconv = false
			for _, f := range g.base.Fields {
				g.extra[f].jsconv = false
				g.extra[f].alias = f.Name
			}
		}
		rootTy := root
		if g.r.chance(8) {
			// non-struct root
			switch g.r.intn(3) {
			case 0:
				rootTy = &Ty{K: thrift.LIST, Elem: root}
			case 1:
				rootTy = &Ty{K: thrift.MAP, Key: &Ty{K: thrift.STRING}, Elem: root}
			default:
				rootTy = &Ty{K: thrift.LIST, Elem: &Ty{K: thrift.DOUBLE}}
			}
		}
		idl, inc := g.idl03(rootTy, useBase)
		desc, err := parse03(idl, inc, thrift.Options{EnableThriftBase: useBase})
		if err != nil {
			die("C03: IDL does not parse: %v\n%s", err, idl)
		}
		g.aliasesFromDesc(rootTy, desc)
		g.baseFromDesc(rootTy, desc)
		var dfs []string
		g.descFields(rootTy, &dfs)

		for k := 0; k < 6 && made < nConv; k++ {
			vo := &opt03{nonFinite: g.r.chance(15), badUTF8: g.r.chance(10), unknown: g.r.chance(35), dropRequired: g.r.chance(8)}
			val := g.genValue03(rootTy, 0, vo)
			tb := val.encode(nil)
			for j := 0; j < 2 && made < nConv; j++ {
				opts := 0
				for b := 0; b < 8; b++ {
					if g.r.chance(30) {
						opts |= 1 << b
					}
				}
				if j == 0 && g.r.chance(40) {
					opts = 0
				}
				if !useBase {
					opts &^= o3ThriftBase
				}
				// fields the message does not carry, written by option (not together with ConvertException: the error text
				// would get the unset members appended, which no statement covers)
				if opts&o3ConvertException == 0 {
					if g.r.chance(20) {
						opts |= o3WriteDefault
					}
					if g.r.chance(20) {
						opts |= o3WriteRequire
					}
				}
				if opts&o3ThriftBase != 0 && g.r.chance(75) {
					opts |= o3BaseInCtx
				}
				mode := 0
				if j == 1 || g.r.chance(30) {
					mode = 1 + g.r.intn(4)
				}
				run03(g, desc, dfs, tb, opts, mode)
				made++
			}
		}
	}
}

func run03(g *gen03, desc *thrift.TypeDescriptor, dfs []string, tb []byte, opts int, mode int) {
	co := conv.Options{
		Int642String:         opts&o3Int642String != 0,
		ByteAsUint8:          opts&o3ByteAsUint8 != 0,
		NoBase64Binary:       opts&o3NoBase64Binary != 0,
		DisallowUnknownField: opts&o3DisallowUnknown != 0,
		UseNativeSkip:        opts&o3UseNativeSkip != 0,
		EnableValueMapping:   opts&o3ValueMapping != 0,
		EnableThriftBase:     opts&o3ThriftBase != 0,
		ConvertException:     opts&o3ConvertException != 0,
		WriteDefaultField:    opts&o3WriteDefault != 0,
		WriteRequireField:    opts&o3WriteRequire != 0,
	}
	cv := t2j.NewBinaryConv(co)
	// the options are also published under the documented context key (annotations may consult them)
	ctx := context.WithValue(context.Background(), conv.CtxKeyConvOptions, co)
	var br *base.BaseResp
	if opts&o3BaseInCtx != 0 {
		br = base.NewBaseResp()
		ctx = context.WithValue(ctx, conv.CtxKeyThriftRespBase, br)
	}
	src := append([]byte(nil), tb...)
	var outb []byte
	var err error
	prefixOK := 1
	ok, pmsg := noPanic(func() {
		switch mode {
		case 0:
			outb, err = cv.Do(ctx, desc, src)
		case 1: // nil buffer (zero capacity)
			var buf []byte
			err = cv.DoInto(ctx, desc, src, &buf)
			outb = buf
		case 2: // dirty capacity, zero length
			buf := g.r.bytes(64 + g.r.intn(200))
			for i := range buf {
				if g.r.chance(50) {
					buf[i] = dirtyChars[g.r.intn(len(dirtyChars))]
				}
			}
			buf = buf[:0]
			err = cv.DoInto(ctx, desc, src, &buf)
			outb = buf
		case 3: // non-empty prefix
			pre := []byte("PREFIX\"\\")
			buf := make([]byte, len(pre), len(pre)+g.r.intn(40))
			copy(buf, pre)
			err = cv.DoInto(ctx, desc, src, &buf)
			if len(buf) >= len(pre) && string(buf[:len(pre)]) == string(pre) {
				outb = buf[len(pre):]
			} else {
				outb = buf
				prefixOK = 0
			}
		default: // tiny capacity
			buf := make([]byte, 0, 1+g.r.intn(3))
			err = cv.DoInto(ctx, desc, src, &buf)
			outb = buf
		}
	})
	ec := errClass03(err)
	if !ok {
		ec = 3
		if debug03 {
			fmt.Fprintln(os.Stderr, "panic:", pmsg)
		}
	}
	if ec == 2 {
		outb = []byte(err.Error())
	}
	fields := []string{fi(opts), fi(mode)}
	fields = append(fields, dfs...)
	fields = append(fields, fx(tb), fi(ec), fx(outb), fi(prefixOK))
	if br != nil {
		fields = append(fields, fi(1), fs(br.StatusMessage), fn(int64(br.StatusCode)))
		keys := make([]string, 0, len(br.Extra))
		for k := range br.Extra {
			keys = append(keys, k)
		}
		sort.Strings(keys)
		fields = append(fields, fi(len(keys)))
		for _, k := range keys {
			fields = append(fields, fs(k), fs(br.Extra[k]))
		}
	} else {
		fields = append(fields, fi(0))
	}
	out.emit(301, fields...)
}

// ---- binaries longer than the encoder's / pool's block sizes ------------------------------------------
// lengths around 4096, 8192, 12288 and one far above 64 KiB, as a struct field, a list element and a map value,
// with base64 (random bytes) and with NoBase64Binary (printable + escape-relevant bytes). Returns the number of cases.
var bigBinaryLens = []int{4095, 4096, 4097, 8191, 8192, 8193, 12289, 70001}

func genC03BigBinary(r *rng, n int) int {
	reps := n / 6000
	if reps < 1 {
		if n < 1000 {
			return 0
		}
		reps = 1
	}
	g := &gen03{tgen: newTgen(r), extra: map[*Fld]*fx03{}}
	bin := &Ty{K: thrift.STRING, Binary: true}
	root := &Ty{K: thrift.STRUCT, Name: "BB", Fields: []*Fld{
		{ID: 1, Name: "b", T: bin},
		{ID: 2, Name: "lb", T: &Ty{K: thrift.LIST, Elem: bin}},
		{ID: 3, Name: "mb", T: &Ty{K: thrift.MAP, Key: &Ty{K: thrift.STRING}, Elem: bin}},
		{ID: 4, Name: "x", T: &Ty{K: thrift.I32}}}}
	g.structs = append(g.structs, root)
	for _, f := range root.Fields {
		g.extra[f] = &fx03{alias: f.Name}
	}
	idl, inc := g.idl03(root, false)
	desc, err := parse03(idl, inc, thrift.Options{})
	if err != nil {
		die("C03: big-binary IDL does not parse: %v", err)
	}
	var dfs []string
	g.descFields(root, &dfs)
	made := 0
	for rep := 0; rep < reps; rep++ {
		for li, ln := range bigBinaryLens {
			for pos := 0; pos < 3; pos++ {
				for nob64 := 0; nob64 < 2; nob64++ {
					n := ln
					if rep > 0 {
						n += r.intn(7) - 3
					}
					var payload []byte
					if nob64 == 0 {
						payload = r.bytes(n)
					} else {
						payload = make([]byte, n)
						for i := range payload {
							payload[i] = "abcXYZ019 \"\\/\n\t{}[],:"[r.intn(21)]
						}
					}
					small := &Val{T: bin, S: r.bytes(r.intn(5))}
					big := &Val{T: bin, S: payload}
					v := &Val{T: root}
					switch pos {
					case 0:
						v.FIDs = []int16{1, 4}
						v.Fields = []*Val{big, {T: root.Fields[3].T, I: int64(li)}}
					case 1:
						lv := &Val{T: root.Fields[1].T, Elems: []*Val{small, big, small}}
						v.FIDs = []int16{4, 2}
						v.Fields = []*Val{{T: root.Fields[3].T, I: int64(li)}, lv}
					default:
						mv := &Val{T: root.Fields[2].T, Keys: []*Val{{T: &Ty{K: thrift.STRING}, S: []byte("k1")}, {T: &Ty{K: thrift.STRING}, S: []byte("k2")}}, Elems: []*Val{big, small}}
						v.FIDs = []int16{3}
						v.Fields = []*Val{mv}
					}
					opts := 0
					if nob64 == 1 {
						opts = o3NoBase64Binary
					}
					mode := 0
					if r.chance(40) {
						mode = 1 + r.intn(4)
					}
					run03(g, desc, dfs, v.encode(nil), opts, mode)
					made++
				}
			}
		}
	}
	return made
}

// ---- 302 / 303: the base models against Go's reference libraries ----------------------------------

func genC03Base(r *rng, n int) {
	g := &gen03{tgen: newTgen(r)}
	for i := 0; i < n; i++ {
		switch i % 5 {
		case 0, 1: // number lexeme -> bits (strconv.ParseFloat is the reference)
			lex := genLexeme(g)
			f64, e64 := strconv.ParseFloat(lex, 64)
			f32, e32 := strconv.ParseFloat(lex, 32)
			_ = e64
			_ = e32 // range errors still return +-Inf, which is what the model returns too
			out.emit(302, fs(lex), fu(math.Float64bits(f64)), fu(uint64(math.Float32bits(float32(f32)))))
		case 2: // integers: i64toa of the implementation and strconv
			v := g.genInt03(thrift.I64)
			impl := djson.EncodeInt64(nil, v)
			out.emit(303, fi(1), fn(v), fx(impl), fs(strconv.FormatInt(v, 10)))
		case 3: // base64: implementation and encoding/base64
			b := r.bytes(r.intn(40))
			impl := djson.EncodeBaniry(nil, b)
			out.emit(303, fi(2), fx(b), fx(impl), fs(base64.StdEncoding.EncodeToString(b)))
		default: // strings: EncodeString of the implementation; utf8.Valid
			s := g.genStr03(true)
			impl := djson.EncodeString(nil, string(s))
			out.emit(303, fi(3), fx(s), fx(impl), fb(utf8.Valid(s)))
		}
	}
	// f64toa on every class value
	for _, b := range f64Classes {
		f := math.Float64frombits(b)
		if math.IsNaN(f) || math.IsInf(f, 0) {
			continue
		}
		impl := djson.EncodeFloat64(nil, f)
		out.emit(303, fi(4), fu(b), fx(impl), fs(""))
	}
}

func genLexeme(g *gen03) string {
	r := g.r
	f := math.Float64frombits(g.genF64())
	for math.IsNaN(f) || math.IsInf(f, 0) {
		f = math.Float64frombits(g.genF64())
	}
	switch r.intn(8) {
	case 0:
		return strconv.FormatFloat(f, 'g', -1, 64)
	case 1:
		return strconv.FormatFloat(f, 'e', 16+r.intn(4), 64)
	case 2:
		// exact decimal expansion of the midpoint between f and its successor, perturbed in the last digit
		b := math.Float64bits(math.Abs(f))
		if b >= 0x7fefffffffffffff {
			b = 0x7feffffffffffffe
		}
		lo := math.Float64frombits(b)
		hi := math.Float64frombits(b + 1)
		return midpointDecimal(lo, hi, r.intn(3)-1)
	case 3:
		return fmt.Sprintf("%d.%de%d", r.intn(10), r.intn(100000), r.intn(700)-350)
	case 4:
		return fmt.Sprintf("%de%d", int64(r.u64()>>1), r.intn(60)-30)
	case 5:
		if f32 := float32(f); !math.IsInf(float64(f32), 0) {
			return strconv.FormatFloat(float64(f32), 'g', -1, 32)
		}
		return "3.4028235e38"
	case 6:
		huge := []string{"1e400", "1e-400", "0e999999999999", "1e99999999999999999999", "1e-99999999999999999999", "0.0", "-0", "-0.0e5",
			"1.7976931348623158e308", "1.7976931348623159e308", "4.9e-324", "2.4703282292062327e-324", "2.4703282292062328e-324",
			"3.4028235e38", "3.4028236e38", "1e-45", "7e-46", "9007199254740993", "0.000001", "123456789012345678901234567890"}
		return huge[r.intn(len(huge))]
	default:
		return strconv.FormatFloat(f, 'f', -1, 64)
	}
}

// decimal expansion of (lo+hi)/2 with its last digit moved by d (exact midpoints are the hard rounding cases)
func midpointDecimal(lo, hi float64, d int) string {
	// big-float arithmetic through strconv only: 'f' with enough digits is exact for binary64
	a := strconv.FormatFloat(lo, 'e', 800, 64)
	b := strconv.FormatFloat(hi, 'e', 800, 64)
	_ = b
	// midpoint = lo + ulp/2: computed in math/big-free fashion by parsing mantissa/exponent of both
	ma, ea := splitE(a)
	mb, eb := splitE(b)
	for ea < eb {
		ma = "0" + ma
		ea++
	}
	for eb < ea {
		mb = "0" + mb
		eb++
	}
	for len(ma) < len(mb) {
		ma += "0"
	}
	for len(mb) < len(ma) {
		mb += "0"
	}
	sum := addDec(ma, mb) // len+1 digits
	half := halveDec(sum)  // exact: sum is even in the last kept digit or we append a 5
	half = strings.TrimRight(half, "0")
	if half == "" {
		half = "0"
	}
	// perturb the last digit
	bs := []byte(half)
	if d != 0 {
		c := int(bs[len(bs)-1]-'0') + d
		if c >= 0 && c <= 9 {
			bs[len(bs)-1] = byte('0' + c)
		}
	}
	// digits are scaled: value = 0.DIGITS * 10^(ea+2)  (one extra digit from the sum, one from the leading digit)
	return "0." + string(bs) + "e" + strconv.Itoa(ea+2)
}

func splitE(s string) (string, int) {
	i := strings.IndexByte(s, 'e')
	m := strings.Replace(s[:i], ".", "", 1)
	e, _ := strconv.Atoi(s[i+1:])
	return m, e
}
func addDec(a, b string) string {
	n := len(a)
	out := make([]byte, n+1)
	c := 0
	for i := n - 1; i >= 0; i-- {
		s := int(a[i]-'0') + int(b[i]-'0') + c
		out[i+1] = byte('0' + s%10)
		c = s / 10
	}
	out[0] = byte('0' + c)
	return string(out)
}
func halveDec(a string) string {
	out := make([]byte, 0, len(a)+1)
	rem := 0
	for i := 0; i < len(a); i++ {
		cur := rem*10 + int(a[i]-'0')
		out = append(out, byte('0'+cur/2))
		rem = cur % 2
	}
	if rem != 0 {
		out = append(out, '5')
	}
	return string(out)
}

var _ = binary.BigEndian
