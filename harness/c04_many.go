//go:build verif

package main

import (
	"bytes"
	"encoding/hex"
	"fmt"

	"github.com/cloudwego/dynamicgo/thrift"
	"github.com/cloudwego/dynamicgo/thrift/generic"
)

// C04: SetMany on one container: distinct children, present (replace) and absent (insert), in arbitrary request order.
// case 402: type, container bytes, n, (step, sub type, sub bytes)*, err (0 ok, 1 error, 3 panic), result bytes, flags (bit0: fork untouched)
// the first child of a container sits at the address where SetMany splices new children: replacing it and inserting
// in the same call corrupts memory on the unchanged tree (finding 406) and kills the process, so that class is
// generated only by the separate generator C04X, which ./check runs in a child process (tools/props/C04_hook.py)
func isFirstChild(cv *Val, s Step) bool {
	switch cv.T.K {
	case thrift.STRUCT:
		return len(cv.FIDs) > 0 && s.Kind == 1 && int64(cv.FIDs[0]) == s.N
	case thrift.LIST, thrift.SET:
		return s.Kind == 2 && s.N == 0 && len(cv.Elems) > 0
	case thrift.MAP:
		if len(cv.Keys) == 0 {
			return false
		}
		k := cv.Keys[0]
		return (s.Kind == 3 && string(k.S) == string(s.B)) || (s.Kind == 4 && k.I == s.N) || (s.Kind == 5 && string(k.encode(nil)) == string(s.B))
	}
	return false
}

func isAbsentChild(cv *Val, s Step) bool { return cv.at([]Step{s}) == nil }

func init() {
	generators["C04X"] = func(r *rng, n int) {
		for i := 0; i < n; i++ {
			g := newTgen(r.fork())
			g.maxDepth = 3
			root := g.genStruct(0)
			val := g.genValue(root, 0)
			buf := val.encode(nil)
			var paths [][]Step
			val.allPaths(nil, &paths, 60, r)
			genC04ManyMode(r, g, root, val, buf, paths, true)
		}
	}
}

func genC04Many(r *rng, g *tgen, root *Ty, val *Val, buf []byte, paths [][]Step) {
	genC04ManyMode(r, g, root, val, buf, paths, false)
}

func genC04ManyMode(r *rng, g *tgen, root *Ty, val *Val, buf []byte, paths [][]Step, danger bool) {
	rootNode := generic.NewNode(val.T.K, buf)
	for _, base := range paths {
		cv := val.at(base)
		ct := typeAt(root, base)
		if cv == nil || ct == nil || !isContainerKind(cv.T.K) || (!danger && !r.chance(20)) {
			continue
		}
		sub := rootNode.GetByPath(toPath(base)...)
		if sub.IsError() {
			continue
		}
		raw := append([]byte(nil), sub.Raw()...)
		// candidate children: every present one, plus absent ones
		var cand []Step
		switch cv.T.K {
		case thrift.STRUCT:
			for _, f := range ct.Fields {
				cand = append(cand, Step{Kind: 1, N: int64(f.ID)})
			}
		case thrift.LIST, thrift.SET:
			for i := range cv.Elems {
				cand = append(cand, Step{Kind: 2, N: int64(i)})
			}
			cand = append(cand, Step{Kind: 2, N: int64(len(cv.Elems))})
		case thrift.MAP:
			fam := 5
			kk := ct.Key.K
			if kk == thrift.STRING && r.chance(60) {
				fam = 3
			} else if (kk == thrift.I16 || kk == thrift.I32 || kk == thrift.I64) && r.chance(60) {
				fam = 4
			}
			seen := map[string]bool{}
			add := func(k *Val) {
				kb := string(k.encode(nil))
				if seen[kb] {
					return
				}
				seen[kb] = true
				switch fam {
				case 3:
					cand = append(cand, Step{Kind: 3, B: k.S})
				case 4:
					cand = append(cand, Step{Kind: 4, N: k.I})
				default:
					cand = append(cand, Step{Kind: 5, B: k.encode(nil)})
				}
			}
			for _, k := range cv.Keys {
				add(k)
			}
			for i := 0; i < 3; i++ {
				add(g.genValue(ct.Key, 9))
			}
		}
		if len(cand) == 0 {
			continue
		}
		// a random subset in random order
		for i := len(cand) - 1; i > 0; i-- {
			j := r.intn(i + 1)
			cand[i], cand[j] = cand[j], cand[i]
		}
		k := 1 + r.intn(4)
		if k > len(cand) {
			k = len(cand)
		}
		req := cand[:k]
		hasFirst, hasAbsent := false, false
		for _, s := range req {
			hasFirst = hasFirst || isFirstChild(cv, s)
			hasAbsent = hasAbsent || isAbsentChild(cv, s)
		}
		if danger != (hasFirst && hasAbsent) {
			if danger {
				continue
			}
			// drop the request for the first child
			var keep []Step
			for _, s := range req {
				if !isFirstChild(cv, s) {
					keep = append(keep, s)
				}
			}
			req = keep
			k = len(req)
			if k == 0 {
				continue
			}
		}
		f := []string{fi(int(cv.T.K)), fx(raw), fi(k)}
		pns := make([]generic.PathNode, k)
		okShape := true
		for i, s := range req {
			st := typeAt(ct, []Step{s})
			if st == nil {
				okShape = false
				break
			}
			sv := g.genValue(st, 2)
			sb := sv.encode(nil)
			pns[i] = generic.PathNode{Path: pathStep(s), Node: generic.NewNode(st.K, append([]byte(nil), sb...))}
			f = append(f, s.fields()...)
			f = append(f, fi(int(st.K)), fx(sb))
		}
		if !okShape {
			continue
		}
		cn := generic.NewNode(cv.T.K, append([]byte(nil), raw...))
		fork := cn.Fork()
		before := append([]byte(nil), fork.Raw()...)
		var e error
		if debugErr {
			println("C04 SetMany:", fmt.Sprint(req), hex.EncodeToString(raw))
		}
		ok, _ := noPanic(func() { e = cn.SetMany(pns, &generic.Options{}) })
		flags := 1
		if !bytes.Equal(before, fork.Raw()) {
			flags = 0
		}
		switch {
		case !ok:
			f = append(f, "n3", fx(nil), fi(flags))
		case e != nil:
			f = append(f, "n1", fx(cn.Raw()), fi(flags))
		default:
			f = append(f, "n0", fx(cn.Raw()), fi(flags))
		}
		out.emit(402, f...)
		out.emit(404, f...) // the same call judged by the byte-level transcription of SetMany (Check04d.v)
		if danger {
			out.w.Flush()
		}
	}
}
