//go:build verif

// C14 — Thrift descriptors mirror the IDL; lookups by id / key are exact.
// Check ids: 1401 FieldIDMap, 1402 FieldNameMap (Set/Build/Get), 1403 caching.TrieTree / caching.HashMap used directly,
// 1404 DJBHash32 / ascii2Int against the go2coq translation, 1405 IDL -> descriptor dump vs elab (c14_idl.go),
// 1406 per-struct lookup sweeps on parsed descriptors (FieldById over all 65536 ids, FieldByKey and the native j2t twin over
// an adversarial key set).
package main

import (
	"context"
	"github.com/cloudwego/dynamicgo/internal/cpu"
	"runtime/debug"
	"sort"
	"unsafe"

	"github.com/cloudwego/dynamicgo/conv"
	"github.com/cloudwego/dynamicgo/conv/j2t"
	"github.com/cloudwego/dynamicgo/internal/caching"
	"github.com/cloudwego/dynamicgo/internal/native/avx2"
	"github.com/cloudwego/dynamicgo/internal/util"
	"github.com/cloudwego/dynamicgo/meta"
	"github.com/cloudwego/dynamicgo/thrift"
)

func init() { generators["C14"] = genC14 }

type toks []string

func (t *toks) z(v int64)   { *t = append(*t, fn(v)) }
func (t *toks) i(v int)     { *t = append(*t, fi(v)) }
func (t *toks) b(b []byte)  { *t = append(*t, fx(b)) }
func (t *toks) s(s string)  { *t = append(*t, fs(s)) }
func (t *toks) bool(v bool) { *t = append(*t, fb(v)) }

// ---- DJB hash algebra ----------------------------------------------------------------------------

func djb32(s []byte) uint32 {
	h := uint32(5381)
	for _, c := range s {
		h = h*33 + uint32(c)
	}
	return h
}

var identAlpha = []byte("0123456789ABCDEFGHIJKLMNOPQRSTUVWXYZ_abcdefghijklmnopqrstuvwxyz")

var djbTab map[uint32][3]byte

// keys prefix+6 identifier characters whose DJBHash32 equals target:
// hash(prefix s1 s2) = (H*33^3 + v(s1))*33^3 + v(s2) with v(abc) = a*1089 + b*33 + c; meet in the middle over v(s2).
func djbSolve(prefix []byte, target uint32, max int) [][]byte {
	if djbTab == nil {
		djbTab = make(map[uint32][3]byte, 1<<17)
		for _, a := range identAlpha {
			for _, b := range identAlpha {
				for _, c := range identAlpha {
					v := uint32(a)*1089 + uint32(b)*33 + uint32(c)
					if _, ok := djbTab[v]; !ok {
						djbTab[v] = [3]byte{a, b, c}
					}
				}
			}
		}
	}
	H := djb32(prefix)
	var out [][]byte
	for _, a := range identAlpha {
		for _, b := range identAlpha {
			for _, c := range identAlpha {
				v := uint32(a)*1089 + uint32(b)*33 + uint32(c)
				need := target - (H*35937+v)*35937
				if s2, ok := djbTab[need]; ok {
					k := append(append([]byte{}, prefix...), a, b, c, s2[0], s2[1], s2[2])
					out = append(out, k)
					if len(out) >= max {
						return out
					}
				}
			}
		}
	}
	return out
}

// a key with the wanted hash; tries a few prefixes (a single prefix has ~5 solutions on average, sometimes none)
func djbKey(r *rng, lead []byte, plen int, target uint32) []byte {
	for try := 0; try < 40; try++ {
		p := append([]byte{}, lead...)
		for len(p) < plen {
			p = append(p, identAlpha[10+r.intn(len(identAlpha)-10)])
		}
		if s := djbSolve(p, target, 1+r.intn(2)); len(s) > 0 {
			return s[len(s)-1]
		}
		if plen == len(lead) {
			plen++
		}
	}
	return nil
}

// ---- key sets and probes ---------------------------------------------------------------------------

var specialBytes = []byte{0x00, 0x2d, 0x2e, 0x2f, 0x7f, 0x80, 0xff}

func randIdent(r *rng, n int) []byte {
	b := make([]byte, n)
	for i := range b {
		if i == 0 {
			b[i] = identAlpha[10+r.intn(len(identAlpha)-10)]
		} else {
			b[i] = identAlpha[r.intn(len(identAlpha))]
		}
	}
	return b
}

// key sets: 0 random identifiers, 1 common prefix, 2 two-letter alphabet (hash path when >= 20 keys), 3 arbitrary bytes,
// 4 two-letter alphabet + hash-zero / colliding / non-ASCII keys, 5 tiny
func genKeySet(r *rng, shape int, identOnly bool) (keys [][]byte, special [][]byte) {
	seen := map[string]bool{}
	add := func(k []byte) {
		if !seen[string(k)] {
			seen[string(k)] = true
			keys = append(keys, k)
		}
	}
	switch shape {
	case 0:
		n := 1 + r.intn(12)
		for i := 0; i < n; i++ {
			add(randIdent(r, 1+r.intn(10)))
		}
	case 1:
		p := randIdent(r, 2+r.intn(6))
		n := 2 + r.intn(30)
		for i := 0; i < n; i++ {
			add(append(append([]byte{}, p...), randIdent(r, r.intn(3))...))
		}
	case 2, 4:
		L := 5 + r.intn(4)
		ab := []byte{'a', 'b'}
		if r.chance(30) {
			ab = []byte{identAlpha[10+r.intn(53)], identAlpha[10+r.intn(53)]}
			if ab[0] == ab[1] {
				ab[1] = '_'
				if ab[0] == '_' {
					ab[1] = 'z' // two DISTINCT letters: with one letter the key set below could never be filled
				}
			}
		}
		if shape == 4 {
			L = 8
		}
		n := 20 + r.intn(50)
		if shape == 4 {
			n = 56 + r.intn(30)
		}
		if n > 1<<uint(L) {
			n = 1 << uint(L)
		}
		for len(keys) < n {
			k := make([]byte, L)
			for j := range k {
				k[j] = ab[r.intn(2)]
			}
			add(k)
		}
		if shape == 4 {
			lead := []byte{ab[0], ab[1]}
			if z := djbKey(r, lead, 2, 0); z != nil && r.chance(70) {
				add(z)
				special = append(special, z)
			}
			if c := djbKey(r, lead, 2, djb32(keys[r.intn(len(keys))])); c != nil && r.chance(50) {
				add(c)
				special = append(special, c)
			}
			if !identOnly || true {
				if r.chance(50) {
					h := []byte{ab[0], ab[1], 0xc3, 0xa9, ab[0], ab[1], ab[0], ab[1]}
					add(h)
					special = append(special, h)
				}
			}
		}
	case 3:
		n := 1 + r.intn(14)
		for i := 0; i < n; i++ {
			k := r.bytes(r.intn(7))
			for j := range k {
				if r.chance(40) {
					k[j] = specialBytes[r.intn(len(specialBytes))]
				}
			}
			add(k)
		}
	case 6:
		// keys of the boundary lengths around 64 bytes, sharing long prefixes (the dispersive position may lie far to the right)
		n := 1 + r.intn(8)
		base := []byte(longIdent(r))
		for i := 0; i < n; i++ {
			k := []byte(longIdent(r))
			if r.chance(50) {
				k = append([]byte{}, base[:r.intn(len(base)+1)]...)
				k = append(k, randIdent(r, 1+r.intn(3))...)
				if r.chance(50) {
					l := longLens[r.intn(len(longLens))]
					for len(k) < l {
						k = append(k, base[0])
					}
				}
			}
			add(k)
		}
	default:
		n := 1 + r.intn(3)
		for i := 0; i < n; i++ {
			add(randIdent(r, 1+r.intn(3)))
		}
	}
	return
}

// positions of a key that get the full probe treatment: all of a short key, a boundary sample of a long one
func probePositions(r *rng, n int) []int {
	if n <= 32 {
		ps := make([]int, n)
		for i := range ps {
			ps[i] = i
		}
		return ps
	}
	seen := map[int]bool{}
	var ps []int
	for _, p := range []int{0, 1, 31, 62, 63, 64, 65, 127, 128, n - 2, n - 1, r.intn(n), r.intn(n)} {
		if p >= 0 && p < n && !seen[p] {
			seen[p] = true
			ps = append(ps, p)
		}
	}
	return ps
}

func genProbes(r *rng, keys [][]byte, extra [][]byte, capPerKey int) [][]byte {
	seen := map[string]bool{}
	var out [][]byte
	add := func(k []byte) {
		if !seen[string(k)] {
			seen[string(k)] = true
			out = append(out, append([]byte{}, k...))
		}
	}
	maxLen := 0
	for _, k := range keys {
		add(k)
		if len(k) > maxLen {
			maxLen = len(k)
		}
	}
	add(nil)
	// per position: largest / smallest declared byte (the bucket just past the trie index is the boundary of the native twin)
	hi := make([]int, maxLen)
	lo := make([]int, maxLen)
	for j := range hi {
		hi[j], lo[j] = -1, 256
		for _, k := range keys {
			if j < len(k) {
				if int(k[j]) > hi[j] {
					hi[j] = int(k[j])
				}
				if int(k[j]) < lo[j] {
					lo[j] = int(k[j])
				}
			}
		}
	}
	full := map[int]bool{}
	for len(full) < capPerKey && len(full) < len(keys) {
		full[r.intn(len(keys))] = true
	}
	for i := range keys {
		if !full[i] {
			continue
		}
		k := keys[i]
		for _, j := range probePositions(r, len(k)) {
			add(k[:j]) // proper prefixes
		}
		for _, c := range specialBytes {
			add(append(append([]byte{}, k...), c))
		}
		add(append(append([]byte{}, k...), 'a'))
		for _, j := range probePositions(r, len(k)) {
			subs := append([]byte{}, specialBytes...)
			if hi[j] >= 0 && hi[j] < 255 {
				subs = append(subs, byte(hi[j]+1))
			}
			if lo[j] > 0 && lo[j] < 256 {
				subs = append(subs, byte(lo[j]-1))
			}
			for _, c := range subs {
				if c == k[j] {
					continue
				}
				m := append([]byte{}, k...)
				m[j] = c
				add(m)
			}
		}
		if len(k) > 0 && !seen["<long>"] {
			seen["<long>"] = true
			long := make([]byte, 0, 10240)
			for len(long) < 10240 {
				long = append(long, k...)
			}
			add(long[:10240])
		}
	}
	// DJB-colliding and hash-zero keys that are NOT declared
	if len(keys) > 0 && r.chance(40) {
		k := keys[r.intn(len(keys))]
		lead := k
		if len(lead) > 2 {
			lead = lead[:2]
		}
		if c := djbKey(r, lead, len(lead), djb32(k)); c != nil {
			add(c)
		}
		if z := djbKey(r, lead, len(lead), 0); z != nil {
			add(z)
		}
	}
	for _, e := range extra {
		add(e)
	}
	return out
}

// ---- 1404: generated hash / bucket functions ---------------------------------------------------------

func c14HashTie(r *rng, first bool) {
	if first {
		var t toks
		t.i(0)
		img := make([]byte, 256)
		for c := 0; c < 256; c++ {
			img[c] = caching.VerifAscii2Int(byte(c))
		}
		t.b(img)
		out.emit(1404, t...)
		return
	}
	var k []byte
	switch r.intn(5) {
	case 0:
		k = r.bytes(r.intn(40))
	case 1:
		k = randIdent(r, 1+r.intn(20))
	case 2:
		k = djbKey(r, nil, 1+r.intn(3), 0)
	case 3:
		k = djbKey(r, nil, 1+r.intn(3), uint32(r.next()))
	default:
		k = make([]byte, r.intn(300))
		for i := range k {
			k[i] = specialBytes[r.intn(len(specialBytes))]
		}
	}
	var t toks
	t.i(1)
	t.b(k)
	t.z(int64(caching.DJBHash32(string(k))))
	out.emit(1404, t...)
}

// ---- 1401: FieldIDMap --------------------------------------------------------------------------------

func c14FieldIDMap(r *rng) {
	n := r.intn(12)
	ids := make([]int32, n)
	for i := range ids {
		switch r.intn(6) {
		case 0:
			ids[i] = int32(fieldIDPool[r.intn(len(fieldIDPool))])
		case 1:
			ids[i] = int32(r.intn(65536))
		case 2:
			if i > 0 {
				ids[i] = ids[r.intn(i)] // duplicate: last Set wins, All keeps one entry
			}
		case 3:
			ids[i] = int32(r.intn(4))
		default:
			ids[i] = int32(1 + r.intn(300))
		}
	}
	if r.chance(4) && n > 0 {
		ids[r.intn(n)] = -1 - int32(r.intn(3))
	}
	vals := make([]int64, n)
	var m util.FieldIDMap
	ok, _ := noPanic(func() {
		for i, id := range ids {
			vals[i] = int64(i + 1)
			m.Set(id, unsafe.Pointer(&vals[i]))
		}
	})
	var t toks
	t.i(n)
	for _, id := range ids {
		t.z(int64(id))
	}
	t.bool(!ok)
	if ok {
		var found toks
		nf := 0
		nf = sweepIDs(&found, func(id int) (int64, bool) {
			if p := m.Get(int32(id)); p != nil {
				return *(*int64)(p), true
			}
			return 0, false
		})
		t.i(nf)
		t = append(t, found...)
		all := m.All()
		t.i(len(all))
		for _, p := range all {
			t.z(*(*int64)(p))
		}
		t.i(m.Size())
		// Get of a negative id returns nil (fix 5273bb1), it must not index the slice
		negs := []int32{-1, -2, -32768, -65536, -2147483648, -1 - int32(r.intn(1000))}
		t.i(len(negs))
		for _, id := range negs {
			v := int64(0)
			if ok, _ := noPanic(func() {
				if p := m.Get(id); p != nil {
					v = *(*int64)(p)
				}
			}); !ok {
				v = -3
			}
			t.z(int64(id))
			t.z(v)
		}
	}
	out.emit(1401, t...)
}

// all ids 0..65535: (id, value) of every id found; a panic at an id is recorded as value -3 and the sweep goes on
func sweepIDs(found *toks, get func(id int) (int64, bool)) int {
	nf, cur := 0, 0
	for cur < 65536 {
		ok, _ := noPanic(func() {
			for ; cur < 65536; cur++ {
				if v, has := get(cur); has {
					nf++
					found.i(cur)
					found.z(v)
				}
			}
		})
		if !ok {
			nf++
			found.i(cur)
			found.z(-3)
			cur++
		}
	}
	return nf
}

// ---- 1402: FieldNameMap ------------------------------------------------------------------------------

func c14FieldNameMap(r *rng) {
	shape := []int{0, 0, 1, 2, 2, 3, 3, 4, 5, 6, 6}[r.intn(11)]
	keys, special := genKeySet(r, shape, false)
	if r.chance(15) {
		keys = append(keys, nil) // the empty key
	}
	if r.chance(10) && len(keys) > 1 {
		keys = append(keys, keys[r.intn(len(keys))]) // Set twice: the value is replaced
	}
	probes := genProbes(r, keys, special, 6)
	vals := make([]int64, len(keys))
	var m util.FieldNameMap
	for i, k := range keys {
		vals[i] = int64(i + 1)
		m.Set(string(k), unsafe.Pointer(&vals[i]))
	}
	m.Build()
	kind, pos := m.VerifKind()
	var t toks
	t.i(len(keys))
	for _, k := range keys {
		t.b(k)
	}
	t.i(kind)
	t.i(pos)
	t.i(m.Size())
	t.i(len(probes))
	for _, p := range probes {
		var got int64
		ok, _ := noPanic(func() {
			if q := m.Get(string(p)); q != nil {
				got = *(*int64)(q)
			}
		})
		if !ok {
			got = -3
		}
		t.b(p)
		t.z(got)
	}
	out.emit(1402, t...)
}

// ---- 1403: caching.TrieTree / caching.HashMap directly ---------------------------------------------------

func c14Direct(r *rng) {
	shape := []int{0, 1, 2, 3, 3, 4, 5, 6}[r.intn(8)]
	keys, special := genKeySet(r, shape, false)
	trie := r.bool()
	if trie && r.chance(15) {
		keys = append(keys, nil)
	}
	if trie && r.chance(5) {
		keys = [][]byte{nil} // only the empty key: Get of a non-empty key dereferences a nil Leaves
	}
	probes := genProbes(r, keys, special, 4)
	vals := make([]int64, len(keys))
	var t toks
	if trie {
		np := r.intn(4)
		ps := make([]int, np)
		for i := range ps {
			ps[i] = r.intn(12)
		}
		tr := &caching.TrieTree{Positions: ps}
		for i, k := range keys {
			vals[i] = int64(i + 1)
			tr.Set(string(k), unsafe.Pointer(&vals[i]))
		}
		t.i(0)
		t.i(np)
		for _, p := range ps {
			t.i(p)
		}
		t.i(0)
		t.i(len(keys))
		for _, k := range keys {
			t.b(k)
		}
		t.i(tr.Size())
		t.i(len(probes))
		for _, p := range probes {
			var got int64
			ok, _ := noPanic(func() {
				if q := tr.Get(string(p)); q != nil {
					got = *(*int64)(q)
				}
			})
			if !ok {
				got = -3
			}
			t.b(p)
			t.z(got)
			t.z(nativeDirect(func(k *string) unsafe.Pointer { return avx2.VerifTrieGet(tr, k) }, p))
		}
	} else {
		load := 2 + r.intn(3)
		if len(keys) == 0 {
			keys = [][]byte{[]byte("k")}
			vals = make([]int64, 1)
		}
		hm := caching.NewHashMap(len(keys), load)
		for i, k := range keys {
			vals[i] = int64(i + 1)
			hm.Set(string(k), unsafe.Pointer(&vals[i]))
		}
		t.i(1)
		t.i(0)
		t.i(load)
		t.i(len(keys))
		for _, k := range keys {
			t.b(k)
		}
		t.i(hm.Size())
		t.i(len(probes))
		for _, p := range probes {
			var got int64
			if q := hm.Get(string(p)); q != nil {
				got = *(*int64)(q)
			}
			t.b(p)
			t.z(got)
			t.z(nativeDirect(func(k *string) unsafe.Pointer { return avx2.VerifHmGet(hm, k) }, p))
		}
	}
	out.emit(1403, t...)
}

// the native twin called directly on a caching structure: value found, 0 = NULL, -3 = fault, -5 = not available
func nativeDirect(get func(k *string) unsafe.Pointer, key []byte) int64 {
	if !cpu.HasAVX2 {
		return -5
	}
	res := int64(0)
	ok, _ := noPanic(func() {
		defer debug.SetPanicOnFault(debug.SetPanicOnFault(true))
		k := string(key)
		if q := get(&k); q != nil {
			res = *(*int64)(q)
		}
	})
	if !ok {
		return -3
	}
	return res
}

// ---- 1406: lookup sweeps on a parsed struct descriptor ------------------------------------------------------

func jsonKey(k []byte) []byte {
	o := []byte{'{', '"'}
	const hexd = "0123456789abcdef"
	for _, c := range k {
		switch {
		case c == '"' || c == '\\':
			o = append(o, '\\', c)
		case c < 0x20:
			o = append(o, '\\', 'u', '0', '0', hexd[c>>4], hexd[c&15])
		default:
			o = append(o, c)
		}
	}
	return append(o, '"', ':', '0', '}')
}

var c14conv = j2t.NewBinaryConv(conv.Options{DisallowUnknownField: true})

// native twin: >= 0 field id written, -1 unknown-field error, -2 other error, -3 panic, -4 found but the id is not visible
func nativeLookup(desc *thrift.TypeDescriptor, key []byte) int64 {
	res := int64(-2)
	ok, _ := noPanic(func() {
		// a wild read inside the native code (finding 1403) becomes a recoverable panic instead of killing the run
		defer debug.SetPanicOnFault(debug.SetPanicOnFault(true))
		o, err := c14conv.Do(context.Background(), desc, jsonKey(key))
		if err != nil {
			if e, isM := err.(meta.Error); isM && e.Code.Behavior() == meta.ErrUnknownField {
				res = -1
			} else if isM && (e.Code.Behavior() == meta.ErrDismatchType || e.Code.Behavior() == meta.ErrMissRequiredField) {
				res = -4 // the key was found; the value 0 does not fit the field
			}
			return
		}
		if len(o) >= 3 && o[0] != 0 {
			res = int64(o[1])<<8 | int64(o[2])
		} else {
			res = -4
		}
	})
	if !ok {
		return -3
	}
	return res
}

func c14Sweep(r *rng, desc *thrift.TypeDescriptor, mapway int, extra [][]byte, capPerKey int, native bool) {
	st := desc.Struct()
	var t toks
	t.i(mapway)
	fs := st.Fields()
	t.i(len(fs))
	var keys [][]byte
	for _, f := range fs {
		t.i(int(f.ID()))
		t.s(f.Name())
		t.s(f.Alias())
		switch mapway {
		case 0:
			keys = append(keys, []byte(f.Alias()))
		case 1:
			keys = append(keys, []byte(f.Name()))
		default:
			keys = append(keys, []byte(f.Alias()), []byte(f.Name()))
		}
	}
	kind, pos := st.VerifNamesKind()
	t.i(kind)
	t.i(pos)
	var found toks
	nf := 0
	nf = sweepIDs(&found, func(id int) (int64, bool) {
		if f := st.FieldById(thrift.FieldID(id)); f != nil {
			return int64(f.ID()), true
		}
		return 0, false
	})
	t.i(nf)
	t = append(t, found...)
	all := genProbes(r, keys, extra, capPerKey)
	// probes on which the native twin would read out of bounds are reported in a case of their own (check 1407)
	var probes, oobs [][]byte
	for _, p := range all {
		if native && nativeOOB(kind, pos, keys, p) {
			oobs = append(oobs, p)
		} else {
			probes = append(probes, p)
		}
	}
	head := append(toks{}, t...)
	defer func() {
		if len(oobs) == 0 {
			return
		}
		head.i(len(oobs))
		for _, p := range oobs {
			got := int64(-1)
			if f := st.FieldByKey(string(p)); f != nil {
				got = int64(f.ID())
			}
			head.b(p)
			head.z(got)
			// the native trie_get tests `j > len` instead of `j >= len`: this probe reads index[len], which is the spare zeroed node
			// that TrieTree.Set keeps behind every index slice since fix 0d2d3ac (before: garbage or a fault)
			head.z(nativeLookup(desc, p))
		}
		out.emit(1407, head...)
	}()
	t.i(len(probes))
	for _, p := range probes {
		got := int64(-1)
		ok, _ := noPanic(func() {
			if f := st.FieldByKey(string(p)); f != nil {
				got = int64(f.ID())
			}
		})
		if !ok {
			got = -3
		}
		t.b(p)
		t.z(got)
		if native {
			t.z(nativeLookup(desc, p))
		} else {
			t.z(-5)
		}
	}
	out.emit(1406, t...)
}

func trieBucket(pos int, k []byte) int {
	i := pos
	if i > len(k)-1 {
		i = len(k) - 1
	}
	return int(caching.VerifAscii2Int(k[i]))
}

func nativeOOB(kind, pos int, keys [][]byte, probe []byte) bool {
	if kind != 1 || len(probe) == 0 || pos < 0 {
		return false
	}
	l := 0
	for _, k := range keys {
		if len(k) > 0 && trieBucket(pos, k)+1 > l {
			l = trieBucket(pos, k) + 1
		}
	}
	return trieBucket(pos, probe) == l
}

// wide struct of i32 fields whose keys (api.key aliases) come from a key set; parsed through the IDL front end
func c14WideStruct(r *rng) {
	shape := []int{0, 1, 2, 2, 4, 4, 4, 5, 6, 6}[r.intn(10)]
	keys, special := genKeySet(r, shape, true)
	if len(keys) == 0 {
		return
	}
	mapway := r.intn(3)
	idl := "namespace go verif\nstruct W {\n"
	ids := map[int]bool{}
	for i, k := range keys {
		id := i + 1
		if r.chance(20) {
			id = 1 + r.intn(32767)
		}
		for ids[id] {
			id++
		}
		ids[id] = true
		name := "f" + string(rune('a'+i%26)) + itoa(i)
		useAlias := r.chance(70)
		isIdent := true
		for j, c := range k {
			if !(c == '_' || (c >= 'a' && c <= 'z') || (c >= 'A' && c <= 'Z') || (j > 0 && c >= '0' && c <= '9')) {
				isIdent = false
			}
		}
		if !isIdent || len(k) == 0 {
			useAlias = true
		}
		if useAlias {
			idl += "  " + itoa(id) + ": i32 " + name + " (api.key = \"" + string(k) + "\")\n"
		} else {
			idl += "  " + itoa(id) + ": i32 " + string(k) + "\n"
		}
	}
	idl += "}\nservice Svc { W M(1: W req) }\n"
	opts := thrift.Options{MapFieldWay: meta.MapFieldWay(mapway)}
	var desc *thrift.TypeDescriptor
	ok, _ := noPanic(func() {
		svc, err := opts.NewDescritorFromContent(context.Background(), "/x/w.thrift", idl, nil, false)
		if err == nil {
			desc = svc.Functions()["M"].Request().Struct().FieldById(1).Type()
		}
	})
	if !ok || desc == nil {
		return
	}
	c14Sweep(r, desc, mapway, special, 6, true)
}

func itoa(i int) string { return string(fi(i)[1:]) }

func genC14(r *rng, n int) {
	c14HashTie(r, true)
	for i := 0; i < n; i++ {
		switch x := r.intn(100); {
		case x < 10:
			c14HashTie(r, false)
		case x < 20:
			c14FieldIDMap(r)
		case x < 42:
			c14FieldNameMap(r)
		case x < 52:
			c14Direct(r)
		case x < 68:
			c14WideStruct(r)
		case x < 70:
			c14Inherit1408(r)
		default:
			c14IDL(r)
		}
	}
}

var _ = sort.Ints
