//go:build verif

package main

import (
	"fmt"
	"math"
	"sort"
	"strings"

	"github.com/cloudwego/dynamicgo/proto"
	"github.com/cloudwego/dynamicgo/proto/binary"
)

// 2009 / 2010: the descriptor-driven writer / reader of proto/binary against their as-coded Gallina model
// (coq/model/ProtoAny.v, checker coq/model/Check20d.v).
//
//	2009  schema.., byName, cast, disallowUnknown, needMessageLen, family, <Go value passed>, code (0 nil,1 error,3 panic), p.Buf
//	2010  schema.., byName, disallowUnknown, hasMessageLen, input, code (0 ok,1 error,3 panic,4 foreign Go type),
//	      [<Go value returned> when code = 0], bytes left
//
// Go values are emitted by walking the ACTUAL interface{} (prefix code, see gvEmit); map entries are sorted for the
// determinism of the case file only: the checker recovers the iteration order the implementation used from its output.
func init() {
	base := generators["C20"]
	generators["C20"] = func(r *rng, n int) {
		// a copy of the state: the streams of the other C20 generators stay what they were
		own := &rng{s: r.s ^ 0xC20A11D}
		base(r, n)
		genC20Any(own, n)
	}
}

// ---- Go value -> case fields
func gvEmit(x interface{}) ([]string, bool) {
	var out []string
	ok := true
	var walk func(x interface{})
	walk = func(x interface{}) {
		switch v := x.(type) {
		case nil:
			out = append(out, "n0")
		case bool:
			out = append(out, "n1", fb(v))
		case int8:
			out = append(out, "n2", "n1", fn(int64(v)))
		case int16:
			out = append(out, "n2", "n2", fn(int64(v)))
		case int32:
			out = append(out, "n2", "n3", fn(int64(v)))
		case int64:
			out = append(out, "n2", "n4", fn(v))
		case int:
			out = append(out, "n2", "n5", fn(int64(v)))
		case uint8:
			out = append(out, "n2", "n6", fu(uint64(v)))
		case uint16:
			out = append(out, "n2", "n7", fu(uint64(v)))
		case uint32:
			out = append(out, "n2", "n8", fu(uint64(v)))
		case uint64:
			out = append(out, "n2", "n9", fu(v))
		case uint:
			out = append(out, "n2", "n10", fu(uint64(v)))
		case proto.EnumNumber:
			out = append(out, "n2", "n11", fn(int64(v)))
		case float32:
			out = append(out, "n3", fu(uint64(math.Float32bits(v))))
		case float64:
			out = append(out, "n4", fu(math.Float64bits(v)))
		case string:
			out = append(out, "n5", fs(v))
		case []byte:
			out = append(out, "n6", fx(v))
		case []interface{}:
			out = append(out, "n7", fi(len(v)))
			for _, e := range v {
				walk(e)
			}
		case map[string]interface{}:
			out = append(out, "n8", fi(len(v)))
			ks := make([]string, 0, len(v))
			for k := range v {
				ks = append(ks, k)
			}
			sort.Strings(ks)
			for _, k := range ks {
				out = append(out, fs(k))
				walk(v[k])
			}
		case map[int]interface{}:
			out = append(out, "n9", fi(len(v)))
			ks := make([]int, 0, len(v))
			for k := range v {
				ks = append(ks, k)
			}
			sort.Ints(ks)
			for _, k := range ks {
				out = append(out, fn(int64(k)))
				walk(v[k])
			}
		case map[interface{}]interface{}:
			out = append(out, "n10", fi(len(v)))
			type ent struct {
				key string
				k   interface{}
			}
			es := make([]ent, 0, len(v))
			for k := range v {
				kf, kok := gvEmit(k)
				if !kok {
					ok = false
				}
				es = append(es, ent{strings.Join(kf, " "), k})
			}
			sort.Slice(es, func(i, j int) bool { return es[i].key < es[j].key })
			for _, e := range es {
				walk(e.k)
				walk(v[e.k])
			}
		case map[proto.FieldNumber]interface{}:
			out = append(out, "n11", fi(len(v)))
			ks := make([]int, 0, len(v))
			for k := range v {
				ks = append(ks, int(k))
			}
			sort.Ints(ks)
			for _, k := range ks {
				out = append(out, fn(int64(k)))
				walk(v[proto.FieldNumber(k)])
			}
		default:
			ok = false
			out = append(out, "n0")
		}
	}
	walk(x)
	return out, ok
}

// ---- abstract value -> Go value, with optional deviations
type anyConv struct {
	c        *pgCompiled
	r        *rng
	byName   bool
	strIface bool // string-keyed maps as map[interface{}]interface{}
	trim     bool // at most one entry per map
	mode     int  // 0 conforming, 1 deviant (cast=false), 2 other Go types (cast=true)
	budget   int  // deviations left
}

func (a *anyConv) hit() bool {
	if a.mode == 0 || a.budget <= 0 || !a.r.chance(12) {
		return false
	}
	a.budget--
	return true
}

// the numeric value of a conforming scalar as int64 / uint64 bits
func scalarBits(kind int, v *pgVal) (int64, uint64) {
	if pgIsSignedKind(kind) {
		return v.I.Int64(), uint64(v.I.Int64())
	}
	return int64(v.I.Uint64()), v.I.Uint64()
}

func (a *anyConv) otherInt(kind int, v *pgVal) interface{} {
	s, u := scalarBits(kind, v)
	r := a.r
	switch r.intn(11) {
	case 0:
		return int(s)
	case 1:
		return int8(s)
	case 2:
		return int16(s)
	case 3:
		return uint8(u)
	case 4:
		return uint16(u)
	case 5:
		return uint(u)
	case 6:
		return u // uint64, possibly >= 2^63
	case 7:
		return s // int64, possibly outside int32
	case 8:
		return int32(s)
	case 9:
		return uint32(u)
	default:
		return s&1 == 1 // bool
	}
}

func (a *anyConv) scalar(kind int, v *pgVal) interface{} {
	good := dgScalarToGo(kind, v)
	if !a.hit() {
		return good
	}
	r := a.r
	if a.mode == 2 {
		switch kind {
		case pgKString:
			if r.chance(80) {
				return append([]byte{}, v.B...)
			}
			return int32(7) // text conversion: outside the model
		case pgKBytes:
			return string(v.B) // no cast for bytes: error
		case pgKFloat, pgKDouble:
			if r.chance(50) {
				return r.bool()
			}
			return int32(3) // float conversion: outside the model
		case pgKBool:
			return []interface{}{int(r.intn(3)), int8(0), uint16(2), uint64(1) << 63, int64(-1), "", "x", []byte{}, float64(0), float32(1)}[r.intn(10)]
		case pgKEnum:
			return int32(v.I.Int64()) // enums are not cast
		}
		if r.chance(5) {
			return "12" // text conversion: outside the model
		}
		return a.otherInt(kind, v)
	}
	// mode 1: a Go value of another dynamic type
	switch r.intn(9) {
	case 0:
		return nil
	case 1:
		return "str"
	case 2:
		return true
	case 3:
		if kind == 3 || kind == 16 || kind == 18 || kind == 6 {
			return int32(1)
		}
		return int64(1)
	case 4:
		return int(5)
	case 5:
		return float64(1.5)
	case 6:
		return []interface{}{int32(1)}
	case 7:
		if kind == pgKString {
			return []string{"\xff\xfe", "a\xc0\x80", "\xed\xa0\x80", "ok\x80"}[r.intn(4)]
		}
		return uint8(3)
	default:
		return map[string]interface{}{}
	}
}

func (a *anyConv) one(f *pgField, e *pgVal, single bool) interface{} {
	if f.Kind == pgKMessage {
		if a.mode == 1 && a.hit() {
			return []interface{}{nil, []interface{}{}, int32(0), "m"}[a.r.intn(4)]
		}
		return a.msg(e, single)
	}
	return a.scalar(f.Kind, e)
}

// single: keep at most one member (deviant families, below a map value: WriteMap drops errors, and what a failed
// sub-message leaves in the buffer depends on the iteration order, which no one can recover)
func (a *anyConv) msg(v *pgVal, single bool) interface{} {
	var byN map[proto.FieldNumber]interface{}
	var byS map[string]interface{}
	if a.byName {
		byS = map[string]interface{}{}
	} else {
		byN = map[proto.FieldNumber]interface{}{}
	}
	put := func(f *pgField, x interface{}) {
		if a.byName {
			byS[f.Name] = x
		} else {
			byN[proto.FieldNumber(f.Num)] = x
		}
	}
	flds := v.Fields
	if single && len(flds) > 1 {
		i := a.r.intn(len(flds))
		flds = flds[i : i+1]
	}
	for _, fv := range flds {
		f := fv.F
		var x interface{}
		switch f.Label {
		case pgSingular:
			x = a.one(f, fv.V, single)
		case pgRepeated:
			if a.mode == 1 && a.hit() {
				x = []interface{}{int32(1), "l", nil, map[string]interface{}{}}[a.r.intn(4)]
				break
			}
			l := make([]interface{}, 0, len(fv.V.Elems))
			for _, e := range fv.V.Elems {
				l = append(l, a.one(f, e, single))
			}
			x = l
		case pgMap:
			if a.mode == 1 && a.hit() {
				x = []interface{}{[]interface{}{}, int32(1), nil}[a.r.intn(3)]
				break
			}
			ents := fv.V.Entries
			if a.trim && len(ents) > 1 {
				ents = ents[:1]
			}
			switch {
			case f.KeyKind == pgKString && !a.strIface:
				mp := map[string]interface{}{}
				for _, kv := range ents {
					mp[string(kv.K.B)] = a.one(f, kv.V, a.trim)
				}
				x = mp
			case a.mode == 2 && f.KeyKind != pgKString && f.KeyKind != pgKBool && a.r.chance(50):
				mp := map[int]interface{}{}
				for _, kv := range ents {
					s, _ := scalarBits(f.KeyKind, kv.K)
					mp[int(s)] = a.one(f, kv.V, a.trim)
				}
				x = mp
			default:
				mp := map[interface{}]interface{}{}
				for _, kv := range ents {
					mp[dgScalarToGo(f.KeyKind, kv.K)] = a.one(f, kv.V, a.trim)
				}
				x = mp
			}
		}
		put(f, x)
	}
	if a.mode == 1 && !single && a.hit() {
		// a member the descriptor does not know
		if a.byName {
			byS["zz_unknown_member"] = int32(1)
		} else {
			byN[proto.FieldNumber(400000+a.r.intn(1000))] = "u"
		}
	}
	if a.byName {
		return byS
	}
	return byN
}

// [packed = false] on a random subset of the repeated numeric fields
func c20FlipUnpacked(r *rng, s *pgSchema) bool {
	any := false
	for _, m := range s.Msgs {
		for _, f := range m.Fields {
			if f.Label == pgRepeated && pgIsNumKind(f.Kind) && r.chance(60) {
				f.Unpacked = true
				any = true
			}
		}
	}
	return any
}

// pgVal.Packed follows the field declaration
func c20FixPacked(v *pgVal) {
	switch v.Tag {
	case 1:
		for _, fv := range v.Fields {
			if fv.V.Tag == 4 && fv.F.Unpacked {
				fv.V.Packed = false
			}
			c20FixPacked(fv.V)
		}
	case 4:
		for _, e := range v.Elems {
			c20FixPacked(e)
		}
	case 5:
		for _, kv := range v.Entries {
			c20FixPacked(kv.V)
		}
	}
}

func c20Write(c *pgCompiled, gv interface{}, cast, disallow, byName bool) (string, []byte) {
	var b []byte
	var werr error
	okw, _ := noPanic(func() {
		p := binary.NewBinaryProtocolBuffer()
		werr = p.WriteAnyWithDesc(c.Dyn, gv, false, cast, disallow, byName)
		b = append([]byte{}, p.Buf...)
		binary.FreeBinaryProtocol(p)
	})
	if !okw {
		return "n3", nil
	}
	return berr(werr), b
}

func c20EmitRead(sf []string, c *pgCompiled, in []byte, disallow, byName bool) {
	if len(in) > 4096 {
		return
	}
	var g interface{}
	var rerr error
	left := 0
	okr, _ := noPanic(func() {
		p := binary.NewBinaryProtol(append([]byte{}, in...))
		g, rerr = p.ReadAnyWithDesc(c.Dyn, false, true, disallow, byName)
		left = p.Left()
		// readers are recycled: the next NewBinaryProtol / NewBinaryProtocolBuffer gets this object back from the pool
		// and must start at position 0 of ITS buffer (strings were copied, []byte values alias our own copy of the input)
		binary.FreeBinaryProtocol(p)
	})
	fields := append(append([]string{}, sf...), fb(byName), fb(disallow), "n0", fx(in))
	switch {
	case !okr:
		fields = append(fields, "n3", "n0")
	case rerr != nil:
		fields = append(fields, "n1", "n0")
	default:
		gf, ok := gvEmit(g)
		if !ok {
			fields = append(fields, "n4", "n0")
		} else {
			fields = append(fields, "n0")
			fields = append(fields, gf...)
			fields = append(fields, fi(left))
		}
	}
	out.emit(2010, fields...)
}

func c20UnknownField(r *rng, s *pgSchema) []byte {
	root := s.msg(s.Root)
	num := uint64(0)
	for try := 0; try < 50; try++ {
		num = uint64(1 + r.intn(3000))
		if root.byNum(int32(num)) == nil {
			break
		}
	}
	wt := []uint64{0, 1, 2, 5, 0, 2, 3, 4, 7}[r.intn(9)]
	var b []byte
	tag := num<<3 | wt
	for tag >= 0x80 {
		b = append(b, byte(tag)|0x80)
		tag >>= 7
	}
	b = append(b, byte(tag))
	switch wt {
	case 0:
		b = append(b, []byte{0x96, 0x01}...)
	case 1:
		b = append(b, r.bytes(8)...)
	case 5:
		b = append(b, r.bytes(4)...)
	case 2:
		n := r.intn(6)
		b = append(b, byte(n))
		b = append(b, r.bytes(n)...)
	}
	return b
}

func genC20Any(r *rng, n int) {
	nschemas := 6 + n/400
	for si := 0; si < nschemas; si++ {
		s := genProtoSchema(r.fork(), pgOpts{MaxDepth: 3})
		unpacked := false
		if si%3 == 1 {
			unpacked = c20FlipUnpacked(r.fork(), s)
		}
		c, err := compileProtoSchema(s)
		if err != nil {
			continue
		}
		sf := s.caseFields()
		for k := 0; k < 7; k++ {
			v := genProtoValue(r.fork(), c, s.Root, 0)
			if unpacked {
				c20FixPacked(v)
			}
			refb, err := c.encodeRef(v, s.Root)
			if err != nil {
				continue
			}
			rr := r.fork()
			byName := rr.bool()
			// 2009 conforming
			a := &anyConv{c: c, r: rr, byName: byName, strIface: rr.chance(25)}
			gv := a.msg(v, false)
			dis := rr.bool()
			emitW := func(gv interface{}, cast, dis, byName bool, fam int) []byte {
				gf, ok := gvEmit(gv)
				if !ok {
					return nil
				}
				wc, b := c20Write(c, gv, cast, dis, byName)
				if len(b) > 8192 {
					return nil
				}
				fields := append(append([]string{}, sf...), fb(byName), fb(cast), fb(dis), "n0", fi(fam))
				fields = append(fields, gf...)
				fields = append(fields, wc, fx(b))
				out.emit(2009, fields...)
				if wc == "n0" {
					return b
				}
				return nil
			}
			wb := emitW(gv, false, dis, byName, 0)
			// deviant values (cast=false) and other Go types (cast=true): at most one entry per map
			for mode := 1; mode <= 2; mode++ {
				d := &anyConv{c: c, r: rr, byName: byName, strIface: rr.chance(25), trim: true, mode: mode, budget: 1 + rr.intn(2)}
				dv := d.msg(v, false)
				emitW(dv, mode == 2, rr.bool(), byName, mode)
			}
			// 2010
			c20EmitRead(sf, c, refb, rr.bool(), byName)
			c20EmitRead(sf, c, refb, rr.bool(), !byName)
			if !unpacked {
				c20EmitRead(sf, c, c.permuteWire(rr, s.Root, refb), false, byName)
			}
			if wb != nil {
				c20EmitRead(sf, c, wb, rr.bool(), byName)
			}
			// an unknown field appended / prepended
			u := c20UnknownField(rr, s)
			withU := append(append([]byte{}, refb...), u...)
			if rr.bool() {
				withU = append(append([]byte{}, u...), refb...)
			}
			c20EmitRead(sf, c, withU, false, byName)
			c20EmitRead(sf, c, withU, true, byName)
			// truncation, corruption
			if len(refb) > 0 {
				c20EmitRead(sf, c, refb[:rr.intn(len(refb))], false, byName)
				cb := append([]byte{}, refb...)
				cb[rr.intn(len(cb))] = byte(rr.next())
				c20EmitRead(sf, c, cb, false, byName)
			}
		}
	}
	_ = fmt.Sprintf
}
