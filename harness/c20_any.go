//go:build verif

package main

import (
	"bytes"
	"fmt"
	"math"
	"sort"
	"strings"

	"github.com/cloudwego/dynamicgo/proto"
	"github.com/cloudwego/dynamicgo/proto/binary"
	rw "google.golang.org/protobuf/encoding/protowire"
)

// 2009 / 2010: the descriptor-driven writer / reader of proto/binary against their as-coded Gallina model
// (coq/model/ProtoAny.v, checker coq/model/Check20d.v).
//
//	2009  schema.., byName, cast, disallowUnknown, needMessageLen, family, <Go value passed>, code (0 nil,1 error,3 panic), p.Buf
//	2010  schema.., byName, disallowUnknown, hasMessageLen, input, code (0 ok,1 error,3 panic,4 foreign Go type),
//	      [<Go value returned> when code = 0], bytes left
//
// Go values are emitted by walking the ACTUAL interface{} (prefix code, see gvEmit); map entries are sorted for the
// determinism of the case file only: the checker recovers the iteration order the implementation used from its output.
func init() {
	base := generators["C20"]
	generators["C20"] = func(r *rng, n int) {
		// a copy of the state: the streams of the other C20 generators stay what they were
		own := &rng{s: r.s ^ 0xC20A11D}
		base(r, n)
		genC20Any(own, n)
	}
}

// ---- Go value -> case fields
func gvEmit(x interface{}) ([]string, bool) {
	var out []string
	ok := true
	var walk func(x interface{})
	walk = func(x interface{}) {
		switch v := x.(type) {
		case nil:
			out = append(out, "n0")
		case bool:
			out = append(out, "n1", fb(v))
		case int8:
			out = append(out, "n2", "n1", fn(int64(v)))
		case int16:
			out = append(out, "n2", "n2", fn(int64(v)))
		case int32:
			out = append(out, "n2", "n3", fn(int64(v)))
		case int64:
			out = append(out, "n2", "n4", fn(v))
		case int:
			out = append(out, "n2", "n5", fn(int64(v)))
		case uint8:
			out = append(out, "n2", "n6", fu(uint64(v)))
		case uint16:
			out = append(out, "n2", "n7", fu(uint64(v)))
		case uint32:
			out = append(out, "n2", "n8", fu(uint64(v)))
		case uint64:
			out = append(out, "n2", "n9", fu(v))
		case uint:
			out = append(out, "n2", "n10", fu(uint64(v)))
		case proto.EnumNumber:
			out = append(out, "n2", "n11", fn(int64(v)))
		case float32:
			out = append(out, "n3", fu(uint64(math.Float32bits(v))))
		case float64:
			out = append(out, "n4", fu(math.Float64bits(v)))
		case string:
			out = append(out, "n5", fs(v))
		case []byte:
			out = append(out, "n6", fx(v))
		case []interface{}:
			out = append(out, "n7", fi(len(v)))
			for _, e := range v {
				walk(e)
			}
		case map[string]interface{}:
			out = append(out, "n8", fi(len(v)))
			ks := make([]string, 0, len(v))
			for k := range v {
				ks = append(ks, k)
			}
			sort.Strings(ks)
			for _, k := range ks {
				out = append(out, fs(k))
				walk(v[k])
			}
		case map[int]interface{}:
			out = append(out, "n9", fi(len(v)))
			ks := make([]int, 0, len(v))
			for k := range v {
				ks = append(ks, k)
			}
			sort.Ints(ks)
			for _, k := range ks {
				out = append(out, fn(int64(k)))
				walk(v[k])
			}
		case map[interface{}]interface{}:
			out = append(out, "n10", fi(len(v)))
			type ent struct {
				key string
				k   interface{}
			}
			es := make([]ent, 0, len(v))
			for k := range v {
				kf, kok := gvEmit(k)
				if !kok {
					ok = false
				}
				es = append(es, ent{strings.Join(kf, " "), k})
			}
			sort.Slice(es, func(i, j int) bool { return es[i].key < es[j].key })
			for _, e := range es {
				walk(e.k)
				walk(v[e.k])
			}
		case map[proto.FieldNumber]interface{}:
			out = append(out, "n11", fi(len(v)))
			ks := make([]int, 0, len(v))
			for k := range v {
				ks = append(ks, int(k))
			}
			sort.Ints(ks)
			for _, k := range ks {
				out = append(out, fn(int64(k)))
				walk(v[proto.FieldNumber(k)])
			}
		default:
			ok = false
			out = append(out, "n0")
		}
	}
	walk(x)
	return out, ok
}

// ---- abstract value -> Go value, with optional deviations
type anyConv struct {
	c        *pgCompiled
	r        *rng
	byName   bool
	strIface bool // string-keyed maps as map[interface{}]interface{}
	trim     bool // at most one entry per map
	mode     int  // 0 conforming, 1 deviant (cast=false), 2 other Go types (cast=true)
	budget   int  // deviations left
}

func (a *anyConv) hit() bool {
	if a.mode == 0 || a.budget <= 0 || !a.r.chance(12) {
		return false
	}
	a.budget--
	return true
}

// the numeric value of a conforming scalar as int64 / uint64 bits
func scalarBits(kind int, v *pgVal) (int64, uint64) {
	if pgIsSignedKind(kind) {
		return v.I.Int64(), uint64(v.I.Int64())
	}
	return int64(v.I.Uint64()), v.I.Uint64()
}

func (a *anyConv) otherInt(kind int, v *pgVal) interface{} {
	s, u := scalarBits(kind, v)
	r := a.r
	switch r.intn(11) {
	case 0:
		return int(s)
	case 1:
		return int8(s)
	case 2:
		return int16(s)
	case 3:
		return uint8(u)
	case 4:
		return uint16(u)
	case 5:
		return uint(u)
	case 6:
		return u // uint64, possibly >= 2^63
	case 7:
		return s // int64, possibly outside int32
	case 8:
		return int32(s)
	case 9:
		return uint32(u)
	default:
		return s&1 == 1 // bool
	}
}

func (a *anyConv) scalar(kind int, v *pgVal) interface{} {
	good := dgScalarToGo(kind, v)
	if !a.hit() {
		return good
	}
	r := a.r
	if a.mode == 2 {
		floats := []interface{}{float64(0), float64(-1.5), float64(2147483648.75), float64(-9.3e18), float64(1e19), float64(3e38),
			float64(1e39), math.Inf(1), math.Inf(-1), math.NaN(), float32(7.9), float32(-3e9), float32(16777217), math.Float64frombits(r.next()),
			math.Float32frombits(uint32(r.next())), float64(int64(r.next())), float64(1) / 3, float64(0.1), 1e-320, float64(math.MaxFloat32) * 1.00000003}
		texts := []interface{}{"12", "-7", "+5", "x", "", "9223372036854775807", "9223372036854775808", "-9223372036854775808", "1_0", " 1",
			[]byte("42"), []byte("-"), "007"}
		switch kind {
		case pgKString:
			switch r.intn(4) {
			case 0:
				return append([]byte{}, v.B...)
			case 1:
				return []interface{}{int32(-7), int64(1) << 62, uint64(1) << 63, int8(-128), uint16(65535), int(0)}[r.intn(6)]
			case 2:
				return r.bool()
			default:
				return floats[r.intn(len(floats))] // FormatFloat: outside the model
			}
		case pgKBytes:
			return string(v.B) // no cast for bytes: error
		case pgKFloat, pgKDouble:
			switch r.intn(4) {
			case 0:
				return r.bool()
			case 1:
				return []interface{}{int32(3), int64(1)<<53 + 1, int64(-1)<<62 - 1, ^uint64(0), uint64(1)<<63 + 1025, int8(-1), uint32(16777217), int(33554433)}[r.intn(8)]
			case 2:
				f := floats[r.intn(len(floats))]
				if kind == pgKFloat {
					if x, ok := f.(float32); ok {
						return float64(x)
					}
					return f
				}
				if x, ok := f.(float64); ok {
					return float32(x)
				}
				return f
			default:
				return texts[r.intn(len(texts))] // ParseFloat: outside the model
			}
		case pgKBool:
			return []interface{}{int(r.intn(3)), int8(0), uint16(2), uint64(1) << 63, int64(-1), "", "x", []byte{}, float64(0), float32(1), math.NaN(), math.Copysign(0, -1)}[r.intn(12)]
		case pgKEnum:
			return int32(v.I.Int64()) // enums are not cast
		}
		switch r.intn(5) {
		case 0:
			return floats[r.intn(len(floats))]
		case 1:
			return texts[r.intn(len(texts))]
		}
		return a.otherInt(kind, v)
	}
	// mode 1: a Go value of another dynamic type
	switch r.intn(9) {
	case 0:
		return nil
	case 1:
		return "str"
	case 2:
		return true
	case 3:
		if kind == 3 || kind == 16 || kind == 18 || kind == 6 {
			return int32(1)
		}
		return int64(1)
	case 4:
		return int(5)
	case 5:
		return float64(1.5)
	case 6:
		return []interface{}{int32(1)}
	case 7:
		if kind == pgKString {
			return []string{"\xff\xfe", "a\xc0\x80", "\xed\xa0\x80", "ok\x80"}[r.intn(4)]
		}
		return uint8(3)
	default:
		return map[string]interface{}{}
	}
}

func (a *anyConv) one(f *pgField, e *pgVal, single bool) interface{} {
	if f.Kind == pgKMessage {
		if a.mode == 1 && a.hit() {
			return []interface{}{nil, []interface{}{}, int32(0), "m"}[a.r.intn(4)]
		}
		return a.msg(e, single)
	}
	return a.scalar(f.Kind, e)
}

// single: keep at most one member (deviant families, below a map value: WriteMap drops errors, and what a failed
// sub-message leaves in the buffer depends on the iteration order, which no one can recover)
func (a *anyConv) msg(v *pgVal, single bool) interface{} {
	var byN map[proto.FieldNumber]interface{}
	var byS map[string]interface{}
	if a.byName {
		byS = map[string]interface{}{}
	} else {
		byN = map[proto.FieldNumber]interface{}{}
	}
	put := func(f *pgField, x interface{}) {
		if a.byName {
			byS[f.Name] = x
		} else {
			byN[proto.FieldNumber(f.Num)] = x
		}
	}
	flds := v.Fields
	if single && len(flds) > 1 {
		i := a.r.intn(len(flds))
		flds = flds[i : i+1]
	}
	for _, fv := range flds {
		f := fv.F
		var x interface{}
		switch f.Label {
		case pgSingular:
			x = a.one(f, fv.V, single)
		case pgRepeated:
			if a.mode == 1 && a.hit() {
				x = []interface{}{int32(1), "l", nil, map[string]interface{}{}}[a.r.intn(4)]
				break
			}
			l := make([]interface{}, 0, len(fv.V.Elems))
			for _, e := range fv.V.Elems {
				l = append(l, a.one(f, e, single))
			}
			x = l
		case pgMap:
			if a.mode == 1 && a.hit() {
				x = []interface{}{[]interface{}{}, int32(1), nil}[a.r.intn(3)]
				break
			}
			ents := fv.V.Entries
			if a.trim && len(ents) > 1 {
				ents = ents[:1]
			}
			switch {
			case f.KeyKind == pgKString && !a.strIface:
				mp := map[string]interface{}{}
				for _, kv := range ents {
					mp[string(kv.K.B)] = a.one(f, kv.V, a.trim)
				}
				x = mp
			case a.mode == 2 && f.KeyKind != pgKString && f.KeyKind != pgKBool && a.r.chance(50):
				mp := map[int]interface{}{}
				for _, kv := range ents {
					s, _ := scalarBits(f.KeyKind, kv.K)
					mp[int(s)] = a.one(f, kv.V, a.trim)
				}
				x = mp
			default:
				mp := map[interface{}]interface{}{}
				for _, kv := range ents {
					mp[dgScalarToGo(f.KeyKind, kv.K)] = a.one(f, kv.V, a.trim)
				}
				x = mp
			}
		}
		put(f, x)
	}
	if a.mode == 1 && !single && a.hit() {
		// a member the descriptor does not know
		if a.byName {
			byS["zz_unknown_member"] = int32(1)
		} else {
			byN[proto.FieldNumber(400000+a.r.intn(1000))] = "u"
		}
	}
	if a.byName {
		return byS
	}
	return byN
}

// [packed = false] on a random subset of the repeated numeric fields
func c20FlipUnpacked(r *rng, s *pgSchema) bool {
	any := false
	for _, m := range s.Msgs {
		for _, f := range m.Fields {
			if f.Label == pgRepeated && pgIsNumKind(f.Kind) && r.chance(60) {
				f.Unpacked = true
				any = true
			}
		}
	}
	return any
}

// pgVal.Packed follows the field declaration
func c20FixPacked(v *pgVal) {
	switch v.Tag {
	case 1:
		for _, fv := range v.Fields {
			if fv.V.Tag == 4 && fv.F.Unpacked {
				fv.V.Packed = false
			}
			c20FixPacked(fv.V)
		}
	case 4:
		for _, e := range v.Elems {
			c20FixPacked(e)
		}
	case 5:
		for _, kv := range v.Entries {
			c20FixPacked(kv.V)
		}
	}
}

func c20Write(c *pgCompiled, gv interface{}, cast, disallow, byName bool) (string, []byte) {
	var b []byte
	var werr error
	okw, _ := noPanic(func() {
		p := binary.NewBinaryProtocolBuffer()
		werr = p.WriteAnyWithDesc(c.Dyn, gv, false, cast, disallow, byName)
		b = append([]byte{}, p.Buf...)
		binary.FreeBinaryProtocol(p)
	})
	if !okw {
		return "n3", nil
	}
	return berr(werr), b
}

func c20EmitRead(sf []string, c *pgCompiled, in []byte, disallow, byName bool) {
	if len(in) > 4096 {
		return
	}
	var g, g2 interface{}
	var rerr, rerr2 error
	left, left2 := 0, 0
	buflen1, buflen2, same1, same2 := 0, 0, false, false
	ok2 := false
	okr, _ := noPanic(func() {
		mine := append([]byte{}, in...)
		p := binary.NewBinaryProtol(mine)
		g, rerr = p.ReadAnyWithDesc(c.Dyn, false, true, disallow, byName)
		left = p.Left()
		// the protocol's buffer is the caller's buffer again after the call, error or not
		buflen1, same1 = len(p.RawBuf()), bytes.Equal(p.Buf, in)
		// second step on the SAME protocol object: rewind, read leniently
		ok2, _ = noPanic(func() {
			p.Read = 0
			g2, rerr2 = p.ReadAnyWithDesc(c.Dyn, false, true, false, byName)
			left2 = p.Left()
			buflen2, same2 = len(p.RawBuf()), bytes.Equal(p.Buf, in)
		})
		// readers are recycled: the next NewBinaryProtol / NewBinaryProtocolBuffer gets this object back from the pool
		// and must start at position 0 of ITS buffer (strings were copied, []byte values alias our own copy of the input)
		p.Buf = mine
		binary.FreeBinaryProtocol(p)
	})
	if okr {
		// 2014: schema.., byName, disallowUnknown of the first read, input, code of the first read, len(Buf) and Buf==input after it,
		// code of the lenient re-read on the same object, [value], bytes left, len(Buf), Buf==input
		f2 := append(append([]string{}, sf...), fb(byName), fb(disallow), fx(in), berr(rerr), fi(buflen1), fb(same1))
		switch {
		case !ok2:
			f2 = append(f2, "n3", "n0", "n0", "n0")
		case rerr2 != nil:
			f2 = append(f2, "n1", "n0", fi(buflen2), fb(same2))
		default:
			if gf, ok := gvEmit(g2); !ok {
				f2 = append(f2, "n4", "n0", "n0", "n0")
			} else {
				f2 = append(f2, "n0")
				f2 = append(f2, gf...)
				f2 = append(f2, fi(left2), fi(buflen2), fb(same2))
			}
		}
		out.emit(2014, f2...)
	}
	fields := append(append([]string{}, sf...), fb(byName), fb(disallow), "n0", fx(in))
	switch {
	case !okr:
		fields = append(fields, "n3", "n0")
	case rerr != nil:
		fields = append(fields, "n1", "n0")
	default:
		gf, ok := gvEmit(g)
		if !ok {
			fields = append(fields, "n4", "n0")
		} else {
			fields = append(fields, "n0")
			fields = append(fields, gf...)
			fields = append(fields, fi(left))
		}
	}
	out.emit(2010, fields...)
}

func c20UnknownField(r *rng, s *pgSchema) []byte { return c20UnknownFieldOf(r, s.msg(s.Root)) }

func c20UnknownFieldOf(r *rng, root *pgMsg) []byte {
	num := uint64(0)
	for try := 0; try < 50; try++ {
		num = uint64(1 + r.intn(3000))
		if root.byNum(int32(num)) == nil {
			break
		}
	}
	wt := []uint64{0, 1, 2, 5, 0, 2, 3, 4, 7}[r.intn(9)]
	var b []byte
	tag := num<<3 | wt
	for tag >= 0x80 {
		b = append(b, byte(tag)|0x80)
		tag >>= 7
	}
	b = append(b, byte(tag))
	switch wt {
	case 0:
		b = append(b, []byte{0x96, 0x01}...)
	case 1:
		b = append(b, r.bytes(8)...)
	case 5:
		b = append(b, r.bytes(4)...)
	case 2:
		n := r.intn(6)
		b = append(b, byte(n))
		b = append(b, r.bytes(n)...)
	}
	return b
}

// valid but non-canonical spellings of refb (top level): 0 a packed field written unpacked, 1 a [packed=false] field
// written packed, 2 a run of a repeated field / map split by moving its last record to the front, 3 a singular varint
// field written twice (another value first), 4 a bool written as varint 2. nil when the transformation does not apply.
func c20NonCanon(r *rng, s *pgSchema, refb []byte, t int) []byte {
	type rec struct {
		num int32
		wt  rw.Type
		raw []byte // the whole record
		val []byte // payload (without length prefix) for wt 2, the value bytes otherwise
	}
	var recs []rec
	b := refb
	for len(b) > 0 {
		num, wt, tl := rw.ConsumeTag(b)
		if tl < 0 {
			return nil
		}
		vl := rw.ConsumeFieldValue(num, wt, b[tl:])
		if vl < 0 {
			return nil
		}
		rc := rec{num: int32(num), wt: wt, raw: b[:tl+vl], val: b[tl : tl+vl]}
		if wt == rw.BytesType {
			p, _ := rw.ConsumeBytes(b[tl:])
			rc.val = p
		}
		recs = append(recs, rc)
		b = b[tl+vl:]
	}
	root := s.msg(s.Root)
	var idx []int
	for i, rc := range recs {
		f := root.byNum(rc.num)
		if f == nil {
			continue
		}
		ok := false
		switch t {
		case 0:
			ok = f.Label == pgRepeated && pgIsNumKind(f.Kind) && !f.Unpacked && rc.wt == rw.BytesType
		case 1:
			ok = f.Label == pgRepeated && f.Unpacked && (i == 0 || recs[i-1].num != rc.num)
		case 2:
			ok = f.Label != pgSingular && i > 0 && recs[i-1].num == rc.num && (i+1 == len(recs) || recs[i+1].num != rc.num)
		case 3:
			ok = f.Label == pgSingular && rc.wt == rw.VarintType
		case 4:
			ok = f.Label == pgSingular && f.Kind == pgKBool && len(rc.val) == 1 && rc.val[0] == 1
		}
		if ok {
			idx = append(idx, i)
		}
	}
	if len(idx) == 0 {
		return nil
	}
	i := idx[r.intn(len(idx))]
	rc := recs[i]
	f := root.byNum(rc.num)
	var out []byte
	emit := func(from, to int) {
		for _, x := range recs[from:to] {
			out = append(out, x.raw...)
		}
	}
	switch t {
	case 0:
		emit(0, i)
		p := rc.val
		ewt := rw.Type(pgWireType(f.Kind))
		for len(p) > 0 {
			l := rw.ConsumeFieldValue(rw.Number(rc.num), ewt, p)
			if l < 0 {
				return nil
			}
			out = append(rw.AppendTag(out, rw.Number(rc.num), ewt), p[:l]...)
			p = p[l:]
		}
		emit(i+1, len(recs))
	case 1:
		emit(0, i)
		j := i
		var p []byte
		for j < len(recs) && recs[j].num == rc.num {
			p = append(p, recs[j].val...)
			j++
		}
		out = rw.AppendBytes(rw.AppendTag(out, rw.Number(rc.num), rw.BytesType), p)
		emit(j, len(recs))
	case 2:
		out = append(out, rc.raw...)
		emit(0, i)
		emit(i+1, len(recs))
	case 3:
		emit(0, i)
		out = rw.AppendVarint(rw.AppendTag(out, rw.Number(rc.num), rw.VarintType), uint64(1+r.intn(3)))
		emit(i, len(recs))
	case 4:
		emit(0, i)
		out = append(rw.AppendTag(out, rw.Number(rc.num), rw.VarintType), 2)
		emit(i+1, len(recs))
	}
	return out
}

func genC20Any(r *rng, n int) {
	nschemas := 6 + n/400
	for si := 0; si < nschemas; si++ {
		s := genProtoSchema(r.fork(), pgOpts{MaxDepth: 3})
		unpacked := false
		if si%3 == 1 {
			unpacked = c20FlipUnpacked(r.fork(), s)
		}
		c, err := compileProtoSchema(s)
		if err != nil {
			continue
		}
		sf := s.caseFields()
		for k := 0; k < 7; k++ {
			v := genProtoValue(r.fork(), c, s.Root, 0)
			if unpacked {
				c20FixPacked(v)
			}
			refb, err := c.encodeRef(v, s.Root)
			if err != nil {
				continue
			}
			rr := r.fork()
			byName := rr.bool()
			// 2009 conforming
			a := &anyConv{c: c, r: rr, byName: byName, strIface: rr.chance(25)}
			gv := a.msg(v, false)
			dis := rr.bool()
			emitW := func(gv interface{}, cast, dis, byName bool, fam int) []byte {
				gf, ok := gvEmit(gv)
				if !ok {
					return nil
				}
				wc, b := c20Write(c, gv, cast, dis, byName)
				if len(b) > 8192 {
					return nil
				}
				fields := append(append([]string{}, sf...), fb(byName), fb(cast), fb(dis), "n0", fi(fam))
				fields = append(fields, gf...)
				fields = append(fields, wc, fx(b))
				out.emit(2009, fields...)
				if wc == "n0" {
					return b
				}
				return nil
			}
			wb := emitW(gv, false, dis, byName, 0)
			// 2013: the TypeDescriptor of a repeated / map field at the top
			nTop := 0
			for _, fv := range v.Fields {
				if fv.F.Label == pgSingular || nTop >= 2 || !rr.chance(60) {
					continue
				}
				var x interface{}
				if byName {
					x = gv.(map[string]interface{})[fv.F.Name]
				} else {
					x = gv.(map[proto.FieldNumber]interface{})[proto.FieldNumber(fv.F.Num)]
				}
				fdesc := c.Dyn.Message().ByNumber(proto.FieldNumber(fv.F.Num))
				gf, gok := gvEmit(x)
				if fdesc == nil || !gok {
					continue
				}
				nTop++
				needLen, hasLen, dis2 := rr.bool(), rr.bool(), rr.bool()
				var tb []byte
				var werr error
				okw, _ := noPanic(func() {
					p := binary.NewBinaryProtocolBuffer()
					werr = p.WriteAnyWithDesc(fdesc.Type(), x, needLen, false, dis2, byName)
					tb = append([]byte{}, p.Buf...)
					binary.FreeBinaryProtocol(p)
				})
				wc := berr(werr)
				if !okw {
					wc = "n3"
				}
				fields := append(append([]string{}, sf...), fb(byName), fb(needLen), fb(hasLen), fb(dis2), fi(int(fv.F.Num)))
				fields = append(fields, gf...)
				fields = append(fields, wc, fx(tb))
				var g2 interface{}
				var rerr error
				left := 0
				okr, _ := noPanic(func() {
					p := binary.NewBinaryProtol(append([]byte{}, tb...))
					g2, rerr = p.ReadAnyWithDesc(fdesc.Type(), hasLen, true, false, byName)
					left = p.Left()
					binary.FreeBinaryProtocol(p)
				})
				switch {
				case !okr:
					fields = append(fields, "n3", "n0")
				case rerr != nil:
					fields = append(fields, "n1", "n0")
				default:
					g2f, ok2 := gvEmit(g2)
					if !ok2 {
						fields = append(fields, "n4", "n0")
					} else {
						fields = append(fields, "n0")
						fields = append(fields, g2f...)
						fields = append(fields, fi(left))
					}
				}
				out.emit(2013, fields...)
			}
			// deviant values (cast=false) and other Go types (cast=true): at most one entry per map
			for mode := 1; mode <= 2; mode++ {
				d := &anyConv{c: c, r: rr, byName: byName, strIface: rr.chance(25), trim: true, mode: mode, budget: 1 + rr.intn(2)}
				dv := d.msg(v, false)
				emitW(dv, mode == 2, rr.bool(), byName, mode)
			}
			// 2010
			c20EmitRead(sf, c, refb, rr.bool(), byName)
			c20EmitRead(sf, c, refb, rr.bool(), !byName)
			if !unpacked {
				c20EmitRead(sf, c, c.permuteWire(rr, s.Root, refb), false, byName)
			}
			if wb != nil {
				c20EmitRead(sf, c, wb, rr.bool(), byName)
			}
			for t := 0; t < 5; t++ {
				if nb := c20NonCanon(rr, s, refb, t); nb != nil {
					c20EmitRead(sf, c, nb, false, byName)
				}
			}
			// an unknown field appended / prepended
			u := c20UnknownField(rr, s)
			withU := append(append([]byte{}, refb...), u...)
			if rr.bool() {
				withU = append(append([]byte{}, u...), refb...)
			}
			c20EmitRead(sf, c, withU, false, byName)
			c20EmitRead(sf, c, withU, true, byName)
			// a failure INSIDE a nested message (unknown member under disallowUnknown / payload cut short), other fields after it
			for _, fv := range v.Fields {
				if fv.F.Kind != pgKMessage || fv.F.Label != pgSingular {
					continue
				}
				sub, err := c.encodeRef(fv.V, fv.F.MsgName)
				if err != nil {
					continue
				}
				nested := append(append([]byte{}, sub...), c20UnknownFieldOf(rr, s.msg(fv.F.MsgName))...)
				in := rw.AppendBytes(rw.AppendTag(nil, rw.Number(fv.F.Num), rw.BytesType), nested)
				in = append(in, refb...)
				c20EmitRead(sf, c, in, true, byName)
				c20EmitRead(sf, c, in, false, byName)
				if len(nested) > 1 {
					// declared length one more than what the nested fields fill
					in2 := rw.AppendVarint(rw.AppendTag(nil, rw.Number(fv.F.Num), rw.BytesType), uint64(len(sub)+1))
					in2 = append(append(in2, sub...), 0x80)
					c20EmitRead(sf, c, append(in2, refb...), rr.bool(), byName)
				}
				break
			}
			// truncation, corruption
			if len(refb) > 0 {
				c20EmitRead(sf, c, refb[:rr.intn(len(refb))], false, byName)
				cb := append([]byte{}, refb...)
				cb[rr.intn(len(cb))] = byte(rr.next())
				c20EmitRead(sf, c, cb, false, byName)
			}
		}
	}
	_ = fmt.Sprintf
}
