//go:build verif

package main

// C18 / 1801: (descriptor, options, JSON document) work items. Descriptors and values come from thriftgen.go; this file prints a
// value as JSON with a respelling pass (whitespace, escapes, number spellings, null / unknown / wrong-kind members, truncation).

import (
	"encoding/base64"
	"fmt"
	"math"
	"strconv"
	"strings"
	"unicode/utf8"

	"github.com/cloudwego/dynamicgo/thrift"
)

// ---- shape fields: nstructs, per struct: nfields, per field: id, req, name, has-default, type;  then the root struct index
// type := 0 code binary | 1 idx | 2 elem | 3 elem | 4 key elem
func (g *tgen) c18Ty(t *Ty) []string {
	switch t.K {
	case thrift.STRUCT:
		return []string{"n1", fi(g.structIndex(t))}
	case thrift.LIST:
		return append([]string{"n2"}, g.c18Ty(t.Elem)...)
	case thrift.SET:
		return append([]string{"n3"}, g.c18Ty(t.Elem)...)
	case thrift.MAP:
		return append(append([]string{"n4"}, g.c18Ty(t.Key)...), g.c18Ty(t.Elem)...)
	}
	return []string{"n0", fi(int(t.K)), fb(t.Binary)}
}

func (g *tgen) c18Shape(root *Ty) []string {
	f := []string{fi(len(g.structs))}
	for _, s := range g.structs {
		f = append(f, fi(len(s.Fields)))
		for _, fl := range s.Fields {
			f = append(f, fi(int(fl.ID)), fi(fl.Req), fs(c18Key(fl)), fb(fl.Def != ""))
			f = append(f, g.c18Ty(fl.T)...)
		}
	}
	return append(f, fi(g.structIndex(root)))
}

// JSON key of a field: its alias (api.key / go.tag) when it has one, else its name
var c18Alias = map[*Fld]string{}

func c18Key(f *Fld) string {
	if a, ok := c18Alias[f]; ok {
		return a
	}
	return f.Name
}

// the IDL of thriftgen with the alias annotations appended to the field lines (field names are unique within one IDL)
func (g *tgen) c18Idl(root *Ty) string {
	idl := g.idl(root)
	for _, s := range g.structs {
		for _, f := range s.Fields {
			a, ok := c18Alias[f]
			if !ok {
				continue
			}
			def := ""
			if f.Def != "" {
				def = " = " + f.Def
			}
			ann := fmt.Sprintf(" (api.key = \"%s\")", a)
			if len(a)%2 == 0 && !strings.ContainsAny(a, "'\",") { // a go.tag value ends at the first comma (json:"name,omitempty")
				ann = fmt.Sprintf(" (go.tag = 'json:\"%s\"')", a)
			}
			// inside the block of this struct only (thriftgen's field names repeat across structs)
			start := strings.Index(idl, "struct "+s.Name+" {\n")
			if start < 0 {
				continue
			}
			end := start + strings.Index(idl[start:], "}\n")
			line := fmt.Sprintf("  %d: ", f.ID)
			at := strings.Index(idl[start:end], "\n"+line)
			if at < 0 {
				continue
			}
			eol := start + at + 1 + strings.Index(idl[start+at+1:], "\n")
			_ = def
			idl = idl[:eol] + ann + idl[eol:]
		}
	}
	return idl
}

const c18AliasSpecials = " !#$%&'()*+,-{|}~"

// a struct whose members are looked up by alias through the native trie / hash map: aliases with bytes below '.' and above 'z',
// the special byte at every position; key sets in the trie regime (few keys) and in the hash regime (>= 20 keys over a 2-letter alphabet)
func (g *tgen) c18AliasStruct() *Ty {
	r := g.r
	g.nname++
	S := &Ty{K: thrift.STRUCT, Name: fmt.Sprintf("S%d", g.nname)}
	g.structs = append(g.structs, S)
	used := map[string]bool{}
	add := func(alias string) {
		if used[alias] || alias == "" {
			return
		}
		used[alias] = true
		id := int16(len(S.Fields) + 1)
		t := &Ty{K: []thrift.Type{thrift.I32, thrift.STRING, thrift.BOOL, thrift.I64, thrift.DOUBLE}[r.intn(5)]}
		if r.chance(10) {
			t = &Ty{K: thrift.LIST, Elem: &Ty{K: thrift.I16}}
		}
		f := &Fld{ID: id, Name: fmt.Sprintf("a%d_%d", g.nname, id), T: t, Req: []int{0, 2, 2, 1}[r.intn(4)]}
		S.Fields = append(S.Fields, f)
		c18Alias[f] = alias
	}
	sp := c18AliasSpecials[r.intn(len(c18AliasSpecials))]
	switch r.intn(3) {
	case 0: // hash regime
		other := byte('a' + r.intn(26))
		for tries := 0; len(S.Fields) < 20+r.intn(9) && tries < 400; tries++ {
			b := make([]byte, 5+r.intn(2))
			for i := range b {
				b[i] = other
				if r.bool() {
					b[i] = sp
				}
			}
			add(string(b))
		}
	case 1: // trie regime: words joined by the special byte
		words := []string{"first", "last", "e", "mail", "name", "id", "age", "created", "updated", "at", "x", "zip", "code", "c"}
		for k := 3 + r.intn(6); k > 0; k-- {
			a := words[r.intn(len(words))]
			for q := r.intn(3); q > 0; q-- {
				a += string(sp) + words[r.intn(len(words))]
			}
			if r.chance(20) {
				a += string(sp) + string(sp)
			}
			add(a)
		}
	default: // random short keys over the whole alphabet
		alpha := c18AliasSpecials + "./09AZaz_"
		for k := 2 + r.intn(8); k > 0; k-- {
			b := make([]byte, 1+r.intn(6))
			for i := range b {
				b[i] = alpha[r.intn(len(alpha))]
			}
			add(string(b))
		}
	}
	if len(S.Fields) == 0 {
		add("a" + string(sp))
	}
	return S
}

var c18DbgIDL string

// sanity: the keys the harness predicts are the aliases the IDL parser derived (a harness bug must not look like a finding)
func c18CheckAliases(t *Ty, d *thrift.TypeDescriptor, seen map[*Ty]bool) {
	if t == nil || d == nil {
		return
	}
	switch t.K {
	case thrift.STRUCT:
		if seen[t] {
			return
		}
		seen[t] = true
		for _, f := range t.Fields {
			fd := d.Struct().FieldById(thrift.FieldID(f.ID))
			if fd == nil {
				die("C18: field %d of %s missing in the descriptor", f.ID, t.Name)
			}
			if fd.Alias() != c18Key(f) {
				die("C18: field %d of %s: alias %q, harness expects %q\n%s", f.ID, t.Name, fd.Alias(), c18Key(f), c18DbgIDL)
			}
			c18CheckAliases(f.T, fd.Type(), seen)
		}
	case thrift.LIST, thrift.SET:
		c18CheckAliases(t.Elem, d.Elem(), seen)
	case thrift.MAP:
		c18CheckAliases(t.Elem, d.Elem(), seen)
	}
}

// ---- valid UTF-8 string contents over an escape-relevant alphabet
var c18StrAtoms = []string{"a", "b", "k", "hello", " ", "x y", "\"", "\\", "/", "\n", "\t", "\r", "\b", "\f", "\x00", "\x1f", "\x7f", "\u00e9", "\u07ff", "\u0800", "\u2028", "\u2029",
	"\u4e2d", "\uffff", "\ufffd", "\U00010000", "\U0001f600", "\U0010ffff", "0", "12", "-7", "true", "null", "{", "]", ":", ","}

func c18Str(r *rng) []byte {
	switch r.intn(10) {
	case 0:
		return nil
	case 1, 2, 3:
		return []byte([]string{"a", "key", "hello world", "zz", "K"}[r.intn(5)])
	}
	var s []byte
	for k := r.intn(8); k >= 0; k-- {
		s = append(s, c18StrAtoms[r.intn(len(c18StrAtoms))]...)
	}
	if r.chance(5) { // long strings (beyond 16/32-byte lanes and the key cache)
		for len(s) < 40+r.intn(200) {
			s = append(s, "abcdefgh"[r.intn(8)])
		}
	}
	return s
}

// make a generated value JSON-expressible: strings valid UTF-8 (binaries keep arbitrary bytes), finite doubles, unique keys
func c18Fix(r *rng, v *Val) {
	switch v.T.K {
	case thrift.STRING:
		if !v.T.Binary || r.chance(50) {
			v.S = c18Str(r)
		}
	case thrift.DOUBLE:
		f := math.Float64frombits(v.D)
		if f != f || math.IsInf(f, 0) {
			v.D = math.Float64bits(float64(int64(r.next()>>12)) / 1024)
		}
		if r.chance(4) { // integer-valued doubles around and beyond the int64 range (spelled as plain digit strings by the 'f' format)
			v.D = math.Float64bits(math.Ldexp(float64(r.next()>>11), r.intn(40)-10))
			if r.bool() {
				v.D |= 1 << 63
			}
		}
	case thrift.I08, thrift.I16, thrift.I32, thrift.I64:
		if r.chance(15) { // boundary values of the type
			bits := map[thrift.Type]uint{thrift.I08: 7, thrift.I16: 15, thrift.I32: 31, thrift.I64: 63}[v.T.K]
			switch r.intn(4) {
			case 0:
				v.I = -1 << bits
			case 1:
				v.I = 1<<bits - 1
			case 2:
				v.I = -1<<bits + 1
			default:
				v.I = 1<<bits - 2
			}
		}
	}
	for _, f := range v.Fields {
		c18Fix(r, f)
	}
	if v.T.K == thrift.MAP {
		seen := map[string]bool{}
		var ks, es []*Val
		for i, k := range v.Keys {
			c18Fix(r, k)
			c18Fix(r, v.Elems[i])
			id := string(k.encode(nil))
			if seen[id] {
				continue
			}
			seen[id] = true
			ks = append(ks, k)
			es = append(es, v.Elems[i])
		}
		v.Keys, v.Elems = ks, es
		return
	}
	for _, e := range v.Elems {
		c18Fix(r, e)
	}
}

// ---- JSON printer with respelling
type jsp struct {
	r        *rng
	ws       int  // percent: whitespace at a token boundary
	esc      int  // percent: a character that needs no escape is spelled as an escape anyway
	num      int  // percent: alternative number spelling
	nulls    int  // percent: absent field spelled as an explicit null member
	unknown  int  // percent: unknown member inserted after a member
	strInts  bool // ints / doubles spelled as strings (conforming only under String2Int64)
	rawBin   bool // binaries printed raw instead of base64 (conforming only under NoBase64Binary)
	wrongAt  int  // node number (pre-order) printed with a wrong JSON kind; -1 none
	nullElem int  // percent: null spelled as an extra list element / map value
	node     int
	tags     int // bit 0 wrong kind inserted, bit 1 null for a required field, bit 2 unknown member, bit 3 null member
}

func (p *jsp) sp(b []byte) []byte {
	for p.ws > 0 && p.r.chance(p.ws) {
		b = append(b, " \t\n\r"[p.r.intn(4)])
		if p.r.chance(60) {
			break
		}
	}
	return b
}

func (p *jsp) str(b []byte, s []byte) []byte {
	b = append(b, '"')
	for i := 0; i < len(s); {
		c, sz := utf8.DecodeRune(s[i:])
		if c == utf8.RuneError && sz <= 1 { // raw byte of an invalid sequence (only for raw binaries): copied
			b = append(b, s[i])
			i++
			continue
		}
		i += sz
		hex := func(u rune) []byte {
			f := "\\u%04x"
			if p.r.bool() {
				f = "\\u%04X"
			}
			return []byte(fmt.Sprintf(f, u))
		}
		must := c == '"' || c == '\\' || c < 0x20
		if !must && !(p.esc > 0 && p.r.chance(p.esc)) {
			b = utf8.AppendRune(b, c)
			continue
		}
		short := map[rune]string{'"': `\"`, '\\': `\\`, '\n': `\n`, '\t': `\t`, '\r': `\r`, '\b': `\b`, '\f': `\f`, '/': `\/`}
		if e, ok := short[c]; ok && p.r.chance(70) {
			b = append(b, e...)
		} else if c >= 0x10000 {
			c -= 0x10000
			b = append(b, hex(0xd800+(c>>10))...)
			b = append(b, hex(0xdc00+(c&0x3ff))...)
		} else {
			b = append(b, hex(c)...)
		}
	}
	return append(b, '"')
}

func (p *jsp) intLex(v int64) string {
	s := strconv.FormatInt(v, 10)
	if p.num == 0 || !p.r.chance(p.num) {
		return s
	}
	if (v > 1<<53 || v < -(1<<53)) && !p.r.chance(5) {
		return s // beyond 2^53 a fraction / exponent spelling goes through a double in the code: outside the property's domain (rarely kept)
	}
	switch p.r.intn(5) {
	case 0:
		if v == 0 {
			return "-0"
		}
		return s + ".0"
	case 1: // strip trailing zeros into an exponent
		z := 0
		for len(s) > 1+z && s[len(s)-1-z] == '0' && s[len(s)-2-z] != '-' {
			z++
		}
		if z > 0 {
			return s[:len(s)-z] + []string{"e", "E", "e+", "E+"}[p.r.intn(4)] + strconv.Itoa(z)
		}
		return s + "e0"
	case 2: // d.ddd e k  (only short values: stays exact in a double)
		neg := ""
		d := s
		if v < 0 {
			neg, d = "-", s[1:]
		}
		if len(d) >= 2 && len(d) <= 15 {
			return neg + d[:1] + "." + d[1:] + "e" + strconv.Itoa(len(d)-1)
		}
		return s + ".000"
	case 3:
		return s + "e-0"
	}
	return s + "E0"
}

func (p *jsp) dblLex(bits uint64) string {
	f := math.Float64frombits(bits)
	if math.Abs(f) >= 1<<62 && math.Abs(f) < 1e25 && p.r.chance(50) {
		return strconv.FormatFloat(f, 'f', -1, 64)
	}
	if p.num > 0 && p.r.chance(p.num) {
		switch p.r.intn(4) {
		case 0:
			return strconv.FormatFloat(f, 'e', 16, 64)
		case 1:
			if math.Abs(f) < 1e25 && (math.Abs(f) > 1e-10 || f == 0) {
				return strconv.FormatFloat(f, 'f', -1, 64)
			}
		case 2:
			return strconv.FormatFloat(f, 'E', -1, 64)
		}
	}
	return strconv.FormatFloat(f, 'g', -1, 64)
}

// a number lexeme covering the RFC 8259 grammar: [-] (0 | [1-9][0-9]*) [. [0-9]+] [(e|E) [+|-] [0-9]+]
func (p *jsp) anyNumber() string {
	r := p.r
	s := ""
	if r.chance(40) {
		s = "-"
	}
	switch r.intn(4) {
	case 0:
		s += "0"
	case 1:
		s += string(rune('1' + r.intn(9)))
	default:
		s += string(rune('1' + r.intn(9)))
		for k := r.intn(18); k > 0; k-- {
			s += string(rune('0' + r.intn(10)))
		}
	}
	if r.chance(50) {
		s += "."
		for k := 1 + r.intn(6); k > 0; k-- {
			s += string(rune('0' + r.intn(10)))
		}
	}
	if r.chance(60) {
		s += []string{"e", "E"}[r.intn(2)] + []string{"", "+", "-"}[r.intn(3)]
		switch r.intn(4) {
		case 0:
			s += "0"
		case 1:
			s += "00" + strconv.Itoa(r.intn(30))
		default:
			s += strconv.Itoa(r.intn(310))
		}
	}
	return s
}

// a string literal spelled with every kind of escape
func (p *jsp) anyString(b []byte) []byte {
	r := p.r
	b = append(b, '"')
	for k := r.intn(10); k > 0; k-- {
		switch r.intn(14) {
		case 0:
			b = append(b, `\"`...)
		case 1:
			b = append(b, `\\`...)
		case 2:
			b = append(b, `\/`...)
		case 3:
			b = append(b, []string{`\b`, `\f`, `\n`, `\r`, `\t`}[r.intn(5)]...)
		case 4:
			b = append(b, fmt.Sprintf([]string{"\\u%04x", "\\u%04X"}[r.intn(2)], []int{0, 0x1f, 0x22, 0x5c, 0x7f, 0x80, 0x7ff, 0x800, 0x2028, 0xd7ff, 0xe000, 0xffff}[r.intn(12)])...)
		case 5:
			c := []int{0x10000, 0x1f600, 0x10ffff}[r.intn(3)] - 0x10000
			b = append(b, fmt.Sprintf([]string{"\\u%04x\\u%04x", "\\u%04X\\u%04X"}[r.intn(2)], 0xd800+(c>>10), 0xdc00+(c&0x3ff))...)
		case 6:
			b = append(b, []string{"\u00e9", "\u4e2d", "\U0001f600", "\u2029", "\x7f"}[r.intn(5)]...)
		case 7:
			b = append(b, []string{"{", "}", "[", "]", ":", ",", "null", "true", "1e-7", "'"}[r.intn(10)]...)
		default:
			b = append(b, "abcxyz 0189_-"[r.intn(13)])
		}
	}
	return append(b, '"')
}

func (p *jsp) anyJSON(b []byte, depth int) []byte {
	r := p.r
	k := r.intn(10)
	if depth >= 3 && k >= 7 {
		k = r.intn(7)
	}
	switch k {
	case 0, 1, 2, 3:
		return append(b, p.anyNumber()...)
	case 4, 5:
		return p.anyString(b)
	case 6:
		return append(b, []string{"true", "false", "null"}[r.intn(3)]...)
	case 7, 8:
		b = append(b, '[')
		for i, n := 0, r.intn(4); i < n; i++ {
			if i > 0 {
				b = append(p.sp(b), ',')
			}
			b = p.anyJSON(p.sp(b), depth+1)
		}
		return append(p.sp(b), ']')
	default:
		b = append(b, '{')
		for i, n := 0, r.intn(4); i < n; i++ {
			if i > 0 {
				b = append(p.sp(b), ',')
			}
			b = p.anyString(p.sp(b))
			b = append(p.sp(b), ':')
			b = p.anyJSON(p.sp(b), depth+1)
		}
		return append(p.sp(b), '}')
	}
}

var c18Snippets = []struct {
	kind int // 1 bool 2 num 3 str 4 arr 5 obj
	s    string
}{{1, "true"}, {1, "false"}, {2, "12"}, {2, "0"}, {2, "-1.5"}, {2, "1e2"}, {3, `"str"`}, {3, `"12"`}, {3, `""`}, {3, `"true"`}, {4, "[]"}, {4, "[1]"}, {4, `["a",2]`}, {5, "{}"}, {5, `{"a":1}`},
	{5, `{"x":[1,{"y":null}],"z":"A"}`}, {4, `[[],{},"s",-0.5e-3,true,null]`}}

func c18Kind(t *Ty) int {
	switch t.K {
	case thrift.BOOL:
		return 1
	case thrift.I08, thrift.I16, thrift.I32, thrift.I64, thrift.DOUBLE:
		return 2
	case thrift.STRING:
		return 3
	case thrift.LIST, thrift.SET:
		return 4
	}
	return 5
}

func (p *jsp) value(b []byte, v *Val) []byte {
	me := p.node
	p.node++
	if me == p.wrongAt {
		k := c18Kind(v.T)
		for {
			s := c18Snippets[p.r.intn(len(c18Snippets))]
			if s.kind != k {
				p.tags |= 1
				return append(b, s.s...)
			}
		}
	}
	switch v.T.K {
	case thrift.BOOL:
		if v.I != 0 {
			return append(b, "true"...)
		}
		return append(b, "false"...)
	case thrift.I08, thrift.I16, thrift.I32, thrift.I64:
		if p.strInts && p.r.chance(50) {
			return append(append(append(b, '"'), strconv.FormatInt(v.I, 10)...), '"')
		}
		return append(b, p.intLex(v.I)...)
	case thrift.DOUBLE:
		if p.num > 0 && p.r.chance(12) { // any number of the grammar (the value is whatever the lexeme denotes: the model reads the document)
			return append(b, p.anyNumber()...)
		}
		if p.strInts && p.r.chance(30) {
			return append(append(append(b, '"'), p.dblLex(v.D)...), '"')
		}
		return append(b, p.dblLex(v.D)...)
	case thrift.STRING:
		if v.T.Binary && (!p.rawBin || !utf8.Valid(v.S)) {
			return append(append(append(b, '"'), base64.StdEncoding.EncodeToString(v.S)...), '"')
		}
		return p.str(b, v.S)
	case thrift.LIST, thrift.SET:
		// null elements at every position (before the first, between, after the last; also as the only members of an empty list):
		// they are dropped, the count is the number of non-null elements
		b = append(b, '[')
		first := true
		sep := func() {
			if !first {
				b = append(p.sp(b), ',')
			}
			first = false
			b = p.sp(b)
		}
		nulls := func() {
			for k := 0; k < 3 && p.nullElem > 0 && p.r.chance(p.nullElem); k++ {
				sep()
				b = append(b, "null"...)
				p.tags |= 8
			}
		}
		for _, e := range v.Elems {
			nulls()
			sep()
			b = p.value(b, e)
		}
		nulls()
		return append(p.sp(b), ']')
	case thrift.MAP:
		// null-valued entries at every position, under fresh keys of the key type (dropped together with their keys)
		b = append(b, '{')
		first := true
		sep := func() {
			if !first {
				b = append(p.sp(b), ',')
			}
			first = false
			b = p.sp(b)
		}
		nk := 0
		nulls := func() {
			for k := 0; k < 3 && p.nullElem > 0 && p.r.chance(p.nullElem); k++ {
				sep()
				nk++
				switch v.T.Key.K {
				case thrift.STRING:
					b = p.str(b, []byte("null_k"+strconv.Itoa(nk)))
				case thrift.DOUBLE:
					b = append(append(append(b, '"'), strconv.Itoa(1000+nk)...), '.', '5', '"')
				default:
					b = append(append(append(b, '"'), strconv.Itoa(100+nk)...), '"')
				}
				b = append(append(p.sp(b), ':'), p.sp(nil)...)
				b = append(b, "null"...)
				p.tags |= 8
			}
		}
		for i, e := range v.Elems {
			nulls()
			sep()
			k := v.Keys[i]
			if k.T.K == thrift.STRING {
				b = p.str(b, k.S)
			} else if k.T.K == thrift.DOUBLE {
				b = append(append(append(b, '"'), strconv.FormatFloat(math.Float64frombits(k.D), 'g', -1, 64)...), '"')
			} else {
				b = append(append(append(b, '"'), strconv.FormatInt(k.I, 10)...), '"')
			}
			b = append(p.sp(b), ':')
			b = p.value(p.sp(b), e)
		}
		nulls()
		return append(p.sp(b), '}')
	case thrift.STRUCT:
		b = append(b, '{')
		first := true
		member := func(name []byte, val func([]byte) []byte) {
			if !first {
				b = append(p.sp(b), ',')
			}
			first = false
			b = p.str(p.sp(b), name)
			b = append(p.sp(b), ':')
			b = val(p.sp(b))
		}
		unknown := func() {
			if p.unknown > 0 && p.r.chance(p.unknown) {
				p.tags |= 4
				name := []string{"unk", "zz_unknown", "", "f", "f1_", "UNK\u00e9"}[p.r.intn(6)]
				s := c18Snippets[p.r.intn(len(c18Snippets))].s
				if p.r.chance(15) {
					s = "null"
				} else if p.r.chance(65) {
					// any JSON value: the skipped member sweeps the whole RFC 8259 grammar (numbers, escapes, literals, nesting)
					s = string(p.anyJSON(nil, 0))
				}
				member([]byte(name), func(b []byte) []byte { return append(b, s...) })
			}
		}
		present := map[int16]bool{}
		for _, id := range v.FIDs {
			present[id] = true
		}
		nullsFor := func(pos int) { // explicit null members for absent fields, spread over the member positions
			for j, f := range v.T.Fields {
				if present[f.ID] || j%(len(v.FIDs)+1) != pos {
					continue
				}
				if p.nulls > 0 && p.r.chance(p.nulls) {
					p.tags |= 8
					if f.Req == 1 {
						p.tags |= 2
					}
					member([]byte(c18Key(f)), func(b []byte) []byte { return append(b, "null"...) })
				}
			}
		}
		unknown()
		for i, id := range v.FIDs {
			nullsFor(i)
			var fd *Fld
			for _, f := range v.T.Fields {
				if f.ID == id {
					fd = f
				}
			}
			fv := v.Fields[i]
			member([]byte(c18Key(fd)), func(b []byte) []byte { return p.value(b, fv) })
			unknown()
		}
		nullsFor(len(v.FIDs))
		return append(p.sp(b), '}')
	}
	return b
}

func (v *Val) countNodes() int {
	n := 1
	for _, f := range v.Fields {
		n += f.countNodes()
	}
	for _, e := range v.Elems {
		n += e.countNodes()
	}
	return n
}

// a value of the shape in which required fields may be absent too (the missing-required class)
func (g *tgen) genValueOpt(t *Ty, dropReq bool) *Val {
	v := g.genValue(t, 0)
	if dropReq {
		var walk func(x *Val)
		walk = func(x *Val) {
			if x.T.K == thrift.STRUCT {
				var ids []int16
				var fs []*Val
				for i, id := range x.FIDs {
					req := false
					for _, f := range x.T.Fields {
						if f.ID == id && f.Req == 1 {
							req = true
						}
					}
					if req && g.r.chance(30) {
						continue
					}
					ids = append(ids, id)
					fs = append(fs, x.Fields[i])
				}
				x.FIDs, x.Fields = ids, fs
			}
			for _, f := range x.Fields {
				walk(f)
			}
			for _, e := range x.Elems {
				walk(e)
			}
		}
		walk(v)
	}
	return v
}

// documents whose output exceeds the converters' initial buffer (4096 B): output buffer growth / ERR_OOM_BUF re-entry in the native path
func genC18Large(r *rng, n int) []c18Item {
	var items []c18Item
	for d := 0; d < n/400+3; d++ {
		g := newTgen(r.fork())
		root := &Ty{K: thrift.STRUCT, Name: "L1", Fields: []*Fld{
			{ID: 1, Name: "a", T: &Ty{K: thrift.LIST, Elem: &Ty{K: thrift.I64}}},
			{ID: 2, Name: "b", T: &Ty{K: thrift.LIST, Elem: &Ty{K: thrift.STRING}}},
			{ID: 3, Name: "c", T: &Ty{K: thrift.MAP, Key: &Ty{K: thrift.STRING}, Elem: &Ty{K: thrift.I32}}},
			{ID: 4, Name: "d", T: &Ty{K: thrift.STRING, Binary: true}},
			{ID: 5, Name: "e", T: &Ty{K: thrift.SET, Elem: &Ty{K: thrift.DOUBLE}}},
		}}
		g.structs = []*Ty{root}
		desc, err := parseThrift(g.idl(root), thrift.Options{})
		if err != nil {
			die("large idl: %v", err)
		}
		v := &Val{T: root}
		target := 4096 + r.intn(3)*4096 + r.intn(200) - 100 // total output size lands near a multiple of the buffer size
		for _, f := range root.Fields {
			fv := &Val{T: f.T}
			budget := target / 5
			switch f.ID {
			case 1:
				if d%2 == 0 {
					// one-digit integers: 2 bytes of JSON become 8 bytes of output, so the output outgrows the buffer the converter
					// reserves from the input length (ERR_OOM_BUF re-entry in the native path, append growth in the portable one)
					for i := 0; i < target/4; i++ {
						fv.Elems = append(fv.Elems, &Val{T: f.T.Elem, I: int64(r.intn(10))})
					}
					break
				}
				for i := 0; i < budget/8; i++ {
					fv.Elems = append(fv.Elems, &Val{T: f.T.Elem, I: int64(r.u64())})
				}
			case 2:
				for used := 0; used < budget; {
					e := &Val{T: f.T.Elem, S: c18Str(r)}
					used += 4 + len(e.S)
					fv.Elems = append(fv.Elems, e)
				}
			case 3:
				for i := 0; i*12 < budget; i++ {
					fv.Keys = append(fv.Keys, &Val{T: f.T.Key, S: []byte(fmt.Sprintf("k%05d", i))})
					fv.Elems = append(fv.Elems, &Val{T: f.T.Elem, I: int64(int32(r.u64()))})
				}
			case 4:
				fv.S = r.bytes(budget)
			case 5:
				for i := 0; i < budget/8; i++ {
					fv.Elems = append(fv.Elems, &Val{T: f.T.Elem, D: math.Float64bits(float64(int64(r.next()>>20)) / 64)})
				}
			}
			v.FIDs = append(v.FIDs, f.ID)
			v.Fields = append(v.Fields, fv)
		}
		p := &jsp{r: r.fork(), wrongAt: -1, ws: []int{0, 10}[r.intn(2)], num: []int{0, 30}[r.intn(2)]}
		doc := p.value(nil, v)
		items = append(items, &j2tItem{shape: g.c18Shape(root), optb: 0, desc: desc, doc: doc, into: d%4 < 3})
	}
	return items
}

func genC18J2T(r *rng, n int) []c18Item {
	var items []c18Item
	items = append(items, genC18Large(r.fork(), n)...)
	ndesc := n/12 + 4
	for d := 0; d < ndesc; d++ {
		g := newTgen(r.fork())
		g.allowReq = true
		g.maxDepth = 2 + r.intn(3)
		g.keyKinds = []thrift.Type{thrift.STRING, thrift.STRING, thrift.I08, thrift.I16, thrift.I32, thrift.I64, thrift.STRING, thrift.I32, thrift.I64, thrift.STRING}
		if r.chance(35) { // map<double,V>
			g.keyKinds = append(g.keyKinds, thrift.DOUBLE, thrift.DOUBLE)
		}
		root := g.genStruct(0)
		// IDL defaults on some scalar fields
		for _, s := range g.structs {
			for _, f := range s.Fields {
				if !r.chance(20) {
					continue
				}
				switch f.T.K {
				case thrift.BOOL:
					f.Def = "true"
				case thrift.I08, thrift.I16, thrift.I32, thrift.I64:
					f.Def = strconv.Itoa(r.intn(100))
				case thrift.DOUBLE:
					f.Def = "1.5"
				case thrift.STRING:
					if !f.T.Binary {
						f.Def = `"dv"`
					}
				}
			}
		}
		// aliases (api.key / go.tag) on some fields: the member is then selected by the alias only
		na := 0
		for _, s := range g.structs {
			for _, f := range s.Fields {
				na++
				if !r.chance(20) {
					continue
				}
				const alpha = c18AliasSpecials + "./09AZaz_"
				b := make([]byte, 1+r.intn(6))
				for i := range b {
					b[i] = alpha[r.intn(len(alpha))]
				}
				pos := r.intn(len(b) + 1)
				c18Alias[f] = string(b[:pos]) + strconv.Itoa(na) + string(b[pos:]) // the counter keeps the keys of one struct distinct
			}
		}
		// every third descriptor carries a struct whose members live in the native trie / hash map under aliases with special bytes
		if d%3 == 0 {
			as := g.c18AliasStruct()
			if r.bool() || len(root.Fields) == 0 {
				root = as
			} else {
				host := g.structs[r.intn(len(g.structs)-1)]
				t := as
				switch r.intn(3) {
				case 1:
					t = &Ty{K: thrift.LIST, Elem: as}
				case 2:
					t = &Ty{K: thrift.MAP, Key: &Ty{K: thrift.STRING}, Elem: as}
				}
				id := int16(20001)
				for clash := true; clash; {
					clash = false
					for _, f := range host.Fields {
						if f.ID == id {
							id++
							clash = true
						}
					}
				}
				host.Fields = append(host.Fields, &Fld{ID: id, Name: fmt.Sprintf("al_%d", d), T: t, Req: 2 * r.intn(2)})
			}
		}
		topts := thrift.Options{SetOptionalBitmap: r.bool(), UseDefaultValue: r.bool()}
		desc, err := parseThrift(g.c18Idl(root), topts)
		if err != nil {
			continue
		}
		c18DbgIDL = g.c18Idl(root)
		c18CheckAliases(root, desc, map[*Ty]bool{})
		shape := g.c18Shape(root)
		for k := 0; k < 4; k++ {
			v := g.genValueOpt(root, r.chance(15))
			c18Fix(r, v)
			nspell := 2
			for sidx := 0; sidx < nspell; sidx++ {
				optb := r.intn(64)
				if r.chance(30) {
					optb &= 0x30 // no write / disallow options: the plain path
				}
				p := &jsp{r: r.fork(), wrongAt: -1}
				if sidx > 0 || r.chance(50) { // sidx 0 is mostly the canonical spelling
					p.ws = []int{0, 20, 60}[r.intn(3)]
					p.esc = []int{0, 10, 50}[r.intn(3)]
					p.num = []int{0, 30, 80}[r.intn(3)]
					p.nulls = []int{0, 0, 30, 80}[r.intn(4)]
					p.unknown = []int{0, 0, 15, 40}[r.intn(4)]
					p.nullElem = []int{0, 0, 12, 45}[r.intn(4)]
					p.strInts = optb&16 != 0 && r.chance(60)
					p.rawBin = optb&32 != 0 && r.chance(70)
					if r.chance(25) {
						p.wrongAt = 1 + r.intn(v.countNodes())
					}
				}
				doc := p.value(p.sp(nil), v)
				doc = p.sp(doc)
				if r.chance(4) && len(doc) > 2 { // malformed inside the top-level value
					doc = doc[:1+r.intn(len(doc)-1)]
				}
				items = append(items, &j2tItem{shape: shape, optb: optb, topts: topts, desc: desc, doc: doc})
			}
		}
	}
	return items
}
