//go:build verif

package main

import (
	"strconv"

	"github.com/cloudwego/dynamicgo/conv/j2p"
)

// Generated-definition check 991 (C09): conv/j2p encodeMapKey against gen/Gen_j2pkey.v: key texts at every integer range boundary
// (int32 / uint32 / int64 / uint64, with sign, with leading zeros, with junk), boolean spellings, strings (incl. invalid UTF-8),
// for every key type byte 0..20.
func init() {
	base := generators["C09"]
	generators["C09"] = func(r *rng, n int) {
		genMapKey(g2cRng(r))
		base(r, n)
	}
}

func genMapKey(r *rng) {
	var keys []string
	for _, v := range []int64{0, 1, -1, 127, 1<<31 - 1, 1 << 31, 1<<31 + 1, -(1 << 31), -(1 << 31) - 1, 1<<32 - 1, 1 << 32, 1<<63 - 1, -(1 << 63)} {
		keys = append(keys, strconv.FormatInt(v, 10))
	}
	keys = append(keys, "9223372036854775808", "18446744073709551615", "18446744073709551616", "-9223372036854775809", "+5", "-0", "007", "1e3", "1.0", " 1", "1 ",
		"", "-", "+", "0x10", "１", "true", "false", "TRUE", "False", "t", "F", "1", "0", "T", "yes", "tRue", "abc", "\xff\xfe", "é", "a\x00b")
	for k := 0; k < 40; k++ {
		keys = append(keys, strconv.FormatUint(r.next()>>uint(r.intn(64)), 10))
	}
	for _, key := range keys {
		for t := 0; t <= 20; t++ {
			pre := r.bytes(r.intn(3))
			outb, errd := j2p.VerifEncodeMapKey(pre, key, uint8(t))
			out.emit(991, fs(key), fi(t), fx(pre), fx(outb), fi(b2i(errd)))
		}
	}
}
