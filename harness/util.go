//go:build verif

// Correspondence harness for /verif (compiled inside the repository module through
// `go build -tags verif -overlay`, see /verif/check). Every random choice derives from one
// splitmix64 state seeded by -seed; cases are written one per line in the format parsed by
// /verif/coq/extract/driver.ml:   <check-id> <field>*   field := x<hex> | n<decimal>
package main

import (
	"bufio"
	"encoding/hex"
	"fmt"
	"math/big"
	"os"
	"strconv"
	"strings"
)

type rng struct{ s uint64 }

func (r *rng) next() uint64 {
	r.s += 0x9e3779b97f4a7c15
	z := r.s
	z = (z ^ (z >> 30)) * 0xbf58476d1ce4e5b9
	z = (z ^ (z >> 27)) * 0x94d049bb133111eb
	return z ^ (z >> 31)
}
func (r *rng) intn(n int) int {
	if n <= 0 {
		return 0
	}
	return int(r.next() % uint64(n))
}
func (r *rng) bool() bool     { return r.next()&1 == 1 }
func (r *rng) chance(p int) bool { return r.intn(100) < p }
func (r *rng) bytes(n int) []byte {
	b := make([]byte, n)
	for i := range b {
		b[i] = byte(r.next())
	}
	return b
}
func (r *rng) fork() *rng { return &rng{s: r.next()} }

// interesting 64-bit values: varint length boundaries, sign boundaries, powers of two +-1
func boundaries64() []uint64 {
	seen := map[uint64]bool{}
	var out []uint64
	add := func(v uint64) {
		if !seen[v] {
			seen[v] = true
			out = append(out, v)
		}
	}
	for k := 0; k <= 64; k++ {
		var p uint64
		if k < 64 {
			p = 1 << uint(k)
		}
		for d := -2; d <= 2; d++ {
			add(p + uint64(d))
		}
	}
	for _, v := range []uint64{0, 1, 2, 127, 128, 255, 256, 16383, 16384, 0x7fffffff, 0x80000000, 0xffffffff, 0x100000000,
		0x7fffffffffffffff, 0x8000000000000000, 0xffffffffffffffff, 0xfffffffffffffffe, 300, 150, 270, 86942} {
		add(v)
	}
	return out
}

func (r *rng) u64() uint64 {
	switch r.intn(6) {
	case 0:
		b := boundaries64()
		return b[r.intn(len(b))]
	case 1:
		return r.next() >> uint(r.intn(64))
	case 2:
		return uint64(int64(-int64(r.next() >> uint(1+r.intn(63)))))
	case 3:
		return uint64(r.intn(300))
	default:
		return r.next()
	}
}

type caseWriter struct {
	w     *bufio.Writer
	count int
}

var out *caseWriter

func (c *caseWriter) emit(id int, fields ...string) {
	c.w.WriteString(strconv.Itoa(id))
	for _, f := range fields {
		c.w.WriteByte(' ')
		c.w.WriteString(f)
	}
	c.w.WriteByte('\n')
	c.count++
}

func fx(b []byte) string  { return "x" + hex.EncodeToString(b) }
func fs(s string) string  { return "x" + hex.EncodeToString([]byte(s)) }
func fn(v int64) string   { return "n" + strconv.FormatInt(v, 10) }
func fi(v int) string     { return "n" + strconv.Itoa(v) }
func fu(v uint64) string  { return "n" + strconv.FormatUint(v, 10) }
func fb(v bool) string {
	if v {
		return "n1"
	}
	return "n0"
}
func fbig(v *big.Int) string { return "n" + v.String() }

// run f and convert a panic into ok=false (the panic text is returned)
func noPanic(f func()) (ok bool, msg string) {
	defer func() {
		if r := recover(); r != nil {
			ok = false
			msg = fmt.Sprint(r)
			if len(msg) > 120 {
				msg = msg[:120]
			}
			msg = strings.ReplaceAll(msg, "\n", " ")
		}
	}()
	f()
	return true, ""
}

func die(f string, a ...interface{}) {
	fmt.Fprintf(os.Stderr, f+"\n", a...)
	os.Exit(3)
}
