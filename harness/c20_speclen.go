//go:build verif

package main

import (
	"github.com/cloudwego/dynamicgo/proto/binary"
	rw "google.golang.org/protobuf/encoding/protowire"
)

// 2006: the speculative-length shifting algorithm at payload sizes across every varint length
// boundary reachable in memory, with exact, tight and roomy (dirty) capacities.
func genC20SpecLen(r *rng, n int) {
	sizes := []int{0, 1, 2, 126, 127, 128, 129, 255, 256, 16382, 16383, 16384, 16385, 70000}
	if n > 20000 {
		sizes = append(sizes, 2097151, 2097152, 2097153)
	}
	k := n / 150
	if k < 6 {
		k = 6
	}
	for i := 0; i < k; i++ {
		sizes = append(sizes, r.intn(400), 16384-200+r.intn(400))
	}
	for _, sz := range sizes {
		for variant := 0; variant < 3; variant++ {
			prefix := r.bytes(r.intn(5))
			payload := r.bytes(sz)
			var b []byte
			switch variant {
			case 0: // exact capacity: forces the make+copy branch
				b = append([]byte(nil), prefix...)
			case 1: // roomy, dirty backing array: forces the in-place reslice branch
				back := r.bytes(len(prefix) + sz + 16)
				for j := range back {
					back[j] |= 0x80
				}
				b = back[:len(prefix)]
				copy(b, prefix)
			default: // capacity one short of what is needed
				back := make([]byte, len(prefix)+1+sz, len(prefix)+1+sz)
				b = back[:len(prefix)]
				copy(b, prefix)
			}
			var pos int
			b, pos = binary.AppendSpeculativeLength(b)
			b = append(b, payload...)
			b = binary.FinishSpeculativeLength(b, pos)
			ref := append(rw.AppendVarint(append([]byte(nil), prefix...), uint64(sz)), payload...)
			out.emit(2006, fx(prefix), fx(payload), fx(b), fx(ref))
		}
	}
}
