//go:build verif

package main

import (
	"bufio"
	"flag"
	"fmt"
	"os"
)

var generators = map[string]func(r *rng, n int){}

func main() {
	prop := flag.String("prop", "", "property id (C01..C20)")
	seed := flag.Uint64("seed", 1, "PRNG seed")
	n := flag.Int("n", 1000, "case budget")
	outPath := flag.String("o", "", "output file (default stdout)")
	replay := flag.String("replay", "", "replay file (property specific)")
	flag.Parse()
	_ = replay
	w := os.Stdout
	if *outPath != "" {
		f, err := os.Create(*outPath)
		if err != nil {
			die("create: %v", err)
		}
		defer f.Close()
		w = f
	}
	bw := bufio.NewWriterSize(w, 1<<20)
	out = &caseWriter{w: bw}
	g, ok := generators[*prop]
	if !ok {
		die("unknown property %q", *prop)
	}
	g(&rng{s: *seed*0x9e3779b97f4a7c15 + 12345}, *n)
	bw.Flush()
	fmt.Fprintf(os.Stderr, "harness: %s seed=%d cases=%d\n", *prop, *seed, out.count)
}
