//go:build verif

package main

import (
	"bufio"
	"flag"
	"fmt"
	"os"
)

var generators = map[string]func(r *rng, n int){}

func main() {
	prop := flag.String("prop", "", "property id (C01..C20)")
	seed := flag.Uint64("seed", 1, "PRNG seed")
	n := flag.Int("n", 1000, "case budget")
	outPath := flag.String("o", "", "output file (default stdout)")
	replay := flag.String("replay", "", "replay file (property specific)")
	flag.Parse()
	_ = replay
	w := os.Stdout
	if *outPath != "" {
		f, err := os.Create(*outPath)
		if err != nil {
			die("create: %v", err)
		}
		defer f.Close()
		w = f
	}
	bw := bufio.NewWriterSize(w, 1<<20)
	out = &caseWriter{w: bw}
	g, ok := generators[*prop]
	if !ok {
		die("unknown property %q", *prop)
	}
	// the seed is hashed (two rounds of the splitmix64 finaliser) before it becomes the generator state: with a plain
	// multiple of the generator's own increment the stream of seed k+1 would be the stream of seed k shifted by one draw
	g(&rng{s: mixSeed(*seed)}, *n)
	bw.Flush()
	fmt.Fprintf(os.Stderr, "harness: %s seed=%d cases=%d\n", *prop, *seed, out.count)
}

func mixSeed(seed uint64) uint64 {
	z := seed ^ 0xd6e8feb86659fd93
	for i := 0; i < 2; i++ {
		z = (z ^ (z >> 32)) * 0xd6e8feb86659fd93
		z = (z ^ (z >> 29)) * 0x9fb21c651e98df25
		z ^= z >> 32
	}
	return z
}
