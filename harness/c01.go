//go:build verif

package main

import (
	"fmt"
	"unsafe"

	"github.com/cloudwego/dynamicgo/thrift"
	"github.com/cloudwego/dynamicgo/thrift/generic"
)

func init() { generators["C01"] = genC01 }

func toPath(p []Step) []generic.Path {
	out := make([]generic.Path, 0, len(p))
	for _, s := range p {
		switch s.Kind {
		case 1:
			out = append(out, generic.NewPathFieldId(thrift.FieldID(s.N)))
		case 2:
			out = append(out, generic.NewPathIndex(int(s.N)))
		case 3:
			out = append(out, generic.NewPathStrKey(string(s.B)))
		case 4:
			out = append(out, generic.NewPathIntKey(int(s.N)))
		case 5:
			out = append(out, generic.NewPathBinKey(s.B))
		case 6:
			out = append(out, generic.NewPathFieldName(string(s.B)))
		}
	}
	return out
}

// observation of a node relative to the root buffer: status (0 ok, 1 not found, 2 other error, 3 panic), type, start, end
func observe(root []byte, n generic.Node) []string {
	if n.IsError() {
		if n.IsErrNotFound() {
			return []string{"n1", "n0", "n0", "n0"}
		}
		return []string{"n2", fi(int(n.ErrCode().Behavior())), "n0", "n0"}
	}
	raw := n.Raw()
	if len(raw) == 0 || len(root) == 0 {
		return []string{"n0", fi(int(n.Type())), "n-1", "n-1"}
	}
	start := int(uintptr(unsafe.Pointer(&raw[0])) - uintptr(unsafe.Pointer(&root[0])))
	return []string{"n0", fi(int(n.Type())), fi(start), fi(start + len(raw))}
}

var panicObs = []string{"n3", "n0", "n0", "n0"}

// replace field-id steps by field-name steps following the abstract shape
func nameSteps(root *Ty, p []Step, r *rng) ([]Step, bool) {
	cur := root
	out := make([]Step, 0, len(p))
	changed := false
	for _, s := range p {
		if cur == nil {
			out = append(out, s)
			continue
		}
		switch s.Kind {
		case 1:
			if cur.K != thrift.STRUCT {
				out = append(out, s)
				cur = nil
				continue
			}
			var f *Fld
			for _, x := range cur.Fields {
				if int64(x.ID) == s.N {
					f = x
				}
			}
			if f == nil {
				out = append(out, s)
				cur = nil
				continue
			}
			out = append(out, Step{Kind: 6, B: []byte(f.Name), NameID: int64(f.ID)})
			changed = true
			cur = f.T
		case 2:
			out = append(out, s)
			if cur.K == thrift.LIST || cur.K == thrift.SET {
				cur = cur.Elem
			} else {
				cur = nil
			}
		default:
			out = append(out, s)
			if cur.K == thrift.MAP {
				cur = cur.Elem
			} else {
				cur = nil
			}
		}
	}
	return out, changed
}

// does every field step of p address a field declared in the abstract shape (as far as the shape can be followed)?
func declaredIn(root *Ty, p []Step) bool {
	cur := root
	for _, s := range p {
		if cur == nil {
			return true
		}
		switch s.Kind {
		case 1, 6:
			if cur.K != thrift.STRUCT {
				return true
			}
			var f *Fld
			for _, x := range cur.Fields {
				if (s.Kind == 1 && int64(x.ID) == s.N) || (s.Kind == 6 && x.Name == string(s.B)) {
					f = x
				}
			}
			if f == nil {
				return false
			}
			cur = f.T
		case 2:
			if cur.K == thrift.LIST || cur.K == thrift.SET {
				cur = cur.Elem
			} else {
				cur = nil
			}
		default:
			if cur.K == thrift.MAP {
				cur = cur.Elem
			} else {
				cur = nil
			}
		}
	}
	return true
}

func genC01(r *rng, n int) {
	nvals := n / 25
	if nvals < 4 {
		nvals = 4
	}
	for vi := 0; vi < nvals; vi++ {
		g := newTgen(r.fork())
		g.structKeys = true
		root := g.genStruct(0)
		if vi%3 == 0 {
			// field ids around the storage thresholds of Children / Load (StoreChildrenById: 256; powers of two beyond)
			used := map[int16]bool{}
			for _, f := range root.Fields {
				used[f.ID] = true
			}
			for _, id := range []int16{254, 255, 256, 257, 258, 511, 512, 513, 1023, 1024, 1025} {
				if !used[id] && r.chance(45) {
					root.Fields = append(root.Fields, &Fld{ID: id, Name: fmt.Sprintf("t_%d", id), T: &Ty{K: scalarKinds[r.intn(len(scalarKinds))]}})
				}
			}
		}
		idl := g.idl(root)
		desc, err := parseThrift(idl, thrift.Options{})
		if err != nil {
			die("generated IDL does not parse: %v\n%s", err, idl)
		}
		val := g.genValue(root, 0)
		permuteStructKeys(g, val)
		buf := val.encode(nil)
		rootNode := generic.NewNode(thrift.STRUCT, buf)
		rootVal := generic.NewValue(desc, buf)
		var paths [][]Step
		val.allPaths(nil, &paths, 40, r)
		db := descBytes(root, nil)
		// 108: the typed layer judged by its own model (descriptor = the abstract shape the IDL was printed from)
		emitTyped := func(api int, p []Step, obs []string) {
			f := []string{fi(int(thrift.STRUCT)), fx(buf), fx(db), fi(api)}
			f = append(f, pathFields(p)...)
			f = append(f, obs...)
			out.emit(108, f...)
		}
		emit := func(api int, p []Step, obs []string) {
			f := []string{fi(int(thrift.STRUCT)), fx(buf)}
			f = append(f, pathFields(p)...)
			f = append(f, fi(api), fb(declaredIn(root, p)))
			f = append(f, obs...)
			out.emit(101, f...)
			if api == 2 || api == 3 || api == 5 {
				emitTyped(api, p, obs)
			}
		}
		run := func(p []Step) {
			gp := toPath(p)
			var obs []string
			if ok, _ := noPanic(func() { obs = observe(buf, rootNode.GetByPath(gp...)) }); !ok {
				obs = panicObs
			}
			emit(1, p, obs)
			if ok, _ := noPanic(func() { obs = observe(buf, rootVal.GetByPath(gp...).Node) }); !ok {
				obs = panicObs
			}
			emit(2, p, obs)
			if np, changed := nameSteps(root, p, r); changed {
				gp2 := toPath(np)
				if ok, _ := noPanic(func() { obs = observe(buf, rootVal.GetByPath(gp2...).Node) }); !ok {
					obs = panicObs
				}
				emit(3, np, obs)
				if r.chance(12) { // a name the IDL does not define, somewhere along the path
					bp := append([]Step(nil), np...)
					var idx []int
					for i, st := range bp {
						if st.Kind == 6 {
							idx = append(idx, i)
						}
					}
					k := idx[r.intn(len(idx))]
					bp[k] = Step{Kind: 6, B: []byte("no_such_field"), NameID: -1}
					gp3 := toPath(bp)
					if ok, _ := noPanic(func() { obs = observe(buf, rootVal.GetByPath(gp3...).Node) }); !ok {
						obs = panicObs
					}
					emitTyped(3, bp, obs)
				}
			}
			// single-step APIs on the parent node
			if len(p) > 0 {
				parent := rootNode.GetByPath(toPath(p[:len(p)-1])...)
				if !parent.IsError() {
					last := p[len(p)-1]
					var sub generic.Node
					ok, _ := noPanic(func() {
						switch last.Kind {
						case 1:
							sub = parent.Field(thrift.FieldID(last.N))
						case 2:
							sub = parent.Index(int(last.N))
						case 3:
							sub = parent.GetByStr(string(last.B))
						case 4:
							sub = parent.GetByInt(int(last.N))
						case 5:
							sub = parent.GetByRaw(last.B)
						}
					})
					if ok {
						obs = observe(buf, sub)
					} else {
						obs = panicObs
					}
					emit(4, p, obs)
				}
				// the same single step on the descriptor-carrying value (typed vs untyped agreement)
				tparent := rootVal.GetByPath(toPath(p[:len(p)-1])...)
				last := p[len(p)-1]
				if !tparent.IsError() && last.Kind != 5 {
					var tsub generic.Value
					ok, _ := noPanic(func() {
						switch last.Kind {
						case 1:
							tsub = tparent.Field(thrift.FieldID(last.N))
						case 2:
							tsub = tparent.Index(int(last.N))
						case 3:
							tsub = tparent.GetByStr(string(last.B))
						case 4:
							tsub = tparent.GetByInt(int(last.N))
						}
					})
					if ok {
						obs = observe(buf, tsub.Node)
					} else {
						obs = panicObs
					}
					emit(5, p, obs)
				}
			}
		}
		// integer keys OUTSIDE the range of the map's key type whose low bits equal a present key: absent for every API
		intKeyProbes := func(p []Step) {
			last := p[len(p)-1]
			if last.Kind != 4 {
				return
			}
			pv := val.at(p[:len(p)-1])
			if pv == nil || pv.T.K != thrift.MAP {
				return
			}
			var w uint
			switch pv.T.Key.K {
			case thrift.I08:
				w = 8
			case thrift.I16:
				w = 16
			case thrift.I32:
				w = 32
			default:
				return
			}
			for _, d := range []int64{int64(1) << w, -(int64(1) << w), int64(1) << (w + 1)} {
				q := append([]Step(nil), p...)
				q[len(q)-1] = Step{Kind: 4, N: last.N + d}
				run(q)
			}
		}
		// raw keys that are NOT a complete key encoding but relate to a real entry's bytes: a proper prefix of the key (cut key,
		// empty), the key followed by the first bytes of its value (a prefix of the ENTRY), the key plus foreign bytes: absent
		binKeyProbes := func(p []Step) {
			last := p[len(p)-1]
			if last.Kind < 3 || last.Kind > 5 || !r.chance(35) {
				return
			}
			pv := val.at(p[:len(p)-1])
			ev := val.at(p)
			if pv == nil || ev == nil || pv.T.K != thrift.MAP {
				return
			}
			var kb []byte
			for i, k := range pv.Keys {
				if pv.Elems[i] == ev {
					kb = k.encode(nil)
				}
			}
			if kb == nil {
				return
			}
			vb := ev.encode(nil)
			cut := func(b []byte, n int) []byte {
				if n > len(b) {
					n = len(b)
				}
				return append([]byte(nil), b[:n]...)
			}
			vars := [][]byte{{}, cut(kb, len(kb)/2), cut(kb, len(kb)-1), append(cut(kb, len(kb)), cut(vb, 1)...),
				append(cut(kb, len(kb)), cut(vb, 1+r.intn(4))...), append(cut(kb, len(kb)), vb...), append(cut(kb, len(kb)), 0x7f)}
			for _, raw := range vars {
				if string(raw) == string(kb) || !r.chance(45) {
					continue
				}
				q := append([]Step(nil), p...)
				q[len(q)-1] = Step{Kind: 5, B: raw}
				run(q)
				if r.chance(30) {
					run(append(q, Step{Kind: 1, N: 1}))
				}
			}
		}
		// map<byte,V>: a key byte 0x80..0xff is the int key 128..255 for every API (and NOT the negative int8 reading)
		byteKeyProbes := func(p []Step) {
			pv := val.at(p[:len(p)-1])
			ev := val.at(p)
			if pv == nil || ev == nil || pv.T.K != thrift.MAP || pv.T.Key.K != thrift.I08 {
				return
			}
			for i, k := range pv.Keys {
				if pv.Elems[i] == ev && k.I < 0 {
					for _, n := range []int64{k.I + 256, k.I} {
						q := append([]Step(nil), p...)
						q[len(q)-1] = Step{Kind: 4, N: n}
						run(q)
					}
				}
			}
		}
		for _, p := range paths {
			run(p)
			if len(p) > 0 {
				intKeyProbes(p)
				binKeyProbes(p)
				byteKeyProbes(p)
			}
			// invalid variants: perturb the last step / append a bad step
			if r.chance(40) {
				parent := val.at(p)
				if parent != nil {
					bad := append(append([]Step(nil), p...), g.badStep(parent))
					run(bad)
					if r.chance(30) { // absent-inner: continue below the bad step
						run(append(bad, Step{Kind: 1, N: 1}))
					}
				}
			}
		}
		// children spans of every container (one level)
		for _, p := range paths {
			node := val.at(p)
			if node == nil || (node.T.K != thrift.STRUCT && node.T.K != thrift.LIST && node.T.K != thrift.SET && node.T.K != thrift.MAP) {
				continue
			}
			if !r.chance(35) {
				continue
			}
			sub := rootNode.GetByPath(toPath(p)...)
			if sub.IsError() {
				continue
			}
			raw := sub.Raw()
			var kids []generic.PathNode
			var cerr error
			ok, _ := noPanic(func() { cerr = sub.Children(&kids, false, &generic.Options{}) })
			f := []string{fi(int(node.T.K)), fx(raw)}
			if !ok {
				f = append(f, "n3", "n0")
			} else if cerr != nil {
				f = append(f, "n2", "n0")
			} else {
				f = append(f, "n0", fi(len(kids)))
				for _, k := range kids {
					o := observe(raw, k.Node)
					f = append(f, o[1], o[2], o[3])
				}
			}
			out.emit(102, f...)
		}
		genC01More(r, g, root, desc, val, buf, paths, db)
		if vi < 2 {
			genC01Deep(r)
		}
		if vi%4 == 0 {
			genC01Cast(r)
		}
	}
}

// descriptor bytes for check 108: scalar [t]; list [15] e; set [14] e; map [13] k e; struct [12 n_hi n_lo] n x (id_hi id_lo len name desc)
func descBytes(t *Ty, b []byte) []byte {
	switch t.K {
	case thrift.LIST, thrift.SET:
		return descBytes(t.Elem, append(b, byte(t.K)))
	case thrift.MAP:
		b = descBytes(t.Key, append(b, byte(t.K)))
		return descBytes(t.Elem, b)
	case thrift.STRUCT:
		b = append(b, byte(t.K), byte(len(t.Fields)>>8), byte(len(t.Fields)))
		for _, f := range t.Fields {
			b = append(b, byte(uint16(f.ID)>>8), byte(f.ID), byte(len(f.Name)))
			b = append(b, f.Name...)
			b = descBytes(f.T, b)
		}
		return b
	}
	return append(b, byte(t.K))
}
