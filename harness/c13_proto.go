//go:build verif

package main

// C13, Protobuf half: compositions of the REAL converters on the reference encoding of generated messages
//     b --p2j--> J --j2p--> b' --p2j--> J''
//   1311: (schema, DisallowUnknownField of p2j, of j2p, b, ec1, J, ec2, b')   judged: b' must decode (proved decoder) to a message
//         equal to the one b decodes to (pval_eqv = the reference's message equality: field and map-entry order free)
//   1312: (schema, options, J, ec2, b', ec3, J'')                             judged: J'' denotes what the canonical document J denotes
// Schemas / values / reference encoder: protogen.go and the boundary mutation of c08.go.  Every conversion runs under a 2 s
// watchdog (a hang is error class 4 and ends the run).  Error classes: 0 nil, 1 error, 2 panic, 4 no answer in 2 s.

import (
	"context"
	"fmt"
	"math/big"
	"os"
	"time"

	"github.com/cloudwego/dynamicgo/conv"
	"github.com/cloudwego/dynamicgo/conv/j2p"
	"github.com/cloudwego/dynamicgo/conv/p2j"
	"github.com/cloudwego/dynamicgo/proto"
	rw "google.golang.org/protobuf/encoding/protowire"
)

// one conversion under a watchdog
func c13Guard(f func() ([]byte, error)) (out []byte, ec int) {
	type res struct {
		b  []byte
		ec int
	}
	done := make(chan res, 1)
	go func() {
		var b []byte
		var err error
		ok, _ := noPanic(func() { b, err = f() })
		switch {
		case !ok:
			done <- res{nil, 2}
		case err != nil:
			done <- res{nil, 1}
		default:
			done <- res{append([]byte(nil), b...), 0}
		}
	}()
	select {
	case r := <-done:
		return r.b, r.ec
	case <-time.After(2 * time.Second):
		return nil, 4
	}
}

func c13ProtoOne(r *rng, desc *proto.TypeDescriptor, sf []string, b []byte, dis1, dis2 bool) (hung bool) {
	ctx := context.Background()
	o1 := conv.Options{DisallowUnknownField: dis1}
	o2 := conv.Options{DisallowUnknownField: dis2}
	// rejected conversions right before the valid one, in the SAME goroutine (sync.Pool hands a goroutine back what it just put)
	poison := r.fork()
	poisonP2J := func(cv *p2j.BinaryConv, src []byte) {
		if poison.chance(50) {
			for _, bad := range c13BadBin(poison, src) {
				noPanic(func() { cv.Do(ctx, desc, bad) })
				if poison.chance(30) {
					cvx := p2j.NewBinaryConv(conv.Options{})
					noPanic(func() { cvx.Do(ctx, desc, bad) })
				}
			}
		}
	}
	poisonJ2P := func(cv *j2p.BinaryConv, doc []byte) {
		if poison.chance(50) {
			for _, bad := range c13BadJSON(poison, doc) {
				noPanic(func() { cv.Do(ctx, desc, bad) })
				if poison.chance(50) {
					cvx := j2p.NewBinaryConv(conv.Options{}) // DisallowUnknownField off: unknown members are skipped, not refused
					noPanic(func() { cvx.Do(ctx, desc, bad) })
				}
			}
		}
	}
	J, ec1 := c13Guard(func() ([]byte, error) {
		cv := p2j.NewBinaryConv(o1)
		poisonP2J(&cv, b)
		return cv.Do(ctx, desc, append([]byte(nil), b...))
	})
	var b2, J2 []byte
	ec2, ec3 := 0, 0
	if ec1 == 0 {
		b2, ec2 = c13Guard(func() ([]byte, error) {
			cv := j2p.NewBinaryConv(o2)
			poisonJ2P(&cv, J)
			return cv.Do(ctx, desc, append([]byte(nil), J...))
		})
		if ec2 == 0 {
			J2, ec3 = c13Guard(func() ([]byte, error) {
				cv := p2j.NewBinaryConv(o1)
				poisonP2J(&cv, b2)
				return cv.Do(ctx, desc, append([]byte(nil), b2...))
			})
		}
	}
	f := append(append([]string{}, sf...), fb(dis1), fb(dis2))
	out.emit(1311, append(append([]string{}, f...), fx(b), fi(ec1), fx(J), fi(ec2), fx(b2))...)
	if ec1 == 0 {
		out.emit(1312, append(append([]string{}, f...), fx(J), fi(ec2), fx(b2), fi(ec3), fx(J2))...)
	}
	return ec1 == 4 || ec2 == 4 || ec3 == 4
}

// non-finite floats have no JSON image (outside the domain; C08 covers what p2j does with them): replace them by finite boundary
// values (nonzero where the reference would drop a zero; -0.0 only as a list element, where the reference keeps it)
func c13Finite(r *rng, v *pgVal, inList bool) {
	switch v.Tag {
	case 1:
		for _, fv := range v.Fields {
			c13Finite(r, fv.V, false)
		}
	case 2:
		switch v.Kind {
		case pgKFloat:
			if b := uint32(v.I.Uint64()); b&0x7f800000 == 0x7f800000 {
				pool := []uint32{1, 0x007fffff, 0x00800000, 0x7f7fffff, 0xff7fffff, 0x3dcccccd, 0x80000001}
				if inList {
					pool = append(pool, 0x80000000, 0x80000000, 0)
				}
				v.I = new(big.Int).SetUint64(uint64(pool[r.intn(len(pool))]))
			}
		case pgKDouble:
			if b := v.I.Uint64(); b&0x7ff0000000000000 == 0x7ff0000000000000 {
				pool := []uint64{0x3fb999999999999a, 0x3ff0000000000001, 0xbfefffffffffffff, 0x4340000000000001, 0x4059000000000000, 1, 0x7fefffffffffffff}
				if inList {
					pool = append(pool, 0x8000000000000000, 0x8000000000000000, 0)
				}
				v.I = new(big.Int).SetUint64(pool[r.intn(len(pool))])
			}
		}
	case 4:
		for _, e := range v.Elems {
			c13Finite(r, e, true)
		}
	case 5:
		for _, kv := range v.Entries {
			c13Finite(r, kv.V, false)
		}
	}
}

// Re-encode, with probability pct per occurrence, the PACKED records of repeated numeric fields in the UNPACKED form (one tag + value
// per element), at the top level and inside nested messages / map values.  Both forms are legal for a field the descriptor calls
// packed (a parser must accept either; proto2 writers emit the unpacked one); the proved decoder reads both.  Returns the new
// bytes and whether anything was changed; ok=false when the bytes are not what the schema walk expects (then b is kept).
func c13Unpack(r *rng, s *pgSchema, msgName string, b []byte, pct int) (out []byte, changed bool, ok bool) {
	m := s.msg(msgName)
	if m == nil {
		return b, false, false
	}
	for len(b) > 0 {
		num, wt, n := rw.ConsumeTag(b)
		if n < 0 {
			return nil, false, false
		}
		vn := rw.ConsumeFieldValue(num, wt, b[n:])
		if vn < 0 {
			return nil, false, false
		}
		rec := b[:n+vn]
		val := b[n : n+vn]
		b = b[n+vn:]
		f := m.byNum(int32(num))
		if f == nil || wt != rw.BytesType {
			out = append(out, rec...)
			continue
		}
		payload, pn := rw.ConsumeBytes(val)
		if pn < 0 {
			return nil, false, false
		}
		switch {
		case f.Label == pgRepeated && pgIsNumKind(f.Kind):
			if !r.chance(pct) || len(payload) == 0 {
				out = append(out, rec...)
				continue
			}
			ewt := rw.Type(pgWireType(f.Kind))
			var un []byte
			good := true
			for p := payload; len(p) > 0; {
				en := rw.ConsumeFieldValue(num, ewt, p)
				if en < 0 {
					good = false
					break
				}
				un = rw.AppendTag(un, num, ewt)
				un = append(un, p[:en]...)
				p = p[en:]
			}
			if !good {
				return nil, false, false
			}
			out = append(out, un...)
			changed = true
		case f.Label == pgMap:
			if f.Kind != pgKMessage {
				out = append(out, rec...)
				continue
			}
			// entry: field 1 key, field 2 value (a message)
			var entry []byte
			for p := payload; len(p) > 0; {
				en, ewt, tn := rw.ConsumeTag(p)
				if tn < 0 {
					return nil, false, false
				}
				evn := rw.ConsumeFieldValue(en, ewt, p[tn:])
				if evn < 0 {
					return nil, false, false
				}
				if en == 2 && ewt == rw.BytesType {
					inner, in := rw.ConsumeBytes(p[tn : tn+evn])
					if in < 0 {
						return nil, false, false
					}
					sub, ch, ok2 := c13Unpack(r, s, f.MsgName, inner, pct)
					if !ok2 {
						return nil, false, false
					}
					changed = changed || ch
					entry = rw.AppendTag(entry, 2, rw.BytesType)
					entry = rw.AppendBytes(entry, sub)
				} else {
					entry = append(entry, p[:tn+evn]...)
				}
				p = p[tn+evn:]
			}
			out = rw.AppendTag(out, num, rw.BytesType)
			out = rw.AppendBytes(out, entry)
		case f.Kind == pgKMessage:
			sub, ch, ok2 := c13Unpack(r, s, f.MsgName, payload, pct)
			if !ok2 {
				return nil, false, false
			}
			changed = changed || ch
			out = rw.AppendTag(out, num, rw.BytesType)
			out = rw.AppendBytes(out, sub)
		default:
			out = append(out, rec...)
		}
	}
	return out, changed, true
}

// number of float / double scalars in a value (the extracted checker evaluates each through exact decimal arithmetic: its cost)
func c13CountFloats(v *pgVal) int {
	n := 0
	switch v.Tag {
	case 1:
		for _, fv := range v.Fields {
			n += c13CountFloats(fv.V)
		}
	case 2:
		if v.Kind == pgKFloat || v.Kind == pgKDouble {
			n = 1
		}
	case 4:
		for _, e := range v.Elems {
			n += c13CountFloats(e)
		}
	case 5:
		for _, kv := range v.Entries {
			n += c13CountFloats(kv.V)
		}
	}
	return n
}

func genC13Proto(r *rng, n int) {
	if os.Getenv("C13_ONLY_HUGE") != "" {
		genC13ProtoSizes(r.fork(), 4, false)
		return
	}
	// widened classes (c13_wide.go): payload sizes around the varint-width boundaries of length prefixes, long strings
	thorough := n >= 5000
	nSz, nStr := 16, 10
	if thorough {
		nSz, nStr = 120, 40 // fixed counts: the widened classes do not scale with the budget
	}
	m1, h1 := genC13ProtoSizes(r.fork(), nSz, thorough)
	if h1 {
		c13Stop("a protobuf conversion of the size sweep")
	}
	m2, h2 := genC13ProtoStrings(r.fork(), nStr, thorough)
	if h2 {
		c13Stop("a protobuf conversion of the long-string class")
	}
	n -= m1 + m2
	optsPool := []pgOpts{{MaxMsgs: 4, MaxFields: 8, MaxDepth: 3}, {MaxMsgs: 3, MaxFields: 6, MaxDepth: 4}, {MaxMsgs: 5, MaxFields: 10, MaxDepth: 2}, {MaxMsgs: 2, MaxFields: 5, MaxDepth: 5}}
	made, compileErr, encodeErr, overrun, unpackedForm, tooHeavy, batches := 0, 0, 0, 0, 0, 0, 0
	for made < n {
		s := genProtoSchema(r.fork(), optsPool[r.intn(len(optsPool))])
		unpacked := map[*pgField]bool{}
		for _, m := range s.Msgs {
			for _, f := range m.Fields {
				if f.Label == pgRepeated && pgIsNumKind(f.Kind) && r.chance(25) {
					unpacked[f] = true
				}
				// map key kinds: mostly the ones both converters can spell and read (int32 int64 uint32 uint64 string)
				if f.Label == pgMap && r.chance(85) {
					f.KeyKind = []int{5, 3, 13, 4, 9, 9}[r.intn(6)]
				}
			}
		}
		c, err := c08Compile(s, c08Text(s, unpacked))
		if err != nil {
			compileErr++
			if compileErr > 50 {
				die("C13: proto schemas do not compile: %v", err)
			}
			continue
		}
		sf := c08SchemaFields(s, unpacked)
		per := 4 + r.intn(8)
		batchMode := r.chance(35) && batches < 300 // retention mode (at most a few hundred schemas, whatever the budget)
		if batchMode {
			batches++
		}
		// retention mode: each leg for the whole batch (DoInto, separate buffers), results read afterwards
		var batch [][]byte
		bd1, bd2 := r.chance(25), r.chance(25)
		flush := func() {
			if len(batch) > 0 {
				if c13ProtoBatch(r, c.Dyn, sf, batch, bd1, bd2, true) {
					c13Stop("a protobuf conversion")
				}
				batch = nil
			}
		}
		for i := 0; i < per && made < n; i++ {
			v := genProtoValue(r.fork(), c, s.Root, 0)
			c08Mutate(r, v, []int{0, 10, 25, 40}[r.intn(4)])
			if !r.chance(5) {
				c13Finite(r, v, false)
			}
			// the exact decimal evaluation of a double of extreme magnitude costs the extracted checker seconds: at most one, rarely
			extremes := 0
			if r.chance(10) {
				extremes = 1
			}
			c08CapExtremes(r, v, &extremes)
			if c08OverrunMsg(v, 0, unpacked, false) {
				overrun++ // shapes that made p2j's list / map loops run past the enclosing message (C08 finding 805, fixed in /repo 3878b17): kept in
			}
			if c13CountFloats(v) > 60 {
				tooHeavy++ // keeps the quick tier's judging time bounded; long float lists are C08's / C09's subject
				continue
			}
			b, err := c.encodeRef(v, s.Root)
			if err != nil {
				encodeErr++
				continue
			}
			if len(b) > 6000 {
				tooHeavy++
				continue
			}
			// a share of the inputs carries packed-declared repeated scalars in the unpacked wire form
			if r.chance(30) {
				if ub, ch, ok := c13Unpack(r, s, s.Root, b, 60); ok && ch {
					b = ub
					unpackedForm++
				}
			}
			if batchMode {
				batch = append(batch, b)
				made++
				if len(batch) >= 2+r.intn(4) {
					flush()
				}
				continue
			}
			if c13ProtoOne(r, c.Dyn, sf, b, r.chance(25), r.chance(25)) {
				out.w.Flush()
				fmt.Fprintf(os.Stderr, "C13: a protobuf conversion did not answer within 2 s; case written, stopping\n")
				os.Exit(0)
			}
			made++
		}
		flush()
	}
	fmt.Fprintf(os.Stderr, "C13 proto: messages=%d compileErr=%d encodeErr=%d overrunShapes=%d unpackedWireForm=%d skippedHeavy=%d\n", made, compileErr, encodeErr, overrun, unpackedForm, tooHeavy)
}
