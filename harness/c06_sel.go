//go:build verif

// C06: input-class selectors of the recorded findings. They never judge a call; they only say whether an
// input belongs to the narrow class a known finding is about (so that the same failure kind on any OTHER
// input, or any other failure kind, is still a violation).
//   xcount  a Thrift container header reachable by a reader declares more elements than bytes remain (finding 601)
//   xhang   conv/p2j would meet an element decode error inside a packed repeated field (finding 602)
//   xlen    a protobuf length varint v with int(v)+n <= 0 or an overflowing end index (finding 603)
package main

import (
	"encoding/binary"
	"strings"

	"github.com/cloudwego/dynamicgo/proto"
	pbinary "github.com/cloudwego/dynamicgo/proto/binary"
	"github.com/cloudwego/dynamicgo/thrift"
)

// schema-less walk of a Thrift value the way ReadAny / Interface() read it; ok=false at the first error.
// excess is set when a LIST/SET/MAP header is reached whose declared count exceeds the bytes that remain after it.
type twalk struct {
	b      []byte
	p      int
	excess bool
	big    bool // the excessive count is large enough to exhaust memory / time (>= 2^22 elements)
	steps  int
}

func (w *twalk) need(n int) bool { return w.p+n <= len(w.b) }

func (w *twalk) val(t thrift.Type, depth int) bool {
	w.steps++
	if depth > 4000 || w.steps > 200000 {
		return false
	}
	switch t {
	case thrift.BOOL, thrift.I08:
		if !w.need(1) {
			return false
		}
		w.p++
	case thrift.I16:
		if !w.need(2) {
			return false
		}
		w.p += 2
	case thrift.I32:
		if !w.need(4) {
			return false
		}
		w.p += 4
	case thrift.I64, thrift.DOUBLE:
		if !w.need(8) {
			return false
		}
		w.p += 8
	case thrift.STRING:
		if !w.need(4) {
			return false
		}
		n := int(int32(binary.BigEndian.Uint32(w.b[w.p:])))
		w.p += 4
		if n < 0 || !w.need(n) {
			return false
		}
		w.p += n
	case thrift.LIST, thrift.SET:
		if !w.need(5) {
			return false
		}
		et := thrift.Type(w.b[w.p])
		n := int(int32(binary.BigEndian.Uint32(w.b[w.p+1:])))
		w.p += 5
		if n < 0 {
			return false
		}
		if n > len(w.b)-w.p {
			w.excess = true
			if n >= 1<<22 {
				w.big = true
			}
			// keep walking: the reader also goes on until the input runs out, and may meet further headers
		}
		for i := 0; i < n; i++ {
			if !w.val(et, depth+1) {
				return false
			}
		}
	case thrift.MAP:
		if !w.need(6) {
			return false
		}
		kt, vt := thrift.Type(w.b[w.p]), thrift.Type(w.b[w.p+1])
		n := int(int32(binary.BigEndian.Uint32(w.b[w.p+2:])))
		w.p += 6
		if n < 0 {
			return false
		}
		if n > len(w.b)-w.p {
			w.excess = true
			if n >= 1<<22 {
				w.big = true
			}
			// keep walking: the reader also goes on until the input runs out, and may meet further headers
		}
		for i := 0; i < n; i++ {
			if !w.val(kt, depth+1) || !w.val(vt, depth+1) {
				return false
			}
		}
	case thrift.STRUCT:
		for {
			if !w.need(1) {
				return false
			}
			ft := thrift.Type(w.b[w.p])
			w.p++
			if ft == thrift.STOP {
				return true
			}
			if !w.need(2) {
				return false
			}
			w.p += 2
			if !w.val(ft, depth+1) {
				return false
			}
		}
	default:
		return false
	}
	return true
}

func c06Flags(ep string, b []byte, t thrift.Type) string {
	var fl []string
	w := &twalk{b: b}
	w.val(t, 0)
	if w.excess {
		fl = append(fl, "xcount")
	}
	if w.big {
		fl = append(fl, "xbig")
	}
	// the buffer does not hold one complete value of the declared type
	p := thrift.BinaryProtocol{Buf: b}
	if e := p.SkipGo(t, thrift.MaxSkipDepth); e != nil {
		fl = append(fl, "xtrunc")
	}
	return strings.Join(fl, ",")
}

// JSON input classes: the text ends inside a number / literal token (xjsonend) or inside a string (xjsonstr); the top-level value is not an object (xjsontop)
func c06JFlags(b []byte) string {
	var fl []string
	end := false
	if n := len(b); n > 0 && strings.IndexByte("0123456789-+.eEtrufalsn", b[n-1]) >= 0 {
		end = true
	}
	for i := len(b) - 5; i < len(b); i++ { // a literal that starts so close to the end that its full spelling does not fit
		if i < 0 {
			continue
		}
		if (b[i] == 't' || b[i] == 'n') && i+4 > len(b) || b[i] == 'f' && i+5 > len(b) {
			end = true
		}
	}
	if end {
		fl = append(fl, "xjsonend")
	}
	// the text ends inside a string (quote parity, escapes honoured)
	inStr := false
	for k := 0; k < len(b); k++ {
		if inStr && b[k] == '\\' {
			k++
			continue
		}
		if b[k] == '"' {
			inStr = !inStr
		}
	}
	if inStr {
		fl = append(fl, "xjsonstr")
	}
	i := 0
	for i < len(b) && (b[i] == ' ' || b[i] == '\t' || b[i] == '\n' || b[i] == '\r') {
		i++
	}
	if i >= len(b) || b[i] != '{' {
		fl = append(fl, "xjsontop")
	}
	return strings.Join(fl, ",")
}

// a protobuf varint at offset i: value, length (0 = none)
func varintAt(b []byte, i int) (uint64, int) {
	var v uint64
	for k := 0; k < 10 && i+k < len(b); k++ {
		c := b[i+k]
		v |= uint64(c&0x7f) << (7 * uint(k))
		if c < 0x80 {
			return v, k + 1
		}
	}
	return 0, 0
}

// some offset holds a varint v for which SkipBytesType's `int(v)+n` is not a positive, non-wrapping size
func protoLenWraps(b []byte) bool {
	for i := range b {
		v, n := varintAt(b, i)
		if n >= 9 {
			all := int64(v) + int64(n)
			if all <= 0 || int64(v) < 0 || all > 1<<62 {
				return true
			}
		}
	}
	return false
}

// mirror of the control flow of conv/p2j (impl.go) without output: does the packed-list loop meet an element
// error while p.Read < start+len (where the code as written drops the error and spins)?
type p2jsim struct {
	p     *pbinary.BinaryProtocol
	stall bool
	steps int
}

func (s *p2jsim) singular(fd *proto.TypeDescriptor) bool {
	s.steps++
	if s.steps > 100000 {
		return false
	}
	p := s.p
	var e error
	switch fd.Type() {
	case proto.BOOL:
		_, e = p.ReadBool()
	case proto.ENUM:
		_, e = p.ReadEnum()
	case proto.INT32:
		_, e = p.ReadInt32()
	case proto.SINT32:
		_, e = p.ReadSint32()
	case proto.UINT32:
		_, e = p.ReadUint32()
	case proto.FIX32:
		_, e = p.ReadFixed32()
	case proto.SFIX32:
		_, e = p.ReadSfixed32()
	case proto.INT64:
		_, e = p.ReadInt64()
	case proto.SINT64:
		_, e = p.ReadSint64()
	case proto.UINT64:
		_, e = p.ReadUint64()
	case proto.FIX64:
		_, e = p.ReadFixed64()
	case proto.SFIX64:
		_, e = p.ReadSfixed64()
	case proto.FLOAT:
		_, e = p.ReadFloat()
	case proto.DOUBLE:
		_, e = p.ReadDouble()
	case proto.STRING:
		_, e = p.ReadString(false)
	case proto.BYTE:
		_, e = p.ReadBytes()
	case proto.MESSAGE:
		l, e2 := p.ReadLength()
		if e2 != nil {
			return false
		}
		return s.fields(fd.Message(), p.Read+l)
	default:
		return false
	}
	return e == nil
}

func (s *p2jsim) fields(msg *proto.MessageDescriptor, end int) bool {
	p := s.p
	for p.Read < end {
		s.steps++
		if s.steps > 100000 {
			return false
		}
		id, wt, _, e := p.ConsumeTag()
		if e != nil {
			return false
		}
		f := msg.ByNumber(id)
		if f == nil {
			if e := p.Skip(wt, false); e != nil {
				return false
			}
			continue
		}
		if !s.recurse(f.Type(), wt) {
			return false
		}
		if s.stall {
			return false
		}
	}
	return true
}

func (s *p2jsim) recurse(fd *proto.TypeDescriptor, wt proto.WireType) bool {
	p := s.p
	switch {
	case fd.IsList():
		if wt == proto.BytesType && fd.IsPacked() {
			l, e := p.ReadLength()
			if e != nil {
				return false
			}
			start := p.Read
			for p.Read < start+l {
				if !s.singular(fd.Elem()) {
					s.stall = true // as written: error dropped, cursor unchanged, loop condition unchanged
					return false
				}
			}
			return true
		}
		s.singular(fd.Elem())
		for p.Read < len(p.Buf) {
			num, _, n, e := p.ConsumeTagWithoutMove()
			if e != nil {
				return false
			}
			if num != fd.BaseId() {
				break
			}
			p.Read += n
			s.singular(fd.Elem())
			s.steps++
			if s.steps > 100000 {
				return false
			}
		}
		return true
	case fd.IsMap():
		pair := func() bool {
			if _, e := p.ReadLength(); e != nil {
				return false
			}
			if _, _, _, e := p.ConsumeTag(); e != nil {
				return false
			}
			if !s.singular(fd.Key()) {
				return false
			}
			if _, _, _, e := p.ConsumeTag(); e != nil {
				return false
			}
			return s.singular(fd.Elem())
		}
		if !pair() {
			return false
		}
		for p.Read < len(p.Buf) {
			num, _, n, e := p.ConsumeTagWithoutMove()
			if e != nil {
				return false
			}
			if num != fd.BaseId() {
				break
			}
			p.Read += n
			if !pair() {
				return false
			}
		}
		return true
	default:
		return s.singular(fd)
	}
}

func p2jStalls(desc *proto.TypeDescriptor, b []byte) (stall bool) {
	defer func() { recover() }()
	s := &p2jsim{p: &pbinary.BinaryProtocol{Buf: b}}
	s.fields(desc.Message(), len(b))
	return s.stall
}

func c06PFlags(ep string, b []byte, which int) string {
	var fl []string
	if ep == "p2j" {
		d := c06ProtoDescs.outer
		if which == 1 {
			d = c06ProtoDescs.empty
		}
		if p2jStalls(d, b) {
			fl = append(fl, "xhang")
		}
	}
	if protoLenWraps(b) {
		fl = append(fl, "xlen")
	}
	if protoBigTag(b) {
		fl = append(fl, "xtag")
	}
	if len(b) > 2000 && protoDepth(b) >= 1000 {
		fl = append(fl, "xdeep")
	}
	return strings.Join(fl, ",")
}

// some offset holds a varint whose field-number part is outside 1..MaxInt32 (ConsumeTag answers -1 / 0 with an error)
func protoBigTag(b []byte) bool {
	for i := range b {
		v, n := varintAt(b, i)
		if n >= 5 && v>>3 > 0x7fffffff {
			return true
		}
		if n == 0 && i == len(b)-1 {
			return true // unterminated varint at the end
		}
	}
	return false
}

// nesting depth of length-delimited fields that contain exactly one length-delimited field (the shape of protoNest)
func protoDepth(b []byte) int {
	d := 0
	for len(b) > 0 {
		tag, n := varintAt(b, 0)
		if n == 0 || tag&7 != 2 {
			break
		}
		l, m := varintAt(b, n)
		if m == 0 || int(l) != len(b)-n-m {
			break
		}
		b = b[n+m:]
		d++
	}
	return d
}
