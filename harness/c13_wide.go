//go:build verif

package main

// C13 — widened input classes of the round-trip streams (cases 1301/1302/1311/1312, same checkers):
//  * RETENTION inside the round trip: the first-leg results of a BATCH of documents are produced by DoInto into separate buffers
//    (initial capacity 0 / tiny / input size / generous) and are only read — and converted back — after the whole batch has been
//    converted (a result must stay what it was while the converter goes on working); likewise for the second and third leg;
//  * long strings of high-expansion bytes (control characters -> \u00XX, quotes, backslashes, also invalid UTF-8) of 5 000 .. 40 000
//    bytes preceded by varying amounts of output (lists of small structs / messages with long member names), through Do and DoInto;
//  * Protobuf payload size classes around every varint-width boundary of a length prefix (127/128, 16383/16384; 2^21 in the thorough
//    tier) for nested messages, map values and packed lists.

import (
	"context"
	"fmt"
	"math/big"
	"os"
	"strings"
	"time"

	"github.com/cloudwego/dynamicgo/conv"
	"github.com/cloudwego/dynamicgo/conv/j2p"
	"github.com/cloudwego/dynamicgo/conv/j2t"
	"github.com/cloudwego/dynamicgo/conv/p2j"
	"github.com/cloudwego/dynamicgo/conv/t2j"
	"github.com/cloudwego/dynamicgo/meta"
	"github.com/cloudwego/dynamicgo/proto"
	"github.com/cloudwego/dynamicgo/thrift"
)

func c13Opts(o1, o2 int) (conv.Options, conv.Options) {
	co1 := conv.Options{
		Int642String:         o1&o3Int642String != 0,
		ByteAsUint8:          o1&o3ByteAsUint8 != 0,
		NoBase64Binary:       o1&o3NoBase64Binary != 0,
		DisallowUnknownField: o1&o3DisallowUnknown != 0,
		UseNativeSkip:        o1&o3UseNativeSkip != 0,
		EnableValueMapping:   o1&o3ValueMapping != 0,
	}
	co2 := conv.Options{DisallowUnknownField: o2&1 != 0, String2Int64: o2&2 != 0, NoBase64Binary: o2&4 != 0, EnableValueMapping: o2&8 != 0}
	return co1, co2
}

// initial capacity of a DoInto buffer
func c13Cap(r *rng, inLen int) int {
	switch r.intn(6) {
	case 0:
		return 0
	case 1:
		return 1 + r.intn(16)
	case 2:
		return inLen
	case 3:
		return 2*inLen + r.intn(64)
	case 4:
		return 3*inLen + 100
	}
	return 8*inLen + 1024
}

func emit13(dfs []string, o1, o2 int, b []byte, ec1 int, J []byte, ec2 int, b2 []byte, ec3 int, J2 []byte) {
	f := append([]string{}, dfs...)
	f = append(f, fi(o1), fi(o2))
	out.emit(1301, append(append([]string(nil), f...), fx(b), fi(ec1), fx(J), fi(ec2), fx(b2))...)
	if ec1 == 0 {
		out.emit(1302, append(append([]string(nil), f...), fx(J), fi(ec2), fx(b2), fi(ec3), fx(J2))...)
	}
}

// Thrift, retention mode: each leg for the whole batch first (DoInto, separate buffers), results read afterwards
func run13Batch(g *gen13, desc *thrift.TypeDescriptor, dfs []string, bs [][]byte, o1, o2 int) {
	co1, co2 := c13Opts(o1, o2)
	ctx := context.Background()
	cv1 := t2j.NewBinaryConv(co1)
	cv2 := j2t.NewBinaryConv(co2)
	n := len(bs)
	r := g.r
	leg := func(in [][]byte, skip []bool, do func(src []byte, buf *[]byte) error) (res [][]byte, ec []int) {
		held := make([][]byte, n)
		ec = make([]int, n)
		for i := range in {
			if skip != nil && skip[i] {
				ec[i] = -1
				continue
			}
			buf := make([]byte, 0, c13Cap(r, len(in[i])))
			src := append([]byte(nil), in[i]...)
			var e error
			ok, msg := noPanic(func() { e = do(src, &buf) })
			ec[i] = class13(ok, msg, e)
			held[i] = buf // NOT copied: must still hold the result when the batch is done
		}
		res = make([][]byte, n)
		for i := range held {
			if ec[i] == 0 {
				res[i] = append([]byte(nil), held[i]...)
			}
		}
		return
	}
	J, ec1 := leg(bs, nil, func(src []byte, buf *[]byte) error { return cv1.DoInto(ctx, desc, src, buf) })
	skip := make([]bool, n)
	for i := range skip {
		skip[i] = ec1[i] != 0
	}
	b2, ec2 := leg(J, skip, func(src []byte, buf *[]byte) error { return cv2.DoInto(ctx, desc, src, buf) })
	for i := range skip {
		skip[i] = skip[i] || ec2[i] != 0
	}
	J2, ec3 := leg(b2, skip, func(src []byte, buf *[]byte) error { return cv1.DoInto(ctx, desc, src, buf) })
	for i := range bs {
		e2, e3 := ec2[i], ec3[i]
		if e2 < 0 {
			e2 = 0
		}
		if e3 < 0 {
			e3 = 0
		}
		emit13(dfs, o1, o2, bs[i], ec1[i], J[i], e2, b2[i], e3, J2[i])
	}
}

// ---- long strings of high-expansion bytes --------------------------------------------------------------------------------------

func c13HotString(r *rng, n int, class int) []byte {
	b := make([]byte, 0, n+4)
	for len(b) < n {
		switch class {
		case 0: // one control character: six output bytes per input byte
			b = append(b, 0x01)
		case 1: // all control characters that have no short escape
			b = append(b, "\x00\x01\x02\x0b\x0e\x1f\x7f"[r.intn(6)])
		case 2: // quotes and backslashes: two output bytes per input byte
			b = append(b, "\"\\"[r.intn(2)])
		case 3: // mixture with plain text and multi-byte characters
			b = append(b, []string{"\x01", "\x1f", "\"", "\\", "a", "zz", "é", "中", "\n", "\t"}[r.intn(10)]...)
		default: // invalid UTF-8 in between (outside the stated domain: exercised, judged only where valid)
			b = append(b, []string{"\x01", "\x80", "\xff", "\xc3", "a", "\x1e"}[r.intn(6)]...)
		}
	}
	return b
}

// thrift: struct R { 1: list<E> pre; 2: string big; 3: string tail; 4: map<string,string> m }, E { 1: i32 <long name> }
func genC13ThriftStrings(r *rng, budget int, thorough bool) int {
	made := 0
	g := &gen13{gen03: &gen03{tgen: newTgen(r.fork()), extra: map[*Fld]*fx03{}}, alias: map[*Fld]string{}, vm: map[*Fld]bool{}, wkey: map[*Fld]string{}}
	i32 := &Ty{K: thrift.I32}
	str := &Ty{K: thrift.STRING}
	E := &Ty{K: thrift.STRUCT, Name: "E", Fields: []*Fld{{ID: 1, Name: "a_rather_long_member_name_of_the_small_struct_in_front", T: i32}}}
	R := &Ty{K: thrift.STRUCT, Name: "R", Fields: []*Fld{
		{ID: 1, Name: "pre", T: &Ty{K: thrift.LIST, Elem: E}},
		{ID: 2, Name: "big", T: str},
		{ID: 3, Name: "tail", T: str},
		{ID: 4, Name: "m", T: &Ty{K: thrift.MAP, Key: &Ty{K: thrift.STRING}, Elem: str}},
	}}
	g.structs = []*Ty{R, E}
	g.root = R
	idl := g.idl13()
	svc, err := thrift.Options{MapFieldWay: meta.MapFieldUseAlias}.NewDescritorFromContent(context.Background(), "a.thrift", idl, map[string]string{}, false)
	if err != nil {
		die("C13: strings IDL does not parse: %v\n%s", err, idl)
	}
	desc := svc.Functions()["M"].Request().Struct().FieldById(1).Type()
	g.checkDesc(g.root, desc, map[*Ty]bool{})
	dfs := g.descFields13()
	// the initial headroom of a conversion is a multiple of the INPUT size, so what matters is the expansion factor of the string
	// and how much of the headroom earlier output has used, not the absolute length: short strings are as telling as long ones
	lens := []int{60, 300, 2000, 5000, 9000}
	longLeft := 0 // strings above 9 000 bytes: thorough tier only, a fixed number whatever the budget
	if thorough {
		longLeft = 24
	}
	// amount of output in front of the string, as a fraction of the string's length (in percent): from nothing to three times as much
	ratios := []int{0, 15, 40, 80, 150, 300}
	for made < budget {
		L := lens[r.intn(len(lens))] + r.intn(40)
		N := ratios[r.intn(len(ratios))] * L / 100 / 60
		// non-uniform strings: a stretch written twice or dropped must change the value
		class := []int{1, 1, 1, 1, 3, 3, 0, 2, 4}[r.intn(9)]
		// whether the output buffer has to grow once or twice inside one string depends on the exact sizes (headroom = a multiple of the
		// input size, rounded by the allocator): most cases draw length and amount of earlier output from continuous ranges
		dense := r.chance(75)
		if !dense && longLeft > 0 && r.chance(50) {
			longLeft--
			L = []int{12000, 20000, 40000}[r.intn(3)] + r.intn(40)
			N = ratios[r.intn(len(ratios))] * L / 100 / 60
		}
		if dense {
			L = 1500 + r.intn(2500)
			N = (5 + r.intn(146)) * L / 100 / 60
			class = []int{1, 1, 1, 3}[r.intn(4)]
		}
		v := &Val{T: R}
		pre := &Val{T: R.Fields[0].T}
		for i := 0; i < N; i++ {
			pre.Elems = append(pre.Elems, &Val{T: E, FIDs: []int16{1}, Fields: []*Val{{T: i32, I: int64(r.intn(1000))}}})
		}
		big := &Val{T: str, S: c13HotString(r, L, class)}
		tail := &Val{T: str, S: []byte("end")}
		mv := &Val{T: R.Fields[3].T, Keys: []*Val{{T: str, S: c13HotString(r, 40+r.intn(300), r.intn(4))}}, Elems: []*Val{{T: str, S: c13HotString(r, L/4, r.intn(4))}}}
		order := r.intn(3)
		if dense && r.chance(80) {
			order = 0
		}
		switch order {
		case 0: // output first, then the long string
			v.FIDs = []int16{1, 2, 3}
			v.Fields = []*Val{pre, big, tail}
		case 1: // the long string first
			v.FIDs = []int16{2, 1, 3}
			v.Fields = []*Val{big, pre, tail}
		default: // long strings as map key / value too
			v.FIDs = []int16{1, 4, 2}
			v.Fields = []*Val{pre, mv, big}
		}
		b := v.encode(nil)
		o1, o2 := 0, 0
		if r.chance(30) {
			o1 |= o3UseNativeSkip
		}
		if r.chance(25) && !dense {
			run13(g, desc, dfs, b, o1, o2) // Do
		} else {
			run13Batch(g, desc, dfs, [][]byte{b}, o1, o2) // DoInto, small / exact / large initial buffers
		}
		made++
	}
	return made
}

// ---- protobuf: retention mode, size classes, long strings -----------------------------------------------------------------------

// runs f under a watchdog; false = no answer
func c13Within(d time.Duration, f func()) bool {
	done := make(chan struct{}, 1)
	go func() { f(); done <- struct{}{} }()
	select {
	case <-done:
		return true
	case <-time.After(d):
		return false
	}
}

func emit1311(sf []string, dis1, dis2 bool, b []byte, ec1 int, J []byte, ec2 int, b2 []byte, ec3 int, J2 []byte) {
	f := append(append([]string{}, sf...), fb(dis1), fb(dis2))
	out.emit(1311, append(append([]string{}, f...), fx(b), fi(ec1), fx(J), fi(ec2), fx(b2))...)
	if ec1 == 0 {
		out.emit(1312, append(append([]string{}, f...), fx(J), fi(ec2), fx(b2), fi(ec3), fx(J2))...)
	}
}

// useInto: DoInto with separate buffers, results read after the whole batch (retention); else Do, results read after the batch as well
func c13ProtoBatch(r *rng, desc *proto.TypeDescriptor, sf []string, bs [][]byte, dis1, dis2 bool, useInto bool) (hung bool) {
	ctx := context.Background()
	o1 := conv.Options{DisallowUnknownField: dis1}
	o2 := conv.Options{DisallowUnknownField: dis2}
	n := len(bs)
	leg := func(in [][]byte, skip []bool, do func(src []byte) ([]byte, error), into func(src []byte, buf *[]byte) error) (res [][]byte, ec []int, ok bool) {
		held := make([][]byte, n)
		ec = make([]int, n)
		ok = c13Within(time.Duration(2+n)*time.Second, func() {
			for i := range in {
				if skip != nil && skip[i] {
					ec[i] = -1
					continue
				}
				src := append([]byte(nil), in[i]...)
				var e error
				var o []byte
				okc, _ := noPanic(func() {
					if useInto {
						buf := make([]byte, 0, c13Cap(r, len(src)))
						e = into(src, &buf)
						o = buf
					} else {
						o, e = do(src)
					}
				})
				switch {
				case !okc:
					ec[i] = 2
				case e != nil:
					ec[i] = 1
				}
				held[i] = o // NOT copied yet
			}
		})
		res = make([][]byte, n)
		if !ok {
			for i := range ec {
				ec[i] = 4
			}
			return
		}
		for i := range held {
			if ec[i] == 0 {
				res[i] = append([]byte(nil), held[i]...)
			}
		}
		return
	}
	cvp := p2j.NewBinaryConv(o1)
	cvj := j2p.NewBinaryConv(o2)
	J, ec1, ok1 := leg(bs, nil, func(s []byte) ([]byte, error) { return cvp.Do(ctx, desc, s) }, func(s []byte, b *[]byte) error { return cvp.DoInto(ctx, desc, s, b) })
	skip := make([]bool, n)
	for i := range skip {
		skip[i] = ec1[i] != 0
	}
	var b2, J2 [][]byte
	ec2, ec3 := make([]int, n), make([]int, n)
	ok2, ok3 := true, true
	b2, J2 = make([][]byte, n), make([][]byte, n)
	if ok1 {
		b2, ec2, ok2 = leg(J, skip, func(s []byte) ([]byte, error) { return cvj.Do(ctx, desc, s) }, func(s []byte, b *[]byte) error { return cvj.DoInto(ctx, desc, s, b) })
		for i := range skip {
			skip[i] = skip[i] || ec2[i] != 0
		}
		if ok2 {
			J2, ec3, ok3 = leg(b2, skip, func(s []byte) ([]byte, error) { return cvp.Do(ctx, desc, s) }, func(s []byte, b *[]byte) error { return cvp.DoInto(ctx, desc, s, b) })
		}
	}
	for i := range bs {
		e2, e3 := ec2[i], ec3[i]
		if e2 < 0 {
			e2 = 0
		}
		if e3 < 0 {
			e3 = 0
		}
		emit1311(sf, dis1, dis2, bs[i], ec1[i], J[i], e2, b2[i], e3, J2[i])
	}
	return !(ok1 && ok2 && ok3)
}

// message M0 { M1 m = 1; map<int32,M1> mm = 2; repeated fixed32 pf = 3; repeated int32 pv = 4; string big = 5; repeated M2 pre = 6; map<string,string> ms = 7 }
// message M1 { string pad = 1; bytes raw = 2; M1 inner = 3 }     message M2 { int32 a_rather_long_member_name... = 1 }
type c13Sweep struct {
	s                              *pgSchema
	c                              *pgCompiled
	sf                             []string
	fm, fmm, fpf, fpv, fbig, fpre, fms, fbig2 *pgField
	pad, raw, inner, small         *pgField
}

func newC13Sweep() *c13Sweep {
	w := &c13Sweep{}
	s := &pgSchema{Pkg: "pg.c13", Root: "M0", Opts: pgOpts{}.withDefaults()}
	w.fm = &pgField{Num: 1, Name: "m", Label: pgSingular, Kind: pgKMessage, MsgName: "M1"}
	w.fmm = &pgField{Num: 2, Name: "mm", Label: pgMap, Kind: pgKMessage, KeyKind: 5, MsgName: "M1"}
	w.fpf = &pgField{Num: 3, Name: "pf", Label: pgRepeated, Kind: 7}
	w.fpv = &pgField{Num: 4, Name: "pv", Label: pgRepeated, Kind: 5}
	w.fbig = &pgField{Num: 5, Name: "big", Label: pgSingular, Kind: pgKString}
	w.fpre = &pgField{Num: 6, Name: "pre", Label: pgRepeated, Kind: pgKMessage, MsgName: "M2"}
	w.fms = &pgField{Num: 7, Name: "ms", Label: pgMap, Kind: pgKString, KeyKind: pgKString}
	w.fbig2 = &pgField{Num: 8, Name: "big2", Label: pgSingular, Kind: pgKString}
	w.pad = &pgField{Num: 1, Name: "pad", Label: pgSingular, Kind: pgKString}
	w.raw = &pgField{Num: 2, Name: "raw", Label: pgSingular, Kind: pgKBytes}
	w.inner = &pgField{Num: 3, Name: "inner", Label: pgSingular, Kind: pgKMessage, MsgName: "M1"}
	w.small = &pgField{Num: 1, Name: "a_rather_long_member_name_of_the_small_message_in_front", Label: pgSingular, Kind: 5}
	s.Msgs = []*pgMsg{
		{Name: "M0", Fields: []*pgField{w.fm, w.fmm, w.fpf, w.fpv, w.fbig, w.fpre, w.fms, w.fbig2}},
		{Name: "M1", Fields: []*pgField{w.pad, w.raw, w.inner}},
		{Name: "M2", Fields: []*pgField{w.small}},
	}
	c, err := c08Compile(s, c08Text(s, nil))
	if err != nil {
		die("C13 sweep schema: %v\n%s", err, c08Text(s, nil))
	}
	w.s, w.c, w.sf = s, c, c08SchemaFields(s, nil)
	return w
}

func pgMsgVal(fvs ...pgFV) *pgVal { return &pgVal{Tag: 1, Kind: pgKMessage, Fields: fvs} }

// M1 whose ENCODED payload is as close to target bytes as the varint widths allow (exact except in the gap at a width boundary)
func (w *c13Sweep) m1OfSize(r *rng, target int, useBytes bool, nested bool) *pgVal {
	mk := func(L int) *pgVal {
		var body []byte
		if useBytes {
			body = r.bytes(L)
		} else {
			body = []byte(strings.Repeat("a", L))
		}
		f := w.pad
		k := pgKString
		if useBytes {
			f, k = w.raw, pgKBytes
		}
		leaf := pgMsgVal(pgFV{F: f, V: pgStr(k, body)})
		if nested {
			return pgMsgVal(pgFV{F: w.inner, V: leaf})
		}
		return leaf
	}
	best := mk(0)
	for L := target; L >= 0 && L > target-12; L-- {
		v := mk(L)
		b, err := w.c.encodeRef(v, "M1")
		if err != nil {
			continue
		}
		if len(b) <= target {
			return v
		}
		best = v
	}
	return best
}

func genC13ProtoSizes(r *rng, budget int, thorough bool) (made int, hung bool) {
	w := newC13Sweep()
	targets := []int{126, 127, 128, 129, 16382, 16383, 16384, 16385, 16390}
	if thorough {
		targets = append(targets, 300, 20000)
	}
	// payloads at the 4-byte length-prefix boundary (2^21): thorough tier only, a fixed small number whatever the budget, and only as
	// string-padded nested messages / map values (the extracted checker needs seconds per megabyte)
	huge := []int{}
	if thorough || os.Getenv("C13_ONLY_HUGE") != "" {
		huge = []int{1<<21 - 1, 1 << 21, 1<<21 + 1, 1 << 21}
	}
	var batch [][]byte
	flush := func() bool {
		if len(batch) == 0 {
			return false
		}
		h := c13ProtoBatch(r, w.c.Dyn, w.sf, batch, false, r.chance(25), r.chance(50))
		made += len(batch)
		batch = nil
		return h
	}
	for made+len(batch) < budget {
		T := targets[r.intn(len(targets))]
		shape := r.intn(5)
		if len(huge) > 0 {
			T, huge = huge[0], huge[1:]
			shape = r.intn(3)
		}
		var v *pgVal
		switch shape {
		case 0: // nested message of that payload size
			v = pgMsgVal(pgFV{F: w.fm, V: w.m1OfSize(r, T, T < 100000 && r.chance(30), false)})
		case 1: // message two levels down: both enclosing lengths cross the boundary
			v = pgMsgVal(pgFV{F: w.fm, V: w.m1OfSize(r, T, T < 100000 && r.chance(30), true)})
		case 2: // map value (the entry payload is a few bytes longer)
			mv := &pgVal{Tag: 5, Kind: pgKMessage, KeyKind: 5}
			mv.Entries = []pgKV{{K: pgNum(5, big.NewInt(int64(r.intn(100)))), V: w.m1OfSize(r, T-4+r.intn(5), false, false)}}
			v = pgMsgVal(pgFV{F: w.fmm, V: mv})
		case 3: // packed fixed32 list: 4 bytes per element
			l := &pgVal{Tag: 4, Kind: 7, Packed: true}
			for i := 0; i < (T+3)/4; i++ {
				l.Elems = append(l.Elems, pgNum(7, big.NewInt(int64(r.intn(1<<30)))))
			}
			v = pgMsgVal(pgFV{F: w.fpf, V: l})
		default: // packed varint list of one-byte elements: exactly T bytes
			l := &pgVal{Tag: 4, Kind: 5, Packed: true}
			for i := 0; i < T; i++ {
				l.Elems = append(l.Elems, pgNum(5, big.NewInt(int64(r.intn(100)))))
			}
			v = pgMsgVal(pgFV{F: w.fpv, V: l})
		}
		b, err := w.c.encodeRef(v, "M0")
		if err != nil {
			die("C13 sizes: %v", err)
		}
		batch = append(batch, b)
		if len(batch) >= 1+r.intn(3) {
			if flush() {
				return made, true
			}
		}
	}
	return made, flush()
}

func genC13ProtoStrings(r *rng, budget int, thorough bool) (made int, hung bool) {
	w := newC13Sweep()
	lens := []int{60, 300, 2000, 5000, 9000}
	longLeft := 0
	if thorough {
		longLeft = 6
	}
	ratios := []int{0, 15, 40, 80, 150, 300}
	for made < budget {
		L := lens[r.intn(len(lens))] + r.intn(40)
		if longLeft > 0 && r.chance(30) {
			longLeft--
			L = []int{12000, 20000, 40000}[r.intn(3)] + r.intn(40)
		}
		N := ratios[r.intn(len(ratios))] * L / 100 / 60
		class := []int{1, 1, 1, 3, 0, 2}[r.intn(6)] // protobuf strings must be UTF-8: the reference refuses anything else
		pre := &pgVal{Tag: 4, Kind: pgKMessage}
		for i := 0; i < N; i++ {
			pre.Elems = append(pre.Elems, pgMsgVal(pgFV{F: w.small, V: pgNum(5, big.NewInt(int64(1+r.intn(1000))))}))
		}
		var fvs []pgFV
		after := r.chance(60) // the long string after the small messages (field 8) or before them (field 5)
		if !after {
			fvs = append(fvs, pgFV{F: w.fbig, V: pgStr(pgKString, c13HotString(r, L, class))})
		}
		if N > 0 {
			fvs = append(fvs, pgFV{F: w.fpre, V: pre})
		}
		if r.chance(30) {
			ms := &pgVal{Tag: 5, Kind: pgKString, KeyKind: pgKString}
			ms.Entries = []pgKV{{K: pgStr(pgKString, c13HotString(r, 30+r.intn(200), r.intn(4))), V: pgStr(pgKString, c13HotString(r, L/3, r.intn(4)))}}
			fvs = append(fvs, pgFV{F: w.fms, V: ms})
		}
		if after {
			fvs = append(fvs, pgFV{F: w.fbig2, V: pgStr(pgKString, c13HotString(r, L, class))})
		}
		v := pgMsgVal(fvs...)
		b, err := w.c.encodeRef(v, "M0")
		if err != nil {
			die("C13 proto strings: %v", err)
		}
		if c13ProtoBatch(r, w.c.Dyn, w.sf, [][]byte{b}, false, false, r.chance(70)) {
			return made, true
		}
		made++
	}
	return made, false
}

func c13Stop(what string) {
	out.w.Flush()
	fmt.Fprintf(os.Stderr, "C13: %s did not answer within its watchdog; cases written, stopping\n", what)
	os.Exit(0)
}
