//go:build verif

// C15, check 1507 — SEQUENCES of parses through every entry point. Each returned descriptor is dumped and judged
// against the model's elaboration of THAT call's content (same payload and judge as 1501): a descriptor must not
// depend on earlier calls. Entry points / caller disciplines, each with several consecutive schemas:
//
//	fresh     NewDesccriptorFromContent, a fresh includes map per call
//	reuse     NewDesccriptorFromContent, ONE includes map kept by the caller across calls (it refreshes its imports,
//	          the callee registers the main file), SAME main path, different content (incl. small edits = hot reload)
//	paths     the same shared map, a different main path per call
//	frompath  NewDescriptorFromPath on files written to (and re-written in) one directory
//	default   the package-level NewDescritorFromContent / NewDescritorFromPath (default options), shared map
package main

import (
	"context"
	"fmt"
	"os"
	"path/filepath"

	"github.com/cloudwego/dynamicgo/meta"
	"github.com/cloudwego/dynamicgo/proto"
)

func init() {
	prev := generators["C15"]
	generators["C15"] = func(r *rng, n int) {
		if prev != nil {
			prev(r, n)
		}
		genC15Sequences(r.fork(), n)
	}
}

// a hot-reload style edit of a schema generated from the same seed: one more field, one more method, a flipped
// streaming flag, a renumbered field
func c15Edit(r *rng, s *pSchema) {
	main := s.files[0]
	ms := main.allMsgs()
	if len(ms) > 0 {
		m := ms[r.intn(len(ms))]
		used := map[int]bool{}
		names := map[string]bool{}
		for _, f := range m.fields {
			used[f.num] = true
			names[f.name] = true
			names[f.json] = true
		}
		for try := 0; try < 20; try++ {
			num := 1 + r.intn(400)
			name := fmt.Sprintf("added_%d", r.intn(1000))
			if used[num] || names[name] || names[jsonDefault(name)] {
				continue
			}
			m.fields = append(m.fields, &pField{num: num, name: name, json: jsonDefault(name), kind: c15ScalarKinds[r.intn(len(c15ScalarKinds))], label: r.intn(2)})
			break
		}
		if len(m.fields) > 1 && r.bool() {
			// renumber an existing field
			f := m.fields[r.intn(len(m.fields)-1)]
			for try := 0; try < 20; try++ {
				num := 401 + r.intn(400)
				if !used[num] {
					f.num = num
					break
				}
			}
		}
	}
	if len(main.svcs) > 0 {
		sv := main.svcs[len(main.svcs)-1]
		if len(sv.methods) > 0 {
			old := sv.methods[r.intn(len(sv.methods))]
			if r.bool() {
				old.ss = !old.ss
			}
			sv.methods = append(sv.methods, &pMethod{name: fmt.Sprintf("Added%d", r.intn(1000)), in: old.out, out: old.in, cs: r.bool()})
		}
	}
}

func genC15Sequences(r *rng, n int) {
	ctx := context.Background()
	nseq := n/40 + 2
	dir, err := os.MkdirTemp("", "c15seq")
	if err != nil {
		die("mkdtemp: %v", err)
	}
	defer os.RemoveAll(dir)
	defer func() { c15ParseHook = nil }()
	kinds := []string{"fresh", "reuse", "paths", "frompath", "default"}
	for q := 0; q < nseq; q++ {
		for _, kind := range kinds {
			shared := map[string]string{}
			var prevSeed uint64
			ncalls := 3 + r.intn(3)
			for c := 0; c < ncalls; c++ {
				// a new schema, or an edit of the previous one (same generator seed, then edited)
				prof := c15Profile{collide: r.chance(30)}
				seed := r.next()
				edit := c > 0 && r.chance(50)
				if edit {
					seed = prevSeed
				}
				prevSeed = seed
				s := genSchema(&rng{s: seed}, prof)
				if edit {
					c15Edit(r, s)
				}
				if kind == "paths" {
					s.files[0].path = fmt.Sprintf("m%d_%d.proto", q, c)
				}
				mode := meta.ParseServiceMode(r.intn(3))
				if kind == "default" {
					mode = meta.LastServiceOnly
				}
				switch kind {
				case "fresh":
					c15ParseHook = nil
				case "reuse", "paths":
					c15ParseHook = func(s *pSchema, mode meta.ParseServiceMode) (*proto.ServiceDescriptor, error) {
						for _, f := range s.files[1:] {
							shared[f.path] = f.text() // the caller refreshes ITS files; the main file is the callee's business
						}
						return proto.Options{ParseServiceMode: mode}.NewDesccriptorFromContent(ctx, s.files[0].path, s.files[0].text(), shared)
					}
				case "frompath":
					c15ParseHook = func(s *pSchema, mode meta.ParseServiceMode) (*proto.ServiceDescriptor, error) {
						for _, f := range s.files {
							if err := os.WriteFile(filepath.Join(dir, f.path), []byte(f.text()), 0o644); err != nil {
								return nil, err
							}
						}
						return proto.Options{ParseServiceMode: mode}.NewDescriptorFromPath(ctx, filepath.Join(dir, s.files[0].path), dir)
					}
				case "default":
					viaPath := c%2 == 1
					c15ParseHook = func(s *pSchema, mode meta.ParseServiceMode) (*proto.ServiceDescriptor, error) {
						if viaPath {
							for _, f := range s.files {
								if err := os.WriteFile(filepath.Join(dir, f.path), []byte(f.text()), 0o644); err != nil {
									return nil, err
								}
							}
							return proto.NewDescritorFromPath(ctx, filepath.Join(dir, s.files[0].path), dir)
						}
						for _, f := range s.files[1:] {
							shared[f.path] = f.text()
						}
						return proto.NewDescritorFromContent(ctx, s.files[0].path, s.files[0].text(), shared)
					}
				}
				var sch []string
				s.emit(&sch)
				rfd, triage, ntri := referenceParse(s)
				tri2, ntri2 := referenceFields(s, rfd)
				toks := append([]string{}, sch...)
				toks = append(toks, fi(int(mode)), fi(ntri))
				toks = append(toks, triage...)
				toks = append(toks, fi(ntri2))
				toks = append(toks, tri2...)
				impl, _ := implDump(r.fork(), s, mode, 1, nil)
				toks = append(toks, impl...)
				out.emit(1507, toks...)
			}
		}
	}
	c15ParseHook = nil
}
