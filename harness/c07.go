//go:build verif

// C07: proto/generic reads (GetByPath, GetByPathWithAddress, Field/FieldByName/Index/GetByStr/GetByInt, GetMany,
// Children, PathNode.Load, typed casts, Interface) on reference-encoded messages of generated proto3 schemas.
// Case lines (the Gallina side decodes the reference bytes itself with the proved decoder):
//
//	701 <schema> x<bytes> <value reported by the reference>                               model vs reference
//	702 <schema> x<bytes> n<api> n<#q> { <path> n<status> n<type> x<raw> }                 element lookups
//	703 <schema> x<bytes> n<#q> { <path> n<cast> n<status> <value> }                       typed casts / Interface
//
// path = n<#steps> { n1 n<field number> | n2 x<field name> | n3 n<index> | n4 x<string key> | n5 n<int key> }
// status: 0 found, 1 not found, 2 other error, 3 panic
package main

import (
	"fmt"
	"math"
	"os"
	"sort"

	"github.com/cloudwego/dynamicgo/proto"
	"github.com/cloudwego/dynamicgo/proto/generic"
)

func init() { generators["C07"] = genC07 }

// C07_DEBUG=1: print the .proto text, the bytes and every observation to stderr
var c07Debug = os.Getenv("C07_DEBUG") != ""

type c07Step struct {
	Kind int // 1 field id, 2 field name, 3 index, 4 str key, 5 int key
	Num  int32
	Name string
	Idx  int
	Str  string
	Int  int64
}

type c07Path struct {
	Steps []c07Step
	Leaf  *pgVal   // the addressed value when the path is valid
	F     *pgField // field the last field step went through
	Elem  bool     // the leaf is a list element / map value
}

func (p c07Path) fields(byName bool, names map[int32][2]string, r *rng) []string {
	out := []string{fi(len(p.Steps))}
	for _, s := range p.Steps {
		switch s.Kind {
		case 1, 2:
			if byName && s.Name != "" {
				out = append(out, fi(2), fs(s.Name))
			} else {
				out = append(out, fi(1), fi(int(s.Num)))
			}
		case 3:
			out = append(out, fi(3), fi(s.Idx))
		case 4:
			out = append(out, fi(4), fs(s.Str))
		case 5:
			out = append(out, fi(5), fn(s.Int))
		}
	}
	return out
}

func (p c07Path) goPath(byName bool) []generic.Path {
	out := make([]generic.Path, 0, len(p.Steps))
	for _, s := range p.Steps {
		out = append(out, s.goPath(byName))
	}
	return out
}

func (s c07Step) goPath(byName bool) generic.Path {
	switch s.Kind {
	case 1, 2:
		if byName && s.Name != "" {
			return generic.NewPathFieldName(s.Name)
		}
		return generic.NewPathFieldId(proto.FieldNumber(s.Num))
	case 3:
		return generic.NewPathIndex(s.Idx)
	case 4:
		return generic.NewPathStrKey(s.Str)
	default:
		return generic.NewPathIntKey(int(s.Int))
	}
}

func c07KeyStep(k *pgVal) c07Step {
	if k.Tag == 3 {
		return c07Step{Kind: 4, Str: string(k.B)}
	}
	// Go int image of the key (uint64 keys above MaxInt64 wrap, as int(uint64) does)
	var v int64
	if k.I.Sign() >= 0 && !k.I.IsInt64() {
		v = int64(k.I.Uint64())
	} else {
		v = k.I.Int64()
	}
	return c07Step{Kind: 5, Int: v}
}

// all valid paths into v (a message value of type msgName), plus absent / ill-typed ones
func c07Paths(r *rng, c *pgCompiled, root *pgVal) (valid []c07Path, absent []c07Path) {
	var walkMsg func(prefix []c07Step, v *pgVal, msgName string)
	cp := func(prefix []c07Step, s c07Step) []c07Step {
		out := make([]c07Step, len(prefix)+1)
		copy(out, prefix)
		out[len(prefix)] = s
		return out
	}
	walkVal := func(prefix []c07Step, f *pgField, v *pgVal) {
		if v.Tag == 1 {
			walkMsg(prefix, v, f.MsgName)
		}
	}
	walkMsg = func(prefix []c07Step, v *pgVal, msgName string) {
		m := c.S.msg(msgName)
		present := map[int32]bool{}
		for _, fv := range v.Fields {
			f := fv.F
			present[f.Num] = true
			name := f.Name
			if r.chance(30) {
				name = f.JSONName
			}
			p := cp(prefix, c07Step{Kind: 1, Num: f.Num, Name: name})
			valid = append(valid, c07Path{Steps: p, Leaf: fv.V, F: f})
			switch fv.V.Tag {
			case 1:
				walkMsg(p, fv.V, f.MsgName)
			case 4:
				for i, e := range fv.V.Elems {
					if i >= 4 && i < len(fv.V.Elems)-2 && !r.chance(10) {
						continue
					}
					pe := cp(p, c07Step{Kind: 3, Idx: i})
					valid = append(valid, c07Path{Steps: pe, Leaf: e, F: f, Elem: true})
					walkVal(pe, f, e)
				}
				n := len(fv.V.Elems)
				for _, i := range []int{n, n + 1 + r.intn(3), -1} {
					if r.chance(40) {
						absent = append(absent, c07Path{Steps: cp(p, c07Step{Kind: 3, Idx: i}), F: f})
					}
				}
			case 5:
				for _, kv := range fv.V.Entries {
					pe := cp(p, c07KeyStep(kv.K))
					valid = append(valid, c07Path{Steps: pe, Leaf: kv.V, F: f, Elem: true})
					walkVal(pe, f, kv.V)
				}
				if r.chance(60) {
					// an absent key of the right sort
					if f.KeyKind == pgKString {
						k := "zz" + string(rune('a'+r.intn(26)))
						ok := true
						for _, kv := range fv.V.Entries {
							if string(kv.K.B) == k {
								ok = false
							}
						}
						if ok {
							absent = append(absent, c07Path{Steps: cp(p, c07Step{Kind: 4, Str: k}), F: f})
						}
					} else {
						k := int64(r.intn(1000)) + 7777
						ok := true
						for _, kv := range fv.V.Entries {
							if c07KeyStep(kv.K).Int == k {
								ok = false
							}
						}
						if ok {
							absent = append(absent, c07Path{Steps: cp(p, c07Step{Kind: 5, Int: k}), F: f})
						}
					}
				}
			}
		}
		// declared but absent field; undeclared number
		if m != nil {
			for _, f := range m.Fields {
				if !present[f.Num] && (r.chance(35) || len(v.Fields) == 0) {
					absent = append(absent, c07Path{Steps: cp(prefix, c07Step{Kind: 1, Num: f.Num, Name: f.Name}), F: f})
				}
			}
			if r.chance(15) {
				num := int32(3000 + r.intn(50))
				if m.byNum(num) == nil {
					absent = append(absent, c07Path{Steps: cp(prefix, c07Step{Kind: 1, Num: num})})
				}
			}
		}
	}
	walkMsg(nil, root, c.S.Root)
	return
}

func c07Sample(r *rng, ps []c07Path, max int) []c07Path {
	if len(ps) <= max {
		return ps
	}
	// keep a random subset, preserving order
	idx := make([]int, len(ps))
	for i := range idx {
		idx[i] = i
	}
	for i := 0; i < max; i++ {
		j := i + r.intn(len(ps)-i)
		idx[i], idx[j] = idx[j], idx[i]
	}
	sel := idx[:max]
	sort.Ints(sel)
	out := make([]c07Path, 0, max)
	for _, i := range sel {
		out = append(out, ps[i])
	}
	return out
}

func c07ObsNode(n generic.Node) []string {
	if n.IsError() {
		if n.IsErrNotFound() {
			return []string{fi(1), fi(0), fx(nil)}
		}
		return []string{fi(2), fi(int(n.ErrCode())), fx(nil)}
	}
	if n.IsUnKnown() {
		return []string{fi(1), fi(0), fx(nil)}
	}
	// a node with a negative length (finding 705) panics in Raw() or as soon as its bytes are used
	var hexRaw string
	if ok, _ := noPanic(func() { hexRaw = fx(n.Raw()) }); !ok {
		return []string{fi(3), fi(int(n.Type())), fx(nil)}
	}
	return []string{fi(0), fi(int(n.Type())), hexRaw}
}

var c07Panic = []string{"n3", "n0", "x"}

func c07Step1(cur generic.Value, s c07Step, byName bool) generic.Value {
	switch s.Kind {
	case 1, 2:
		if byName && s.Name != "" {
			return cur.FieldByName(s.Name)
		}
		return cur.Field(proto.FieldNumber(s.Num))
	case 3:
		return cur.Index(s.Idx)
	case 4:
		return cur.GetByStr(s.Str)
	default:
		return cur.GetByInt(int(s.Int))
	}
}

func c07FindChild(next []generic.PathNode, s c07Step) (generic.PathNode, bool) {
	for _, ch := range next {
		switch s.Kind {
		case 1, 2:
			if ch.Path.Type() == generic.PathFieldId && ch.Path.Id() == proto.FieldNumber(s.Num) {
				return ch, true
			}
		case 3:
			if ch.Path.Type() == generic.PathIndex && ch.Path.Int() == s.Idx {
				return ch, true
			}
		case 4:
			if ch.Path.Type() == generic.PathStrKey && ch.Path.Str() == s.Str {
				return ch, true
			}
		case 5:
			if ch.Path.Type() == generic.PathIntKey && ch.Path.Int() == int(s.Int) {
				return ch, true
			}
		}
	}
	return generic.PathNode{}, false
}

// generic dump of a Go value returned by Interface()
func c07DumpGo(x interface{}, out *[]string) {
	switch v := x.(type) {
	case nil:
		*out = append(*out, fi(0))
	case int:
		*out = append(*out, fi(1), fn(int64(v)))
	case uint:
		*out = append(*out, fi(2), fu(uint64(v)))
	case float64:
		*out = append(*out, fi(3), fu(math.Float64bits(v)))
	case float32:
		*out = append(*out, fi(4), fu(uint64(math.Float32bits(v))))
	case bool:
		*out = append(*out, fi(5), fb(v))
	case string:
		*out = append(*out, fi(6), fs(v))
	case []byte:
		*out = append(*out, fi(7), fx(v))
	case []interface{}:
		*out = append(*out, fi(8), fi(len(v)))
		for _, e := range v {
			c07DumpGo(e, out)
		}
	case map[int]interface{}:
		ks := make([]int, 0, len(v))
		for k := range v {
			ks = append(ks, k)
		}
		sort.Ints(ks)
		*out = append(*out, fi(9), fi(len(v)))
		for _, k := range ks {
			*out = append(*out, fn(int64(k)))
			c07DumpGo(v[k], out)
		}
	case map[proto.FieldNumber]interface{}:
		ks := make([]int, 0, len(v))
		for k := range v {
			ks = append(ks, int(k))
		}
		sort.Ints(ks)
		*out = append(*out, fi(10), fi(len(v)))
		for _, k := range ks {
			*out = append(*out, fn(int64(k)))
			c07DumpGo(v[proto.FieldNumber(k)], out)
		}
	case map[string]interface{}:
		ks := make([]string, 0, len(v))
		for k := range v {
			ks = append(ks, k)
		}
		sort.Strings(ks)
		*out = append(*out, fi(11), fi(len(v)))
		for _, k := range ks {
			*out = append(*out, fs(k))
			c07DumpGo(v[k], out)
		}
	default:
		*out = append(*out, fi(99))
	}
}

func c07ErrStatus(err error) int {
	if err == nil {
		return 0
	}
	if n, ok := err.(generic.Node); ok && n.IsErrNotFound() {
		return 1
	}
	if n, ok := err.(generic.Value); ok && n.IsErrNotFound() {
		return 1
	}
	return 2
}

// ---- the deep class: values nested far beyond the generator's usual depth, along the root's self-typed field ----

// nesting depths of the deep class (message levels below the root), visited in this order; the judge's cost grows with
// depth x size, so 1500 and 5000 are left to the thorough tier
var c07DeepDepths = []int{1024, 10, 1500, 500, 1023, 5000, 1000}
var c07DeepDepthsQuick = []int{1024, 10, 1023, 500, 1000}

func c07InsertField(v *pgVal, f *pgField, x *pgVal) {
	i := 0
	for i < len(v.Fields) && v.Fields[i].F.Num < f.Num {
		i++
	}
	v.Fields = append(v.Fields, pgFV{})
	copy(v.Fields[i+1:], v.Fields[i:])
	v.Fields[i] = pgFV{F: f, V: x}
}

// a message of the root type without nested messages (scalars, strings, lists and maps of scalars only)
func c07Shallow(r *rng, c *pgCompiled) *pgVal {
	if r.chance(20) {
		return &pgVal{Tag: 1, Kind: pgKMessage}
	}
	return genProtoValue(r, c, c.S.Root, c.S.Opts.withDefaults().MaxDepth)
}

// a value of the root type with `depth` nested message levels along the chain field (singular: child; repeated: one of
// 1-3 elements; map: the value of one of 1-2 entries), shallow content at the root and at the innermost message;
// spine[i] = the steps from the level-i message to the level-(i+1) message
func c07DeepValue(r *rng, c *pgCompiled, depth int) (root *pgVal, leaf *pgVal, spine [][]c07Step) {
	f := c.S.Chain
	g := &pgValGen{r: r, c: c, budget: 0}
	leaf = c07Shallow(r, c)
	cur := leaf
	spine = make([][]c07Step, depth)
	for lvl := depth - 1; lvl >= 0; lvl-- {
		var host *pgVal
		if lvl == 0 {
			host = c07Shallow(r, c)
		} else {
			host = &pgVal{Tag: 1, Kind: pgKMessage}
		}
		fstep := c07Step{Kind: 1, Num: f.Num, Name: f.Name}
		switch f.Label {
		case pgSingular:
			c07InsertField(host, f, cur)
			spine[lvl] = []c07Step{fstep}
		case pgRepeated:
			n, at := 1, 0
			if r.chance(25) {
				n = 2 + r.intn(2)
				at = r.intn(n)
			}
			l := &pgVal{Tag: 4, Kind: pgKMessage}
			for i := 0; i < n; i++ {
				if i == at {
					l.Elems = append(l.Elems, cur)
				} else {
					l.Elems = append(l.Elems, &pgVal{Tag: 1, Kind: pgKMessage})
				}
			}
			c07InsertField(host, f, l)
			spine[lvl] = []c07Step{fstep, {Kind: 3, Idx: at}}
		case pgMap:
			mv := &pgVal{Tag: 5, Kind: pgKMessage, KeyKind: f.KeyKind}
			k := g.mapKey(f.KeyKind)
			mv.Entries = append(mv.Entries, pgKV{K: k, V: cur})
			if r.chance(25) {
				k2 := g.mapKey(f.KeyKind)
				if c07KeyStep(k2) != c07KeyStep(k) {
					mv.Entries = append(mv.Entries, pgKV{K: k2, V: &pgVal{Tag: 1, Kind: pgKMessage}})
				}
			}
			pgSortEntries(mv.Entries)
			c07InsertField(host, f, mv)
			spine[lvl] = []c07Step{fstep, c07KeyStep(k)}
		}
		cur = host
	}
	return cur, leaf, spine
}

// the queries of the deep class: the spine messages (and their LIST / MAP containers) at a few levels, paths into the
// shallow content of the root and of the innermost message, and absent positions next to them
func c07DeepPaths(r *rng, c *pgCompiled, root, leaf *pgVal, spine [][]c07Step) (valid, absent []c07Path) {
	f := c.S.Chain
	depth := len(spine)
	prefix := func(l int) []c07Step {
		var out []c07Step
		for i := 0; i < l; i++ {
			out = append(out, spine[i]...)
		}
		return out
	}
	// the value at level l of the spine
	at := func(l int) *pgVal {
		cur := root
		for i := 0; i < l; i++ {
			var x *pgVal
			for _, fv := range cur.Fields {
				if fv.F == f {
					x = fv.V
				}
			}
			switch x.Tag {
			case 4:
				x = x.Elems[spine[i][1].Idx]
			case 5:
				for _, kv := range x.Entries {
					if c07KeyStep(kv.K) == spine[i][1] {
						x = kv.V
						break
					}
				}
			}
			cur = x
		}
		return cur
	}
	seen := map[int]bool{}
	for _, l := range []int{1, 2, depth / 2, depth - 1, depth} {
		if l < 1 || l > depth || seen[l] {
			continue
		}
		seen[l] = true
		p := prefix(l)
		valid = append(valid, c07Path{Steps: p, Leaf: at(l), F: f, Elem: f.Label != pgSingular})
		if f.Label != pgSingular {
			// the LIST / MAP node holding the level-l message
			var cont *pgVal
			for _, fv := range at(l - 1).Fields {
				if fv.F == f {
					cont = fv.V
				}
			}
			valid = append(valid, c07Path{Steps: p[:len(p)-1], Leaf: cont, F: f})
		}
	}
	// below the innermost message: the chain field is absent there
	full := prefix(depth)
	absent = append(absent, c07Path{Steps: append(append([]c07Step{}, full...), c07Step{Kind: 1, Num: f.Num, Name: f.Name}), F: f})
	switch f.Label {
	case pgRepeated:
		absent = append(absent, c07Path{Steps: append(append([]c07Step{}, prefix(depth-1)...), spine[depth-1][0], c07Step{Kind: 3, Idx: 3 + r.intn(3)}), F: f})
	}
	// shallow content of the root and of the innermost message
	rootShallow := &pgVal{Tag: 1, Kind: pgKMessage}
	for _, fv := range root.Fields {
		if fv.F != f {
			rootShallow.Fields = append(rootShallow.Fields, fv)
		}
	}
	v1, a1 := c07Paths(r, c, rootShallow)
	for _, p := range a1 {
		if len(p.Steps) == 1 && p.Steps[0].Num == f.Num {
			continue // the chain field IS present at the root
		}
		absent = append(absent, p)
	}
	valid = append(valid, c07Sample(r, v1, 6)...)
	absent = c07Sample(r, absent, 5)
	v2, _ := c07Paths(r, c, leaf)
	for _, p := range c07Sample(r, v2, 4) {
		valid = append(valid, c07Path{Steps: append(append([]c07Step{}, full...), p.Steps...), Leaf: p.Leaf, F: p.F, Elem: p.Elem})
	}
	return
}

func genC07(r *rng, n int) {
	// Reused across ALL calls of the run: results must never depend on earlier calls (stale slots of a recycled
	// PathNode tree / Children slice / GetMany request slice, pool objects).
	var reuseChildren []generic.PathNode
	reuseReqs := make([]generic.PathNode, 0, 8)
	reuseTree := &generic.PathNode{}
	defer func() { generic.UseNativeSkipForGet = false }()
	opts := &generic.Options{}
	produced := 0
	deepCount := 0
	for produced < n {
		sr := r.fork()
		// one schema in eight has a self-typed field in its root message; its first message is of the deep class
		deepSchema := sr.chance(12)
		s := genProtoSchema(sr, pgOpts{BigNumbers: sr.chance(12), StringKeyPct: 25, SelfChain: deepSchema})
		c, err := compileProtoSchema(s)
		if err != nil {
			die("C07: schema does not compile: %v\n%s", err, s.protoText())
		}
		sf := s.caseFields()
		per := 2 + sr.intn(3)
		for k := 0; k < per && produced < n; k++ {
			produced++
			vr := r.fork()
			val := genProtoValue(vr, c, s.Root, 0)
			// boundary class: the EMPTY root message (zero bytes): every declared field is then queried as absent
			if vr.chance(8) {
				val = &pgVal{Tag: 1, Kind: pgKMessage}
			}
			// deep class: the recursive-load APIs on a value nested 10 .. 5000 levels (the reference encodes any depth
			// and decodes 10000 levels)
			deep := 0
			var deepLeaf *pgVal
			var deepSpine [][]c07Step
			// capped by COUNT, independent of n (each deep value costs the judge seconds): thorough tier 3 values per depth
			depths, deepCap := c07DeepDepthsQuick, 12
			if n >= 3000 { // thorough tier
				depths, deepCap = c07DeepDepths, 3*len(c07DeepDepths)
			}
			if deepSchema && k == 0 && deepCount < deepCap {
				deep = depths[deepCount%len(depths)]
				deepCount++
				val, deepLeaf, deepSpine = c07DeepValue(vr, c, deep)
			}
			bs, err := c.encodeRef(val, s.Root)
			if err != nil {
				die("C07: reference encode: %v", err)
			}
			if len(bs) > 6000 && deep == 0 {
				continue
			}
			// half of the messages are fed in a non-ascending wire order (groups of one field number shuffled,
			// recursively): the model's decoder accepts any order, so every expectation is unchanged
			if vr.chance(50) {
				bs = c.permuteWire(vr, s.Root, bs)
			}
			dump, err := c.dumpRef(bs, s.Root)
			if err != nil {
				die("C07: reference decode: %v", err)
			}
			head := append(append([]string{}, sf...), fx(bs))
			if deep > 0 {
				out.emit(704, append(append([]string{}, head...), dump.caseFields()...)...)
			} else {
				out.emit(701, append(append([]string{}, head...), dump.caseFields()...)...)
			}

			// option sweep: UseNativeSkip / UseNativeSkipForGet are documented as not implemented: no result may change;
			// half of the messages use recycled request slices / trees with ClearDirtyValues
			opts = &generic.Options{UseNativeSkip: vr.bool()}
			generic.UseNativeSkipForGet = vr.bool()
			reuse := vr.bool()
			optsMany := &generic.Options{UseNativeSkip: opts.UseNativeSkip, ClearDirtyValues: reuse}
			var valid, absent []c07Path
			if deep > 0 {
				valid, absent = c07DeepPaths(vr, c, val, deepLeaf, deepSpine)
			} else {
				valid, absent = c07Paths(vr, c, val)
				valid = c07Sample(vr, valid, 40)
				absent = c07Sample(vr, absent, 10)
			}
			all := append(append([]c07Path{}, valid...), absent...)
			root := func() generic.Value { return generic.NewRootValue(c.Dyn, bs) }

			if c07Debug {
				fmt.Fprintf(os.Stderr, "=== message %d line %d\n%s\nbytes %x\n", produced, out.count, c.Text, bs)
			}
			emit702 := func(api int, byName bool, f func(p c07Path) []string) {
				if deep > 0 && api != 7 && api != 10 {
					return // deep class: the recursive loads only (the other APIs' models cost depth x size per query)
				}
				fields := append(append([]string{}, head...), fi(api), fi(len(all)))
				for qi, p := range all {
					fields = append(fields, p.fields(byName, nil, vr)...)
					var obs []string
					ok, pmsg := noPanic(func() { obs = f(p) })
					if !ok {
						obs = c07Panic
						if api == 7 || api == 8 || api == 10 {
							obs = append(append([]string{}, c07Panic...), fi(-1))
						}
					}
					if c07Debug {
						fmt.Fprintf(os.Stderr, "api %d q %d path %v obs %v %s\n", api, qi, p.fields(byName, nil, vr), obs, pmsg)
					}
					fields = append(fields, obs...)
				}
				out.emit(702, fields...)
			}
			// 1: GetByPath by ids
			emit702(1, false, func(p c07Path) []string { return c07ObsNode(root().GetByPath(p.goPath(false)...).Node) })
			// 2: GetByPath by names
			emit702(2, true, func(p c07Path) []string { return c07ObsNode(root().GetByPath(p.goPath(true)...).Node) })
			// 3: GetByPathWithAddress
			emit702(3, false, func(p c07Path) []string {
				v, _ := root().GetByPathWithAddress(p.goPath(false)...)
				return c07ObsNode(v.Node)
			})
			// 4: chained single-step APIs (by id / by name alternating per message)
			byName4 := vr.bool()
			emit702(4, byName4, func(p c07Path) []string {
				cur := root()
				for _, st := range p.Steps {
					cur = c07Step1(cur, st, byName4)
					if cur.IsError() {
						break
					}
				}
				return c07ObsNode(cur.Node)
			})
			// the parent of the last step as GetByPath locates it, with its observation (status, type, raw, Len)
			parentOf := func(p c07Path) (parent generic.Value, pobs []string) {
				l := len(p.Steps)
				ok, _ := noPanic(func() {
					parent = root()
					if l > 1 {
						parent = root().GetByPath(p.goPath(false)[:l-1]...)
					}
				})
				if !ok {
					return parent, []string{fi(3), fi(0), fx(nil), fi(0)}
				}
				pobs = c07ObsNode(parent.Node)
				size := 0
				if !parent.IsError() {
					if n, err := parent.Len(); err == nil {
						size = n
					}
				}
				return parent, append(pobs, fi(size))
			}
			stepFields := func(st c07Step) []string {
				return c07Path{Steps: []c07Step{st}}.fields(false, nil, vr)[1:]
			}
			// 5: GetMany on the parent with the last step only; 9: plus up to two sibling steps taken from the other paths
			// query layout: path, obs, parent obs (4), #requests, requests, position of the queried one
			getMany := func(siblings bool) func(p c07Path) []string {
				return func(p c07Path) []string {
					l := len(p.Steps)
					parent, pobs := parentOf(p)
					if pobs[0] != "n0" {
						return append(append([]string{fi(2), fi(-1), fx(nil)}, pobs...), fi(0), fi(0))
					}
					// a recycled request slice keeps the Nodes of earlier calls: only the Paths are rewritten
					var pn []generic.PathNode
					if reuse {
						pn = reuseReqs[:1]
						pn[0].Path = p.Steps[l-1].goPath(false)
					} else {
						pn = []generic.PathNode{{Path: p.Steps[l-1].goPath(false)}}
					}
					reqs := []c07Step{p.Steps[l-1]}
					for _, q := range all {
						if !siblings || len(pn) >= 3 {
							break
						}
						if len(q.Steps) == l && q.Steps[l-1] != p.Steps[l-1] && q.Steps[l-1].Kind == p.Steps[l-1].Kind {
							same := true
							for i := 0; i < l-1; i++ {
								if q.Steps[i] != p.Steps[i] {
									same = false
								}
							}
							if same {
								if reuse {
									pn = pn[:len(pn)+1]
									pn[len(pn)-1].Path = q.Steps[l-1].goPath(false)
								} else {
									pn = append(pn, generic.PathNode{Path: q.Steps[l-1].goPath(false)})
								}
								reqs = append(reqs, q.Steps[l-1])
							}
						}
					}
					// the queried path goes to a random position
					at := int(uint(len(bs)+l) % uint(len(pn)))
					pn[0], pn[at] = pn[at], pn[0]
					reqs[0], reqs[at] = reqs[at], reqs[0]
					tail := append([]string{}, pobs...)
					tail = append(tail, fi(len(reqs)))
					for _, st := range reqs {
						tail = append(tail, stepFields(st)...)
					}
					tail = append(tail, fi(at))
					var obs []string
					if ok, _ := noPanic(func() {
						if err := parent.GetMany(pn, optsMany); err != nil {
							obs = []string{fi(c07ErrStatus(err)), fi(-2), fx(nil)}
						} else {
							obs = c07ObsNode(pn[at].Node)
						}
					}); !ok {
						obs = c07Panic
					}
					return append(append([]string{}, obs...), tail...)
				}
			}
			emit702(5, false, getMany(false))
			emit702(9, false, getMany(true))
			// 6: PathNode.Load(recurse=false) on the parent node; same layout with no requests
			emit702(6, false, func(p c07Path) []string {
				l := len(p.Steps)
				parent, pobs := parentOf(p)
				tail := append(append([]string{}, pobs...), fi(0), fi(0))
				if pobs[0] != "n0" {
					return append([]string{fi(2), fi(-1), fx(nil)}, tail...)
				}
				var obs []string
				if ok, _ := noPanic(func() {
					tree := reuseTree
					tree.Node = parent.Node
					if err := tree.Load(false, opts, parent.Desc); err != nil {
						obs = []string{fi(c07ErrStatus(err)), fi(-2), fx(nil)}
						return
					}
					ch, ok := c07FindChild(tree.Next, p.Steps[l-1])
					if !ok {
						obs = []string{fi(1), fi(0), fx(nil)}
						return
					}
					obs = c07ObsNode(ch.Node)
				}); !ok {
					obs = c07Panic
				}
				return append(append([]string{}, obs...), tail...)
			})
			// 7: PathNode.Load(recurse=true) on the root, then walk
			// the tree comes from the PathNode pool and goes back after the walks: its child slots are recycled
			tree := generic.NewPathNode()
			var loadErr error
			loadOK, _ := noPanic(func() {
				tree.Node = root().Node
				loadErr = tree.Load(true, opts, c.Dyn)
			})
			// 4th observation of APIs 7 and 8: Len() of the node (-1: not a LIST/MAP)
			withLen := func(n generic.Node) []string {
				o := c07ObsNode(n)
				ln := -1
				if o[0] == "n0" {
					if k, err := n.Len(); err == nil {
						ln = k
					}
				}
				return append(o, fi(ln))
			}
			if c07Debug && loadErr != nil {
				fmt.Fprintf(os.Stderr, "load(recurse) error: %v\n", loadErr)
			}
			emit702(7, false, func(p c07Path) []string {
				if !loadOK {
					return append(append([]string{}, c07Panic...), fi(-1))
				}
				if loadErr != nil {
					return []string{fi(c07ErrStatus(loadErr)), fi(-2), fx(nil), fi(-1)}
				}
				cur := *tree
				for _, st := range p.Steps {
					ch, ok := c07FindChild(cur.Next, st)
					if !ok {
						return []string{fi(1), fi(0), fx(nil), fi(-1)}
					}
					cur = ch
				}
				return withLen(cur.Node)
			})
			generic.FreePathNode(tree)
			// 10: Node.Children(recurse=true) on the root into a recycled slice, then walk
			var kids10 []generic.PathNode
			var err10 error
			ok10, _ := noPanic(func() {
				if reuseChildren == nil {
					reuseChildren = make([]generic.PathNode, 0, 4)
				}
				err10 = root().Children(&reuseChildren, true, opts, c.Dyn)
				kids10 = reuseChildren
			})
			emit702(10, false, func(p c07Path) []string {
				if !ok10 {
					return append(append([]string{}, c07Panic...), fi(-1))
				}
				if err10 != nil {
					return []string{fi(c07ErrStatus(err10)), fi(-2), fx(nil), fi(-1)}
				}
				cur := generic.PathNode{Next: kids10}
				for _, st := range p.Steps {
					ch, ok := c07FindChild(cur.Next, st)
					if !ok {
						return []string{fi(1), fi(0), fx(nil), fi(-1)}
					}
					cur = ch
				}
				return withLen(cur.Node)
			})
			// 8: Children(recurse=false) via Node.Children on the root message only (first steps)
			emit702(8, false, func(p c07Path) []string {
				if len(p.Steps) != 1 {
					return []string{fi(9), fi(0), fx(nil), fi(-1)} // not applicable
				}
				if reuseChildren == nil {
					reuseChildren = make([]generic.PathNode, 0, 4)
				}
				if err := root().Children(&reuseChildren, false, opts, c.Dyn); err != nil {
					return []string{fi(c07ErrStatus(err)), fi(-2), fx(nil), fi(-1)}
				}
				ch, ok := c07FindChild(reuseChildren, p.Steps[0])
				if !ok {
					return []string{fi(1), fi(0), fx(nil), fi(-1)}
				}
				return withLen(ch.Node)
			})

			if deep > 0 {
				continue
			}
			// 703: typed casts and Interface on valid paths (+ the root itself)
			casts := append([]c07Path{{Steps: nil, Leaf: val}}, valid...)
			fields := append(append([]string{}, head...), fi(0))
			nq := 0
			for _, p := range casts {
				var v generic.Value
				ok, _ := noPanic(func() {
					if len(p.Steps) == 0 {
						v = root()
					} else {
						v = root().GetByPath(p.goPath(false)...)
					}
				})
				if !ok || v.IsError() {
					continue // reported by 702
				}
				nobs := c07ObsNode(v.Node)
				if nobs[0] != "n0" {
					continue
				}
				add := func(cast int, f func() (int, []string)) {
					var st int
					var vals []string
					if ok, _ := noPanic(func() { st, vals = f() }); !ok {
						st, vals = 3, nil
					}
					if st != 0 {
						vals = []string{fi(0)}
					}
					fields = append(fields, p.fields(false, nil, vr)...)
					fields = append(fields, nobs[1], nobs[2]) // type and raw bytes of the node the cast is applied to
					fields = append(fields, fi(cast), fi(st))
					fields = append(fields, vals...)
					nq++
				}
				if p.Leaf.Tag == 2 || p.Leaf.Tag == 3 {
					switch p.Leaf.Kind {
					case 3, 5, 15, 16, 17, 18:
						add(1, func() (int, []string) { x, e := v.Int(); return c07ErrStatus(e), []string{fn(int64(x))} })
					case 4, 13, 6, 7:
						add(2, func() (int, []string) { x, e := v.Uint(); return c07ErrStatus(e), []string{fu(uint64(x))} })
					case 1:
						add(3, func() (int, []string) {
							x, e := v.Float64()
							return c07ErrStatus(e), []string{fu(math.Float64bits(x))}
						})
					case 8:
						add(4, func() (int, []string) { x, e := v.Bool(); return c07ErrStatus(e), []string{fb(x)} })
					case 9:
						add(5, func() (int, []string) { x, e := v.String(); return c07ErrStatus(e), []string{fs(x)} })
					case 12:
						add(6, func() (int, []string) { x, e := v.Binary(); return c07ErrStatus(e), []string{fx(x)} })
					case 14:
						add(7, func() (int, []string) { x, e := v.Enum(); return c07ErrStatus(e), []string{fn(int64(x))} })
					}
				}
				if p.Leaf.Tag == 2 || p.Leaf.Tag == 3 || vr.chance(25) || len(p.Steps) == 0 {
					add(8, func() (int, []string) {
						x, e := v.Interface(opts)
						if e != nil {
							if c07Debug {
								fmt.Fprintf(os.Stderr, "interface path %v: %v\n", p.fields(false, nil, vr), e)
							}
							return c07ErrStatus(e), nil
						}
						var d []string
						c07DumpGo(x, &d)
						return 0, d
					})
				}
			}
			fields[len(head)] = fi(nq)
			out.emit(703, fields...)
		}
	}
}
