//go:build verif

package main

import (
	"bytes"
	"encoding/binary"
	"math"
	"sort"
	"strconv"

	"github.com/cloudwego/dynamicgo/thrift"
)

// C19: generic Go values WITH a descriptor: WriteAnyWithDesc / ReadAnyWithDesc (cast on/off, both byte representations,
// field ids / names, string / binary, maps keyed by string, every integer width, double, bool and struct).
// 1920: type, expected bytes (harness encoder), option bits (1 cast, 2 byteAsUint8, 4 useFieldName, 8 BYTE given as int8,
//       16 all STRING types declared binary), WriteAnyWithDesc err, bytes, ReadAnyWithDesc err, dump of the Go value read,
//       err and bytes of writing the value that was read
// 1921: int64 n, err, bytes of WriteAnyWithDesc(STRING descriptor, n, cast=true)

func init() {
	base := generators["C19"]
	generators["C19"] = func(r *rng, n int) {
		if base != nil {
			base(r, n)
		}
		genC19Desc(r, n)
	}
}

type anyOpts struct{ cast, u8, byName, int8rep bool }

func setBinary(t *Ty, bin bool, seen map[*Ty]bool) {
	if t == nil || seen[t] {
		return
	}
	seen[t] = true
	if t.K == thrift.STRING {
		t.Binary = bin
	}
	for _, f := range t.Fields {
		setBinary(f.T, bin, seen)
	}
	setBinary(t.Key, bin, seen)
	setBinary(t.Elem, bin, seen)
}

// the Go value handed to WriteAnyWithDesc
func (v *Val) goAnyDesc(o anyOpts) interface{} {
	switch v.T.K {
	case thrift.BOOL:
		return v.I != 0
	case thrift.I08:
		if o.cast {
			return int(int8(v.I))
		}
		if o.int8rep {
			return int8(v.I)
		}
		return byte(v.I)
	case thrift.I16:
		if o.cast {
			return int(v.I)
		}
		return int16(v.I)
	case thrift.I32:
		if o.cast {
			return int64(v.I)
		}
		return int32(v.I)
	case thrift.I64:
		if o.cast {
			return int(v.I)
		}
		return v.I
	case thrift.DOUBLE:
		return math.Float64frombits(v.D)
	case thrift.STRING:
		if v.T.Binary {
			return append([]byte(nil), v.S...)
		}
		return string(v.S)
	case thrift.LIST, thrift.SET:
		out := make([]interface{}, 0, len(v.Elems))
		for _, e := range v.Elems {
			out = append(out, e.goAnyDesc(o))
		}
		return out
	case thrift.STRUCT:
		if o.byName {
			out := map[string]interface{}{}
			for i, id := range v.FIDs {
				for _, f := range v.T.Fields {
					if f.ID == id {
						out[f.Name] = v.Fields[i].goAnyDesc(o)
					}
				}
			}
			return out
		}
		out := map[thrift.FieldID]interface{}{}
		for i, id := range v.FIDs {
			out[thrift.FieldID(id)] = v.Fields[i].goAnyDesc(o)
		}
		return out
	case thrift.MAP:
		switch v.T.Key.K {
		case thrift.STRING:
			out := map[string]interface{}{}
			for i, k := range v.Keys {
				out[string(k.S)] = v.Elems[i].goAnyDesc(o)
			}
			return out
		case thrift.I08, thrift.I16, thrift.I32, thrift.I64:
			out := map[int]interface{}{}
			for i, k := range v.Keys {
				out[int(k.I)] = v.Elems[i].goAnyDesc(o)
			}
			return out
		default:
			out := map[interface{}]interface{}{}
			for i, k := range v.Keys {
				kv := k.goAnyDesc(o)
				switch x := kv.(type) {
				case map[string]interface{}:
					out[&x] = v.Elems[i].goAnyDesc(o)
				case map[thrift.FieldID]interface{}:
					out[&x] = v.Elems[i].goAnyDesc(o)
				case []interface{}:
					out[&x] = v.Elems[i].goAnyDesc(o)
				default:
					out[kv] = v.Elems[i].goAnyDesc(o)
				}
			}
			return out
		}
	}
	return nil
}

// no NaN / -0 double keys (Go map key identity), bools 0/1
func descOK(v *Val) bool {
	switch v.T.K {
	case thrift.BOOL:
		return v.I == 0 || v.I == 1
	case thrift.MAP:
		for _, k := range v.Keys {
			if k.T.K == thrift.DOUBLE {
				f := math.Float64frombits(k.D)
				if f != f || k.D == 0x8000000000000000 {
					return false
				}
			}
			if !descOK(k) {
				return false
			}
		}
	}
	for _, f := range v.Fields {
		if !descOK(f) {
			return false
		}
	}
	for _, e := range v.Elems {
		if !descOK(e) {
			return false
		}
	}
	return true
}

// canonical dump of a Go value returned by ReadAnyWithDesc (the Go type of every scalar is part of the dump)
func dumpGo19(v interface{}, t *Ty, b []byte) []byte {
	u32 := func(b []byte, n int) []byte { return binary.BigEndian.AppendUint32(b, uint32(n)) }
	i64 := func(b []byte, tag byte, n int64) []byte { return binary.BigEndian.AppendUint64(append(b, tag), uint64(n)) }
	type kv struct{ k, v []byte }
	emitMap := func(b []byte, sub byte, ps []kv) []byte {
		sort.Slice(ps, func(i, j int) bool {
			if c := bytes.Compare(ps[i].k, ps[j].k); c != 0 {
				return c < 0
			}
			return bytes.Compare(ps[i].v, ps[j].v) < 0 // equal container keys are distinct (pointer) keys of the Go map
		})
		b = append(b, 7, sub)
		b = u32(b, len(ps))
		for _, p := range ps {
			b = append(b, p.k...)
			b = append(b, p.v...)
		}
		return b
	}
	var kt, et *Ty
	if t != nil {
		kt, et = t.Key, t.Elem
	}
	fieldT := func(id int) *Ty {
		if t != nil {
			for _, f := range t.Fields {
				if int(f.ID) == id {
					return f.T
				}
			}
		}
		return nil
	}
	switch x := v.(type) {
	case bool:
		if x {
			return append(b, 1, 1)
		}
		return append(b, 1, 0)
	case int:
		return i64(b, 2, int64(x))
	case int8:
		return i64(b, 20, int64(x))
	case uint8:
		return i64(b, 21, int64(x))
	case int16:
		return i64(b, 22, int64(x))
	case int32:
		return i64(b, 23, int64(x))
	case int64:
		return i64(b, 24, x)
	case float64:
		return binary.BigEndian.AppendUint64(append(b, 3), math.Float64bits(x))
	case string:
		return append(u32(append(b, 4), len(x)), x...)
	case []byte:
		return append(u32(append(b, 5), len(x)), x...)
	case []interface{}:
		b = u32(append(b, 6), len(x))
		for _, e := range x {
			b = dumpGo19(e, et, b)
		}
		return b
	case map[string]interface{}:
		var ps []kv
		if t != nil && t.K == thrift.STRUCT { // struct by field name: keys mapped back to ids through the abstract shape
			for k, e := range x {
				id := -1
				for _, f := range t.Fields {
					if f.Name == k {
						id = int(f.ID)
					}
				}
				ps = append(ps, kv{i64(nil, 2, int64(id)), dumpGo19(e, fieldT(id), nil)})
			}
			return emitMap(b, 5, ps)
		}
		for k, e := range x {
			ps = append(ps, kv{dumpGo19(k, nil, nil), dumpGo19(e, et, nil)})
		}
		return emitMap(b, 1, ps)
	case map[int]interface{}:
		var ps []kv
		for k, e := range x {
			ps = append(ps, kv{dumpGo19(k, nil, nil), dumpGo19(e, et, nil)})
		}
		return emitMap(b, 2, ps)
	case map[thrift.FieldID]interface{}:
		var ps []kv
		for k, e := range x {
			ps = append(ps, kv{i64(nil, 2, int64(k)), dumpGo19(e, fieldT(int(k)), nil)})
		}
		return emitMap(b, 4, ps)
	case map[interface{}]interface{}:
		var ps []kv
		for k, e := range x {
			ps = append(ps, kv{dumpGo19(k, kt, nil), dumpGo19(e, et, nil)})
		}
		return emitMap(b, 3, ps)
	case *map[string]interface{}:
		return dumpGo19(*x, t, b)
	case *map[int]interface{}:
		return dumpGo19(*x, t, b)
	case *map[interface{}]interface{}:
		return dumpGo19(*x, t, b)
	case *map[thrift.FieldID]interface{}:
		return dumpGo19(*x, t, b)
	case *[]interface{}:
		return dumpGo19(*x, t, b)
	}
	return append(b, 255)
}

func genC19Desc(r *rng, n int) {
	for i := 0; i < n/12+10; i++ {
		g := newTgen(r.fork())
		g.maxDepth = 3
		g.structKeys = true
		g.keyKinds = []thrift.Type{thrift.STRING, thrift.I08, thrift.I16, thrift.I32, thrift.I64, thrift.DOUBLE, thrift.BOOL, thrift.STRING, thrift.I32}
		root := g.genStruct(0)
		allbin := r.chance(30)
		setBinary(root, allbin, map[*Ty]bool{})
		idl := g.idl(root)
		desc, err := parseThrift(idl, thrift.Options{})
		if err != nil {
			die("generated IDL does not parse: %v\n%s", err, idl)
		}
		var v *Val
		for try := 0; try < 20; try++ {
			v = g.genValue(root, 0)
			if descOK(v) {
				permuteStructKeys(g, v)
				break
			}
			v = nil
		}
		if v == nil {
			continue
		}
		o := anyOpts{cast: r.chance(35), u8: r.chance(50), byName: r.chance(35), int8rep: r.chance(30)}
		bits := 0
		if o.cast {
			bits |= 1
		}
		if o.u8 {
			bits |= 2
		}
		if o.byName {
			bits |= 4
		}
		if o.int8rep {
			bits |= 8
		}
		if allbin {
			bits |= 16
		}
		exp := v.encode(nil)
		gv := v.goAnyDesc(o)
		var werr, rerr, w2err error
		var b1, b2, dump []byte
		st := 0
		ok, _ := noPanic(func() {
			p := thrift.NewBinaryProtocolBuffer()
			werr = p.WriteAnyWithDesc(desc, gv, o.cast, false, o.byName)
			b1 = append([]byte(nil), p.Buf...)
			thrift.FreeBinaryProtocolBuffer(p)
			st = 1
			rp := thrift.NewBinaryProtocol(append([]byte(nil), exp...))
			var gv2 interface{}
			gv2, rerr = rp.ReadAnyWithDesc(desc, o.u8, true, false, o.byName)
			if rerr == nil {
				dump = dumpGo19(gv2, root, nil)
				if rp.Read != len(exp) {
					dump = append(dump, 254) // did not consume exactly the value
				}
				st = 2
				p2 := thrift.NewBinaryProtocolBuffer()
				w2err = p2.WriteAnyWithDesc(desc, gv2, o.cast, false, o.byName)
				b2 = append([]byte(nil), p2.Buf...)
				thrift.FreeBinaryProtocolBuffer(p2)
			}
		})
		e3 := func(e error, reached bool) string {
			if !ok && !reached {
				return "n3"
			}
			return berr(e)
		}
		out.emit(1920, fi(int(thrift.STRUCT)), fx(exp), fi(bits), e3(werr, st >= 1), fx(b1), e3(rerr, st >= 2), fx(dump), e3(w2err, ok), fx(b2))
	}
	// STRING descriptor, integer value, cast
	sroot := &Ty{K: thrift.STRUCT, Name: "SC", Fields: []*Fld{{ID: 1, Name: "s", T: &Ty{K: thrift.STRING}}}}
	sg := newTgen(r.fork())
	sg.structs = []*Ty{sroot}
	sdesc, err := parseThrift(sg.idl(sroot), thrift.Options{})
	if err != nil {
		die("string IDL: %v", err)
	}
	strDesc := sdesc.Struct().FieldById(1).Type()
	for i := 0; i < 12; i++ {
		nv := int64(r.u64())
		if r.chance(50) {
			nv = int64(r.intn(2000)) - 1000
		}
		var werr error
		var b1 []byte
		ok, _ := noPanic(func() {
			p := thrift.NewBinaryProtocolBuffer()
			werr = p.WriteAnyWithDesc(strDesc, nv, true, false, false)
			b1 = append([]byte(nil), p.Buf...)
			thrift.FreeBinaryProtocolBuffer(p)
		})
		_ = strconv.Itoa
		if !ok {
			out.emit(1921, fn(nv), "n3", fx(nil))
		} else {
			out.emit(1921, fn(nv), berr(werr), fx(b1))
		}
	}
	genC19CastText(r, sdescInts(r))
	genC19Pool(r)
}

// descriptors of the four integer types
func sdescInts(r *rng) map[thrift.Type]*thrift.TypeDescriptor {
	root := &Ty{K: thrift.STRUCT, Name: "SI", Fields: []*Fld{
		{ID: 1, Name: "a", T: &Ty{K: thrift.I08}}, {ID: 2, Name: "b", T: &Ty{K: thrift.I16}},
		{ID: 3, Name: "c", T: &Ty{K: thrift.I32}}, {ID: 4, Name: "d", T: &Ty{K: thrift.I64}}}}
	g := newTgen(r.fork())
	g.structs = []*Ty{root}
	d, err := parseThrift(g.idl(root), thrift.Options{})
	if err != nil {
		die("int IDL: %v", err)
	}
	out := map[thrift.Type]*thrift.TypeDescriptor{}
	for i, t := range []thrift.Type{thrift.I08, thrift.I16, thrift.I32, thrift.I64} {
		out[t] = d.Struct().FieldById(thrift.FieldID(i + 1)).Type()
	}
	return out
}

// 1922: WriteAnyWithDesc(integer descriptor, decimal TEXT of n as string / []byte, cast=true): fields = type, n, form, err, bytes.
// Boundary magnitudes: around 2^53 (not representable in a float64), the int64 extremes, the width boundaries.
func genC19CastText(r *rng, descs map[thrift.Type]*thrift.TypeDescriptor) {
	var vals []int64
	for _, k := range []uint{7, 8, 15, 16, 31, 32, 52, 53, 54, 60, 62} {
		for d := int64(-3); d <= 3; d++ {
			vals = append(vals, (int64(1)<<k)+d, -(int64(1)<<k)+d)
		}
	}
	vals = append(vals, 0, 1, -1, math.MaxInt64, math.MaxInt64-1, math.MinInt64, math.MinInt64+1, 9007199254740993, -9007199254740993,
		1234567890123456789, -1234567890123456789)
	for i := 0; i < 40; i++ {
		vals = append(vals, int64(r.u64()))
	}
	for _, nv := range vals {
		for _, t := range []thrift.Type{thrift.I08, thrift.I16, thrift.I32, thrift.I64} {
			if t != thrift.I64 && !r.chance(35) {
				continue
			}
			form := r.intn(2)
			txt := strconv.FormatInt(nv, 10)
			var val interface{} = txt
			if form == 1 {
				val = []byte(txt)
			}
			var werr error
			var b1 []byte
			ok, _ := noPanic(func() {
				p := thrift.NewBinaryProtocolBuffer()
				werr = p.WriteAnyWithDesc(descs[t], val, true, false, false)
				b1 = append([]byte(nil), p.Buf...)
				thrift.FreeBinaryProtocolBuffer(p)
			})
			if !ok {
				out.emit(1922, fi(int(t)), fn(nv), fi(form), "n3", fx(nil))
			} else {
				out.emit(1922, fi(int(t)), fn(nv), fi(form), berr(werr), fx(b1))
			}
		}
	}
}

// pooled protocol objects: a protocol borrowed over caller data (NewBinaryProtocol), read from and recycled, must not
// leave its read cursor to the next user of the pool. Each round is judged by check 1901 (written bytes, value read back).
func genC19Pool(r *rng) {
	for round := 0; round < 64; round++ {
		data := r.bytes(16 + r.intn(32))
		bp := thrift.NewBinaryProtocol(data)
		for k := 0; k < 1+r.intn(3); k++ {
			bp.ReadI32()
		}
		if r.chance(50) {
			bp.ReadByte()
		}
		bp.Recycle()
		v := int64(r.u64())
		var w []byte
		var x int64
		var e error
		if r.chance(50) {
			q := thrift.NewBinaryProtocolBuffer()
			q.WriteI64(v)
			w = append([]byte(nil), q.Buf...)
			x, e = q.ReadI64()
			thrift.FreeBinaryProtocolBuffer(q)
		} else {
			enc := binary.BigEndian.AppendUint64(nil, uint64(v))
			q := thrift.NewBinaryProtocol(enc)
			w = enc
			x, e = q.ReadI64()
			q.Recycle()
		}
		out.emit(1901, fi(int(thrift.I64)), fn(v), fx(w), fn(x), berr(e))
	}
}
